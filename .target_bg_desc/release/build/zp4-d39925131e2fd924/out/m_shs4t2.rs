use asn1rs::prelude::*;

#[asn(sequence)]

#[derive(Default, Debug, Clone, PartialEq, Hash)]
pub struct Ts4oooon {
    #[asn(optional(integer(0..7)))] pub f0: Option<u8>,
    #[asn(optional(integer(0..7)))] pub f1: Option<u8>,
    #[asn(optional(integer(0..7)))] pub f2: Option<u8>,
    #[asn(optional(integer(0..7)))] pub f3: Option<u8>,
}

impl Ts4oooon {
    pub const fn f0_min() -> u8 {
        0
    }

    pub const fn f0_max() -> u8 {
        7
    }

    pub const fn f1_min() -> u8 {
        0
    }

    pub const fn f1_max() -> u8 {
        7
    }

    pub const fn f2_min() -> u8 {
        0
    }

    pub const fn f2_max() -> u8 {
        7
    }

    pub const fn f3_min() -> u8 {
        0
    }

    pub const fn f3_max() -> u8 {
        7
    }
}

#[asn(sequence, extensible_after(f0))]

#[derive(Default, Debug, Clone, PartialEq, Hash)]
pub struct Ts4ooooe0 {
    #[asn(optional(integer(0..7)))] pub f0: Option<u8>,
    #[asn(optional(integer(0..7)))] pub f1: Option<u8>,
    #[asn(optional(integer(0..7)))] pub f2: Option<u8>,
    #[asn(optional(integer(0..7)))] pub f3: Option<u8>,
}

impl Ts4ooooe0 {
    pub const fn f0_min() -> u8 {
        0
    }

    pub const fn f0_max() -> u8 {
        7
    }

    pub const fn f1_min() -> u8 {
        0
    }

    pub const fn f1_max() -> u8 {
        7
    }

    pub const fn f2_min() -> u8 {
        0
    }

    pub const fn f2_max() -> u8 {
        7
    }

    pub const fn f3_min() -> u8 {
        0
    }

    pub const fn f3_max() -> u8 {
        7
    }
}

#[asn(sequence, extensible_after(f0))]

#[derive(Default, Debug, Clone, PartialEq, Hash)]
pub struct Ts4ooooe1 {
    #[asn(optional(integer(0..7)))] pub f0: Option<u8>,
    #[asn(optional(integer(0..7)))] pub f1: Option<u8>,
    #[asn(optional(integer(0..7)))] pub f2: Option<u8>,
    #[asn(optional(integer(0..7)))] pub f3: Option<u8>,
}

impl Ts4ooooe1 {
    pub const fn f0_min() -> u8 {
        0
    }

    pub const fn f0_max() -> u8 {
        7
    }

    pub const fn f1_min() -> u8 {
        0
    }

    pub const fn f1_max() -> u8 {
        7
    }

    pub const fn f2_min() -> u8 {
        0
    }

    pub const fn f2_max() -> u8 {
        7
    }

    pub const fn f3_min() -> u8 {
        0
    }

    pub const fn f3_max() -> u8 {
        7
    }
}

#[asn(sequence, extensible_after(f1))]

#[derive(Default, Debug, Clone, PartialEq, Hash)]
pub struct Ts4ooooe2 {
    #[asn(optional(integer(0..7)))] pub f0: Option<u8>,
    #[asn(optional(integer(0..7)))] pub f1: Option<u8>,
    #[asn(optional(integer(0..7)))] pub f2: Option<u8>,
    #[asn(optional(integer(0..7)))] pub f3: Option<u8>,
}

impl Ts4ooooe2 {
    pub const fn f0_min() -> u8 {
        0
    }

    pub const fn f0_max() -> u8 {
        7
    }

    pub const fn f1_min() -> u8 {
        0
    }

    pub const fn f1_max() -> u8 {
        7
    }

    pub const fn f2_min() -> u8 {
        0
    }

    pub const fn f2_max() -> u8 {
        7
    }

    pub const fn f3_min() -> u8 {
        0
    }

    pub const fn f3_max() -> u8 {
        7
    }
}

#[asn(sequence, extensible_after(f2))]

#[derive(Default, Debug, Clone, PartialEq, Hash)]
pub struct Ts4ooooe3 {
    #[asn(optional(integer(0..7)))] pub f0: Option<u8>,
    #[asn(optional(integer(0..7)))] pub f1: Option<u8>,
    #[asn(optional(integer(0..7)))] pub f2: Option<u8>,
    #[asn(optional(integer(0..7)))] pub f3: Option<u8>,
}

impl Ts4ooooe3 {
    pub const fn f0_min() -> u8 {
        0
    }

    pub const fn f0_max() -> u8 {
        7
    }

    pub const fn f1_min() -> u8 {
        0
    }

    pub const fn f1_max() -> u8 {
        7
    }

    pub const fn f2_min() -> u8 {
        0
    }

    pub const fn f2_max() -> u8 {
        7
    }

    pub const fn f3_min() -> u8 {
        0
    }

    pub const fn f3_max() -> u8 {
        7
    }
}

#[asn(sequence, extensible_after(f3))]

#[derive(Default, Debug, Clone, PartialEq, Hash)]
pub struct Ts4ooooe4 {
    #[asn(optional(integer(0..7)))] pub f0: Option<u8>,
    #[asn(optional(integer(0..7)))] pub f1: Option<u8>,
    #[asn(optional(integer(0..7)))] pub f2: Option<u8>,
    #[asn(optional(integer(0..7)))] pub f3: Option<u8>,
}

impl Ts4ooooe4 {
    pub const fn f0_min() -> u8 {
        0
    }

    pub const fn f0_max() -> u8 {
        7
    }

    pub const fn f1_min() -> u8 {
        0
    }

    pub const fn f1_max() -> u8 {
        7
    }

    pub const fn f2_min() -> u8 {
        0
    }

    pub const fn f2_max() -> u8 {
        7
    }

    pub const fn f3_min() -> u8 {
        0
    }

    pub const fn f3_max() -> u8 {
        7
    }
}

#[asn(sequence)]

#[derive(Default, Debug, Clone, PartialEq, Hash)]
pub struct Ts4dooon {
    #[asn(default(integer(0..7), 5))] pub f0: u8,
    #[asn(optional(integer(0..7)))] pub f1: Option<u8>,
    #[asn(optional(integer(0..7)))] pub f2: Option<u8>,
    #[asn(optional(integer(0..7)))] pub f3: Option<u8>,
}

impl Ts4dooon {
    pub const fn f0_min() -> u8 {
        0
    }

    pub const fn f0_max() -> u8 {
        7
    }

    pub const fn f1_min() -> u8 {
        0
    }

    pub const fn f1_max() -> u8 {
        7
    }

    pub const fn f2_min() -> u8 {
        0
    }

    pub const fn f2_max() -> u8 {
        7
    }

    pub const fn f3_min() -> u8 {
        0
    }

    pub const fn f3_max() -> u8 {
        7
    }
}

#[asn(sequence, extensible_after(f0))]

#[derive(Default, Debug, Clone, PartialEq, Hash)]
pub struct Ts4doooe0 {
    #[asn(default(integer(0..7), 5))] pub f0: u8,
    #[asn(optional(integer(0..7)))] pub f1: Option<u8>,
    #[asn(optional(integer(0..7)))] pub f2: Option<u8>,
    #[asn(optional(integer(0..7)))] pub f3: Option<u8>,
}

impl Ts4doooe0 {
    pub const fn f0_min() -> u8 {
        0
    }

    pub const fn f0_max() -> u8 {
        7
    }

    pub const fn f1_min() -> u8 {
        0
    }

    pub const fn f1_max() -> u8 {
        7
    }

    pub const fn f2_min() -> u8 {
        0
    }

    pub const fn f2_max() -> u8 {
        7
    }

    pub const fn f3_min() -> u8 {
        0
    }

    pub const fn f3_max() -> u8 {
        7
    }
}

#[asn(sequence, extensible_after(f0))]

#[derive(Default, Debug, Clone, PartialEq, Hash)]
pub struct Ts4doooe1 {
    #[asn(default(integer(0..7), 5))] pub f0: u8,
    #[asn(optional(integer(0..7)))] pub f1: Option<u8>,
    #[asn(optional(integer(0..7)))] pub f2: Option<u8>,
    #[asn(optional(integer(0..7)))] pub f3: Option<u8>,
}

impl Ts4doooe1 {
    pub const fn f0_min() -> u8 {
        0
    }

    pub const fn f0_max() -> u8 {
        7
    }

    pub const fn f1_min() -> u8 {
        0
    }

    pub const fn f1_max() -> u8 {
        7
    }

    pub const fn f2_min() -> u8 {
        0
    }

    pub const fn f2_max() -> u8 {
        7
    }

    pub const fn f3_min() -> u8 {
        0
    }

    pub const fn f3_max() -> u8 {
        7
    }
}

#[asn(sequence, extensible_after(f1))]

#[derive(Default, Debug, Clone, PartialEq, Hash)]
pub struct Ts4doooe2 {
    #[asn(default(integer(0..7), 5))] pub f0: u8,
    #[asn(optional(integer(0..7)))] pub f1: Option<u8>,
    #[asn(optional(integer(0..7)))] pub f2: Option<u8>,
    #[asn(optional(integer(0..7)))] pub f3: Option<u8>,
}

impl Ts4doooe2 {
    pub const fn f0_min() -> u8 {
        0
    }

    pub const fn f0_max() -> u8 {
        7
    }

    pub const fn f1_min() -> u8 {
        0
    }

    pub const fn f1_max() -> u8 {
        7
    }

    pub const fn f2_min() -> u8 {
        0
    }

    pub const fn f2_max() -> u8 {
        7
    }

    pub const fn f3_min() -> u8 {
        0
    }

    pub const fn f3_max() -> u8 {
        7
    }
}

#[asn(sequence, extensible_after(f2))]

#[derive(Default, Debug, Clone, PartialEq, Hash)]
pub struct Ts4doooe3 {
    #[asn(default(integer(0..7), 5))] pub f0: u8,
    #[asn(optional(integer(0..7)))] pub f1: Option<u8>,
    #[asn(optional(integer(0..7)))] pub f2: Option<u8>,
    #[asn(optional(integer(0..7)))] pub f3: Option<u8>,
}

impl Ts4doooe3 {
    pub const fn f0_min() -> u8 {
        0
    }

    pub const fn f0_max() -> u8 {
        7
    }

    pub const fn f1_min() -> u8 {
        0
    }

    pub const fn f1_max() -> u8 {
        7
    }

    pub const fn f2_min() -> u8 {
        0
    }

    pub const fn f2_max() -> u8 {
        7
    }

    pub const fn f3_min() -> u8 {
        0
    }

    pub const fn f3_max() -> u8 {
        7
    }
}

#[asn(sequence, extensible_after(f3))]

#[derive(Default, Debug, Clone, PartialEq, Hash)]
pub struct Ts4doooe4 {
    #[asn(default(integer(0..7), 5))] pub f0: u8,
    #[asn(optional(integer(0..7)))] pub f1: Option<u8>,
    #[asn(optional(integer(0..7)))] pub f2: Option<u8>,
    #[asn(optional(integer(0..7)))] pub f3: Option<u8>,
}

impl Ts4doooe4 {
    pub const fn f0_min() -> u8 {
        0
    }

    pub const fn f0_max() -> u8 {
        7
    }

    pub const fn f1_min() -> u8 {
        0
    }

    pub const fn f1_max() -> u8 {
        7
    }

    pub const fn f2_min() -> u8 {
        0
    }

    pub const fn f2_max() -> u8 {
        7
    }

    pub const fn f3_min() -> u8 {
        0
    }

    pub const fn f3_max() -> u8 {
        7
    }
}

#[asn(sequence)]

#[derive(Default, Debug, Clone, PartialEq, Hash)]
pub struct Ts4mdoon {
    #[asn(integer(0..7))] pub f0: u8,
    #[asn(default(integer(0..7), 5))] pub f1: u8,
    #[asn(optional(integer(0..7)))] pub f2: Option<u8>,
    #[asn(optional(integer(0..7)))] pub f3: Option<u8>,
}

impl Ts4mdoon {
    pub const fn f0_min() -> u8 {
        0
    }

    pub const fn f0_max() -> u8 {
        7
    }

    pub const fn f1_min() -> u8 {
        0
    }

    pub const fn f1_max() -> u8 {
        7
    }

    pub const fn f2_min() -> u8 {
        0
    }

    pub const fn f2_max() -> u8 {
        7
    }

    pub const fn f3_min() -> u8 {
        0
    }

    pub const fn f3_max() -> u8 {
        7
    }
}

#[asn(sequence, extensible_after(f0))]

#[derive(Default, Debug, Clone, PartialEq, Hash)]
pub struct Ts4mdooe0 {
    #[asn(integer(0..7))] pub f0: u8,
    #[asn(default(integer(0..7), 5))] pub f1: u8,
    #[asn(optional(integer(0..7)))] pub f2: Option<u8>,
    #[asn(optional(integer(0..7)))] pub f3: Option<u8>,
}

impl Ts4mdooe0 {
    pub const fn f0_min() -> u8 {
        0
    }

    pub const fn f0_max() -> u8 {
        7
    }

    pub const fn f1_min() -> u8 {
        0
    }

    pub const fn f1_max() -> u8 {
        7
    }

    pub const fn f2_min() -> u8 {
        0
    }

    pub const fn f2_max() -> u8 {
        7
    }

    pub const fn f3_min() -> u8 {
        0
    }

    pub const fn f3_max() -> u8 {
        7
    }
}

#[asn(sequence, extensible_after(f0))]

#[derive(Default, Debug, Clone, PartialEq, Hash)]
pub struct Ts4mdooe1 {
    #[asn(integer(0..7))] pub f0: u8,
    #[asn(default(integer(0..7), 5))] pub f1: u8,
    #[asn(optional(integer(0..7)))] pub f2: Option<u8>,
    #[asn(optional(integer(0..7)))] pub f3: Option<u8>,
}

impl Ts4mdooe1 {
    pub const fn f0_min() -> u8 {
        0
    }

    pub const fn f0_max() -> u8 {
        7
    }

    pub const fn f1_min() -> u8 {
        0
    }

    pub const fn f1_max() -> u8 {
        7
    }

    pub const fn f2_min() -> u8 {
        0
    }

    pub const fn f2_max() -> u8 {
        7
    }

    pub const fn f3_min() -> u8 {
        0
    }

    pub const fn f3_max() -> u8 {
        7
    }
}

#[asn(sequence, extensible_after(f1))]

#[derive(Default, Debug, Clone, PartialEq, Hash)]
pub struct Ts4mdooe2 {
    #[asn(integer(0..7))] pub f0: u8,
    #[asn(default(integer(0..7), 5))] pub f1: u8,
    #[asn(optional(integer(0..7)))] pub f2: Option<u8>,
    #[asn(optional(integer(0..7)))] pub f3: Option<u8>,
}

impl Ts4mdooe2 {
    pub const fn f0_min() -> u8 {
        0
    }

    pub const fn f0_max() -> u8 {
        7
    }

    pub const fn f1_min() -> u8 {
        0
    }

    pub const fn f1_max() -> u8 {
        7
    }

    pub const fn f2_min() -> u8 {
        0
    }

    pub const fn f2_max() -> u8 {
        7
    }

    pub const fn f3_min() -> u8 {
        0
    }

    pub const fn f3_max() -> u8 {
        7
    }
}

#[asn(sequence, extensible_after(f2))]

#[derive(Default, Debug, Clone, PartialEq, Hash)]
pub struct Ts4mdooe3 {
    #[asn(integer(0..7))] pub f0: u8,
    #[asn(default(integer(0..7), 5))] pub f1: u8,
    #[asn(optional(integer(0..7)))] pub f2: Option<u8>,
    #[asn(optional(integer(0..7)))] pub f3: Option<u8>,
}

impl Ts4mdooe3 {
    pub const fn f0_min() -> u8 {
        0
    }

    pub const fn f0_max() -> u8 {
        7
    }

    pub const fn f1_min() -> u8 {
        0
    }

    pub const fn f1_max() -> u8 {
        7
    }

    pub const fn f2_min() -> u8 {
        0
    }

    pub const fn f2_max() -> u8 {
        7
    }

    pub const fn f3_min() -> u8 {
        0
    }

    pub const fn f3_max() -> u8 {
        7
    }
}

#[asn(sequence, extensible_after(f3))]

#[derive(Default, Debug, Clone, PartialEq, Hash)]
pub struct Ts4mdooe4 {
    #[asn(integer(0..7))] pub f0: u8,
    #[asn(default(integer(0..7), 5))] pub f1: u8,
    #[asn(optional(integer(0..7)))] pub f2: Option<u8>,
    #[asn(optional(integer(0..7)))] pub f3: Option<u8>,
}

impl Ts4mdooe4 {
    pub const fn f0_min() -> u8 {
        0
    }

    pub const fn f0_max() -> u8 {
        7
    }

    pub const fn f1_min() -> u8 {
        0
    }

    pub const fn f1_max() -> u8 {
        7
    }

    pub const fn f2_min() -> u8 {
        0
    }

    pub const fn f2_max() -> u8 {
        7
    }

    pub const fn f3_min() -> u8 {
        0
    }

    pub const fn f3_max() -> u8 {
        7
    }
}

#[asn(sequence)]

#[derive(Default, Debug, Clone, PartialEq, Hash)]
pub struct Ts4odoon {
    #[asn(optional(integer(0..7)))] pub f0: Option<u8>,
    #[asn(default(integer(0..7), 5))] pub f1: u8,
    #[asn(optional(integer(0..7)))] pub f2: Option<u8>,
    #[asn(optional(integer(0..7)))] pub f3: Option<u8>,
}

impl Ts4odoon {
    pub const fn f0_min() -> u8 {
        0
    }

    pub const fn f0_max() -> u8 {
        7
    }

    pub const fn f1_min() -> u8 {
        0
    }

    pub const fn f1_max() -> u8 {
        7
    }

    pub const fn f2_min() -> u8 {
        0
    }

    pub const fn f2_max() -> u8 {
        7
    }

    pub const fn f3_min() -> u8 {
        0
    }

    pub const fn f3_max() -> u8 {
        7
    }
}

#[asn(sequence, extensible_after(f0))]

#[derive(Default, Debug, Clone, PartialEq, Hash)]
pub struct Ts4odooe0 {
    #[asn(optional(integer(0..7)))] pub f0: Option<u8>,
    #[asn(default(integer(0..7), 5))] pub f1: u8,
    #[asn(optional(integer(0..7)))] pub f2: Option<u8>,
    #[asn(optional(integer(0..7)))] pub f3: Option<u8>,
}

impl Ts4odooe0 {
    pub const fn f0_min() -> u8 {
        0
    }

    pub const fn f0_max() -> u8 {
        7
    }

    pub const fn f1_min() -> u8 {
        0
    }

    pub const fn f1_max() -> u8 {
        7
    }

    pub const fn f2_min() -> u8 {
        0
    }

    pub const fn f2_max() -> u8 {
        7
    }

    pub const fn f3_min() -> u8 {
        0
    }

    pub const fn f3_max() -> u8 {
        7
    }
}

#[asn(sequence, extensible_after(f0))]

#[derive(Default, Debug, Clone, PartialEq, Hash)]
pub struct Ts4odooe1 {
    #[asn(optional(integer(0..7)))] pub f0: Option<u8>,
    #[asn(default(integer(0..7), 5))] pub f1: u8,
    #[asn(optional(integer(0..7)))] pub f2: Option<u8>,
    #[asn(optional(integer(0..7)))] pub f3: Option<u8>,
}

impl Ts4odooe1 {
    pub const fn f0_min() -> u8 {
        0
    }

    pub const fn f0_max() -> u8 {
        7
    }

    pub const fn f1_min() -> u8 {
        0
    }

    pub const fn f1_max() -> u8 {
        7
    }

    pub const fn f2_min() -> u8 {
        0
    }

    pub const fn f2_max() -> u8 {
        7
    }

    pub const fn f3_min() -> u8 {
        0
    }

    pub const fn f3_max() -> u8 {
        7
    }
}

#[asn(sequence, extensible_after(f1))]

#[derive(Default, Debug, Clone, PartialEq, Hash)]
pub struct Ts4odooe2 {
    #[asn(optional(integer(0..7)))] pub f0: Option<u8>,
    #[asn(default(integer(0..7), 5))] pub f1: u8,
    #[asn(optional(integer(0..7)))] pub f2: Option<u8>,
    #[asn(optional(integer(0..7)))] pub f3: Option<u8>,
}

impl Ts4odooe2 {
    pub const fn f0_min() -> u8 {
        0
    }

    pub const fn f0_max() -> u8 {
        7
    }

    pub const fn f1_min() -> u8 {
        0
    }

    pub const fn f1_max() -> u8 {
        7
    }

    pub const fn f2_min() -> u8 {
        0
    }

    pub const fn f2_max() -> u8 {
        7
    }

    pub const fn f3_min() -> u8 {
        0
    }

    pub const fn f3_max() -> u8 {
        7
    }
}

#[asn(sequence, extensible_after(f2))]

#[derive(Default, Debug, Clone, PartialEq, Hash)]
pub struct Ts4odooe3 {
    #[asn(optional(integer(0..7)))] pub f0: Option<u8>,
    #[asn(default(integer(0..7), 5))] pub f1: u8,
    #[asn(optional(integer(0..7)))] pub f2: Option<u8>,
    #[asn(optional(integer(0..7)))] pub f3: Option<u8>,
}

impl Ts4odooe3 {
    pub const fn f0_min() -> u8 {
        0
    }

    pub const fn f0_max() -> u8 {
        7
    }

    pub const fn f1_min() -> u8 {
        0
    }

    pub const fn f1_max() -> u8 {
        7
    }

    pub const fn f2_min() -> u8 {
        0
    }

    pub const fn f2_max() -> u8 {
        7
    }

    pub const fn f3_min() -> u8 {
        0
    }

    pub const fn f3_max() -> u8 {
        7
    }
}

#[asn(sequence, extensible_after(f3))]

#[derive(Default, Debug, Clone, PartialEq, Hash)]
pub struct Ts4odooe4 {
    #[asn(optional(integer(0..7)))] pub f0: Option<u8>,
    #[asn(default(integer(0..7), 5))] pub f1: u8,
    #[asn(optional(integer(0..7)))] pub f2: Option<u8>,
    #[asn(optional(integer(0..7)))] pub f3: Option<u8>,
}

impl Ts4odooe4 {
    pub const fn f0_min() -> u8 {
        0
    }

    pub const fn f0_max() -> u8 {
        7
    }

    pub const fn f1_min() -> u8 {
        0
    }

    pub const fn f1_max() -> u8 {
        7
    }

    pub const fn f2_min() -> u8 {
        0
    }

    pub const fn f2_max() -> u8 {
        7
    }

    pub const fn f3_min() -> u8 {
        0
    }

    pub const fn f3_max() -> u8 {
        7
    }
}

#[asn(sequence)]

#[derive(Default, Debug, Clone, PartialEq, Hash)]
pub struct Ts4ddoon {
    #[asn(default(integer(0..7), 5))] pub f0: u8,
    #[asn(default(integer(0..7), 5))] pub f1: u8,
    #[asn(optional(integer(0..7)))] pub f2: Option<u8>,
    #[asn(optional(integer(0..7)))] pub f3: Option<u8>,
}

impl Ts4ddoon {
    pub const fn f0_min() -> u8 {
        0
    }

    pub const fn f0_max() -> u8 {
        7
    }

    pub const fn f1_min() -> u8 {
        0
    }

    pub const fn f1_max() -> u8 {
        7
    }

    pub const fn f2_min() -> u8 {
        0
    }

    pub const fn f2_max() -> u8 {
        7
    }

    pub const fn f3_min() -> u8 {
        0
    }

    pub const fn f3_max() -> u8 {
        7
    }
}

#[asn(sequence, extensible_after(f0))]

#[derive(Default, Debug, Clone, PartialEq, Hash)]
pub struct Ts4ddooe0 {
    #[asn(default(integer(0..7), 5))] pub f0: u8,
    #[asn(default(integer(0..7), 5))] pub f1: u8,
    #[asn(optional(integer(0..7)))] pub f2: Option<u8>,
    #[asn(optional(integer(0..7)))] pub f3: Option<u8>,
}

impl Ts4ddooe0 {
    pub const fn f0_min() -> u8 {
        0
    }

    pub const fn f0_max() -> u8 {
        7
    }

    pub const fn f1_min() -> u8 {
        0
    }

    pub const fn f1_max() -> u8 {
        7
    }

    pub const fn f2_min() -> u8 {
        0
    }

    pub const fn f2_max() -> u8 {
        7
    }

    pub const fn f3_min() -> u8 {
        0
    }

    pub const fn f3_max() -> u8 {
        7
    }
}

#[asn(sequence, extensible_after(f0))]

#[derive(Default, Debug, Clone, PartialEq, Hash)]
pub struct Ts4ddooe1 {
    #[asn(default(integer(0..7), 5))] pub f0: u8,
    #[asn(default(integer(0..7), 5))] pub f1: u8,
    #[asn(optional(integer(0..7)))] pub f2: Option<u8>,
    #[asn(optional(integer(0..7)))] pub f3: Option<u8>,
}

impl Ts4ddooe1 {
    pub const fn f0_min() -> u8 {
        0
    }

    pub const fn f0_max() -> u8 {
        7
    }

    pub const fn f1_min() -> u8 {
        0
    }

    pub const fn f1_max() -> u8 {
        7
    }

    pub const fn f2_min() -> u8 {
        0
    }

    pub const fn f2_max() -> u8 {
        7
    }

    pub const fn f3_min() -> u8 {
        0
    }

    pub const fn f3_max() -> u8 {
        7
    }
}

#[asn(sequence, extensible_after(f1))]

#[derive(Default, Debug, Clone, PartialEq, Hash)]
pub struct Ts4ddooe2 {
    #[asn(default(integer(0..7), 5))] pub f0: u8,
    #[asn(default(integer(0..7), 5))] pub f1: u8,
    #[asn(optional(integer(0..7)))] pub f2: Option<u8>,
    #[asn(optional(integer(0..7)))] pub f3: Option<u8>,
}

impl Ts4ddooe2 {
    pub const fn f0_min() -> u8 {
        0
    }

    pub const fn f0_max() -> u8 {
        7
    }

    pub const fn f1_min() -> u8 {
        0
    }

    pub const fn f1_max() -> u8 {
        7
    }

    pub const fn f2_min() -> u8 {
        0
    }

    pub const fn f2_max() -> u8 {
        7
    }

    pub const fn f3_min() -> u8 {
        0
    }

    pub const fn f3_max() -> u8 {
        7
    }
}

#[asn(sequence, extensible_after(f2))]

#[derive(Default, Debug, Clone, PartialEq, Hash)]
pub struct Ts4ddooe3 {
    #[asn(default(integer(0..7), 5))] pub f0: u8,
    #[asn(default(integer(0..7), 5))] pub f1: u8,
    #[asn(optional(integer(0..7)))] pub f2: Option<u8>,
    #[asn(optional(integer(0..7)))] pub f3: Option<u8>,
}

impl Ts4ddooe3 {
    pub const fn f0_min() -> u8 {
        0
    }

    pub const fn f0_max() -> u8 {
        7
    }

    pub const fn f1_min() -> u8 {
        0
    }

    pub const fn f1_max() -> u8 {
        7
    }

    pub const fn f2_min() -> u8 {
        0
    }

    pub const fn f2_max() -> u8 {
        7
    }

    pub const fn f3_min() -> u8 {
        0
    }

    pub const fn f3_max() -> u8 {
        7
    }
}

#[asn(sequence, extensible_after(f3))]

#[derive(Default, Debug, Clone, PartialEq, Hash)]
pub struct Ts4ddooe4 {
    #[asn(default(integer(0..7), 5))] pub f0: u8,
    #[asn(default(integer(0..7), 5))] pub f1: u8,
    #[asn(optional(integer(0..7)))] pub f2: Option<u8>,
    #[asn(optional(integer(0..7)))] pub f3: Option<u8>,
}

impl Ts4ddooe4 {
    pub const fn f0_min() -> u8 {
        0
    }

    pub const fn f0_max() -> u8 {
        7
    }

    pub const fn f1_min() -> u8 {
        0
    }

    pub const fn f1_max() -> u8 {
        7
    }

    pub const fn f2_min() -> u8 {
        0
    }

    pub const fn f2_max() -> u8 {
        7
    }

    pub const fn f3_min() -> u8 {
        0
    }

    pub const fn f3_max() -> u8 {
        7
    }
}

#[asn(sequence)]

#[derive(Default, Debug, Clone, PartialEq, Hash)]
pub struct Ts4mmdon {
    #[asn(integer(0..7))] pub f0: u8,
    #[asn(integer(0..7))] pub f1: u8,
    #[asn(default(integer(0..7), 5))] pub f2: u8,
    #[asn(optional(integer(0..7)))] pub f3: Option<u8>,
}

impl Ts4mmdon {
    pub const fn f0_min() -> u8 {
        0
    }

    pub const fn f0_max() -> u8 {
        7
    }

    pub const fn f1_min() -> u8 {
        0
    }

    pub const fn f1_max() -> u8 {
        7
    }

    pub const fn f2_min() -> u8 {
        0
    }

    pub const fn f2_max() -> u8 {
        7
    }

    pub const fn f3_min() -> u8 {
        0
    }

    pub const fn f3_max() -> u8 {
        7
    }
}

#[asn(sequence, extensible_after(f0))]

#[derive(Default, Debug, Clone, PartialEq, Hash)]
pub struct Ts4mmdoe0 {
    #[asn(integer(0..7))] pub f0: u8,
    #[asn(optional(integer(0..7)))] pub f1: Option<u8>,
    #[asn(default(integer(0..7), 5))] pub f2: u8,
    #[asn(optional(integer(0..7)))] pub f3: Option<u8>,
}

impl Ts4mmdoe0 {
    pub const fn f0_min() -> u8 {
        0
    }

    pub const fn f0_max() -> u8 {
        7
    }

    pub const fn f1_min() -> u8 {
        0
    }

    pub const fn f1_max() -> u8 {
        7
    }

    pub const fn f2_min() -> u8 {
        0
    }

    pub const fn f2_max() -> u8 {
        7
    }

    pub const fn f3_min() -> u8 {
        0
    }

    pub const fn f3_max() -> u8 {
        7
    }
}

#[asn(sequence, extensible_after(f0))]

#[derive(Default, Debug, Clone, PartialEq, Hash)]
pub struct Ts4mmdoe1 {
    #[asn(integer(0..7))] pub f0: u8,
    #[asn(optional(integer(0..7)))] pub f1: Option<u8>,
    #[asn(default(integer(0..7), 5))] pub f2: u8,
    #[asn(optional(integer(0..7)))] pub f3: Option<u8>,
}

impl Ts4mmdoe1 {
    pub const fn f0_min() -> u8 {
        0
    }

    pub const fn f0_max() -> u8 {
        7
    }

    pub const fn f1_min() -> u8 {
        0
    }

    pub const fn f1_max() -> u8 {
        7
    }

    pub const fn f2_min() -> u8 {
        0
    }

    pub const fn f2_max() -> u8 {
        7
    }

    pub const fn f3_min() -> u8 {
        0
    }

    pub const fn f3_max() -> u8 {
        7
    }
}

#[asn(sequence, extensible_after(f1))]

#[derive(Default, Debug, Clone, PartialEq, Hash)]
pub struct Ts4mmdoe2 {
    #[asn(integer(0..7))] pub f0: u8,
    #[asn(integer(0..7))] pub f1: u8,
    #[asn(default(integer(0..7), 5))] pub f2: u8,
    #[asn(optional(integer(0..7)))] pub f3: Option<u8>,
}

impl Ts4mmdoe2 {
    pub const fn f0_min() -> u8 {
        0
    }

    pub const fn f0_max() -> u8 {
        7
    }

    pub const fn f1_min() -> u8 {
        0
    }

    pub const fn f1_max() -> u8 {
        7
    }

    pub const fn f2_min() -> u8 {
        0
    }

    pub const fn f2_max() -> u8 {
        7
    }

    pub const fn f3_min() -> u8 {
        0
    }

    pub const fn f3_max() -> u8 {
        7
    }
}

#[asn(sequence, extensible_after(f2))]

#[derive(Default, Debug, Clone, PartialEq, Hash)]
pub struct Ts4mmdoe3 {
    #[asn(integer(0..7))] pub f0: u8,
    #[asn(integer(0..7))] pub f1: u8,
    #[asn(default(integer(0..7), 5))] pub f2: u8,
    #[asn(optional(integer(0..7)))] pub f3: Option<u8>,
}

impl Ts4mmdoe3 {
    pub const fn f0_min() -> u8 {
        0
    }

    pub const fn f0_max() -> u8 {
        7
    }

    pub const fn f1_min() -> u8 {
        0
    }

    pub const fn f1_max() -> u8 {
        7
    }

    pub const fn f2_min() -> u8 {
        0
    }

    pub const fn f2_max() -> u8 {
        7
    }

    pub const fn f3_min() -> u8 {
        0
    }

    pub const fn f3_max() -> u8 {
        7
    }
}

#[asn(sequence, extensible_after(f3))]

#[derive(Default, Debug, Clone, PartialEq, Hash)]
pub struct Ts4mmdoe4 {
    #[asn(integer(0..7))] pub f0: u8,
    #[asn(integer(0..7))] pub f1: u8,
    #[asn(default(integer(0..7), 5))] pub f2: u8,
    #[asn(optional(integer(0..7)))] pub f3: Option<u8>,
}

impl Ts4mmdoe4 {
    pub const fn f0_min() -> u8 {
        0
    }

    pub const fn f0_max() -> u8 {
        7
    }

    pub const fn f1_min() -> u8 {
        0
    }

    pub const fn f1_max() -> u8 {
        7
    }

    pub const fn f2_min() -> u8 {
        0
    }

    pub const fn f2_max() -> u8 {
        7
    }

    pub const fn f3_min() -> u8 {
        0
    }

    pub const fn f3_max() -> u8 {
        7
    }
}

#[asn(sequence)]

#[derive(Default, Debug, Clone, PartialEq, Hash)]
pub struct Ts4omdon {
    #[asn(optional(integer(0..7)))] pub f0: Option<u8>,
    #[asn(integer(0..7))] pub f1: u8,
    #[asn(default(integer(0..7), 5))] pub f2: u8,
    #[asn(optional(integer(0..7)))] pub f3: Option<u8>,
}

impl Ts4omdon {
    pub const fn f0_min() -> u8 {
        0
    }

    pub const fn f0_max() -> u8 {
        7
    }

    pub const fn f1_min() -> u8 {
        0
    }

    pub const fn f1_max() -> u8 {
        7
    }

    pub const fn f2_min() -> u8 {
        0
    }

    pub const fn f2_max() -> u8 {
        7
    }

    pub const fn f3_min() -> u8 {
        0
    }

    pub const fn f3_max() -> u8 {
        7
    }
}

#[asn(sequence, extensible_after(f0))]

#[derive(Default, Debug, Clone, PartialEq, Hash)]
pub struct Ts4omdoe0 {
    #[asn(optional(integer(0..7)))] pub f0: Option<u8>,
    #[asn(optional(integer(0..7)))] pub f1: Option<u8>,
    #[asn(default(integer(0..7), 5))] pub f2: u8,
    #[asn(optional(integer(0..7)))] pub f3: Option<u8>,
}

impl Ts4omdoe0 {
    pub const fn f0_min() -> u8 {
        0
    }

    pub const fn f0_max() -> u8 {
        7
    }

    pub const fn f1_min() -> u8 {
        0
    }

    pub const fn f1_max() -> u8 {
        7
    }

    pub const fn f2_min() -> u8 {
        0
    }

    pub const fn f2_max() -> u8 {
        7
    }

    pub const fn f3_min() -> u8 {
        0
    }

    pub const fn f3_max() -> u8 {
        7
    }
}

#[asn(sequence, extensible_after(f0))]

#[derive(Default, Debug, Clone, PartialEq, Hash)]
pub struct Ts4omdoe1 {
    #[asn(optional(integer(0..7)))] pub f0: Option<u8>,
    #[asn(optional(integer(0..7)))] pub f1: Option<u8>,
    #[asn(default(integer(0..7), 5))] pub f2: u8,
    #[asn(optional(integer(0..7)))] pub f3: Option<u8>,
}

impl Ts4omdoe1 {
    pub const fn f0_min() -> u8 {
        0
    }

    pub const fn f0_max() -> u8 {
        7
    }

    pub const fn f1_min() -> u8 {
        0
    }

    pub const fn f1_max() -> u8 {
        7
    }

    pub const fn f2_min() -> u8 {
        0
    }

    pub const fn f2_max() -> u8 {
        7
    }

    pub const fn f3_min() -> u8 {
        0
    }

    pub const fn f3_max() -> u8 {
        7
    }
}

#[asn(sequence, extensible_after(f1))]

#[derive(Default, Debug, Clone, PartialEq, Hash)]
pub struct Ts4omdoe2 {
    #[asn(optional(integer(0..7)))] pub f0: Option<u8>,
    #[asn(integer(0..7))] pub f1: u8,
    #[asn(default(integer(0..7), 5))] pub f2: u8,
    #[asn(optional(integer(0..7)))] pub f3: Option<u8>,
}

impl Ts4omdoe2 {
    pub const fn f0_min() -> u8 {
        0
    }

    pub const fn f0_max() -> u8 {
        7
    }

    pub const fn f1_min() -> u8 {
        0
    }

    pub const fn f1_max() -> u8 {
        7
    }

    pub const fn f2_min() -> u8 {
        0
    }

    pub const fn f2_max() -> u8 {
        7
    }

    pub const fn f3_min() -> u8 {
        0
    }

    pub const fn f3_max() -> u8 {
        7
    }
}

#[asn(sequence, extensible_after(f2))]

#[derive(Default, Debug, Clone, PartialEq, Hash)]
pub struct Ts4omdoe3 {
    #[asn(optional(integer(0..7)))] pub f0: Option<u8>,
    #[asn(integer(0..7))] pub f1: u8,
    #[asn(default(integer(0..7), 5))] pub f2: u8,
    #[asn(optional(integer(0..7)))] pub f3: Option<u8>,
}

impl Ts4omdoe3 {
    pub const fn f0_min() -> u8 {
        0
    }

    pub const fn f0_max() -> u8 {
        7
    }

    pub const fn f1_min() -> u8 {
        0
    }

    pub const fn f1_max() -> u8 {
        7
    }

    pub const fn f2_min() -> u8 {
        0
    }

    pub const fn f2_max() -> u8 {
        7
    }

    pub const fn f3_min() -> u8 {
        0
    }

    pub const fn f3_max() -> u8 {
        7
    }
}

#[asn(sequence, extensible_after(f3))]

#[derive(Default, Debug, Clone, PartialEq, Hash)]
pub struct Ts4omdoe4 {
    #[asn(optional(integer(0..7)))] pub f0: Option<u8>,
    #[asn(integer(0..7))] pub f1: u8,
    #[asn(default(integer(0..7), 5))] pub f2: u8,
    #[asn(optional(integer(0..7)))] pub f3: Option<u8>,
}

impl Ts4omdoe4 {
    pub const fn f0_min() -> u8 {
        0
    }

    pub const fn f0_max() -> u8 {
        7
    }

    pub const fn f1_min() -> u8 {
        0
    }

    pub const fn f1_max() -> u8 {
        7
    }

    pub const fn f2_min() -> u8 {
        0
    }

    pub const fn f2_max() -> u8 {
        7
    }

    pub const fn f3_min() -> u8 {
        0
    }

    pub const fn f3_max() -> u8 {
        7
    }
}

#[asn(sequence)]

#[derive(Default, Debug, Clone, PartialEq, Hash)]
pub struct Ts4dmdon {
    #[asn(default(integer(0..7), 5))] pub f0: u8,
    #[asn(integer(0..7))] pub f1: u8,
    #[asn(default(integer(0..7), 5))] pub f2: u8,
    #[asn(optional(integer(0..7)))] pub f3: Option<u8>,
}

impl Ts4dmdon {
    pub const fn f0_min() -> u8 {
        0
    }

    pub const fn f0_max() -> u8 {
        7
    }

    pub const fn f1_min() -> u8 {
        0
    }

    pub const fn f1_max() -> u8 {
        7
    }

    pub const fn f2_min() -> u8 {
        0
    }

    pub const fn f2_max() -> u8 {
        7
    }

    pub const fn f3_min() -> u8 {
        0
    }

    pub const fn f3_max() -> u8 {
        7
    }
}

#[asn(sequence, extensible_after(f0))]

#[derive(Default, Debug, Clone, PartialEq, Hash)]
pub struct Ts4dmdoe0 {
    #[asn(default(integer(0..7), 5))] pub f0: u8,
    #[asn(optional(integer(0..7)))] pub f1: Option<u8>,
    #[asn(default(integer(0..7), 5))] pub f2: u8,
    #[asn(optional(integer(0..7)))] pub f3: Option<u8>,
}

impl Ts4dmdoe0 {
    pub const fn f0_min() -> u8 {
        0
    }

    pub const fn f0_max() -> u8 {
        7
    }

    pub const fn f1_min() -> u8 {
        0
    }

    pub const fn f1_max() -> u8 {
        7
    }

    pub const fn f2_min() -> u8 {
        0
    }

    pub const fn f2_max() -> u8 {
        7
    }

    pub const fn f3_min() -> u8 {
        0
    }

    pub const fn f3_max() -> u8 {
        7
    }
}

#[asn(sequence, extensible_after(f0))]

#[derive(Default, Debug, Clone, PartialEq, Hash)]
pub struct Ts4dmdoe1 {
    #[asn(default(integer(0..7), 5))] pub f0: u8,
    #[asn(optional(integer(0..7)))] pub f1: Option<u8>,
    #[asn(default(integer(0..7), 5))] pub f2: u8,
    #[asn(optional(integer(0..7)))] pub f3: Option<u8>,
}

impl Ts4dmdoe1 {
    pub const fn f0_min() -> u8 {
        0
    }

    pub const fn f0_max() -> u8 {
        7
    }

    pub const fn f1_min() -> u8 {
        0
    }

    pub const fn f1_max() -> u8 {
        7
    }

    pub const fn f2_min() -> u8 {
        0
    }

    pub const fn f2_max() -> u8 {
        7
    }

    pub const fn f3_min() -> u8 {
        0
    }

    pub const fn f3_max() -> u8 {
        7
    }
}

#[asn(sequence, extensible_after(f1))]

#[derive(Default, Debug, Clone, PartialEq, Hash)]
pub struct Ts4dmdoe2 {
    #[asn(default(integer(0..7), 5))] pub f0: u8,
    #[asn(integer(0..7))] pub f1: u8,
    #[asn(default(integer(0..7), 5))] pub f2: u8,
    #[asn(optional(integer(0..7)))] pub f3: Option<u8>,
}

impl Ts4dmdoe2 {
    pub const fn f0_min() -> u8 {
        0
    }

    pub const fn f0_max() -> u8 {
        7
    }

    pub const fn f1_min() -> u8 {
        0
    }

    pub const fn f1_max() -> u8 {
        7
    }

    pub const fn f2_min() -> u8 {
        0
    }

    pub const fn f2_max() -> u8 {
        7
    }

    pub const fn f3_min() -> u8 {
        0
    }

    pub const fn f3_max() -> u8 {
        7
    }
}

#[asn(sequence, extensible_after(f2))]

#[derive(Default, Debug, Clone, PartialEq, Hash)]
pub struct Ts4dmdoe3 {
    #[asn(default(integer(0..7), 5))] pub f0: u8,
    #[asn(integer(0..7))] pub f1: u8,
    #[asn(default(integer(0..7), 5))] pub f2: u8,
    #[asn(optional(integer(0..7)))] pub f3: Option<u8>,
}

impl Ts4dmdoe3 {
    pub const fn f0_min() -> u8 {
        0
    }

    pub const fn f0_max() -> u8 {
        7
    }

    pub const fn f1_min() -> u8 {
        0
    }

    pub const fn f1_max() -> u8 {
        7
    }

    pub const fn f2_min() -> u8 {
        0
    }

    pub const fn f2_max() -> u8 {
        7
    }

    pub const fn f3_min() -> u8 {
        0
    }

    pub const fn f3_max() -> u8 {
        7
    }
}

#[asn(sequence, extensible_after(f3))]

#[derive(Default, Debug, Clone, PartialEq, Hash)]
pub struct Ts4dmdoe4 {
    #[asn(default(integer(0..7), 5))] pub f0: u8,
    #[asn(integer(0..7))] pub f1: u8,
    #[asn(default(integer(0..7), 5))] pub f2: u8,
    #[asn(optional(integer(0..7)))] pub f3: Option<u8>,
}

impl Ts4dmdoe4 {
    pub const fn f0_min() -> u8 {
        0
    }

    pub const fn f0_max() -> u8 {
        7
    }

    pub const fn f1_min() -> u8 {
        0
    }

    pub const fn f1_max() -> u8 {
        7
    }

    pub const fn f2_min() -> u8 {
        0
    }

    pub const fn f2_max() -> u8 {
        7
    }

    pub const fn f3_min() -> u8 {
        0
    }

    pub const fn f3_max() -> u8 {
        7
    }
}

#[asn(sequence)]

#[derive(Default, Debug, Clone, PartialEq, Hash)]
pub struct Ts4modon {
    #[asn(integer(0..7))] pub f0: u8,
    #[asn(optional(integer(0..7)))] pub f1: Option<u8>,
    #[asn(default(integer(0..7), 5))] pub f2: u8,
    #[asn(optional(integer(0..7)))] pub f3: Option<u8>,
}

impl Ts4modon {
    pub const fn f0_min() -> u8 {
        0
    }

    pub const fn f0_max() -> u8 {
        7
    }

    pub const fn f1_min() -> u8 {
        0
    }

    pub const fn f1_max() -> u8 {
        7
    }

    pub const fn f2_min() -> u8 {
        0
    }

    pub const fn f2_max() -> u8 {
        7
    }

    pub const fn f3_min() -> u8 {
        0
    }

    pub const fn f3_max() -> u8 {
        7
    }
}

#[asn(sequence, extensible_after(f0))]

#[derive(Default, Debug, Clone, PartialEq, Hash)]
pub struct Ts4modoe0 {
    #[asn(integer(0..7))] pub f0: u8,
    #[asn(optional(integer(0..7)))] pub f1: Option<u8>,
    #[asn(default(integer(0..7), 5))] pub f2: u8,
    #[asn(optional(integer(0..7)))] pub f3: Option<u8>,
}

impl Ts4modoe0 {
    pub const fn f0_min() -> u8 {
        0
    }

    pub const fn f0_max() -> u8 {
        7
    }

    pub const fn f1_min() -> u8 {
        0
    }

    pub const fn f1_max() -> u8 {
        7
    }

    pub const fn f2_min() -> u8 {
        0
    }

    pub const fn f2_max() -> u8 {
        7
    }

    pub const fn f3_min() -> u8 {
        0
    }

    pub const fn f3_max() -> u8 {
        7
    }
}

#[asn(sequence, extensible_after(f0))]

#[derive(Default, Debug, Clone, PartialEq, Hash)]
pub struct Ts4modoe1 {
    #[asn(integer(0..7))] pub f0: u8,
    #[asn(optional(integer(0..7)))] pub f1: Option<u8>,
    #[asn(default(integer(0..7), 5))] pub f2: u8,
    #[asn(optional(integer(0..7)))] pub f3: Option<u8>,
}

impl Ts4modoe1 {
    pub const fn f0_min() -> u8 {
        0
    }

    pub const fn f0_max() -> u8 {
        7
    }

    pub const fn f1_min() -> u8 {
        0
    }

    pub const fn f1_max() -> u8 {
        7
    }

    pub const fn f2_min() -> u8 {
        0
    }

    pub const fn f2_max() -> u8 {
        7
    }

    pub const fn f3_min() -> u8 {
        0
    }

    pub const fn f3_max() -> u8 {
        7
    }
}

#[asn(sequence, extensible_after(f1))]

#[derive(Default, Debug, Clone, PartialEq, Hash)]
pub struct Ts4modoe2 {
    #[asn(integer(0..7))] pub f0: u8,
    #[asn(optional(integer(0..7)))] pub f1: Option<u8>,
    #[asn(default(integer(0..7), 5))] pub f2: u8,
    #[asn(optional(integer(0..7)))] pub f3: Option<u8>,
}

impl Ts4modoe2 {
    pub const fn f0_min() -> u8 {
        0
    }

    pub const fn f0_max() -> u8 {
        7
    }

    pub const fn f1_min() -> u8 {
        0
    }

    pub const fn f1_max() -> u8 {
        7
    }

    pub const fn f2_min() -> u8 {
        0
    }

    pub const fn f2_max() -> u8 {
        7
    }

    pub const fn f3_min() -> u8 {
        0
    }

    pub const fn f3_max() -> u8 {
        7
    }
}

#[asn(sequence, extensible_after(f2))]

#[derive(Default, Debug, Clone, PartialEq, Hash)]
pub struct Ts4modoe3 {
    #[asn(integer(0..7))] pub f0: u8,
    #[asn(optional(integer(0..7)))] pub f1: Option<u8>,
    #[asn(default(integer(0..7), 5))] pub f2: u8,
    #[asn(optional(integer(0..7)))] pub f3: Option<u8>,
}

impl Ts4modoe3 {
    pub const fn f0_min() -> u8 {
        0
    }

    pub const fn f0_max() -> u8 {
        7
    }

    pub const fn f1_min() -> u8 {
        0
    }

    pub const fn f1_max() -> u8 {
        7
    }

    pub const fn f2_min() -> u8 {
        0
    }

    pub const fn f2_max() -> u8 {
        7
    }

    pub const fn f3_min() -> u8 {
        0
    }

    pub const fn f3_max() -> u8 {
        7
    }
}

#[asn(sequence, extensible_after(f3))]

#[derive(Default, Debug, Clone, PartialEq, Hash)]
pub struct Ts4modoe4 {
    #[asn(integer(0..7))] pub f0: u8,
    #[asn(optional(integer(0..7)))] pub f1: Option<u8>,
    #[asn(default(integer(0..7), 5))] pub f2: u8,
    #[asn(optional(integer(0..7)))] pub f3: Option<u8>,
}

impl Ts4modoe4 {
    pub const fn f0_min() -> u8 {
        0
    }

    pub const fn f0_max() -> u8 {
        7
    }

    pub const fn f1_min() -> u8 {
        0
    }

    pub const fn f1_max() -> u8 {
        7
    }

    pub const fn f2_min() -> u8 {
        0
    }

    pub const fn f2_max() -> u8 {
        7
    }

    pub const fn f3_min() -> u8 {
        0
    }

    pub const fn f3_max() -> u8 {
        7
    }
}

#[asn(sequence)]

#[derive(Default, Debug, Clone, PartialEq, Hash)]
pub struct Ts4oodon {
    #[asn(optional(integer(0..7)))] pub f0: Option<u8>,
    #[asn(optional(integer(0..7)))] pub f1: Option<u8>,
    #[asn(default(integer(0..7), 5))] pub f2: u8,
    #[asn(optional(integer(0..7)))] pub f3: Option<u8>,
}

impl Ts4oodon {
    pub const fn f0_min() -> u8 {
        0
    }

    pub const fn f0_max() -> u8 {
        7
    }

    pub const fn f1_min() -> u8 {
        0
    }

    pub const fn f1_max() -> u8 {
        7
    }

    pub const fn f2_min() -> u8 {
        0
    }

    pub const fn f2_max() -> u8 {
        7
    }

    pub const fn f3_min() -> u8 {
        0
    }

    pub const fn f3_max() -> u8 {
        7
    }
}

#[asn(sequence, extensible_after(f0))]

#[derive(Default, Debug, Clone, PartialEq, Hash)]
pub struct Ts4oodoe0 {
    #[asn(optional(integer(0..7)))] pub f0: Option<u8>,
    #[asn(optional(integer(0..7)))] pub f1: Option<u8>,
    #[asn(default(integer(0..7), 5))] pub f2: u8,
    #[asn(optional(integer(0..7)))] pub f3: Option<u8>,
}

impl Ts4oodoe0 {
    pub const fn f0_min() -> u8 {
        0
    }

    pub const fn f0_max() -> u8 {
        7
    }

    pub const fn f1_min() -> u8 {
        0
    }

    pub const fn f1_max() -> u8 {
        7
    }

    pub const fn f2_min() -> u8 {
        0
    }

    pub const fn f2_max() -> u8 {
        7
    }

    pub const fn f3_min() -> u8 {
        0
    }

    pub const fn f3_max() -> u8 {
        7
    }
}

#[asn(sequence, extensible_after(f0))]

#[derive(Default, Debug, Clone, PartialEq, Hash)]
pub struct Ts4oodoe1 {
    #[asn(optional(integer(0..7)))] pub f0: Option<u8>,
    #[asn(optional(integer(0..7)))] pub f1: Option<u8>,
    #[asn(default(integer(0..7), 5))] pub f2: u8,
    #[asn(optional(integer(0..7)))] pub f3: Option<u8>,
}

impl Ts4oodoe1 {
    pub const fn f0_min() -> u8 {
        0
    }

    pub const fn f0_max() -> u8 {
        7
    }

    pub const fn f1_min() -> u8 {
        0
    }

    pub const fn f1_max() -> u8 {
        7
    }

    pub const fn f2_min() -> u8 {
        0
    }

    pub const fn f2_max() -> u8 {
        7
    }

    pub const fn f3_min() -> u8 {
        0
    }

    pub const fn f3_max() -> u8 {
        7
    }
}

#[asn(sequence, extensible_after(f1))]

#[derive(Default, Debug, Clone, PartialEq, Hash)]
pub struct Ts4oodoe2 {
    #[asn(optional(integer(0..7)))] pub f0: Option<u8>,
    #[asn(optional(integer(0..7)))] pub f1: Option<u8>,
    #[asn(default(integer(0..7), 5))] pub f2: u8,
    #[asn(optional(integer(0..7)))] pub f3: Option<u8>,
}

impl Ts4oodoe2 {
    pub const fn f0_min() -> u8 {
        0
    }

    pub const fn f0_max() -> u8 {
        7
    }

    pub const fn f1_min() -> u8 {
        0
    }

    pub const fn f1_max() -> u8 {
        7
    }

    pub const fn f2_min() -> u8 {
        0
    }

    pub const fn f2_max() -> u8 {
        7
    }

    pub const fn f3_min() -> u8 {
        0
    }

    pub const fn f3_max() -> u8 {
        7
    }
}

#[asn(sequence, extensible_after(f2))]

#[derive(Default, Debug, Clone, PartialEq, Hash)]
pub struct Ts4oodoe3 {
    #[asn(optional(integer(0..7)))] pub f0: Option<u8>,
    #[asn(optional(integer(0..7)))] pub f1: Option<u8>,
    #[asn(default(integer(0..7), 5))] pub f2: u8,
    #[asn(optional(integer(0..7)))] pub f3: Option<u8>,
}

impl Ts4oodoe3 {
    pub const fn f0_min() -> u8 {
        0
    }

    pub const fn f0_max() -> u8 {
        7
    }

    pub const fn f1_min() -> u8 {
        0
    }

    pub const fn f1_max() -> u8 {
        7
    }

    pub const fn f2_min() -> u8 {
        0
    }

    pub const fn f2_max() -> u8 {
        7
    }

    pub const fn f3_min() -> u8 {
        0
    }

    pub const fn f3_max() -> u8 {
        7
    }
}

#[asn(sequence, extensible_after(f3))]

#[derive(Default, Debug, Clone, PartialEq, Hash)]
pub struct Ts4oodoe4 {
    #[asn(optional(integer(0..7)))] pub f0: Option<u8>,
    #[asn(optional(integer(0..7)))] pub f1: Option<u8>,
    #[asn(default(integer(0..7), 5))] pub f2: u8,
    #[asn(optional(integer(0..7)))] pub f3: Option<u8>,
}

impl Ts4oodoe4 {
    pub const fn f0_min() -> u8 {
        0
    }

    pub const fn f0_max() -> u8 {
        7
    }

    pub const fn f1_min() -> u8 {
        0
    }

    pub const fn f1_max() -> u8 {
        7
    }

    pub const fn f2_min() -> u8 {
        0
    }

    pub const fn f2_max() -> u8 {
        7
    }

    pub const fn f3_min() -> u8 {
        0
    }

    pub const fn f3_max() -> u8 {
        7
    }
}

#[asn(sequence)]

#[derive(Default, Debug, Clone, PartialEq, Hash)]
pub struct Ts4dodon {
    #[asn(default(integer(0..7), 5))] pub f0: u8,
    #[asn(optional(integer(0..7)))] pub f1: Option<u8>,
    #[asn(default(integer(0..7), 5))] pub f2: u8,
    #[asn(optional(integer(0..7)))] pub f3: Option<u8>,
}

impl Ts4dodon {
    pub const fn f0_min() -> u8 {
        0
    }

    pub const fn f0_max() -> u8 {
        7
    }

    pub const fn f1_min() -> u8 {
        0
    }

    pub const fn f1_max() -> u8 {
        7
    }

    pub const fn f2_min() -> u8 {
        0
    }

    pub const fn f2_max() -> u8 {
        7
    }

    pub const fn f3_min() -> u8 {
        0
    }

    pub const fn f3_max() -> u8 {
        7
    }
}

#[asn(sequence, extensible_after(f0))]

#[derive(Default, Debug, Clone, PartialEq, Hash)]
pub struct Ts4dodoe0 {
    #[asn(default(integer(0..7), 5))] pub f0: u8,
    #[asn(optional(integer(0..7)))] pub f1: Option<u8>,
    #[asn(default(integer(0..7), 5))] pub f2: u8,
    #[asn(optional(integer(0..7)))] pub f3: Option<u8>,
}

impl Ts4dodoe0 {
    pub const fn f0_min() -> u8 {
        0
    }

    pub const fn f0_max() -> u8 {
        7
    }

    pub const fn f1_min() -> u8 {
        0
    }

    pub const fn f1_max() -> u8 {
        7
    }

    pub const fn f2_min() -> u8 {
        0
    }

    pub const fn f2_max() -> u8 {
        7
    }

    pub const fn f3_min() -> u8 {
        0
    }

    pub const fn f3_max() -> u8 {
        7
    }
}

#[asn(sequence, extensible_after(f0))]

#[derive(Default, Debug, Clone, PartialEq, Hash)]
pub struct Ts4dodoe1 {
    #[asn(default(integer(0..7), 5))] pub f0: u8,
    #[asn(optional(integer(0..7)))] pub f1: Option<u8>,
    #[asn(default(integer(0..7), 5))] pub f2: u8,
    #[asn(optional(integer(0..7)))] pub f3: Option<u8>,
}

impl Ts4dodoe1 {
    pub const fn f0_min() -> u8 {
        0
    }

    pub const fn f0_max() -> u8 {
        7
    }

    pub const fn f1_min() -> u8 {
        0
    }

    pub const fn f1_max() -> u8 {
        7
    }

    pub const fn f2_min() -> u8 {
        0
    }

    pub const fn f2_max() -> u8 {
        7
    }

    pub const fn f3_min() -> u8 {
        0
    }

    pub const fn f3_max() -> u8 {
        7
    }
}

#[asn(sequence, extensible_after(f1))]

#[derive(Default, Debug, Clone, PartialEq, Hash)]
pub struct Ts4dodoe2 {
    #[asn(default(integer(0..7), 5))] pub f0: u8,
    #[asn(optional(integer(0..7)))] pub f1: Option<u8>,
    #[asn(default(integer(0..7), 5))] pub f2: u8,
    #[asn(optional(integer(0..7)))] pub f3: Option<u8>,
}

impl Ts4dodoe2 {
    pub const fn f0_min() -> u8 {
        0
    }

    pub const fn f0_max() -> u8 {
        7
    }

    pub const fn f1_min() -> u8 {
        0
    }

    pub const fn f1_max() -> u8 {
        7
    }

    pub const fn f2_min() -> u8 {
        0
    }

    pub const fn f2_max() -> u8 {
        7
    }

    pub const fn f3_min() -> u8 {
        0
    }

    pub const fn f3_max() -> u8 {
        7
    }
}

#[asn(sequence, extensible_after(f2))]

#[derive(Default, Debug, Clone, PartialEq, Hash)]
pub struct Ts4dodoe3 {
    #[asn(default(integer(0..7), 5))] pub f0: u8,
    #[asn(optional(integer(0..7)))] pub f1: Option<u8>,
    #[asn(default(integer(0..7), 5))] pub f2: u8,
    #[asn(optional(integer(0..7)))] pub f3: Option<u8>,
}

impl Ts4dodoe3 {
    pub const fn f0_min() -> u8 {
        0
    }

    pub const fn f0_max() -> u8 {
        7
    }

    pub const fn f1_min() -> u8 {
        0
    }

    pub const fn f1_max() -> u8 {
        7
    }

    pub const fn f2_min() -> u8 {
        0
    }

    pub const fn f2_max() -> u8 {
        7
    }

    pub const fn f3_min() -> u8 {
        0
    }

    pub const fn f3_max() -> u8 {
        7
    }
}

#[asn(sequence, extensible_after(f3))]

#[derive(Default, Debug, Clone, PartialEq, Hash)]
pub struct Ts4dodoe4 {
    #[asn(default(integer(0..7), 5))] pub f0: u8,
    #[asn(optional(integer(0..7)))] pub f1: Option<u8>,
    #[asn(default(integer(0..7), 5))] pub f2: u8,
    #[asn(optional(integer(0..7)))] pub f3: Option<u8>,
}

impl Ts4dodoe4 {
    pub const fn f0_min() -> u8 {
        0
    }

    pub const fn f0_max() -> u8 {
        7
    }

    pub const fn f1_min() -> u8 {
        0
    }

    pub const fn f1_max() -> u8 {
        7
    }

    pub const fn f2_min() -> u8 {
        0
    }

    pub const fn f2_max() -> u8 {
        7
    }

    pub const fn f3_min() -> u8 {
        0
    }

    pub const fn f3_max() -> u8 {
        7
    }
}

#[asn(sequence)]

#[derive(Default, Debug, Clone, PartialEq, Hash)]
pub struct Ts4mddon {
    #[asn(integer(0..7))] pub f0: u8,
    #[asn(default(integer(0..7), 5))] pub f1: u8,
    #[asn(default(integer(0..7), 5))] pub f2: u8,
    #[asn(optional(integer(0..7)))] pub f3: Option<u8>,
}

impl Ts4mddon {
    pub const fn f0_min() -> u8 {
        0
    }

    pub const fn f0_max() -> u8 {
        7
    }

    pub const fn f1_min() -> u8 {
        0
    }

    pub const fn f1_max() -> u8 {
        7
    }

    pub const fn f2_min() -> u8 {
        0
    }

    pub const fn f2_max() -> u8 {
        7
    }

    pub const fn f3_min() -> u8 {
        0
    }

    pub const fn f3_max() -> u8 {
        7
    }
}

#[asn(sequence, extensible_after(f0))]

#[derive(Default, Debug, Clone, PartialEq, Hash)]
pub struct Ts4mddoe0 {
    #[asn(integer(0..7))] pub f0: u8,
    #[asn(default(integer(0..7), 5))] pub f1: u8,
    #[asn(default(integer(0..7), 5))] pub f2: u8,
    #[asn(optional(integer(0..7)))] pub f3: Option<u8>,
}

impl Ts4mddoe0 {
    pub const fn f0_min() -> u8 {
        0
    }

    pub const fn f0_max() -> u8 {
        7
    }

    pub const fn f1_min() -> u8 {
        0
    }

    pub const fn f1_max() -> u8 {
        7
    }

    pub const fn f2_min() -> u8 {
        0
    }

    pub const fn f2_max() -> u8 {
        7
    }

    pub const fn f3_min() -> u8 {
        0
    }

    pub const fn f3_max() -> u8 {
        7
    }
}

#[asn(sequence, extensible_after(f0))]

#[derive(Default, Debug, Clone, PartialEq, Hash)]
pub struct Ts4mddoe1 {
    #[asn(integer(0..7))] pub f0: u8,
    #[asn(default(integer(0..7), 5))] pub f1: u8,
    #[asn(default(integer(0..7), 5))] pub f2: u8,
    #[asn(optional(integer(0..7)))] pub f3: Option<u8>,
}

impl Ts4mddoe1 {
    pub const fn f0_min() -> u8 {
        0
    }

    pub const fn f0_max() -> u8 {
        7
    }

    pub const fn f1_min() -> u8 {
        0
    }

    pub const fn f1_max() -> u8 {
        7
    }

    pub const fn f2_min() -> u8 {
        0
    }

    pub const fn f2_max() -> u8 {
        7
    }

    pub const fn f3_min() -> u8 {
        0
    }

    pub const fn f3_max() -> u8 {
        7
    }
}

#[asn(sequence, extensible_after(f1))]

#[derive(Default, Debug, Clone, PartialEq, Hash)]
pub struct Ts4mddoe2 {
    #[asn(integer(0..7))] pub f0: u8,
    #[asn(default(integer(0..7), 5))] pub f1: u8,
    #[asn(default(integer(0..7), 5))] pub f2: u8,
    #[asn(optional(integer(0..7)))] pub f3: Option<u8>,
}

impl Ts4mddoe2 {
    pub const fn f0_min() -> u8 {
        0
    }

    pub const fn f0_max() -> u8 {
        7
    }

    pub const fn f1_min() -> u8 {
        0
    }

    pub const fn f1_max() -> u8 {
        7
    }

    pub const fn f2_min() -> u8 {
        0
    }

    pub const fn f2_max() -> u8 {
        7
    }

    pub const fn f3_min() -> u8 {
        0
    }

    pub const fn f3_max() -> u8 {
        7
    }
}

#[asn(sequence, extensible_after(f2))]

#[derive(Default, Debug, Clone, PartialEq, Hash)]
pub struct Ts4mddoe3 {
    #[asn(integer(0..7))] pub f0: u8,
    #[asn(default(integer(0..7), 5))] pub f1: u8,
    #[asn(default(integer(0..7), 5))] pub f2: u8,
    #[asn(optional(integer(0..7)))] pub f3: Option<u8>,
}

impl Ts4mddoe3 {
    pub const fn f0_min() -> u8 {
        0
    }

    pub const fn f0_max() -> u8 {
        7
    }

    pub const fn f1_min() -> u8 {
        0
    }

    pub const fn f1_max() -> u8 {
        7
    }

    pub const fn f2_min() -> u8 {
        0
    }

    pub const fn f2_max() -> u8 {
        7
    }

    pub const fn f3_min() -> u8 {
        0
    }

    pub const fn f3_max() -> u8 {
        7
    }
}

#[asn(sequence, extensible_after(f3))]

#[derive(Default, Debug, Clone, PartialEq, Hash)]
pub struct Ts4mddoe4 {
    #[asn(integer(0..7))] pub f0: u8,
    #[asn(default(integer(0..7), 5))] pub f1: u8,
    #[asn(default(integer(0..7), 5))] pub f2: u8,
    #[asn(optional(integer(0..7)))] pub f3: Option<u8>,
}

impl Ts4mddoe4 {
    pub const fn f0_min() -> u8 {
        0
    }

    pub const fn f0_max() -> u8 {
        7
    }

    pub const fn f1_min() -> u8 {
        0
    }

    pub const fn f1_max() -> u8 {
        7
    }

    pub const fn f2_min() -> u8 {
        0
    }

    pub const fn f2_max() -> u8 {
        7
    }

    pub const fn f3_min() -> u8 {
        0
    }

    pub const fn f3_max() -> u8 {
        7
    }
}

#[asn(sequence)]

#[derive(Default, Debug, Clone, PartialEq, Hash)]
pub struct Ts4oddon {
    #[asn(optional(integer(0..7)))] pub f0: Option<u8>,
    #[asn(default(integer(0..7), 5))] pub f1: u8,
    #[asn(default(integer(0..7), 5))] pub f2: u8,
    #[asn(optional(integer(0..7)))] pub f3: Option<u8>,
}

impl Ts4oddon {
    pub const fn f0_min() -> u8 {
        0
    }

    pub const fn f0_max() -> u8 {
        7
    }

    pub const fn f1_min() -> u8 {
        0
    }

    pub const fn f1_max() -> u8 {
        7
    }

    pub const fn f2_min() -> u8 {
        0
    }

    pub const fn f2_max() -> u8 {
        7
    }

    pub const fn f3_min() -> u8 {
        0
    }

    pub const fn f3_max() -> u8 {
        7
    }
}

#[asn(sequence, extensible_after(f0))]

#[derive(Default, Debug, Clone, PartialEq, Hash)]
pub struct Ts4oddoe0 {
    #[asn(optional(integer(0..7)))] pub f0: Option<u8>,
    #[asn(default(integer(0..7), 5))] pub f1: u8,
    #[asn(default(integer(0..7), 5))] pub f2: u8,
    #[asn(optional(integer(0..7)))] pub f3: Option<u8>,
}

impl Ts4oddoe0 {
    pub const fn f0_min() -> u8 {
        0
    }

    pub const fn f0_max() -> u8 {
        7
    }

    pub const fn f1_min() -> u8 {
        0
    }

    pub const fn f1_max() -> u8 {
        7
    }

    pub const fn f2_min() -> u8 {
        0
    }

    pub const fn f2_max() -> u8 {
        7
    }

    pub const fn f3_min() -> u8 {
        0
    }

    pub const fn f3_max() -> u8 {
        7
    }
}

#[asn(sequence, extensible_after(f0))]

#[derive(Default, Debug, Clone, PartialEq, Hash)]
pub struct Ts4oddoe1 {
    #[asn(optional(integer(0..7)))] pub f0: Option<u8>,
    #[asn(default(integer(0..7), 5))] pub f1: u8,
    #[asn(default(integer(0..7), 5))] pub f2: u8,
    #[asn(optional(integer(0..7)))] pub f3: Option<u8>,
}

impl Ts4oddoe1 {
    pub const fn f0_min() -> u8 {
        0
    }

    pub const fn f0_max() -> u8 {
        7
    }

    pub const fn f1_min() -> u8 {
        0
    }

    pub const fn f1_max() -> u8 {
        7
    }

    pub const fn f2_min() -> u8 {
        0
    }

    pub const fn f2_max() -> u8 {
        7
    }

    pub const fn f3_min() -> u8 {
        0
    }

    pub const fn f3_max() -> u8 {
        7
    }
}

#[asn(sequence, extensible_after(f1))]

#[derive(Default, Debug, Clone, PartialEq, Hash)]
pub struct Ts4oddoe2 {
    #[asn(optional(integer(0..7)))] pub f0: Option<u8>,
    #[asn(default(integer(0..7), 5))] pub f1: u8,
    #[asn(default(integer(0..7), 5))] pub f2: u8,
    #[asn(optional(integer(0..7)))] pub f3: Option<u8>,
}

impl Ts4oddoe2 {
    pub const fn f0_min() -> u8 {
        0
    }

    pub const fn f0_max() -> u8 {
        7
    }

    pub const fn f1_min() -> u8 {
        0
    }

    pub const fn f1_max() -> u8 {
        7
    }

    pub const fn f2_min() -> u8 {
        0
    }

    pub const fn f2_max() -> u8 {
        7
    }

    pub const fn f3_min() -> u8 {
        0
    }

    pub const fn f3_max() -> u8 {
        7
    }
}

#[asn(sequence, extensible_after(f2))]

#[derive(Default, Debug, Clone, PartialEq, Hash)]
pub struct Ts4oddoe3 {
    #[asn(optional(integer(0..7)))] pub f0: Option<u8>,
    #[asn(default(integer(0..7), 5))] pub f1: u8,
    #[asn(default(integer(0..7), 5))] pub f2: u8,
    #[asn(optional(integer(0..7)))] pub f3: Option<u8>,
}

impl Ts4oddoe3 {
    pub const fn f0_min() -> u8 {
        0
    }

    pub const fn f0_max() -> u8 {
        7
    }

    pub const fn f1_min() -> u8 {
        0
    }

    pub const fn f1_max() -> u8 {
        7
    }

    pub const fn f2_min() -> u8 {
        0
    }

    pub const fn f2_max() -> u8 {
        7
    }

    pub const fn f3_min() -> u8 {
        0
    }

    pub const fn f3_max() -> u8 {
        7
    }
}

#[asn(sequence, extensible_after(f3))]

#[derive(Default, Debug, Clone, PartialEq, Hash)]
pub struct Ts4oddoe4 {
    #[asn(optional(integer(0..7)))] pub f0: Option<u8>,
    #[asn(default(integer(0..7), 5))] pub f1: u8,
    #[asn(default(integer(0..7), 5))] pub f2: u8,
    #[asn(optional(integer(0..7)))] pub f3: Option<u8>,
}

impl Ts4oddoe4 {
    pub const fn f0_min() -> u8 {
        0
    }

    pub const fn f0_max() -> u8 {
        7
    }

    pub const fn f1_min() -> u8 {
        0
    }

    pub const fn f1_max() -> u8 {
        7
    }

    pub const fn f2_min() -> u8 {
        0
    }

    pub const fn f2_max() -> u8 {
        7
    }

    pub const fn f3_min() -> u8 {
        0
    }

    pub const fn f3_max() -> u8 {
        7
    }
}

#[asn(sequence)]

#[derive(Default, Debug, Clone, PartialEq, Hash)]
pub struct Ts4dddon {
    #[asn(default(integer(0..7), 5))] pub f0: u8,
    #[asn(default(integer(0..7), 5))] pub f1: u8,
    #[asn(default(integer(0..7), 5))] pub f2: u8,
    #[asn(optional(integer(0..7)))] pub f3: Option<u8>,
}

impl Ts4dddon {
    pub const fn f0_min() -> u8 {
        0
    }

    pub const fn f0_max() -> u8 {
        7
    }

    pub const fn f1_min() -> u8 {
        0
    }

    pub const fn f1_max() -> u8 {
        7
    }

    pub const fn f2_min() -> u8 {
        0
    }

    pub const fn f2_max() -> u8 {
        7
    }

    pub const fn f3_min() -> u8 {
        0
    }

    pub const fn f3_max() -> u8 {
        7
    }
}

#[asn(sequence, extensible_after(f0))]

#[derive(Default, Debug, Clone, PartialEq, Hash)]
pub struct Ts4dddoe0 {
    #[asn(default(integer(0..7), 5))] pub f0: u8,
    #[asn(default(integer(0..7), 5))] pub f1: u8,
    #[asn(default(integer(0..7), 5))] pub f2: u8,
    #[asn(optional(integer(0..7)))] pub f3: Option<u8>,
}

impl Ts4dddoe0 {
    pub const fn f0_min() -> u8 {
        0
    }

    pub const fn f0_max() -> u8 {
        7
    }

    pub const fn f1_min() -> u8 {
        0
    }

    pub const fn f1_max() -> u8 {
        7
    }

    pub const fn f2_min() -> u8 {
        0
    }

    pub const fn f2_max() -> u8 {
        7
    }

    pub const fn f3_min() -> u8 {
        0
    }

    pub const fn f3_max() -> u8 {
        7
    }
}

#[asn(sequence, extensible_after(f0))]

#[derive(Default, Debug, Clone, PartialEq, Hash)]
pub struct Ts4dddoe1 {
    #[asn(default(integer(0..7), 5))] pub f0: u8,
    #[asn(default(integer(0..7), 5))] pub f1: u8,
    #[asn(default(integer(0..7), 5))] pub f2: u8,
    #[asn(optional(integer(0..7)))] pub f3: Option<u8>,
}

impl Ts4dddoe1 {
    pub const fn f0_min() -> u8 {
        0
    }

    pub const fn f0_max() -> u8 {
        7
    }

    pub const fn f1_min() -> u8 {
        0
    }

    pub const fn f1_max() -> u8 {
        7
    }

    pub const fn f2_min() -> u8 {
        0
    }

    pub const fn f2_max() -> u8 {
        7
    }

    pub const fn f3_min() -> u8 {
        0
    }

    pub const fn f3_max() -> u8 {
        7
    }
}

#[asn(sequence, extensible_after(f1))]

#[derive(Default, Debug, Clone, PartialEq, Hash)]
pub struct Ts4dddoe2 {
    #[asn(default(integer(0..7), 5))] pub f0: u8,
    #[asn(default(integer(0..7), 5))] pub f1: u8,
    #[asn(default(integer(0..7), 5))] pub f2: u8,
    #[asn(optional(integer(0..7)))] pub f3: Option<u8>,
}

impl Ts4dddoe2 {
    pub const fn f0_min() -> u8 {
        0
    }

    pub const fn f0_max() -> u8 {
        7
    }

    pub const fn f1_min() -> u8 {
        0
    }

    pub const fn f1_max() -> u8 {
        7
    }

    pub const fn f2_min() -> u8 {
        0
    }

    pub const fn f2_max() -> u8 {
        7
    }

    pub const fn f3_min() -> u8 {
        0
    }

    pub const fn f3_max() -> u8 {
        7
    }
}

#[asn(sequence, extensible_after(f2))]

#[derive(Default, Debug, Clone, PartialEq, Hash)]
pub struct Ts4dddoe3 {
    #[asn(default(integer(0..7), 5))] pub f0: u8,
    #[asn(default(integer(0..7), 5))] pub f1: u8,
    #[asn(default(integer(0..7), 5))] pub f2: u8,
    #[asn(optional(integer(0..7)))] pub f3: Option<u8>,
}

impl Ts4dddoe3 {
    pub const fn f0_min() -> u8 {
        0
    }

    pub const fn f0_max() -> u8 {
        7
    }

    pub const fn f1_min() -> u8 {
        0
    }

    pub const fn f1_max() -> u8 {
        7
    }

    pub const fn f2_min() -> u8 {
        0
    }

    pub const fn f2_max() -> u8 {
        7
    }

    pub const fn f3_min() -> u8 {
        0
    }

    pub const fn f3_max() -> u8 {
        7
    }
}

#[asn(sequence, extensible_after(f3))]

#[derive(Default, Debug, Clone, PartialEq, Hash)]
pub struct Ts4dddoe4 {
    #[asn(default(integer(0..7), 5))] pub f0: u8,
    #[asn(default(integer(0..7), 5))] pub f1: u8,
    #[asn(default(integer(0..7), 5))] pub f2: u8,
    #[asn(optional(integer(0..7)))] pub f3: Option<u8>,
}

impl Ts4dddoe4 {
    pub const fn f0_min() -> u8 {
        0
    }

    pub const fn f0_max() -> u8 {
        7
    }

    pub const fn f1_min() -> u8 {
        0
    }

    pub const fn f1_max() -> u8 {
        7
    }

    pub const fn f2_min() -> u8 {
        0
    }

    pub const fn f2_max() -> u8 {
        7
    }

    pub const fn f3_min() -> u8 {
        0
    }

    pub const fn f3_max() -> u8 {
        7
    }
}

#[asn(sequence)]

#[derive(Default, Debug, Clone, PartialEq, Hash)]
pub struct Ts4mmmdn {
    #[asn(integer(0..7))] pub f0: u8,
    #[asn(integer(0..7))] pub f1: u8,
    #[asn(integer(0..7))] pub f2: u8,
    #[asn(default(integer(0..7), 5))] pub f3: u8,
}

impl Ts4mmmdn {
    pub const fn f0_min() -> u8 {
        0
    }

    pub const fn f0_max() -> u8 {
        7
    }

    pub const fn f1_min() -> u8 {
        0
    }

    pub const fn f1_max() -> u8 {
        7
    }

    pub const fn f2_min() -> u8 {
        0
    }

    pub const fn f2_max() -> u8 {
        7
    }

    pub const fn f3_min() -> u8 {
        0
    }

    pub const fn f3_max() -> u8 {
        7
    }
}

#[asn(sequence, extensible_after(f0))]

#[derive(Default, Debug, Clone, PartialEq, Hash)]
pub struct Ts4mmmde0 {
    #[asn(integer(0..7))] pub f0: u8,
    #[asn(optional(integer(0..7)))] pub f1: Option<u8>,
    #[asn(optional(integer(0..7)))] pub f2: Option<u8>,
    #[asn(default(integer(0..7), 5))] pub f3: u8,
}

impl Ts4mmmde0 {
    pub const fn f0_min() -> u8 {
        0
    }

    pub const fn f0_max() -> u8 {
        7
    }

    pub const fn f1_min() -> u8 {
        0
    }

    pub const fn f1_max() -> u8 {
        7
    }

    pub const fn f2_min() -> u8 {
        0
    }

    pub const fn f2_max() -> u8 {
        7
    }

    pub const fn f3_min() -> u8 {
        0
    }

    pub const fn f3_max() -> u8 {
        7
    }
}

#[asn(sequence, extensible_after(f0))]

#[derive(Default, Debug, Clone, PartialEq, Hash)]
pub struct Ts4mmmde1 {
    #[asn(integer(0..7))] pub f0: u8,
    #[asn(optional(integer(0..7)))] pub f1: Option<u8>,
    #[asn(optional(integer(0..7)))] pub f2: Option<u8>,
    #[asn(default(integer(0..7), 5))] pub f3: u8,
}

impl Ts4mmmde1 {
    pub const fn f0_min() -> u8 {
        0
    }

    pub const fn f0_max() -> u8 {
        7
    }

    pub const fn f1_min() -> u8 {
        0
    }

    pub const fn f1_max() -> u8 {
        7
    }

    pub const fn f2_min() -> u8 {
        0
    }

    pub const fn f2_max() -> u8 {
        7
    }

    pub const fn f3_min() -> u8 {
        0
    }

    pub const fn f3_max() -> u8 {
        7
    }
}

#[asn(sequence, extensible_after(f1))]

#[derive(Default, Debug, Clone, PartialEq, Hash)]
pub struct Ts4mmmde2 {
    #[asn(integer(0..7))] pub f0: u8,
    #[asn(integer(0..7))] pub f1: u8,
    #[asn(optional(integer(0..7)))] pub f2: Option<u8>,
    #[asn(default(integer(0..7), 5))] pub f3: u8,
}

impl Ts4mmmde2 {
    pub const fn f0_min() -> u8 {
        0
    }

    pub const fn f0_max() -> u8 {
        7
    }

    pub const fn f1_min() -> u8 {
        0
    }

    pub const fn f1_max() -> u8 {
        7
    }

    pub const fn f2_min() -> u8 {
        0
    }

    pub const fn f2_max() -> u8 {
        7
    }

    pub const fn f3_min() -> u8 {
        0
    }

    pub const fn f3_max() -> u8 {
        7
    }
}

#[asn(sequence, extensible_after(f2))]

#[derive(Default, Debug, Clone, PartialEq, Hash)]
pub struct Ts4mmmde3 {
    #[asn(integer(0..7))] pub f0: u8,
    #[asn(integer(0..7))] pub f1: u8,
    #[asn(integer(0..7))] pub f2: u8,
    #[asn(default(integer(0..7), 5))] pub f3: u8,
}

impl Ts4mmmde3 {
    pub const fn f0_min() -> u8 {
        0
    }

    pub const fn f0_max() -> u8 {
        7
    }

    pub const fn f1_min() -> u8 {
        0
    }

    pub const fn f1_max() -> u8 {
        7
    }

    pub const fn f2_min() -> u8 {
        0
    }

    pub const fn f2_max() -> u8 {
        7
    }

    pub const fn f3_min() -> u8 {
        0
    }

    pub const fn f3_max() -> u8 {
        7
    }
}

#[asn(sequence, extensible_after(f3))]

#[derive(Default, Debug, Clone, PartialEq, Hash)]
pub struct Ts4mmmde4 {
    #[asn(integer(0..7))] pub f0: u8,
    #[asn(integer(0..7))] pub f1: u8,
    #[asn(integer(0..7))] pub f2: u8,
    #[asn(default(integer(0..7), 5))] pub f3: u8,
}

impl Ts4mmmde4 {
    pub const fn f0_min() -> u8 {
        0
    }

    pub const fn f0_max() -> u8 {
        7
    }

    pub const fn f1_min() -> u8 {
        0
    }

    pub const fn f1_max() -> u8 {
        7
    }

    pub const fn f2_min() -> u8 {
        0
    }

    pub const fn f2_max() -> u8 {
        7
    }

    pub const fn f3_min() -> u8 {
        0
    }

    pub const fn f3_max() -> u8 {
        7
    }
}

#[asn(sequence)]

#[derive(Default, Debug, Clone, PartialEq, Hash)]
pub struct Ts4ommdn {
    #[asn(optional(integer(0..7)))] pub f0: Option<u8>,
    #[asn(integer(0..7))] pub f1: u8,
    #[asn(integer(0..7))] pub f2: u8,
    #[asn(default(integer(0..7), 5))] pub f3: u8,
}

impl Ts4ommdn {
    pub const fn f0_min() -> u8 {
        0
    }

    pub const fn f0_max() -> u8 {
        7
    }

    pub const fn f1_min() -> u8 {
        0
    }

    pub const fn f1_max() -> u8 {
        7
    }

    pub const fn f2_min() -> u8 {
        0
    }

    pub const fn f2_max() -> u8 {
        7
    }

    pub const fn f3_min() -> u8 {
        0
    }

    pub const fn f3_max() -> u8 {
        7
    }
}

#[asn(sequence, extensible_after(f0))]

#[derive(Default, Debug, Clone, PartialEq, Hash)]
pub struct Ts4ommde0 {
    #[asn(optional(integer(0..7)))] pub f0: Option<u8>,
    #[asn(optional(integer(0..7)))] pub f1: Option<u8>,
    #[asn(optional(integer(0..7)))] pub f2: Option<u8>,
    #[asn(default(integer(0..7), 5))] pub f3: u8,
}

impl Ts4ommde0 {
    pub const fn f0_min() -> u8 {
        0
    }

    pub const fn f0_max() -> u8 {
        7
    }

    pub const fn f1_min() -> u8 {
        0
    }

    pub const fn f1_max() -> u8 {
        7
    }

    pub const fn f2_min() -> u8 {
        0
    }

    pub const fn f2_max() -> u8 {
        7
    }

    pub const fn f3_min() -> u8 {
        0
    }

    pub const fn f3_max() -> u8 {
        7
    }
}

#[asn(sequence, extensible_after(f0))]

#[derive(Default, Debug, Clone, PartialEq, Hash)]
pub struct Ts4ommde1 {
    #[asn(optional(integer(0..7)))] pub f0: Option<u8>,
    #[asn(optional(integer(0..7)))] pub f1: Option<u8>,
    #[asn(optional(integer(0..7)))] pub f2: Option<u8>,
    #[asn(default(integer(0..7), 5))] pub f3: u8,
}

impl Ts4ommde1 {
    pub const fn f0_min() -> u8 {
        0
    }

    pub const fn f0_max() -> u8 {
        7
    }

    pub const fn f1_min() -> u8 {
        0
    }

    pub const fn f1_max() -> u8 {
        7
    }

    pub const fn f2_min() -> u8 {
        0
    }

    pub const fn f2_max() -> u8 {
        7
    }

    pub const fn f3_min() -> u8 {
        0
    }

    pub const fn f3_max() -> u8 {
        7
    }
}

#[asn(sequence, extensible_after(f1))]

#[derive(Default, Debug, Clone, PartialEq, Hash)]
pub struct Ts4ommde2 {
    #[asn(optional(integer(0..7)))] pub f0: Option<u8>,
    #[asn(integer(0..7))] pub f1: u8,
    #[asn(optional(integer(0..7)))] pub f2: Option<u8>,
    #[asn(default(integer(0..7), 5))] pub f3: u8,
}

impl Ts4ommde2 {
    pub const fn f0_min() -> u8 {
        0
    }

    pub const fn f0_max() -> u8 {
        7
    }

    pub const fn f1_min() -> u8 {
        0
    }

    pub const fn f1_max() -> u8 {
        7
    }

    pub const fn f2_min() -> u8 {
        0
    }

    pub const fn f2_max() -> u8 {
        7
    }

    pub const fn f3_min() -> u8 {
        0
    }

    pub const fn f3_max() -> u8 {
        7
    }
}

#[asn(sequence, extensible_after(f2))]

#[derive(Default, Debug, Clone, PartialEq, Hash)]
pub struct Ts4ommde3 {
    #[asn(optional(integer(0..7)))] pub f0: Option<u8>,
    #[asn(integer(0..7))] pub f1: u8,
    #[asn(integer(0..7))] pub f2: u8,
    #[asn(default(integer(0..7), 5))] pub f3: u8,
}

impl Ts4ommde3 {
    pub const fn f0_min() -> u8 {
        0
    }

    pub const fn f0_max() -> u8 {
        7
    }

    pub const fn f1_min() -> u8 {
        0
    }

    pub const fn f1_max() -> u8 {
        7
    }

    pub const fn f2_min() -> u8 {
        0
    }

    pub const fn f2_max() -> u8 {
        7
    }

    pub const fn f3_min() -> u8 {
        0
    }

    pub const fn f3_max() -> u8 {
        7
    }
}

#[asn(sequence, extensible_after(f3))]

#[derive(Default, Debug, Clone, PartialEq, Hash)]
pub struct Ts4ommde4 {
    #[asn(optional(integer(0..7)))] pub f0: Option<u8>,
    #[asn(integer(0..7))] pub f1: u8,
    #[asn(integer(0..7))] pub f2: u8,
    #[asn(default(integer(0..7), 5))] pub f3: u8,
}

impl Ts4ommde4 {
    pub const fn f0_min() -> u8 {
        0
    }

    pub const fn f0_max() -> u8 {
        7
    }

    pub const fn f1_min() -> u8 {
        0
    }

    pub const fn f1_max() -> u8 {
        7
    }

    pub const fn f2_min() -> u8 {
        0
    }

    pub const fn f2_max() -> u8 {
        7
    }

    pub const fn f3_min() -> u8 {
        0
    }

    pub const fn f3_max() -> u8 {
        7
    }
}

#[asn(sequence)]

#[derive(Default, Debug, Clone, PartialEq, Hash)]
pub struct Ts4dmmdn {
    #[asn(default(integer(0..7), 5))] pub f0: u8,
    #[asn(integer(0..7))] pub f1: u8,
    #[asn(integer(0..7))] pub f2: u8,
    #[asn(default(integer(0..7), 5))] pub f3: u8,
}

impl Ts4dmmdn {
    pub const fn f0_min() -> u8 {
        0
    }

    pub const fn f0_max() -> u8 {
        7
    }

    pub const fn f1_min() -> u8 {
        0
    }

    pub const fn f1_max() -> u8 {
        7
    }

    pub const fn f2_min() -> u8 {
        0
    }

    pub const fn f2_max() -> u8 {
        7
    }

    pub const fn f3_min() -> u8 {
        0
    }

    pub const fn f3_max() -> u8 {
        7
    }
}

#[asn(sequence, extensible_after(f0))]

#[derive(Default, Debug, Clone, PartialEq, Hash)]
pub struct Ts4dmmde0 {
    #[asn(default(integer(0..7), 5))] pub f0: u8,
    #[asn(optional(integer(0..7)))] pub f1: Option<u8>,
    #[asn(optional(integer(0..7)))] pub f2: Option<u8>,
    #[asn(default(integer(0..7), 5))] pub f3: u8,
}

impl Ts4dmmde0 {
    pub const fn f0_min() -> u8 {
        0
    }

    pub const fn f0_max() -> u8 {
        7
    }

    pub const fn f1_min() -> u8 {
        0
    }

    pub const fn f1_max() -> u8 {
        7
    }

    pub const fn f2_min() -> u8 {
        0
    }

    pub const fn f2_max() -> u8 {
        7
    }

    pub const fn f3_min() -> u8 {
        0
    }

    pub const fn f3_max() -> u8 {
        7
    }
}

#[asn(sequence, extensible_after(f0))]

#[derive(Default, Debug, Clone, PartialEq, Hash)]
pub struct Ts4dmmde1 {
    #[asn(default(integer(0..7), 5))] pub f0: u8,
    #[asn(optional(integer(0..7)))] pub f1: Option<u8>,
    #[asn(optional(integer(0..7)))] pub f2: Option<u8>,
    #[asn(default(integer(0..7), 5))] pub f3: u8,
}

impl Ts4dmmde1 {
    pub const fn f0_min() -> u8 {
        0
    }

    pub const fn f0_max() -> u8 {
        7
    }

    pub const fn f1_min() -> u8 {
        0
    }

    pub const fn f1_max() -> u8 {
        7
    }

    pub const fn f2_min() -> u8 {
        0
    }

    pub const fn f2_max() -> u8 {
        7
    }

    pub const fn f3_min() -> u8 {
        0
    }

    pub const fn f3_max() -> u8 {
        7
    }
}

#[asn(sequence, extensible_after(f1))]

#[derive(Default, Debug, Clone, PartialEq, Hash)]
pub struct Ts4dmmde2 {
    #[asn(default(integer(0..7), 5))] pub f0: u8,
    #[asn(integer(0..7))] pub f1: u8,
    #[asn(optional(integer(0..7)))] pub f2: Option<u8>,
    #[asn(default(integer(0..7), 5))] pub f3: u8,
}

impl Ts4dmmde2 {
    pub const fn f0_min() -> u8 {
        0
    }

    pub const fn f0_max() -> u8 {
        7
    }

    pub const fn f1_min() -> u8 {
        0
    }

    pub const fn f1_max() -> u8 {
        7
    }

    pub const fn f2_min() -> u8 {
        0
    }

    pub const fn f2_max() -> u8 {
        7
    }

    pub const fn f3_min() -> u8 {
        0
    }

    pub const fn f3_max() -> u8 {
        7
    }
}

#[asn(sequence, extensible_after(f2))]

#[derive(Default, Debug, Clone, PartialEq, Hash)]
pub struct Ts4dmmde3 {
    #[asn(default(integer(0..7), 5))] pub f0: u8,
    #[asn(integer(0..7))] pub f1: u8,
    #[asn(integer(0..7))] pub f2: u8,
    #[asn(default(integer(0..7), 5))] pub f3: u8,
}

impl Ts4dmmde3 {
    pub const fn f0_min() -> u8 {
        0
    }

    pub const fn f0_max() -> u8 {
        7
    }

    pub const fn f1_min() -> u8 {
        0
    }

    pub const fn f1_max() -> u8 {
        7
    }

    pub const fn f2_min() -> u8 {
        0
    }

    pub const fn f2_max() -> u8 {
        7
    }

    pub const fn f3_min() -> u8 {
        0
    }

    pub const fn f3_max() -> u8 {
        7
    }
}

#[asn(sequence, extensible_after(f3))]

#[derive(Default, Debug, Clone, PartialEq, Hash)]
pub struct Ts4dmmde4 {
    #[asn(default(integer(0..7), 5))] pub f0: u8,
    #[asn(integer(0..7))] pub f1: u8,
    #[asn(integer(0..7))] pub f2: u8,
    #[asn(default(integer(0..7), 5))] pub f3: u8,
}

impl Ts4dmmde4 {
    pub const fn f0_min() -> u8 {
        0
    }

    pub const fn f0_max() -> u8 {
        7
    }

    pub const fn f1_min() -> u8 {
        0
    }

    pub const fn f1_max() -> u8 {
        7
    }

    pub const fn f2_min() -> u8 {
        0
    }

    pub const fn f2_max() -> u8 {
        7
    }

    pub const fn f3_min() -> u8 {
        0
    }

    pub const fn f3_max() -> u8 {
        7
    }
}

#[asn(sequence)]

#[derive(Default, Debug, Clone, PartialEq, Hash)]
pub struct Ts4momdn {
    #[asn(integer(0..7))] pub f0: u8,
    #[asn(optional(integer(0..7)))] pub f1: Option<u8>,
    #[asn(integer(0..7))] pub f2: u8,
    #[asn(default(integer(0..7), 5))] pub f3: u8,
}

impl Ts4momdn {
    pub const fn f0_min() -> u8 {
        0
    }

    pub const fn f0_max() -> u8 {
        7
    }

    pub const fn f1_min() -> u8 {
        0
    }

    pub const fn f1_max() -> u8 {
        7
    }

    pub const fn f2_min() -> u8 {
        0
    }

    pub const fn f2_max() -> u8 {
        7
    }

    pub const fn f3_min() -> u8 {
        0
    }

    pub const fn f3_max() -> u8 {
        7
    }
}

#[asn(sequence, extensible_after(f0))]

#[derive(Default, Debug, Clone, PartialEq, Hash)]
pub struct Ts4momde0 {
    #[asn(integer(0..7))] pub f0: u8,
    #[asn(optional(integer(0..7)))] pub f1: Option<u8>,
    #[asn(optional(integer(0..7)))] pub f2: Option<u8>,
    #[asn(default(integer(0..7), 5))] pub f3: u8,
}

impl Ts4momde0 {
    pub const fn f0_min() -> u8 {
        0
    }

    pub const fn f0_max() -> u8 {
        7
    }

    pub const fn f1_min() -> u8 {
        0
    }

    pub const fn f1_max() -> u8 {
        7
    }

    pub const fn f2_min() -> u8 {
        0
    }

    pub const fn f2_max() -> u8 {
        7
    }

    pub const fn f3_min() -> u8 {
        0
    }

    pub const fn f3_max() -> u8 {
        7
    }
}

#[asn(sequence, extensible_after(f0))]

#[derive(Default, Debug, Clone, PartialEq, Hash)]
pub struct Ts4momde1 {
    #[asn(integer(0..7))] pub f0: u8,
    #[asn(optional(integer(0..7)))] pub f1: Option<u8>,
    #[asn(optional(integer(0..7)))] pub f2: Option<u8>,
    #[asn(default(integer(0..7), 5))] pub f3: u8,
}

impl Ts4momde1 {
    pub const fn f0_min() -> u8 {
        0
    }

    pub const fn f0_max() -> u8 {
        7
    }

    pub const fn f1_min() -> u8 {
        0
    }

    pub const fn f1_max() -> u8 {
        7
    }

    pub const fn f2_min() -> u8 {
        0
    }

    pub const fn f2_max() -> u8 {
        7
    }

    pub const fn f3_min() -> u8 {
        0
    }

    pub const fn f3_max() -> u8 {
        7
    }
}

#[asn(sequence, extensible_after(f1))]

#[derive(Default, Debug, Clone, PartialEq, Hash)]
pub struct Ts4momde2 {
    #[asn(integer(0..7))] pub f0: u8,
    #[asn(optional(integer(0..7)))] pub f1: Option<u8>,
    #[asn(optional(integer(0..7)))] pub f2: Option<u8>,
    #[asn(default(integer(0..7), 5))] pub f3: u8,
}

impl Ts4momde2 {
    pub const fn f0_min() -> u8 {
        0
    }

    pub const fn f0_max() -> u8 {
        7
    }

    pub const fn f1_min() -> u8 {
        0
    }

    pub const fn f1_max() -> u8 {
        7
    }

    pub const fn f2_min() -> u8 {
        0
    }

    pub const fn f2_max() -> u8 {
        7
    }

    pub const fn f3_min() -> u8 {
        0
    }

    pub const fn f3_max() -> u8 {
        7
    }
}

#[asn(sequence, extensible_after(f2))]

#[derive(Default, Debug, Clone, PartialEq, Hash)]
pub struct Ts4momde3 {
    #[asn(integer(0..7))] pub f0: u8,
    #[asn(optional(integer(0..7)))] pub f1: Option<u8>,
    #[asn(integer(0..7))] pub f2: u8,
    #[asn(default(integer(0..7), 5))] pub f3: u8,
}

impl Ts4momde3 {
    pub const fn f0_min() -> u8 {
        0
    }

    pub const fn f0_max() -> u8 {
        7
    }

    pub const fn f1_min() -> u8 {
        0
    }

    pub const fn f1_max() -> u8 {
        7
    }

    pub const fn f2_min() -> u8 {
        0
    }

    pub const fn f2_max() -> u8 {
        7
    }

    pub const fn f3_min() -> u8 {
        0
    }

    pub const fn f3_max() -> u8 {
        7
    }
}

#[asn(sequence, extensible_after(f3))]

#[derive(Default, Debug, Clone, PartialEq, Hash)]
pub struct Ts4momde4 {
    #[asn(integer(0..7))] pub f0: u8,
    #[asn(optional(integer(0..7)))] pub f1: Option<u8>,
    #[asn(integer(0..7))] pub f2: u8,
    #[asn(default(integer(0..7), 5))] pub f3: u8,
}

impl Ts4momde4 {
    pub const fn f0_min() -> u8 {
        0
    }

    pub const fn f0_max() -> u8 {
        7
    }

    pub const fn f1_min() -> u8 {
        0
    }

    pub const fn f1_max() -> u8 {
        7
    }

    pub const fn f2_min() -> u8 {
        0
    }

    pub const fn f2_max() -> u8 {
        7
    }

    pub const fn f3_min() -> u8 {
        0
    }

    pub const fn f3_max() -> u8 {
        7
    }
}

#[asn(sequence)]

#[derive(Default, Debug, Clone, PartialEq, Hash)]
pub struct Ts4oomdn {
    #[asn(optional(integer(0..7)))] pub f0: Option<u8>,
    #[asn(optional(integer(0..7)))] pub f1: Option<u8>,
    #[asn(integer(0..7))] pub f2: u8,
    #[asn(default(integer(0..7), 5))] pub f3: u8,
}

impl Ts4oomdn {
    pub const fn f0_min() -> u8 {
        0
    }

    pub const fn f0_max() -> u8 {
        7
    }

    pub const fn f1_min() -> u8 {
        0
    }

    pub const fn f1_max() -> u8 {
        7
    }

    pub const fn f2_min() -> u8 {
        0
    }

    pub const fn f2_max() -> u8 {
        7
    }

    pub const fn f3_min() -> u8 {
        0
    }

    pub const fn f3_max() -> u8 {
        7
    }
}

#[asn(sequence, extensible_after(f0))]

#[derive(Default, Debug, Clone, PartialEq, Hash)]
pub struct Ts4oomde0 {
    #[asn(optional(integer(0..7)))] pub f0: Option<u8>,
    #[asn(optional(integer(0..7)))] pub f1: Option<u8>,
    #[asn(optional(integer(0..7)))] pub f2: Option<u8>,
    #[asn(default(integer(0..7), 5))] pub f3: u8,
}

impl Ts4oomde0 {
    pub const fn f0_min() -> u8 {
        0
    }

    pub const fn f0_max() -> u8 {
        7
    }

    pub const fn f1_min() -> u8 {
        0
    }

    pub const fn f1_max() -> u8 {
        7
    }

    pub const fn f2_min() -> u8 {
        0
    }

    pub const fn f2_max() -> u8 {
        7
    }

    pub const fn f3_min() -> u8 {
        0
    }

    pub const fn f3_max() -> u8 {
        7
    }
}

#[asn(sequence, extensible_after(f0))]

#[derive(Default, Debug, Clone, PartialEq, Hash)]
pub struct Ts4oomde1 {
    #[asn(optional(integer(0..7)))] pub f0: Option<u8>,
    #[asn(optional(integer(0..7)))] pub f1: Option<u8>,
    #[asn(optional(integer(0..7)))] pub f2: Option<u8>,
    #[asn(default(integer(0..7), 5))] pub f3: u8,
}

impl Ts4oomde1 {
    pub const fn f0_min() -> u8 {
        0
    }

    pub const fn f0_max() -> u8 {
        7
    }

    pub const fn f1_min() -> u8 {
        0
    }

    pub const fn f1_max() -> u8 {
        7
    }

    pub const fn f2_min() -> u8 {
        0
    }

    pub const fn f2_max() -> u8 {
        7
    }

    pub const fn f3_min() -> u8 {
        0
    }

    pub const fn f3_max() -> u8 {
        7
    }
}

#[asn(sequence, extensible_after(f1))]

#[derive(Default, Debug, Clone, PartialEq, Hash)]
pub struct Ts4oomde2 {
    #[asn(optional(integer(0..7)))] pub f0: Option<u8>,
    #[asn(optional(integer(0..7)))] pub f1: Option<u8>,
    #[asn(optional(integer(0..7)))] pub f2: Option<u8>,
    #[asn(default(integer(0..7), 5))] pub f3: u8,
}

impl Ts4oomde2 {
    pub const fn f0_min() -> u8 {
        0
    }

    pub const fn f0_max() -> u8 {
        7
    }

    pub const fn f1_min() -> u8 {
        0
    }

    pub const fn f1_max() -> u8 {
        7
    }

    pub const fn f2_min() -> u8 {
        0
    }

    pub const fn f2_max() -> u8 {
        7
    }

    pub const fn f3_min() -> u8 {
        0
    }

    pub const fn f3_max() -> u8 {
        7
    }
}

#[asn(sequence, extensible_after(f2))]

#[derive(Default, Debug, Clone, PartialEq, Hash)]
pub struct Ts4oomde3 {
    #[asn(optional(integer(0..7)))] pub f0: Option<u8>,
    #[asn(optional(integer(0..7)))] pub f1: Option<u8>,
    #[asn(integer(0..7))] pub f2: u8,
    #[asn(default(integer(0..7), 5))] pub f3: u8,
}

impl Ts4oomde3 {
    pub const fn f0_min() -> u8 {
        0
    }

    pub const fn f0_max() -> u8 {
        7
    }

    pub const fn f1_min() -> u8 {
        0
    }

    pub const fn f1_max() -> u8 {
        7
    }

    pub const fn f2_min() -> u8 {
        0
    }

    pub const fn f2_max() -> u8 {
        7
    }

    pub const fn f3_min() -> u8 {
        0
    }

    pub const fn f3_max() -> u8 {
        7
    }
}

#[asn(sequence, extensible_after(f3))]

#[derive(Default, Debug, Clone, PartialEq, Hash)]
pub struct Ts4oomde4 {
    #[asn(optional(integer(0..7)))] pub f0: Option<u8>,
    #[asn(optional(integer(0..7)))] pub f1: Option<u8>,
    #[asn(integer(0..7))] pub f2: u8,
    #[asn(default(integer(0..7), 5))] pub f3: u8,
}

impl Ts4oomde4 {
    pub const fn f0_min() -> u8 {
        0
    }

    pub const fn f0_max() -> u8 {
        7
    }

    pub const fn f1_min() -> u8 {
        0
    }

    pub const fn f1_max() -> u8 {
        7
    }

    pub const fn f2_min() -> u8 {
        0
    }

    pub const fn f2_max() -> u8 {
        7
    }

    pub const fn f3_min() -> u8 {
        0
    }

    pub const fn f3_max() -> u8 {
        7
    }
}

#[asn(sequence)]

#[derive(Default, Debug, Clone, PartialEq, Hash)]
pub struct Ts4domdn {
    #[asn(default(integer(0..7), 5))] pub f0: u8,
    #[asn(optional(integer(0..7)))] pub f1: Option<u8>,
    #[asn(integer(0..7))] pub f2: u8,
    #[asn(default(integer(0..7), 5))] pub f3: u8,
}

impl Ts4domdn {
    pub const fn f0_min() -> u8 {
        0
    }

    pub const fn f0_max() -> u8 {
        7
    }

    pub const fn f1_min() -> u8 {
        0
    }

    pub const fn f1_max() -> u8 {
        7
    }

    pub const fn f2_min() -> u8 {
        0
    }

    pub const fn f2_max() -> u8 {
        7
    }

    pub const fn f3_min() -> u8 {
        0
    }

    pub const fn f3_max() -> u8 {
        7
    }
}

#[asn(sequence, extensible_after(f0))]

#[derive(Default, Debug, Clone, PartialEq, Hash)]
pub struct Ts4domde0 {
    #[asn(default(integer(0..7), 5))] pub f0: u8,
    #[asn(optional(integer(0..7)))] pub f1: Option<u8>,
    #[asn(optional(integer(0..7)))] pub f2: Option<u8>,
    #[asn(default(integer(0..7), 5))] pub f3: u8,
}

impl Ts4domde0 {
    pub const fn f0_min() -> u8 {
        0
    }

    pub const fn f0_max() -> u8 {
        7
    }

    pub const fn f1_min() -> u8 {
        0
    }

    pub const fn f1_max() -> u8 {
        7
    }

    pub const fn f2_min() -> u8 {
        0
    }

    pub const fn f2_max() -> u8 {
        7
    }

    pub const fn f3_min() -> u8 {
        0
    }

    pub const fn f3_max() -> u8 {
        7
    }
}

#[asn(sequence, extensible_after(f0))]

#[derive(Default, Debug, Clone, PartialEq, Hash)]
pub struct Ts4domde1 {
    #[asn(default(integer(0..7), 5))] pub f0: u8,
    #[asn(optional(integer(0..7)))] pub f1: Option<u8>,
    #[asn(optional(integer(0..7)))] pub f2: Option<u8>,
    #[asn(default(integer(0..7), 5))] pub f3: u8,
}

impl Ts4domde1 {
    pub const fn f0_min() -> u8 {
        0
    }

    pub const fn f0_max() -> u8 {
        7
    }

    pub const fn f1_min() -> u8 {
        0
    }

    pub const fn f1_max() -> u8 {
        7
    }

    pub const fn f2_min() -> u8 {
        0
    }

    pub const fn f2_max() -> u8 {
        7
    }

    pub const fn f3_min() -> u8 {
        0
    }

    pub const fn f3_max() -> u8 {
        7
    }
}

#[asn(sequence, extensible_after(f1))]

#[derive(Default, Debug, Clone, PartialEq, Hash)]
pub struct Ts4domde2 {
    #[asn(default(integer(0..7), 5))] pub f0: u8,
    #[asn(optional(integer(0..7)))] pub f1: Option<u8>,
    #[asn(optional(integer(0..7)))] pub f2: Option<u8>,
    #[asn(default(integer(0..7), 5))] pub f3: u8,
}

impl Ts4domde2 {
    pub const fn f0_min() -> u8 {
        0
    }

    pub const fn f0_max() -> u8 {
        7
    }

    pub const fn f1_min() -> u8 {
        0
    }

    pub const fn f1_max() -> u8 {
        7
    }

    pub const fn f2_min() -> u8 {
        0
    }

    pub const fn f2_max() -> u8 {
        7
    }

    pub const fn f3_min() -> u8 {
        0
    }

    pub const fn f3_max() -> u8 {
        7
    }
}

#[asn(sequence, extensible_after(f2))]

#[derive(Default, Debug, Clone, PartialEq, Hash)]
pub struct Ts4domde3 {
    #[asn(default(integer(0..7), 5))] pub f0: u8,
    #[asn(optional(integer(0..7)))] pub f1: Option<u8>,
    #[asn(integer(0..7))] pub f2: u8,
    #[asn(default(integer(0..7), 5))] pub f3: u8,
}

impl Ts4domde3 {
    pub const fn f0_min() -> u8 {
        0
    }

    pub const fn f0_max() -> u8 {
        7
    }

    pub const fn f1_min() -> u8 {
        0
    }

    pub const fn f1_max() -> u8 {
        7
    }

    pub const fn f2_min() -> u8 {
        0
    }

    pub const fn f2_max() -> u8 {
        7
    }

    pub const fn f3_min() -> u8 {
        0
    }

    pub const fn f3_max() -> u8 {
        7
    }
}

#[asn(sequence, extensible_after(f3))]

#[derive(Default, Debug, Clone, PartialEq, Hash)]
pub struct Ts4domde4 {
    #[asn(default(integer(0..7), 5))] pub f0: u8,
    #[asn(optional(integer(0..7)))] pub f1: Option<u8>,
    #[asn(integer(0..7))] pub f2: u8,
    #[asn(default(integer(0..7), 5))] pub f3: u8,
}

impl Ts4domde4 {
    pub const fn f0_min() -> u8 {
        0
    }

    pub const fn f0_max() -> u8 {
        7
    }

    pub const fn f1_min() -> u8 {
        0
    }

    pub const fn f1_max() -> u8 {
        7
    }

    pub const fn f2_min() -> u8 {
        0
    }

    pub const fn f2_max() -> u8 {
        7
    }

    pub const fn f3_min() -> u8 {
        0
    }

    pub const fn f3_max() -> u8 {
        7
    }
}
// ---- harness conversions (generated by the zoo build script from the items above) ----
impl FromValue for Ts4oooon {
    fn from_value(v: &Value) -> Self {
        let s = match v { Value::Seq(s) => s, other => panic!("Ts4oooon: expected Seq, got {other:?}") };
        assert_eq!(s.len(), 4, "Ts4oooon: component count");
        let _ = s;
        Ts4oooon {
            f0: s[0].as_ref().map(FromValue::from_value),
            f1: s[1].as_ref().map(FromValue::from_value),
            f2: s[2].as_ref().map(FromValue::from_value),
            f3: s[3].as_ref().map(FromValue::from_value),
        }
    }
}
impl ToValue for Ts4oooon {
    fn to_value(&self) -> Value {
        Value::Seq(vec![
            self.f0.as_ref().map(|x| x.to_value()),
            self.f1.as_ref().map(|x| x.to_value()),
            self.f2.as_ref().map(|x| x.to_value()),
            self.f3.as_ref().map(|x| x.to_value()),
        ])
    }
}
impl FromValue for Ts4ooooe0 {
    fn from_value(v: &Value) -> Self {
        let s = match v { Value::Seq(s) => s, other => panic!("Ts4ooooe0: expected Seq, got {other:?}") };
        assert_eq!(s.len(), 4, "Ts4ooooe0: component count");
        let _ = s;
        Ts4ooooe0 {
            f0: s[0].as_ref().map(FromValue::from_value),
            f1: s[1].as_ref().map(FromValue::from_value),
            f2: s[2].as_ref().map(FromValue::from_value),
            f3: s[3].as_ref().map(FromValue::from_value),
        }
    }
}
impl ToValue for Ts4ooooe0 {
    fn to_value(&self) -> Value {
        Value::Seq(vec![
            self.f0.as_ref().map(|x| x.to_value()),
            self.f1.as_ref().map(|x| x.to_value()),
            self.f2.as_ref().map(|x| x.to_value()),
            self.f3.as_ref().map(|x| x.to_value()),
        ])
    }
}
impl FromValue for Ts4ooooe1 {
    fn from_value(v: &Value) -> Self {
        let s = match v { Value::Seq(s) => s, other => panic!("Ts4ooooe1: expected Seq, got {other:?}") };
        assert_eq!(s.len(), 4, "Ts4ooooe1: component count");
        let _ = s;
        Ts4ooooe1 {
            f0: s[0].as_ref().map(FromValue::from_value),
            f1: s[1].as_ref().map(FromValue::from_value),
            f2: s[2].as_ref().map(FromValue::from_value),
            f3: s[3].as_ref().map(FromValue::from_value),
        }
    }
}
impl ToValue for Ts4ooooe1 {
    fn to_value(&self) -> Value {
        Value::Seq(vec![
            self.f0.as_ref().map(|x| x.to_value()),
            self.f1.as_ref().map(|x| x.to_value()),
            self.f2.as_ref().map(|x| x.to_value()),
            self.f3.as_ref().map(|x| x.to_value()),
        ])
    }
}
impl FromValue for Ts4ooooe2 {
    fn from_value(v: &Value) -> Self {
        let s = match v { Value::Seq(s) => s, other => panic!("Ts4ooooe2: expected Seq, got {other:?}") };
        assert_eq!(s.len(), 4, "Ts4ooooe2: component count");
        let _ = s;
        Ts4ooooe2 {
            f0: s[0].as_ref().map(FromValue::from_value),
            f1: s[1].as_ref().map(FromValue::from_value),
            f2: s[2].as_ref().map(FromValue::from_value),
            f3: s[3].as_ref().map(FromValue::from_value),
        }
    }
}
impl ToValue for Ts4ooooe2 {
    fn to_value(&self) -> Value {
        Value::Seq(vec![
            self.f0.as_ref().map(|x| x.to_value()),
            self.f1.as_ref().map(|x| x.to_value()),
            self.f2.as_ref().map(|x| x.to_value()),
            self.f3.as_ref().map(|x| x.to_value()),
        ])
    }
}
impl FromValue for Ts4ooooe3 {
    fn from_value(v: &Value) -> Self {
        let s = match v { Value::Seq(s) => s, other => panic!("Ts4ooooe3: expected Seq, got {other:?}") };
        assert_eq!(s.len(), 4, "Ts4ooooe3: component count");
        let _ = s;
        Ts4ooooe3 {
            f0: s[0].as_ref().map(FromValue::from_value),
            f1: s[1].as_ref().map(FromValue::from_value),
            f2: s[2].as_ref().map(FromValue::from_value),
            f3: s[3].as_ref().map(FromValue::from_value),
        }
    }
}
impl ToValue for Ts4ooooe3 {
    fn to_value(&self) -> Value {
        Value::Seq(vec![
            self.f0.as_ref().map(|x| x.to_value()),
            self.f1.as_ref().map(|x| x.to_value()),
            self.f2.as_ref().map(|x| x.to_value()),
            self.f3.as_ref().map(|x| x.to_value()),
        ])
    }
}
impl FromValue for Ts4ooooe4 {
    fn from_value(v: &Value) -> Self {
        let s = match v { Value::Seq(s) => s, other => panic!("Ts4ooooe4: expected Seq, got {other:?}") };
        assert_eq!(s.len(), 4, "Ts4ooooe4: component count");
        let _ = s;
        Ts4ooooe4 {
            f0: s[0].as_ref().map(FromValue::from_value),
            f1: s[1].as_ref().map(FromValue::from_value),
            f2: s[2].as_ref().map(FromValue::from_value),
            f3: s[3].as_ref().map(FromValue::from_value),
        }
    }
}
impl ToValue for Ts4ooooe4 {
    fn to_value(&self) -> Value {
        Value::Seq(vec![
            self.f0.as_ref().map(|x| x.to_value()),
            self.f1.as_ref().map(|x| x.to_value()),
            self.f2.as_ref().map(|x| x.to_value()),
            self.f3.as_ref().map(|x| x.to_value()),
        ])
    }
}
impl FromValue for Ts4dooon {
    fn from_value(v: &Value) -> Self {
        let s = match v { Value::Seq(s) => s, other => panic!("Ts4dooon: expected Seq, got {other:?}") };
        assert_eq!(s.len(), 4, "Ts4dooon: component count");
        let _ = s;
        Ts4dooon {
            f0: FromValue::from_value(s[0].as_ref().expect("component f0 of Ts4dooon must be present")),
            f1: s[1].as_ref().map(FromValue::from_value),
            f2: s[2].as_ref().map(FromValue::from_value),
            f3: s[3].as_ref().map(FromValue::from_value),
        }
    }
}
impl ToValue for Ts4dooon {
    fn to_value(&self) -> Value {
        Value::Seq(vec![
            Some(self.f0.to_value()),
            self.f1.as_ref().map(|x| x.to_value()),
            self.f2.as_ref().map(|x| x.to_value()),
            self.f3.as_ref().map(|x| x.to_value()),
        ])
    }
}
impl FromValue for Ts4doooe0 {
    fn from_value(v: &Value) -> Self {
        let s = match v { Value::Seq(s) => s, other => panic!("Ts4doooe0: expected Seq, got {other:?}") };
        assert_eq!(s.len(), 4, "Ts4doooe0: component count");
        let _ = s;
        Ts4doooe0 {
            f0: FromValue::from_value(s[0].as_ref().expect("component f0 of Ts4doooe0 must be present")),
            f1: s[1].as_ref().map(FromValue::from_value),
            f2: s[2].as_ref().map(FromValue::from_value),
            f3: s[3].as_ref().map(FromValue::from_value),
        }
    }
}
impl ToValue for Ts4doooe0 {
    fn to_value(&self) -> Value {
        Value::Seq(vec![
            Some(self.f0.to_value()),
            self.f1.as_ref().map(|x| x.to_value()),
            self.f2.as_ref().map(|x| x.to_value()),
            self.f3.as_ref().map(|x| x.to_value()),
        ])
    }
}
impl FromValue for Ts4doooe1 {
    fn from_value(v: &Value) -> Self {
        let s = match v { Value::Seq(s) => s, other => panic!("Ts4doooe1: expected Seq, got {other:?}") };
        assert_eq!(s.len(), 4, "Ts4doooe1: component count");
        let _ = s;
        Ts4doooe1 {
            f0: FromValue::from_value(s[0].as_ref().expect("component f0 of Ts4doooe1 must be present")),
            f1: s[1].as_ref().map(FromValue::from_value),
            f2: s[2].as_ref().map(FromValue::from_value),
            f3: s[3].as_ref().map(FromValue::from_value),
        }
    }
}
impl ToValue for Ts4doooe1 {
    fn to_value(&self) -> Value {
        Value::Seq(vec![
            Some(self.f0.to_value()),
            self.f1.as_ref().map(|x| x.to_value()),
            self.f2.as_ref().map(|x| x.to_value()),
            self.f3.as_ref().map(|x| x.to_value()),
        ])
    }
}
impl FromValue for Ts4doooe2 {
    fn from_value(v: &Value) -> Self {
        let s = match v { Value::Seq(s) => s, other => panic!("Ts4doooe2: expected Seq, got {other:?}") };
        assert_eq!(s.len(), 4, "Ts4doooe2: component count");
        let _ = s;
        Ts4doooe2 {
            f0: FromValue::from_value(s[0].as_ref().expect("component f0 of Ts4doooe2 must be present")),
            f1: s[1].as_ref().map(FromValue::from_value),
            f2: s[2].as_ref().map(FromValue::from_value),
            f3: s[3].as_ref().map(FromValue::from_value),
        }
    }
}
impl ToValue for Ts4doooe2 {
    fn to_value(&self) -> Value {
        Value::Seq(vec![
            Some(self.f0.to_value()),
            self.f1.as_ref().map(|x| x.to_value()),
            self.f2.as_ref().map(|x| x.to_value()),
            self.f3.as_ref().map(|x| x.to_value()),
        ])
    }
}
impl FromValue for Ts4doooe3 {
    fn from_value(v: &Value) -> Self {
        let s = match v { Value::Seq(s) => s, other => panic!("Ts4doooe3: expected Seq, got {other:?}") };
        assert_eq!(s.len(), 4, "Ts4doooe3: component count");
        let _ = s;
        Ts4doooe3 {
            f0: FromValue::from_value(s[0].as_ref().expect("component f0 of Ts4doooe3 must be present")),
            f1: s[1].as_ref().map(FromValue::from_value),
            f2: s[2].as_ref().map(FromValue::from_value),
            f3: s[3].as_ref().map(FromValue::from_value),
        }
    }
}
impl ToValue for Ts4doooe3 {
    fn to_value(&self) -> Value {
        Value::Seq(vec![
            Some(self.f0.to_value()),
            self.f1.as_ref().map(|x| x.to_value()),
            self.f2.as_ref().map(|x| x.to_value()),
            self.f3.as_ref().map(|x| x.to_value()),
        ])
    }
}
impl FromValue for Ts4doooe4 {
    fn from_value(v: &Value) -> Self {
        let s = match v { Value::Seq(s) => s, other => panic!("Ts4doooe4: expected Seq, got {other:?}") };
        assert_eq!(s.len(), 4, "Ts4doooe4: component count");
        let _ = s;
        Ts4doooe4 {
            f0: FromValue::from_value(s[0].as_ref().expect("component f0 of Ts4doooe4 must be present")),
            f1: s[1].as_ref().map(FromValue::from_value),
            f2: s[2].as_ref().map(FromValue::from_value),
            f3: s[3].as_ref().map(FromValue::from_value),
        }
    }
}
impl ToValue for Ts4doooe4 {
    fn to_value(&self) -> Value {
        Value::Seq(vec![
            Some(self.f0.to_value()),
            self.f1.as_ref().map(|x| x.to_value()),
            self.f2.as_ref().map(|x| x.to_value()),
            self.f3.as_ref().map(|x| x.to_value()),
        ])
    }
}
impl FromValue for Ts4mdoon {
    fn from_value(v: &Value) -> Self {
        let s = match v { Value::Seq(s) => s, other => panic!("Ts4mdoon: expected Seq, got {other:?}") };
        assert_eq!(s.len(), 4, "Ts4mdoon: component count");
        let _ = s;
        Ts4mdoon {
            f0: FromValue::from_value(s[0].as_ref().expect("component f0 of Ts4mdoon must be present")),
            f1: FromValue::from_value(s[1].as_ref().expect("component f1 of Ts4mdoon must be present")),
            f2: s[2].as_ref().map(FromValue::from_value),
            f3: s[3].as_ref().map(FromValue::from_value),
        }
    }
}
impl ToValue for Ts4mdoon {
    fn to_value(&self) -> Value {
        Value::Seq(vec![
            Some(self.f0.to_value()),
            Some(self.f1.to_value()),
            self.f2.as_ref().map(|x| x.to_value()),
            self.f3.as_ref().map(|x| x.to_value()),
        ])
    }
}
impl FromValue for Ts4mdooe0 {
    fn from_value(v: &Value) -> Self {
        let s = match v { Value::Seq(s) => s, other => panic!("Ts4mdooe0: expected Seq, got {other:?}") };
        assert_eq!(s.len(), 4, "Ts4mdooe0: component count");
        let _ = s;
        Ts4mdooe0 {
            f0: FromValue::from_value(s[0].as_ref().expect("component f0 of Ts4mdooe0 must be present")),
            f1: FromValue::from_value(s[1].as_ref().expect("component f1 of Ts4mdooe0 must be present")),
            f2: s[2].as_ref().map(FromValue::from_value),
            f3: s[3].as_ref().map(FromValue::from_value),
        }
    }
}
impl ToValue for Ts4mdooe0 {
    fn to_value(&self) -> Value {
        Value::Seq(vec![
            Some(self.f0.to_value()),
            Some(self.f1.to_value()),
            self.f2.as_ref().map(|x| x.to_value()),
            self.f3.as_ref().map(|x| x.to_value()),
        ])
    }
}
impl FromValue for Ts4mdooe1 {
    fn from_value(v: &Value) -> Self {
        let s = match v { Value::Seq(s) => s, other => panic!("Ts4mdooe1: expected Seq, got {other:?}") };
        assert_eq!(s.len(), 4, "Ts4mdooe1: component count");
        let _ = s;
        Ts4mdooe1 {
            f0: FromValue::from_value(s[0].as_ref().expect("component f0 of Ts4mdooe1 must be present")),
            f1: FromValue::from_value(s[1].as_ref().expect("component f1 of Ts4mdooe1 must be present")),
            f2: s[2].as_ref().map(FromValue::from_value),
            f3: s[3].as_ref().map(FromValue::from_value),
        }
    }
}
impl ToValue for Ts4mdooe1 {
    fn to_value(&self) -> Value {
        Value::Seq(vec![
            Some(self.f0.to_value()),
            Some(self.f1.to_value()),
            self.f2.as_ref().map(|x| x.to_value()),
            self.f3.as_ref().map(|x| x.to_value()),
        ])
    }
}
impl FromValue for Ts4mdooe2 {
    fn from_value(v: &Value) -> Self {
        let s = match v { Value::Seq(s) => s, other => panic!("Ts4mdooe2: expected Seq, got {other:?}") };
        assert_eq!(s.len(), 4, "Ts4mdooe2: component count");
        let _ = s;
        Ts4mdooe2 {
            f0: FromValue::from_value(s[0].as_ref().expect("component f0 of Ts4mdooe2 must be present")),
            f1: FromValue::from_value(s[1].as_ref().expect("component f1 of Ts4mdooe2 must be present")),
            f2: s[2].as_ref().map(FromValue::from_value),
            f3: s[3].as_ref().map(FromValue::from_value),
        }
    }
}
impl ToValue for Ts4mdooe2 {
    fn to_value(&self) -> Value {
        Value::Seq(vec![
            Some(self.f0.to_value()),
            Some(self.f1.to_value()),
            self.f2.as_ref().map(|x| x.to_value()),
            self.f3.as_ref().map(|x| x.to_value()),
        ])
    }
}
impl FromValue for Ts4mdooe3 {
    fn from_value(v: &Value) -> Self {
        let s = match v { Value::Seq(s) => s, other => panic!("Ts4mdooe3: expected Seq, got {other:?}") };
        assert_eq!(s.len(), 4, "Ts4mdooe3: component count");
        let _ = s;
        Ts4mdooe3 {
            f0: FromValue::from_value(s[0].as_ref().expect("component f0 of Ts4mdooe3 must be present")),
            f1: FromValue::from_value(s[1].as_ref().expect("component f1 of Ts4mdooe3 must be present")),
            f2: s[2].as_ref().map(FromValue::from_value),
            f3: s[3].as_ref().map(FromValue::from_value),
        }
    }
}
impl ToValue for Ts4mdooe3 {
    fn to_value(&self) -> Value {
        Value::Seq(vec![
            Some(self.f0.to_value()),
            Some(self.f1.to_value()),
            self.f2.as_ref().map(|x| x.to_value()),
            self.f3.as_ref().map(|x| x.to_value()),
        ])
    }
}
impl FromValue for Ts4mdooe4 {
    fn from_value(v: &Value) -> Self {
        let s = match v { Value::Seq(s) => s, other => panic!("Ts4mdooe4: expected Seq, got {other:?}") };
        assert_eq!(s.len(), 4, "Ts4mdooe4: component count");
        let _ = s;
        Ts4mdooe4 {
            f0: FromValue::from_value(s[0].as_ref().expect("component f0 of Ts4mdooe4 must be present")),
            f1: FromValue::from_value(s[1].as_ref().expect("component f1 of Ts4mdooe4 must be present")),
            f2: s[2].as_ref().map(FromValue::from_value),
            f3: s[3].as_ref().map(FromValue::from_value),
        }
    }
}
impl ToValue for Ts4mdooe4 {
    fn to_value(&self) -> Value {
        Value::Seq(vec![
            Some(self.f0.to_value()),
            Some(self.f1.to_value()),
            self.f2.as_ref().map(|x| x.to_value()),
            self.f3.as_ref().map(|x| x.to_value()),
        ])
    }
}
impl FromValue for Ts4odoon {
    fn from_value(v: &Value) -> Self {
        let s = match v { Value::Seq(s) => s, other => panic!("Ts4odoon: expected Seq, got {other:?}") };
        assert_eq!(s.len(), 4, "Ts4odoon: component count");
        let _ = s;
        Ts4odoon {
            f0: s[0].as_ref().map(FromValue::from_value),
            f1: FromValue::from_value(s[1].as_ref().expect("component f1 of Ts4odoon must be present")),
            f2: s[2].as_ref().map(FromValue::from_value),
            f3: s[3].as_ref().map(FromValue::from_value),
        }
    }
}
impl ToValue for Ts4odoon {
    fn to_value(&self) -> Value {
        Value::Seq(vec![
            self.f0.as_ref().map(|x| x.to_value()),
            Some(self.f1.to_value()),
            self.f2.as_ref().map(|x| x.to_value()),
            self.f3.as_ref().map(|x| x.to_value()),
        ])
    }
}
impl FromValue for Ts4odooe0 {
    fn from_value(v: &Value) -> Self {
        let s = match v { Value::Seq(s) => s, other => panic!("Ts4odooe0: expected Seq, got {other:?}") };
        assert_eq!(s.len(), 4, "Ts4odooe0: component count");
        let _ = s;
        Ts4odooe0 {
            f0: s[0].as_ref().map(FromValue::from_value),
            f1: FromValue::from_value(s[1].as_ref().expect("component f1 of Ts4odooe0 must be present")),
            f2: s[2].as_ref().map(FromValue::from_value),
            f3: s[3].as_ref().map(FromValue::from_value),
        }
    }
}
impl ToValue for Ts4odooe0 {
    fn to_value(&self) -> Value {
        Value::Seq(vec![
            self.f0.as_ref().map(|x| x.to_value()),
            Some(self.f1.to_value()),
            self.f2.as_ref().map(|x| x.to_value()),
            self.f3.as_ref().map(|x| x.to_value()),
        ])
    }
}
impl FromValue for Ts4odooe1 {
    fn from_value(v: &Value) -> Self {
        let s = match v { Value::Seq(s) => s, other => panic!("Ts4odooe1: expected Seq, got {other:?}") };
        assert_eq!(s.len(), 4, "Ts4odooe1: component count");
        let _ = s;
        Ts4odooe1 {
            f0: s[0].as_ref().map(FromValue::from_value),
            f1: FromValue::from_value(s[1].as_ref().expect("component f1 of Ts4odooe1 must be present")),
            f2: s[2].as_ref().map(FromValue::from_value),
            f3: s[3].as_ref().map(FromValue::from_value),
        }
    }
}
impl ToValue for Ts4odooe1 {
    fn to_value(&self) -> Value {
        Value::Seq(vec![
            self.f0.as_ref().map(|x| x.to_value()),
            Some(self.f1.to_value()),
            self.f2.as_ref().map(|x| x.to_value()),
            self.f3.as_ref().map(|x| x.to_value()),
        ])
    }
}
impl FromValue for Ts4odooe2 {
    fn from_value(v: &Value) -> Self {
        let s = match v { Value::Seq(s) => s, other => panic!("Ts4odooe2: expected Seq, got {other:?}") };
        assert_eq!(s.len(), 4, "Ts4odooe2: component count");
        let _ = s;
        Ts4odooe2 {
            f0: s[0].as_ref().map(FromValue::from_value),
            f1: FromValue::from_value(s[1].as_ref().expect("component f1 of Ts4odooe2 must be present")),
            f2: s[2].as_ref().map(FromValue::from_value),
            f3: s[3].as_ref().map(FromValue::from_value),
        }
    }
}
impl ToValue for Ts4odooe2 {
    fn to_value(&self) -> Value {
        Value::Seq(vec![
            self.f0.as_ref().map(|x| x.to_value()),
            Some(self.f1.to_value()),
            self.f2.as_ref().map(|x| x.to_value()),
            self.f3.as_ref().map(|x| x.to_value()),
        ])
    }
}
impl FromValue for Ts4odooe3 {
    fn from_value(v: &Value) -> Self {
        let s = match v { Value::Seq(s) => s, other => panic!("Ts4odooe3: expected Seq, got {other:?}") };
        assert_eq!(s.len(), 4, "Ts4odooe3: component count");
        let _ = s;
        Ts4odooe3 {
            f0: s[0].as_ref().map(FromValue::from_value),
            f1: FromValue::from_value(s[1].as_ref().expect("component f1 of Ts4odooe3 must be present")),
            f2: s[2].as_ref().map(FromValue::from_value),
            f3: s[3].as_ref().map(FromValue::from_value),
        }
    }
}
impl ToValue for Ts4odooe3 {
    fn to_value(&self) -> Value {
        Value::Seq(vec![
            self.f0.as_ref().map(|x| x.to_value()),
            Some(self.f1.to_value()),
            self.f2.as_ref().map(|x| x.to_value()),
            self.f3.as_ref().map(|x| x.to_value()),
        ])
    }
}
impl FromValue for Ts4odooe4 {
    fn from_value(v: &Value) -> Self {
        let s = match v { Value::Seq(s) => s, other => panic!("Ts4odooe4: expected Seq, got {other:?}") };
        assert_eq!(s.len(), 4, "Ts4odooe4: component count");
        let _ = s;
        Ts4odooe4 {
            f0: s[0].as_ref().map(FromValue::from_value),
            f1: FromValue::from_value(s[1].as_ref().expect("component f1 of Ts4odooe4 must be present")),
            f2: s[2].as_ref().map(FromValue::from_value),
            f3: s[3].as_ref().map(FromValue::from_value),
        }
    }
}
impl ToValue for Ts4odooe4 {
    fn to_value(&self) -> Value {
        Value::Seq(vec![
            self.f0.as_ref().map(|x| x.to_value()),
            Some(self.f1.to_value()),
            self.f2.as_ref().map(|x| x.to_value()),
            self.f3.as_ref().map(|x| x.to_value()),
        ])
    }
}
impl FromValue for Ts4ddoon {
    fn from_value(v: &Value) -> Self {
        let s = match v { Value::Seq(s) => s, other => panic!("Ts4ddoon: expected Seq, got {other:?}") };
        assert_eq!(s.len(), 4, "Ts4ddoon: component count");
        let _ = s;
        Ts4ddoon {
            f0: FromValue::from_value(s[0].as_ref().expect("component f0 of Ts4ddoon must be present")),
            f1: FromValue::from_value(s[1].as_ref().expect("component f1 of Ts4ddoon must be present")),
            f2: s[2].as_ref().map(FromValue::from_value),
            f3: s[3].as_ref().map(FromValue::from_value),
        }
    }
}
impl ToValue for Ts4ddoon {
    fn to_value(&self) -> Value {
        Value::Seq(vec![
            Some(self.f0.to_value()),
            Some(self.f1.to_value()),
            self.f2.as_ref().map(|x| x.to_value()),
            self.f3.as_ref().map(|x| x.to_value()),
        ])
    }
}
impl FromValue for Ts4ddooe0 {
    fn from_value(v: &Value) -> Self {
        let s = match v { Value::Seq(s) => s, other => panic!("Ts4ddooe0: expected Seq, got {other:?}") };
        assert_eq!(s.len(), 4, "Ts4ddooe0: component count");
        let _ = s;
        Ts4ddooe0 {
            f0: FromValue::from_value(s[0].as_ref().expect("component f0 of Ts4ddooe0 must be present")),
            f1: FromValue::from_value(s[1].as_ref().expect("component f1 of Ts4ddooe0 must be present")),
            f2: s[2].as_ref().map(FromValue::from_value),
            f3: s[3].as_ref().map(FromValue::from_value),
        }
    }
}
impl ToValue for Ts4ddooe0 {
    fn to_value(&self) -> Value {
        Value::Seq(vec![
            Some(self.f0.to_value()),
            Some(self.f1.to_value()),
            self.f2.as_ref().map(|x| x.to_value()),
            self.f3.as_ref().map(|x| x.to_value()),
        ])
    }
}
impl FromValue for Ts4ddooe1 {
    fn from_value(v: &Value) -> Self {
        let s = match v { Value::Seq(s) => s, other => panic!("Ts4ddooe1: expected Seq, got {other:?}") };
        assert_eq!(s.len(), 4, "Ts4ddooe1: component count");
        let _ = s;
        Ts4ddooe1 {
            f0: FromValue::from_value(s[0].as_ref().expect("component f0 of Ts4ddooe1 must be present")),
            f1: FromValue::from_value(s[1].as_ref().expect("component f1 of Ts4ddooe1 must be present")),
            f2: s[2].as_ref().map(FromValue::from_value),
            f3: s[3].as_ref().map(FromValue::from_value),
        }
    }
}
impl ToValue for Ts4ddooe1 {
    fn to_value(&self) -> Value {
        Value::Seq(vec![
            Some(self.f0.to_value()),
            Some(self.f1.to_value()),
            self.f2.as_ref().map(|x| x.to_value()),
            self.f3.as_ref().map(|x| x.to_value()),
        ])
    }
}
impl FromValue for Ts4ddooe2 {
    fn from_value(v: &Value) -> Self {
        let s = match v { Value::Seq(s) => s, other => panic!("Ts4ddooe2: expected Seq, got {other:?}") };
        assert_eq!(s.len(), 4, "Ts4ddooe2: component count");
        let _ = s;
        Ts4ddooe2 {
            f0: FromValue::from_value(s[0].as_ref().expect("component f0 of Ts4ddooe2 must be present")),
            f1: FromValue::from_value(s[1].as_ref().expect("component f1 of Ts4ddooe2 must be present")),
            f2: s[2].as_ref().map(FromValue::from_value),
            f3: s[3].as_ref().map(FromValue::from_value),
        }
    }
}
impl ToValue for Ts4ddooe2 {
    fn to_value(&self) -> Value {
        Value::Seq(vec![
            Some(self.f0.to_value()),
            Some(self.f1.to_value()),
            self.f2.as_ref().map(|x| x.to_value()),
            self.f3.as_ref().map(|x| x.to_value()),
        ])
    }
}
impl FromValue for Ts4ddooe3 {
    fn from_value(v: &Value) -> Self {
        let s = match v { Value::Seq(s) => s, other => panic!("Ts4ddooe3: expected Seq, got {other:?}") };
        assert_eq!(s.len(), 4, "Ts4ddooe3: component count");
        let _ = s;
        Ts4ddooe3 {
            f0: FromValue::from_value(s[0].as_ref().expect("component f0 of Ts4ddooe3 must be present")),
            f1: FromValue::from_value(s[1].as_ref().expect("component f1 of Ts4ddooe3 must be present")),
            f2: s[2].as_ref().map(FromValue::from_value),
            f3: s[3].as_ref().map(FromValue::from_value),
        }
    }
}
impl ToValue for Ts4ddooe3 {
    fn to_value(&self) -> Value {
        Value::Seq(vec![
            Some(self.f0.to_value()),
            Some(self.f1.to_value()),
            self.f2.as_ref().map(|x| x.to_value()),
            self.f3.as_ref().map(|x| x.to_value()),
        ])
    }
}
impl FromValue for Ts4ddooe4 {
    fn from_value(v: &Value) -> Self {
        let s = match v { Value::Seq(s) => s, other => panic!("Ts4ddooe4: expected Seq, got {other:?}") };
        assert_eq!(s.len(), 4, "Ts4ddooe4: component count");
        let _ = s;
        Ts4ddooe4 {
            f0: FromValue::from_value(s[0].as_ref().expect("component f0 of Ts4ddooe4 must be present")),
            f1: FromValue::from_value(s[1].as_ref().expect("component f1 of Ts4ddooe4 must be present")),
            f2: s[2].as_ref().map(FromValue::from_value),
            f3: s[3].as_ref().map(FromValue::from_value),
        }
    }
}
impl ToValue for Ts4ddooe4 {
    fn to_value(&self) -> Value {
        Value::Seq(vec![
            Some(self.f0.to_value()),
            Some(self.f1.to_value()),
            self.f2.as_ref().map(|x| x.to_value()),
            self.f3.as_ref().map(|x| x.to_value()),
        ])
    }
}
impl FromValue for Ts4mmdon {
    fn from_value(v: &Value) -> Self {
        let s = match v { Value::Seq(s) => s, other => panic!("Ts4mmdon: expected Seq, got {other:?}") };
        assert_eq!(s.len(), 4, "Ts4mmdon: component count");
        let _ = s;
        Ts4mmdon {
            f0: FromValue::from_value(s[0].as_ref().expect("component f0 of Ts4mmdon must be present")),
            f1: FromValue::from_value(s[1].as_ref().expect("component f1 of Ts4mmdon must be present")),
            f2: FromValue::from_value(s[2].as_ref().expect("component f2 of Ts4mmdon must be present")),
            f3: s[3].as_ref().map(FromValue::from_value),
        }
    }
}
impl ToValue for Ts4mmdon {
    fn to_value(&self) -> Value {
        Value::Seq(vec![
            Some(self.f0.to_value()),
            Some(self.f1.to_value()),
            Some(self.f2.to_value()),
            self.f3.as_ref().map(|x| x.to_value()),
        ])
    }
}
impl FromValue for Ts4mmdoe0 {
    fn from_value(v: &Value) -> Self {
        let s = match v { Value::Seq(s) => s, other => panic!("Ts4mmdoe0: expected Seq, got {other:?}") };
        assert_eq!(s.len(), 4, "Ts4mmdoe0: component count");
        let _ = s;
        Ts4mmdoe0 {
            f0: FromValue::from_value(s[0].as_ref().expect("component f0 of Ts4mmdoe0 must be present")),
            f1: s[1].as_ref().map(FromValue::from_value),
            f2: FromValue::from_value(s[2].as_ref().expect("component f2 of Ts4mmdoe0 must be present")),
            f3: s[3].as_ref().map(FromValue::from_value),
        }
    }
}
impl ToValue for Ts4mmdoe0 {
    fn to_value(&self) -> Value {
        Value::Seq(vec![
            Some(self.f0.to_value()),
            self.f1.as_ref().map(|x| x.to_value()),
            Some(self.f2.to_value()),
            self.f3.as_ref().map(|x| x.to_value()),
        ])
    }
}
impl FromValue for Ts4mmdoe1 {
    fn from_value(v: &Value) -> Self {
        let s = match v { Value::Seq(s) => s, other => panic!("Ts4mmdoe1: expected Seq, got {other:?}") };
        assert_eq!(s.len(), 4, "Ts4mmdoe1: component count");
        let _ = s;
        Ts4mmdoe1 {
            f0: FromValue::from_value(s[0].as_ref().expect("component f0 of Ts4mmdoe1 must be present")),
            f1: s[1].as_ref().map(FromValue::from_value),
            f2: FromValue::from_value(s[2].as_ref().expect("component f2 of Ts4mmdoe1 must be present")),
            f3: s[3].as_ref().map(FromValue::from_value),
        }
    }
}
impl ToValue for Ts4mmdoe1 {
    fn to_value(&self) -> Value {
        Value::Seq(vec![
            Some(self.f0.to_value()),
            self.f1.as_ref().map(|x| x.to_value()),
            Some(self.f2.to_value()),
            self.f3.as_ref().map(|x| x.to_value()),
        ])
    }
}
impl FromValue for Ts4mmdoe2 {
    fn from_value(v: &Value) -> Self {
        let s = match v { Value::Seq(s) => s, other => panic!("Ts4mmdoe2: expected Seq, got {other:?}") };
        assert_eq!(s.len(), 4, "Ts4mmdoe2: component count");
        let _ = s;
        Ts4mmdoe2 {
            f0: FromValue::from_value(s[0].as_ref().expect("component f0 of Ts4mmdoe2 must be present")),
            f1: FromValue::from_value(s[1].as_ref().expect("component f1 of Ts4mmdoe2 must be present")),
            f2: FromValue::from_value(s[2].as_ref().expect("component f2 of Ts4mmdoe2 must be present")),
            f3: s[3].as_ref().map(FromValue::from_value),
        }
    }
}
impl ToValue for Ts4mmdoe2 {
    fn to_value(&self) -> Value {
        Value::Seq(vec![
            Some(self.f0.to_value()),
            Some(self.f1.to_value()),
            Some(self.f2.to_value()),
            self.f3.as_ref().map(|x| x.to_value()),
        ])
    }
}
impl FromValue for Ts4mmdoe3 {
    fn from_value(v: &Value) -> Self {
        let s = match v { Value::Seq(s) => s, other => panic!("Ts4mmdoe3: expected Seq, got {other:?}") };
        assert_eq!(s.len(), 4, "Ts4mmdoe3: component count");
        let _ = s;
        Ts4mmdoe3 {
            f0: FromValue::from_value(s[0].as_ref().expect("component f0 of Ts4mmdoe3 must be present")),
            f1: FromValue::from_value(s[1].as_ref().expect("component f1 of Ts4mmdoe3 must be present")),
            f2: FromValue::from_value(s[2].as_ref().expect("component f2 of Ts4mmdoe3 must be present")),
            f3: s[3].as_ref().map(FromValue::from_value),
        }
    }
}
impl ToValue for Ts4mmdoe3 {
    fn to_value(&self) -> Value {
        Value::Seq(vec![
            Some(self.f0.to_value()),
            Some(self.f1.to_value()),
            Some(self.f2.to_value()),
            self.f3.as_ref().map(|x| x.to_value()),
        ])
    }
}
impl FromValue for Ts4mmdoe4 {
    fn from_value(v: &Value) -> Self {
        let s = match v { Value::Seq(s) => s, other => panic!("Ts4mmdoe4: expected Seq, got {other:?}") };
        assert_eq!(s.len(), 4, "Ts4mmdoe4: component count");
        let _ = s;
        Ts4mmdoe4 {
            f0: FromValue::from_value(s[0].as_ref().expect("component f0 of Ts4mmdoe4 must be present")),
            f1: FromValue::from_value(s[1].as_ref().expect("component f1 of Ts4mmdoe4 must be present")),
            f2: FromValue::from_value(s[2].as_ref().expect("component f2 of Ts4mmdoe4 must be present")),
            f3: s[3].as_ref().map(FromValue::from_value),
        }
    }
}
impl ToValue for Ts4mmdoe4 {
    fn to_value(&self) -> Value {
        Value::Seq(vec![
            Some(self.f0.to_value()),
            Some(self.f1.to_value()),
            Some(self.f2.to_value()),
            self.f3.as_ref().map(|x| x.to_value()),
        ])
    }
}
impl FromValue for Ts4omdon {
    fn from_value(v: &Value) -> Self {
        let s = match v { Value::Seq(s) => s, other => panic!("Ts4omdon: expected Seq, got {other:?}") };
        assert_eq!(s.len(), 4, "Ts4omdon: component count");
        let _ = s;
        Ts4omdon {
            f0: s[0].as_ref().map(FromValue::from_value),
            f1: FromValue::from_value(s[1].as_ref().expect("component f1 of Ts4omdon must be present")),
            f2: FromValue::from_value(s[2].as_ref().expect("component f2 of Ts4omdon must be present")),
            f3: s[3].as_ref().map(FromValue::from_value),
        }
    }
}
impl ToValue for Ts4omdon {
    fn to_value(&self) -> Value {
        Value::Seq(vec![
            self.f0.as_ref().map(|x| x.to_value()),
            Some(self.f1.to_value()),
            Some(self.f2.to_value()),
            self.f3.as_ref().map(|x| x.to_value()),
        ])
    }
}
impl FromValue for Ts4omdoe0 {
    fn from_value(v: &Value) -> Self {
        let s = match v { Value::Seq(s) => s, other => panic!("Ts4omdoe0: expected Seq, got {other:?}") };
        assert_eq!(s.len(), 4, "Ts4omdoe0: component count");
        let _ = s;
        Ts4omdoe0 {
            f0: s[0].as_ref().map(FromValue::from_value),
            f1: s[1].as_ref().map(FromValue::from_value),
            f2: FromValue::from_value(s[2].as_ref().expect("component f2 of Ts4omdoe0 must be present")),
            f3: s[3].as_ref().map(FromValue::from_value),
        }
    }
}
impl ToValue for Ts4omdoe0 {
    fn to_value(&self) -> Value {
        Value::Seq(vec![
            self.f0.as_ref().map(|x| x.to_value()),
            self.f1.as_ref().map(|x| x.to_value()),
            Some(self.f2.to_value()),
            self.f3.as_ref().map(|x| x.to_value()),
        ])
    }
}
impl FromValue for Ts4omdoe1 {
    fn from_value(v: &Value) -> Self {
        let s = match v { Value::Seq(s) => s, other => panic!("Ts4omdoe1: expected Seq, got {other:?}") };
        assert_eq!(s.len(), 4, "Ts4omdoe1: component count");
        let _ = s;
        Ts4omdoe1 {
            f0: s[0].as_ref().map(FromValue::from_value),
            f1: s[1].as_ref().map(FromValue::from_value),
            f2: FromValue::from_value(s[2].as_ref().expect("component f2 of Ts4omdoe1 must be present")),
            f3: s[3].as_ref().map(FromValue::from_value),
        }
    }
}
impl ToValue for Ts4omdoe1 {
    fn to_value(&self) -> Value {
        Value::Seq(vec![
            self.f0.as_ref().map(|x| x.to_value()),
            self.f1.as_ref().map(|x| x.to_value()),
            Some(self.f2.to_value()),
            self.f3.as_ref().map(|x| x.to_value()),
        ])
    }
}
impl FromValue for Ts4omdoe2 {
    fn from_value(v: &Value) -> Self {
        let s = match v { Value::Seq(s) => s, other => panic!("Ts4omdoe2: expected Seq, got {other:?}") };
        assert_eq!(s.len(), 4, "Ts4omdoe2: component count");
        let _ = s;
        Ts4omdoe2 {
            f0: s[0].as_ref().map(FromValue::from_value),
            f1: FromValue::from_value(s[1].as_ref().expect("component f1 of Ts4omdoe2 must be present")),
            f2: FromValue::from_value(s[2].as_ref().expect("component f2 of Ts4omdoe2 must be present")),
            f3: s[3].as_ref().map(FromValue::from_value),
        }
    }
}
impl ToValue for Ts4omdoe2 {
    fn to_value(&self) -> Value {
        Value::Seq(vec![
            self.f0.as_ref().map(|x| x.to_value()),
            Some(self.f1.to_value()),
            Some(self.f2.to_value()),
            self.f3.as_ref().map(|x| x.to_value()),
        ])
    }
}
impl FromValue for Ts4omdoe3 {
    fn from_value(v: &Value) -> Self {
        let s = match v { Value::Seq(s) => s, other => panic!("Ts4omdoe3: expected Seq, got {other:?}") };
        assert_eq!(s.len(), 4, "Ts4omdoe3: component count");
        let _ = s;
        Ts4omdoe3 {
            f0: s[0].as_ref().map(FromValue::from_value),
            f1: FromValue::from_value(s[1].as_ref().expect("component f1 of Ts4omdoe3 must be present")),
            f2: FromValue::from_value(s[2].as_ref().expect("component f2 of Ts4omdoe3 must be present")),
            f3: s[3].as_ref().map(FromValue::from_value),
        }
    }
}
impl ToValue for Ts4omdoe3 {
    fn to_value(&self) -> Value {
        Value::Seq(vec![
            self.f0.as_ref().map(|x| x.to_value()),
            Some(self.f1.to_value()),
            Some(self.f2.to_value()),
            self.f3.as_ref().map(|x| x.to_value()),
        ])
    }
}
impl FromValue for Ts4omdoe4 {
    fn from_value(v: &Value) -> Self {
        let s = match v { Value::Seq(s) => s, other => panic!("Ts4omdoe4: expected Seq, got {other:?}") };
        assert_eq!(s.len(), 4, "Ts4omdoe4: component count");
        let _ = s;
        Ts4omdoe4 {
            f0: s[0].as_ref().map(FromValue::from_value),
            f1: FromValue::from_value(s[1].as_ref().expect("component f1 of Ts4omdoe4 must be present")),
            f2: FromValue::from_value(s[2].as_ref().expect("component f2 of Ts4omdoe4 must be present")),
            f3: s[3].as_ref().map(FromValue::from_value),
        }
    }
}
impl ToValue for Ts4omdoe4 {
    fn to_value(&self) -> Value {
        Value::Seq(vec![
            self.f0.as_ref().map(|x| x.to_value()),
            Some(self.f1.to_value()),
            Some(self.f2.to_value()),
            self.f3.as_ref().map(|x| x.to_value()),
        ])
    }
}
impl FromValue for Ts4dmdon {
    fn from_value(v: &Value) -> Self {
        let s = match v { Value::Seq(s) => s, other => panic!("Ts4dmdon: expected Seq, got {other:?}") };
        assert_eq!(s.len(), 4, "Ts4dmdon: component count");
        let _ = s;
        Ts4dmdon {
            f0: FromValue::from_value(s[0].as_ref().expect("component f0 of Ts4dmdon must be present")),
            f1: FromValue::from_value(s[1].as_ref().expect("component f1 of Ts4dmdon must be present")),
            f2: FromValue::from_value(s[2].as_ref().expect("component f2 of Ts4dmdon must be present")),
            f3: s[3].as_ref().map(FromValue::from_value),
        }
    }
}
impl ToValue for Ts4dmdon {
    fn to_value(&self) -> Value {
        Value::Seq(vec![
            Some(self.f0.to_value()),
            Some(self.f1.to_value()),
            Some(self.f2.to_value()),
            self.f3.as_ref().map(|x| x.to_value()),
        ])
    }
}
impl FromValue for Ts4dmdoe0 {
    fn from_value(v: &Value) -> Self {
        let s = match v { Value::Seq(s) => s, other => panic!("Ts4dmdoe0: expected Seq, got {other:?}") };
        assert_eq!(s.len(), 4, "Ts4dmdoe0: component count");
        let _ = s;
        Ts4dmdoe0 {
            f0: FromValue::from_value(s[0].as_ref().expect("component f0 of Ts4dmdoe0 must be present")),
            f1: s[1].as_ref().map(FromValue::from_value),
            f2: FromValue::from_value(s[2].as_ref().expect("component f2 of Ts4dmdoe0 must be present")),
            f3: s[3].as_ref().map(FromValue::from_value),
        }
    }
}
impl ToValue for Ts4dmdoe0 {
    fn to_value(&self) -> Value {
        Value::Seq(vec![
            Some(self.f0.to_value()),
            self.f1.as_ref().map(|x| x.to_value()),
            Some(self.f2.to_value()),
            self.f3.as_ref().map(|x| x.to_value()),
        ])
    }
}
impl FromValue for Ts4dmdoe1 {
    fn from_value(v: &Value) -> Self {
        let s = match v { Value::Seq(s) => s, other => panic!("Ts4dmdoe1: expected Seq, got {other:?}") };
        assert_eq!(s.len(), 4, "Ts4dmdoe1: component count");
        let _ = s;
        Ts4dmdoe1 {
            f0: FromValue::from_value(s[0].as_ref().expect("component f0 of Ts4dmdoe1 must be present")),
            f1: s[1].as_ref().map(FromValue::from_value),
            f2: FromValue::from_value(s[2].as_ref().expect("component f2 of Ts4dmdoe1 must be present")),
            f3: s[3].as_ref().map(FromValue::from_value),
        }
    }
}
impl ToValue for Ts4dmdoe1 {
    fn to_value(&self) -> Value {
        Value::Seq(vec![
            Some(self.f0.to_value()),
            self.f1.as_ref().map(|x| x.to_value()),
            Some(self.f2.to_value()),
            self.f3.as_ref().map(|x| x.to_value()),
        ])
    }
}
impl FromValue for Ts4dmdoe2 {
    fn from_value(v: &Value) -> Self {
        let s = match v { Value::Seq(s) => s, other => panic!("Ts4dmdoe2: expected Seq, got {other:?}") };
        assert_eq!(s.len(), 4, "Ts4dmdoe2: component count");
        let _ = s;
        Ts4dmdoe2 {
            f0: FromValue::from_value(s[0].as_ref().expect("component f0 of Ts4dmdoe2 must be present")),
            f1: FromValue::from_value(s[1].as_ref().expect("component f1 of Ts4dmdoe2 must be present")),
            f2: FromValue::from_value(s[2].as_ref().expect("component f2 of Ts4dmdoe2 must be present")),
            f3: s[3].as_ref().map(FromValue::from_value),
        }
    }
}
impl ToValue for Ts4dmdoe2 {
    fn to_value(&self) -> Value {
        Value::Seq(vec![
            Some(self.f0.to_value()),
            Some(self.f1.to_value()),
            Some(self.f2.to_value()),
            self.f3.as_ref().map(|x| x.to_value()),
        ])
    }
}
impl FromValue for Ts4dmdoe3 {
    fn from_value(v: &Value) -> Self {
        let s = match v { Value::Seq(s) => s, other => panic!("Ts4dmdoe3: expected Seq, got {other:?}") };
        assert_eq!(s.len(), 4, "Ts4dmdoe3: component count");
        let _ = s;
        Ts4dmdoe3 {
            f0: FromValue::from_value(s[0].as_ref().expect("component f0 of Ts4dmdoe3 must be present")),
            f1: FromValue::from_value(s[1].as_ref().expect("component f1 of Ts4dmdoe3 must be present")),
            f2: FromValue::from_value(s[2].as_ref().expect("component f2 of Ts4dmdoe3 must be present")),
            f3: s[3].as_ref().map(FromValue::from_value),
        }
    }
}
impl ToValue for Ts4dmdoe3 {
    fn to_value(&self) -> Value {
        Value::Seq(vec![
            Some(self.f0.to_value()),
            Some(self.f1.to_value()),
            Some(self.f2.to_value()),
            self.f3.as_ref().map(|x| x.to_value()),
        ])
    }
}
impl FromValue for Ts4dmdoe4 {
    fn from_value(v: &Value) -> Self {
        let s = match v { Value::Seq(s) => s, other => panic!("Ts4dmdoe4: expected Seq, got {other:?}") };
        assert_eq!(s.len(), 4, "Ts4dmdoe4: component count");
        let _ = s;
        Ts4dmdoe4 {
            f0: FromValue::from_value(s[0].as_ref().expect("component f0 of Ts4dmdoe4 must be present")),
            f1: FromValue::from_value(s[1].as_ref().expect("component f1 of Ts4dmdoe4 must be present")),
            f2: FromValue::from_value(s[2].as_ref().expect("component f2 of Ts4dmdoe4 must be present")),
            f3: s[3].as_ref().map(FromValue::from_value),
        }
    }
}
impl ToValue for Ts4dmdoe4 {
    fn to_value(&self) -> Value {
        Value::Seq(vec![
            Some(self.f0.to_value()),
            Some(self.f1.to_value()),
            Some(self.f2.to_value()),
            self.f3.as_ref().map(|x| x.to_value()),
        ])
    }
}
impl FromValue for Ts4modon {
    fn from_value(v: &Value) -> Self {
        let s = match v { Value::Seq(s) => s, other => panic!("Ts4modon: expected Seq, got {other:?}") };
        assert_eq!(s.len(), 4, "Ts4modon: component count");
        let _ = s;
        Ts4modon {
            f0: FromValue::from_value(s[0].as_ref().expect("component f0 of Ts4modon must be present")),
            f1: s[1].as_ref().map(FromValue::from_value),
            f2: FromValue::from_value(s[2].as_ref().expect("component f2 of Ts4modon must be present")),
            f3: s[3].as_ref().map(FromValue::from_value),
        }
    }
}
impl ToValue for Ts4modon {
    fn to_value(&self) -> Value {
        Value::Seq(vec![
            Some(self.f0.to_value()),
            self.f1.as_ref().map(|x| x.to_value()),
            Some(self.f2.to_value()),
            self.f3.as_ref().map(|x| x.to_value()),
        ])
    }
}
impl FromValue for Ts4modoe0 {
    fn from_value(v: &Value) -> Self {
        let s = match v { Value::Seq(s) => s, other => panic!("Ts4modoe0: expected Seq, got {other:?}") };
        assert_eq!(s.len(), 4, "Ts4modoe0: component count");
        let _ = s;
        Ts4modoe0 {
            f0: FromValue::from_value(s[0].as_ref().expect("component f0 of Ts4modoe0 must be present")),
            f1: s[1].as_ref().map(FromValue::from_value),
            f2: FromValue::from_value(s[2].as_ref().expect("component f2 of Ts4modoe0 must be present")),
            f3: s[3].as_ref().map(FromValue::from_value),
        }
    }
}
impl ToValue for Ts4modoe0 {
    fn to_value(&self) -> Value {
        Value::Seq(vec![
            Some(self.f0.to_value()),
            self.f1.as_ref().map(|x| x.to_value()),
            Some(self.f2.to_value()),
            self.f3.as_ref().map(|x| x.to_value()),
        ])
    }
}
impl FromValue for Ts4modoe1 {
    fn from_value(v: &Value) -> Self {
        let s = match v { Value::Seq(s) => s, other => panic!("Ts4modoe1: expected Seq, got {other:?}") };
        assert_eq!(s.len(), 4, "Ts4modoe1: component count");
        let _ = s;
        Ts4modoe1 {
            f0: FromValue::from_value(s[0].as_ref().expect("component f0 of Ts4modoe1 must be present")),
            f1: s[1].as_ref().map(FromValue::from_value),
            f2: FromValue::from_value(s[2].as_ref().expect("component f2 of Ts4modoe1 must be present")),
            f3: s[3].as_ref().map(FromValue::from_value),
        }
    }
}
impl ToValue for Ts4modoe1 {
    fn to_value(&self) -> Value {
        Value::Seq(vec![
            Some(self.f0.to_value()),
            self.f1.as_ref().map(|x| x.to_value()),
            Some(self.f2.to_value()),
            self.f3.as_ref().map(|x| x.to_value()),
        ])
    }
}
impl FromValue for Ts4modoe2 {
    fn from_value(v: &Value) -> Self {
        let s = match v { Value::Seq(s) => s, other => panic!("Ts4modoe2: expected Seq, got {other:?}") };
        assert_eq!(s.len(), 4, "Ts4modoe2: component count");
        let _ = s;
        Ts4modoe2 {
            f0: FromValue::from_value(s[0].as_ref().expect("component f0 of Ts4modoe2 must be present")),
            f1: s[1].as_ref().map(FromValue::from_value),
            f2: FromValue::from_value(s[2].as_ref().expect("component f2 of Ts4modoe2 must be present")),
            f3: s[3].as_ref().map(FromValue::from_value),
        }
    }
}
impl ToValue for Ts4modoe2 {
    fn to_value(&self) -> Value {
        Value::Seq(vec![
            Some(self.f0.to_value()),
            self.f1.as_ref().map(|x| x.to_value()),
            Some(self.f2.to_value()),
            self.f3.as_ref().map(|x| x.to_value()),
        ])
    }
}
impl FromValue for Ts4modoe3 {
    fn from_value(v: &Value) -> Self {
        let s = match v { Value::Seq(s) => s, other => panic!("Ts4modoe3: expected Seq, got {other:?}") };
        assert_eq!(s.len(), 4, "Ts4modoe3: component count");
        let _ = s;
        Ts4modoe3 {
            f0: FromValue::from_value(s[0].as_ref().expect("component f0 of Ts4modoe3 must be present")),
            f1: s[1].as_ref().map(FromValue::from_value),
            f2: FromValue::from_value(s[2].as_ref().expect("component f2 of Ts4modoe3 must be present")),
            f3: s[3].as_ref().map(FromValue::from_value),
        }
    }
}
impl ToValue for Ts4modoe3 {
    fn to_value(&self) -> Value {
        Value::Seq(vec![
            Some(self.f0.to_value()),
            self.f1.as_ref().map(|x| x.to_value()),
            Some(self.f2.to_value()),
            self.f3.as_ref().map(|x| x.to_value()),
        ])
    }
}
impl FromValue for Ts4modoe4 {
    fn from_value(v: &Value) -> Self {
        let s = match v { Value::Seq(s) => s, other => panic!("Ts4modoe4: expected Seq, got {other:?}") };
        assert_eq!(s.len(), 4, "Ts4modoe4: component count");
        let _ = s;
        Ts4modoe4 {
            f0: FromValue::from_value(s[0].as_ref().expect("component f0 of Ts4modoe4 must be present")),
            f1: s[1].as_ref().map(FromValue::from_value),
            f2: FromValue::from_value(s[2].as_ref().expect("component f2 of Ts4modoe4 must be present")),
            f3: s[3].as_ref().map(FromValue::from_value),
        }
    }
}
impl ToValue for Ts4modoe4 {
    fn to_value(&self) -> Value {
        Value::Seq(vec![
            Some(self.f0.to_value()),
            self.f1.as_ref().map(|x| x.to_value()),
            Some(self.f2.to_value()),
            self.f3.as_ref().map(|x| x.to_value()),
        ])
    }
}
impl FromValue for Ts4oodon {
    fn from_value(v: &Value) -> Self {
        let s = match v { Value::Seq(s) => s, other => panic!("Ts4oodon: expected Seq, got {other:?}") };
        assert_eq!(s.len(), 4, "Ts4oodon: component count");
        let _ = s;
        Ts4oodon {
            f0: s[0].as_ref().map(FromValue::from_value),
            f1: s[1].as_ref().map(FromValue::from_value),
            f2: FromValue::from_value(s[2].as_ref().expect("component f2 of Ts4oodon must be present")),
            f3: s[3].as_ref().map(FromValue::from_value),
        }
    }
}
impl ToValue for Ts4oodon {
    fn to_value(&self) -> Value {
        Value::Seq(vec![
            self.f0.as_ref().map(|x| x.to_value()),
            self.f1.as_ref().map(|x| x.to_value()),
            Some(self.f2.to_value()),
            self.f3.as_ref().map(|x| x.to_value()),
        ])
    }
}
impl FromValue for Ts4oodoe0 {
    fn from_value(v: &Value) -> Self {
        let s = match v { Value::Seq(s) => s, other => panic!("Ts4oodoe0: expected Seq, got {other:?}") };
        assert_eq!(s.len(), 4, "Ts4oodoe0: component count");
        let _ = s;
        Ts4oodoe0 {
            f0: s[0].as_ref().map(FromValue::from_value),
            f1: s[1].as_ref().map(FromValue::from_value),
            f2: FromValue::from_value(s[2].as_ref().expect("component f2 of Ts4oodoe0 must be present")),
            f3: s[3].as_ref().map(FromValue::from_value),
        }
    }
}
impl ToValue for Ts4oodoe0 {
    fn to_value(&self) -> Value {
        Value::Seq(vec![
            self.f0.as_ref().map(|x| x.to_value()),
            self.f1.as_ref().map(|x| x.to_value()),
            Some(self.f2.to_value()),
            self.f3.as_ref().map(|x| x.to_value()),
        ])
    }
}
impl FromValue for Ts4oodoe1 {
    fn from_value(v: &Value) -> Self {
        let s = match v { Value::Seq(s) => s, other => panic!("Ts4oodoe1: expected Seq, got {other:?}") };
        assert_eq!(s.len(), 4, "Ts4oodoe1: component count");
        let _ = s;
        Ts4oodoe1 {
            f0: s[0].as_ref().map(FromValue::from_value),
            f1: s[1].as_ref().map(FromValue::from_value),
            f2: FromValue::from_value(s[2].as_ref().expect("component f2 of Ts4oodoe1 must be present")),
            f3: s[3].as_ref().map(FromValue::from_value),
        }
    }
}
impl ToValue for Ts4oodoe1 {
    fn to_value(&self) -> Value {
        Value::Seq(vec![
            self.f0.as_ref().map(|x| x.to_value()),
            self.f1.as_ref().map(|x| x.to_value()),
            Some(self.f2.to_value()),
            self.f3.as_ref().map(|x| x.to_value()),
        ])
    }
}
impl FromValue for Ts4oodoe2 {
    fn from_value(v: &Value) -> Self {
        let s = match v { Value::Seq(s) => s, other => panic!("Ts4oodoe2: expected Seq, got {other:?}") };
        assert_eq!(s.len(), 4, "Ts4oodoe2: component count");
        let _ = s;
        Ts4oodoe2 {
            f0: s[0].as_ref().map(FromValue::from_value),
            f1: s[1].as_ref().map(FromValue::from_value),
            f2: FromValue::from_value(s[2].as_ref().expect("component f2 of Ts4oodoe2 must be present")),
            f3: s[3].as_ref().map(FromValue::from_value),
        }
    }
}
impl ToValue for Ts4oodoe2 {
    fn to_value(&self) -> Value {
        Value::Seq(vec![
            self.f0.as_ref().map(|x| x.to_value()),
            self.f1.as_ref().map(|x| x.to_value()),
            Some(self.f2.to_value()),
            self.f3.as_ref().map(|x| x.to_value()),
        ])
    }
}
impl FromValue for Ts4oodoe3 {
    fn from_value(v: &Value) -> Self {
        let s = match v { Value::Seq(s) => s, other => panic!("Ts4oodoe3: expected Seq, got {other:?}") };
        assert_eq!(s.len(), 4, "Ts4oodoe3: component count");
        let _ = s;
        Ts4oodoe3 {
            f0: s[0].as_ref().map(FromValue::from_value),
            f1: s[1].as_ref().map(FromValue::from_value),
            f2: FromValue::from_value(s[2].as_ref().expect("component f2 of Ts4oodoe3 must be present")),
            f3: s[3].as_ref().map(FromValue::from_value),
        }
    }
}
impl ToValue for Ts4oodoe3 {
    fn to_value(&self) -> Value {
        Value::Seq(vec![
            self.f0.as_ref().map(|x| x.to_value()),
            self.f1.as_ref().map(|x| x.to_value()),
            Some(self.f2.to_value()),
            self.f3.as_ref().map(|x| x.to_value()),
        ])
    }
}
impl FromValue for Ts4oodoe4 {
    fn from_value(v: &Value) -> Self {
        let s = match v { Value::Seq(s) => s, other => panic!("Ts4oodoe4: expected Seq, got {other:?}") };
        assert_eq!(s.len(), 4, "Ts4oodoe4: component count");
        let _ = s;
        Ts4oodoe4 {
            f0: s[0].as_ref().map(FromValue::from_value),
            f1: s[1].as_ref().map(FromValue::from_value),
            f2: FromValue::from_value(s[2].as_ref().expect("component f2 of Ts4oodoe4 must be present")),
            f3: s[3].as_ref().map(FromValue::from_value),
        }
    }
}
impl ToValue for Ts4oodoe4 {
    fn to_value(&self) -> Value {
        Value::Seq(vec![
            self.f0.as_ref().map(|x| x.to_value()),
            self.f1.as_ref().map(|x| x.to_value()),
            Some(self.f2.to_value()),
            self.f3.as_ref().map(|x| x.to_value()),
        ])
    }
}
impl FromValue for Ts4dodon {
    fn from_value(v: &Value) -> Self {
        let s = match v { Value::Seq(s) => s, other => panic!("Ts4dodon: expected Seq, got {other:?}") };
        assert_eq!(s.len(), 4, "Ts4dodon: component count");
        let _ = s;
        Ts4dodon {
            f0: FromValue::from_value(s[0].as_ref().expect("component f0 of Ts4dodon must be present")),
            f1: s[1].as_ref().map(FromValue::from_value),
            f2: FromValue::from_value(s[2].as_ref().expect("component f2 of Ts4dodon must be present")),
            f3: s[3].as_ref().map(FromValue::from_value),
        }
    }
}
impl ToValue for Ts4dodon {
    fn to_value(&self) -> Value {
        Value::Seq(vec![
            Some(self.f0.to_value()),
            self.f1.as_ref().map(|x| x.to_value()),
            Some(self.f2.to_value()),
            self.f3.as_ref().map(|x| x.to_value()),
        ])
    }
}
impl FromValue for Ts4dodoe0 {
    fn from_value(v: &Value) -> Self {
        let s = match v { Value::Seq(s) => s, other => panic!("Ts4dodoe0: expected Seq, got {other:?}") };
        assert_eq!(s.len(), 4, "Ts4dodoe0: component count");
        let _ = s;
        Ts4dodoe0 {
            f0: FromValue::from_value(s[0].as_ref().expect("component f0 of Ts4dodoe0 must be present")),
            f1: s[1].as_ref().map(FromValue::from_value),
            f2: FromValue::from_value(s[2].as_ref().expect("component f2 of Ts4dodoe0 must be present")),
            f3: s[3].as_ref().map(FromValue::from_value),
        }
    }
}
impl ToValue for Ts4dodoe0 {
    fn to_value(&self) -> Value {
        Value::Seq(vec![
            Some(self.f0.to_value()),
            self.f1.as_ref().map(|x| x.to_value()),
            Some(self.f2.to_value()),
            self.f3.as_ref().map(|x| x.to_value()),
        ])
    }
}
impl FromValue for Ts4dodoe1 {
    fn from_value(v: &Value) -> Self {
        let s = match v { Value::Seq(s) => s, other => panic!("Ts4dodoe1: expected Seq, got {other:?}") };
        assert_eq!(s.len(), 4, "Ts4dodoe1: component count");
        let _ = s;
        Ts4dodoe1 {
            f0: FromValue::from_value(s[0].as_ref().expect("component f0 of Ts4dodoe1 must be present")),
            f1: s[1].as_ref().map(FromValue::from_value),
            f2: FromValue::from_value(s[2].as_ref().expect("component f2 of Ts4dodoe1 must be present")),
            f3: s[3].as_ref().map(FromValue::from_value),
        }
    }
}
impl ToValue for Ts4dodoe1 {
    fn to_value(&self) -> Value {
        Value::Seq(vec![
            Some(self.f0.to_value()),
            self.f1.as_ref().map(|x| x.to_value()),
            Some(self.f2.to_value()),
            self.f3.as_ref().map(|x| x.to_value()),
        ])
    }
}
impl FromValue for Ts4dodoe2 {
    fn from_value(v: &Value) -> Self {
        let s = match v { Value::Seq(s) => s, other => panic!("Ts4dodoe2: expected Seq, got {other:?}") };
        assert_eq!(s.len(), 4, "Ts4dodoe2: component count");
        let _ = s;
        Ts4dodoe2 {
            f0: FromValue::from_value(s[0].as_ref().expect("component f0 of Ts4dodoe2 must be present")),
            f1: s[1].as_ref().map(FromValue::from_value),
            f2: FromValue::from_value(s[2].as_ref().expect("component f2 of Ts4dodoe2 must be present")),
            f3: s[3].as_ref().map(FromValue::from_value),
        }
    }
}
impl ToValue for Ts4dodoe2 {
    fn to_value(&self) -> Value {
        Value::Seq(vec![
            Some(self.f0.to_value()),
            self.f1.as_ref().map(|x| x.to_value()),
            Some(self.f2.to_value()),
            self.f3.as_ref().map(|x| x.to_value()),
        ])
    }
}
impl FromValue for Ts4dodoe3 {
    fn from_value(v: &Value) -> Self {
        let s = match v { Value::Seq(s) => s, other => panic!("Ts4dodoe3: expected Seq, got {other:?}") };
        assert_eq!(s.len(), 4, "Ts4dodoe3: component count");
        let _ = s;
        Ts4dodoe3 {
            f0: FromValue::from_value(s[0].as_ref().expect("component f0 of Ts4dodoe3 must be present")),
            f1: s[1].as_ref().map(FromValue::from_value),
            f2: FromValue::from_value(s[2].as_ref().expect("component f2 of Ts4dodoe3 must be present")),
            f3: s[3].as_ref().map(FromValue::from_value),
        }
    }
}
impl ToValue for Ts4dodoe3 {
    fn to_value(&self) -> Value {
        Value::Seq(vec![
            Some(self.f0.to_value()),
            self.f1.as_ref().map(|x| x.to_value()),
            Some(self.f2.to_value()),
            self.f3.as_ref().map(|x| x.to_value()),
        ])
    }
}
impl FromValue for Ts4dodoe4 {
    fn from_value(v: &Value) -> Self {
        let s = match v { Value::Seq(s) => s, other => panic!("Ts4dodoe4: expected Seq, got {other:?}") };
        assert_eq!(s.len(), 4, "Ts4dodoe4: component count");
        let _ = s;
        Ts4dodoe4 {
            f0: FromValue::from_value(s[0].as_ref().expect("component f0 of Ts4dodoe4 must be present")),
            f1: s[1].as_ref().map(FromValue::from_value),
            f2: FromValue::from_value(s[2].as_ref().expect("component f2 of Ts4dodoe4 must be present")),
            f3: s[3].as_ref().map(FromValue::from_value),
        }
    }
}
impl ToValue for Ts4dodoe4 {
    fn to_value(&self) -> Value {
        Value::Seq(vec![
            Some(self.f0.to_value()),
            self.f1.as_ref().map(|x| x.to_value()),
            Some(self.f2.to_value()),
            self.f3.as_ref().map(|x| x.to_value()),
        ])
    }
}
impl FromValue for Ts4mddon {
    fn from_value(v: &Value) -> Self {
        let s = match v { Value::Seq(s) => s, other => panic!("Ts4mddon: expected Seq, got {other:?}") };
        assert_eq!(s.len(), 4, "Ts4mddon: component count");
        let _ = s;
        Ts4mddon {
            f0: FromValue::from_value(s[0].as_ref().expect("component f0 of Ts4mddon must be present")),
            f1: FromValue::from_value(s[1].as_ref().expect("component f1 of Ts4mddon must be present")),
            f2: FromValue::from_value(s[2].as_ref().expect("component f2 of Ts4mddon must be present")),
            f3: s[3].as_ref().map(FromValue::from_value),
        }
    }
}
impl ToValue for Ts4mddon {
    fn to_value(&self) -> Value {
        Value::Seq(vec![
            Some(self.f0.to_value()),
            Some(self.f1.to_value()),
            Some(self.f2.to_value()),
            self.f3.as_ref().map(|x| x.to_value()),
        ])
    }
}
impl FromValue for Ts4mddoe0 {
    fn from_value(v: &Value) -> Self {
        let s = match v { Value::Seq(s) => s, other => panic!("Ts4mddoe0: expected Seq, got {other:?}") };
        assert_eq!(s.len(), 4, "Ts4mddoe0: component count");
        let _ = s;
        Ts4mddoe0 {
            f0: FromValue::from_value(s[0].as_ref().expect("component f0 of Ts4mddoe0 must be present")),
            f1: FromValue::from_value(s[1].as_ref().expect("component f1 of Ts4mddoe0 must be present")),
            f2: FromValue::from_value(s[2].as_ref().expect("component f2 of Ts4mddoe0 must be present")),
            f3: s[3].as_ref().map(FromValue::from_value),
        }
    }
}
impl ToValue for Ts4mddoe0 {
    fn to_value(&self) -> Value {
        Value::Seq(vec![
            Some(self.f0.to_value()),
            Some(self.f1.to_value()),
            Some(self.f2.to_value()),
            self.f3.as_ref().map(|x| x.to_value()),
        ])
    }
}
impl FromValue for Ts4mddoe1 {
    fn from_value(v: &Value) -> Self {
        let s = match v { Value::Seq(s) => s, other => panic!("Ts4mddoe1: expected Seq, got {other:?}") };
        assert_eq!(s.len(), 4, "Ts4mddoe1: component count");
        let _ = s;
        Ts4mddoe1 {
            f0: FromValue::from_value(s[0].as_ref().expect("component f0 of Ts4mddoe1 must be present")),
            f1: FromValue::from_value(s[1].as_ref().expect("component f1 of Ts4mddoe1 must be present")),
            f2: FromValue::from_value(s[2].as_ref().expect("component f2 of Ts4mddoe1 must be present")),
            f3: s[3].as_ref().map(FromValue::from_value),
        }
    }
}
impl ToValue for Ts4mddoe1 {
    fn to_value(&self) -> Value {
        Value::Seq(vec![
            Some(self.f0.to_value()),
            Some(self.f1.to_value()),
            Some(self.f2.to_value()),
            self.f3.as_ref().map(|x| x.to_value()),
        ])
    }
}
impl FromValue for Ts4mddoe2 {
    fn from_value(v: &Value) -> Self {
        let s = match v { Value::Seq(s) => s, other => panic!("Ts4mddoe2: expected Seq, got {other:?}") };
        assert_eq!(s.len(), 4, "Ts4mddoe2: component count");
        let _ = s;
        Ts4mddoe2 {
            f0: FromValue::from_value(s[0].as_ref().expect("component f0 of Ts4mddoe2 must be present")),
            f1: FromValue::from_value(s[1].as_ref().expect("component f1 of Ts4mddoe2 must be present")),
            f2: FromValue::from_value(s[2].as_ref().expect("component f2 of Ts4mddoe2 must be present")),
            f3: s[3].as_ref().map(FromValue::from_value),
        }
    }
}
impl ToValue for Ts4mddoe2 {
    fn to_value(&self) -> Value {
        Value::Seq(vec![
            Some(self.f0.to_value()),
            Some(self.f1.to_value()),
            Some(self.f2.to_value()),
            self.f3.as_ref().map(|x| x.to_value()),
        ])
    }
}
impl FromValue for Ts4mddoe3 {
    fn from_value(v: &Value) -> Self {
        let s = match v { Value::Seq(s) => s, other => panic!("Ts4mddoe3: expected Seq, got {other:?}") };
        assert_eq!(s.len(), 4, "Ts4mddoe3: component count");
        let _ = s;
        Ts4mddoe3 {
            f0: FromValue::from_value(s[0].as_ref().expect("component f0 of Ts4mddoe3 must be present")),
            f1: FromValue::from_value(s[1].as_ref().expect("component f1 of Ts4mddoe3 must be present")),
            f2: FromValue::from_value(s[2].as_ref().expect("component f2 of Ts4mddoe3 must be present")),
            f3: s[3].as_ref().map(FromValue::from_value),
        }
    }
}
impl ToValue for Ts4mddoe3 {
    fn to_value(&self) -> Value {
        Value::Seq(vec![
            Some(self.f0.to_value()),
            Some(self.f1.to_value()),
            Some(self.f2.to_value()),
            self.f3.as_ref().map(|x| x.to_value()),
        ])
    }
}
impl FromValue for Ts4mddoe4 {
    fn from_value(v: &Value) -> Self {
        let s = match v { Value::Seq(s) => s, other => panic!("Ts4mddoe4: expected Seq, got {other:?}") };
        assert_eq!(s.len(), 4, "Ts4mddoe4: component count");
        let _ = s;
        Ts4mddoe4 {
            f0: FromValue::from_value(s[0].as_ref().expect("component f0 of Ts4mddoe4 must be present")),
            f1: FromValue::from_value(s[1].as_ref().expect("component f1 of Ts4mddoe4 must be present")),
            f2: FromValue::from_value(s[2].as_ref().expect("component f2 of Ts4mddoe4 must be present")),
            f3: s[3].as_ref().map(FromValue::from_value),
        }
    }
}
impl ToValue for Ts4mddoe4 {
    fn to_value(&self) -> Value {
        Value::Seq(vec![
            Some(self.f0.to_value()),
            Some(self.f1.to_value()),
            Some(self.f2.to_value()),
            self.f3.as_ref().map(|x| x.to_value()),
        ])
    }
}
impl FromValue for Ts4oddon {
    fn from_value(v: &Value) -> Self {
        let s = match v { Value::Seq(s) => s, other => panic!("Ts4oddon: expected Seq, got {other:?}") };
        assert_eq!(s.len(), 4, "Ts4oddon: component count");
        let _ = s;
        Ts4oddon {
            f0: s[0].as_ref().map(FromValue::from_value),
            f1: FromValue::from_value(s[1].as_ref().expect("component f1 of Ts4oddon must be present")),
            f2: FromValue::from_value(s[2].as_ref().expect("component f2 of Ts4oddon must be present")),
            f3: s[3].as_ref().map(FromValue::from_value),
        }
    }
}
impl ToValue for Ts4oddon {
    fn to_value(&self) -> Value {
        Value::Seq(vec![
            self.f0.as_ref().map(|x| x.to_value()),
            Some(self.f1.to_value()),
            Some(self.f2.to_value()),
            self.f3.as_ref().map(|x| x.to_value()),
        ])
    }
}
impl FromValue for Ts4oddoe0 {
    fn from_value(v: &Value) -> Self {
        let s = match v { Value::Seq(s) => s, other => panic!("Ts4oddoe0: expected Seq, got {other:?}") };
        assert_eq!(s.len(), 4, "Ts4oddoe0: component count");
        let _ = s;
        Ts4oddoe0 {
            f0: s[0].as_ref().map(FromValue::from_value),
            f1: FromValue::from_value(s[1].as_ref().expect("component f1 of Ts4oddoe0 must be present")),
            f2: FromValue::from_value(s[2].as_ref().expect("component f2 of Ts4oddoe0 must be present")),
            f3: s[3].as_ref().map(FromValue::from_value),
        }
    }
}
impl ToValue for Ts4oddoe0 {
    fn to_value(&self) -> Value {
        Value::Seq(vec![
            self.f0.as_ref().map(|x| x.to_value()),
            Some(self.f1.to_value()),
            Some(self.f2.to_value()),
            self.f3.as_ref().map(|x| x.to_value()),
        ])
    }
}
impl FromValue for Ts4oddoe1 {
    fn from_value(v: &Value) -> Self {
        let s = match v { Value::Seq(s) => s, other => panic!("Ts4oddoe1: expected Seq, got {other:?}") };
        assert_eq!(s.len(), 4, "Ts4oddoe1: component count");
        let _ = s;
        Ts4oddoe1 {
            f0: s[0].as_ref().map(FromValue::from_value),
            f1: FromValue::from_value(s[1].as_ref().expect("component f1 of Ts4oddoe1 must be present")),
            f2: FromValue::from_value(s[2].as_ref().expect("component f2 of Ts4oddoe1 must be present")),
            f3: s[3].as_ref().map(FromValue::from_value),
        }
    }
}
impl ToValue for Ts4oddoe1 {
    fn to_value(&self) -> Value {
        Value::Seq(vec![
            self.f0.as_ref().map(|x| x.to_value()),
            Some(self.f1.to_value()),
            Some(self.f2.to_value()),
            self.f3.as_ref().map(|x| x.to_value()),
        ])
    }
}
impl FromValue for Ts4oddoe2 {
    fn from_value(v: &Value) -> Self {
        let s = match v { Value::Seq(s) => s, other => panic!("Ts4oddoe2: expected Seq, got {other:?}") };
        assert_eq!(s.len(), 4, "Ts4oddoe2: component count");
        let _ = s;
        Ts4oddoe2 {
            f0: s[0].as_ref().map(FromValue::from_value),
            f1: FromValue::from_value(s[1].as_ref().expect("component f1 of Ts4oddoe2 must be present")),
            f2: FromValue::from_value(s[2].as_ref().expect("component f2 of Ts4oddoe2 must be present")),
            f3: s[3].as_ref().map(FromValue::from_value),
        }
    }
}
impl ToValue for Ts4oddoe2 {
    fn to_value(&self) -> Value {
        Value::Seq(vec![
            self.f0.as_ref().map(|x| x.to_value()),
            Some(self.f1.to_value()),
            Some(self.f2.to_value()),
            self.f3.as_ref().map(|x| x.to_value()),
        ])
    }
}
impl FromValue for Ts4oddoe3 {
    fn from_value(v: &Value) -> Self {
        let s = match v { Value::Seq(s) => s, other => panic!("Ts4oddoe3: expected Seq, got {other:?}") };
        assert_eq!(s.len(), 4, "Ts4oddoe3: component count");
        let _ = s;
        Ts4oddoe3 {
            f0: s[0].as_ref().map(FromValue::from_value),
            f1: FromValue::from_value(s[1].as_ref().expect("component f1 of Ts4oddoe3 must be present")),
            f2: FromValue::from_value(s[2].as_ref().expect("component f2 of Ts4oddoe3 must be present")),
            f3: s[3].as_ref().map(FromValue::from_value),
        }
    }
}
impl ToValue for Ts4oddoe3 {
    fn to_value(&self) -> Value {
        Value::Seq(vec![
            self.f0.as_ref().map(|x| x.to_value()),
            Some(self.f1.to_value()),
            Some(self.f2.to_value()),
            self.f3.as_ref().map(|x| x.to_value()),
        ])
    }
}
impl FromValue for Ts4oddoe4 {
    fn from_value(v: &Value) -> Self {
        let s = match v { Value::Seq(s) => s, other => panic!("Ts4oddoe4: expected Seq, got {other:?}") };
        assert_eq!(s.len(), 4, "Ts4oddoe4: component count");
        let _ = s;
        Ts4oddoe4 {
            f0: s[0].as_ref().map(FromValue::from_value),
            f1: FromValue::from_value(s[1].as_ref().expect("component f1 of Ts4oddoe4 must be present")),
            f2: FromValue::from_value(s[2].as_ref().expect("component f2 of Ts4oddoe4 must be present")),
            f3: s[3].as_ref().map(FromValue::from_value),
        }
    }
}
impl ToValue for Ts4oddoe4 {
    fn to_value(&self) -> Value {
        Value::Seq(vec![
            self.f0.as_ref().map(|x| x.to_value()),
            Some(self.f1.to_value()),
            Some(self.f2.to_value()),
            self.f3.as_ref().map(|x| x.to_value()),
        ])
    }
}
impl FromValue for Ts4dddon {
    fn from_value(v: &Value) -> Self {
        let s = match v { Value::Seq(s) => s, other => panic!("Ts4dddon: expected Seq, got {other:?}") };
        assert_eq!(s.len(), 4, "Ts4dddon: component count");
        let _ = s;
        Ts4dddon {
            f0: FromValue::from_value(s[0].as_ref().expect("component f0 of Ts4dddon must be present")),
            f1: FromValue::from_value(s[1].as_ref().expect("component f1 of Ts4dddon must be present")),
            f2: FromValue::from_value(s[2].as_ref().expect("component f2 of Ts4dddon must be present")),
            f3: s[3].as_ref().map(FromValue::from_value),
        }
    }
}
impl ToValue for Ts4dddon {
    fn to_value(&self) -> Value {
        Value::Seq(vec![
            Some(self.f0.to_value()),
            Some(self.f1.to_value()),
            Some(self.f2.to_value()),
            self.f3.as_ref().map(|x| x.to_value()),
        ])
    }
}
impl FromValue for Ts4dddoe0 {
    fn from_value(v: &Value) -> Self {
        let s = match v { Value::Seq(s) => s, other => panic!("Ts4dddoe0: expected Seq, got {other:?}") };
        assert_eq!(s.len(), 4, "Ts4dddoe0: component count");
        let _ = s;
        Ts4dddoe0 {
            f0: FromValue::from_value(s[0].as_ref().expect("component f0 of Ts4dddoe0 must be present")),
            f1: FromValue::from_value(s[1].as_ref().expect("component f1 of Ts4dddoe0 must be present")),
            f2: FromValue::from_value(s[2].as_ref().expect("component f2 of Ts4dddoe0 must be present")),
            f3: s[3].as_ref().map(FromValue::from_value),
        }
    }
}
impl ToValue for Ts4dddoe0 {
    fn to_value(&self) -> Value {
        Value::Seq(vec![
            Some(self.f0.to_value()),
            Some(self.f1.to_value()),
            Some(self.f2.to_value()),
            self.f3.as_ref().map(|x| x.to_value()),
        ])
    }
}
impl FromValue for Ts4dddoe1 {
    fn from_value(v: &Value) -> Self {
        let s = match v { Value::Seq(s) => s, other => panic!("Ts4dddoe1: expected Seq, got {other:?}") };
        assert_eq!(s.len(), 4, "Ts4dddoe1: component count");
        let _ = s;
        Ts4dddoe1 {
            f0: FromValue::from_value(s[0].as_ref().expect("component f0 of Ts4dddoe1 must be present")),
            f1: FromValue::from_value(s[1].as_ref().expect("component f1 of Ts4dddoe1 must be present")),
            f2: FromValue::from_value(s[2].as_ref().expect("component f2 of Ts4dddoe1 must be present")),
            f3: s[3].as_ref().map(FromValue::from_value),
        }
    }
}
impl ToValue for Ts4dddoe1 {
    fn to_value(&self) -> Value {
        Value::Seq(vec![
            Some(self.f0.to_value()),
            Some(self.f1.to_value()),
            Some(self.f2.to_value()),
            self.f3.as_ref().map(|x| x.to_value()),
        ])
    }
}
impl FromValue for Ts4dddoe2 {
    fn from_value(v: &Value) -> Self {
        let s = match v { Value::Seq(s) => s, other => panic!("Ts4dddoe2: expected Seq, got {other:?}") };
        assert_eq!(s.len(), 4, "Ts4dddoe2: component count");
        let _ = s;
        Ts4dddoe2 {
            f0: FromValue::from_value(s[0].as_ref().expect("component f0 of Ts4dddoe2 must be present")),
            f1: FromValue::from_value(s[1].as_ref().expect("component f1 of Ts4dddoe2 must be present")),
            f2: FromValue::from_value(s[2].as_ref().expect("component f2 of Ts4dddoe2 must be present")),
            f3: s[3].as_ref().map(FromValue::from_value),
        }
    }
}
impl ToValue for Ts4dddoe2 {
    fn to_value(&self) -> Value {
        Value::Seq(vec![
            Some(self.f0.to_value()),
            Some(self.f1.to_value()),
            Some(self.f2.to_value()),
            self.f3.as_ref().map(|x| x.to_value()),
        ])
    }
}
impl FromValue for Ts4dddoe3 {
    fn from_value(v: &Value) -> Self {
        let s = match v { Value::Seq(s) => s, other => panic!("Ts4dddoe3: expected Seq, got {other:?}") };
        assert_eq!(s.len(), 4, "Ts4dddoe3: component count");
        let _ = s;
        Ts4dddoe3 {
            f0: FromValue::from_value(s[0].as_ref().expect("component f0 of Ts4dddoe3 must be present")),
            f1: FromValue::from_value(s[1].as_ref().expect("component f1 of Ts4dddoe3 must be present")),
            f2: FromValue::from_value(s[2].as_ref().expect("component f2 of Ts4dddoe3 must be present")),
            f3: s[3].as_ref().map(FromValue::from_value),
        }
    }
}
impl ToValue for Ts4dddoe3 {
    fn to_value(&self) -> Value {
        Value::Seq(vec![
            Some(self.f0.to_value()),
            Some(self.f1.to_value()),
            Some(self.f2.to_value()),
            self.f3.as_ref().map(|x| x.to_value()),
        ])
    }
}
impl FromValue for Ts4dddoe4 {
    fn from_value(v: &Value) -> Self {
        let s = match v { Value::Seq(s) => s, other => panic!("Ts4dddoe4: expected Seq, got {other:?}") };
        assert_eq!(s.len(), 4, "Ts4dddoe4: component count");
        let _ = s;
        Ts4dddoe4 {
            f0: FromValue::from_value(s[0].as_ref().expect("component f0 of Ts4dddoe4 must be present")),
            f1: FromValue::from_value(s[1].as_ref().expect("component f1 of Ts4dddoe4 must be present")),
            f2: FromValue::from_value(s[2].as_ref().expect("component f2 of Ts4dddoe4 must be present")),
            f3: s[3].as_ref().map(FromValue::from_value),
        }
    }
}
impl ToValue for Ts4dddoe4 {
    fn to_value(&self) -> Value {
        Value::Seq(vec![
            Some(self.f0.to_value()),
            Some(self.f1.to_value()),
            Some(self.f2.to_value()),
            self.f3.as_ref().map(|x| x.to_value()),
        ])
    }
}
impl FromValue for Ts4mmmdn {
    fn from_value(v: &Value) -> Self {
        let s = match v { Value::Seq(s) => s, other => panic!("Ts4mmmdn: expected Seq, got {other:?}") };
        assert_eq!(s.len(), 4, "Ts4mmmdn: component count");
        let _ = s;
        Ts4mmmdn {
            f0: FromValue::from_value(s[0].as_ref().expect("component f0 of Ts4mmmdn must be present")),
            f1: FromValue::from_value(s[1].as_ref().expect("component f1 of Ts4mmmdn must be present")),
            f2: FromValue::from_value(s[2].as_ref().expect("component f2 of Ts4mmmdn must be present")),
            f3: FromValue::from_value(s[3].as_ref().expect("component f3 of Ts4mmmdn must be present")),
        }
    }
}
impl ToValue for Ts4mmmdn {
    fn to_value(&self) -> Value {
        Value::Seq(vec![
            Some(self.f0.to_value()),
            Some(self.f1.to_value()),
            Some(self.f2.to_value()),
            Some(self.f3.to_value()),
        ])
    }
}
impl FromValue for Ts4mmmde0 {
    fn from_value(v: &Value) -> Self {
        let s = match v { Value::Seq(s) => s, other => panic!("Ts4mmmde0: expected Seq, got {other:?}") };
        assert_eq!(s.len(), 4, "Ts4mmmde0: component count");
        let _ = s;
        Ts4mmmde0 {
            f0: FromValue::from_value(s[0].as_ref().expect("component f0 of Ts4mmmde0 must be present")),
            f1: s[1].as_ref().map(FromValue::from_value),
            f2: s[2].as_ref().map(FromValue::from_value),
            f3: FromValue::from_value(s[3].as_ref().expect("component f3 of Ts4mmmde0 must be present")),
        }
    }
}
impl ToValue for Ts4mmmde0 {
    fn to_value(&self) -> Value {
        Value::Seq(vec![
            Some(self.f0.to_value()),
            self.f1.as_ref().map(|x| x.to_value()),
            self.f2.as_ref().map(|x| x.to_value()),
            Some(self.f3.to_value()),
        ])
    }
}
impl FromValue for Ts4mmmde1 {
    fn from_value(v: &Value) -> Self {
        let s = match v { Value::Seq(s) => s, other => panic!("Ts4mmmde1: expected Seq, got {other:?}") };
        assert_eq!(s.len(), 4, "Ts4mmmde1: component count");
        let _ = s;
        Ts4mmmde1 {
            f0: FromValue::from_value(s[0].as_ref().expect("component f0 of Ts4mmmde1 must be present")),
            f1: s[1].as_ref().map(FromValue::from_value),
            f2: s[2].as_ref().map(FromValue::from_value),
            f3: FromValue::from_value(s[3].as_ref().expect("component f3 of Ts4mmmde1 must be present")),
        }
    }
}
impl ToValue for Ts4mmmde1 {
    fn to_value(&self) -> Value {
        Value::Seq(vec![
            Some(self.f0.to_value()),
            self.f1.as_ref().map(|x| x.to_value()),
            self.f2.as_ref().map(|x| x.to_value()),
            Some(self.f3.to_value()),
        ])
    }
}
impl FromValue for Ts4mmmde2 {
    fn from_value(v: &Value) -> Self {
        let s = match v { Value::Seq(s) => s, other => panic!("Ts4mmmde2: expected Seq, got {other:?}") };
        assert_eq!(s.len(), 4, "Ts4mmmde2: component count");
        let _ = s;
        Ts4mmmde2 {
            f0: FromValue::from_value(s[0].as_ref().expect("component f0 of Ts4mmmde2 must be present")),
            f1: FromValue::from_value(s[1].as_ref().expect("component f1 of Ts4mmmde2 must be present")),
            f2: s[2].as_ref().map(FromValue::from_value),
            f3: FromValue::from_value(s[3].as_ref().expect("component f3 of Ts4mmmde2 must be present")),
        }
    }
}
impl ToValue for Ts4mmmde2 {
    fn to_value(&self) -> Value {
        Value::Seq(vec![
            Some(self.f0.to_value()),
            Some(self.f1.to_value()),
            self.f2.as_ref().map(|x| x.to_value()),
            Some(self.f3.to_value()),
        ])
    }
}
impl FromValue for Ts4mmmde3 {
    fn from_value(v: &Value) -> Self {
        let s = match v { Value::Seq(s) => s, other => panic!("Ts4mmmde3: expected Seq, got {other:?}") };
        assert_eq!(s.len(), 4, "Ts4mmmde3: component count");
        let _ = s;
        Ts4mmmde3 {
            f0: FromValue::from_value(s[0].as_ref().expect("component f0 of Ts4mmmde3 must be present")),
            f1: FromValue::from_value(s[1].as_ref().expect("component f1 of Ts4mmmde3 must be present")),
            f2: FromValue::from_value(s[2].as_ref().expect("component f2 of Ts4mmmde3 must be present")),
            f3: FromValue::from_value(s[3].as_ref().expect("component f3 of Ts4mmmde3 must be present")),
        }
    }
}
impl ToValue for Ts4mmmde3 {
    fn to_value(&self) -> Value {
        Value::Seq(vec![
            Some(self.f0.to_value()),
            Some(self.f1.to_value()),
            Some(self.f2.to_value()),
            Some(self.f3.to_value()),
        ])
    }
}
impl FromValue for Ts4mmmde4 {
    fn from_value(v: &Value) -> Self {
        let s = match v { Value::Seq(s) => s, other => panic!("Ts4mmmde4: expected Seq, got {other:?}") };
        assert_eq!(s.len(), 4, "Ts4mmmde4: component count");
        let _ = s;
        Ts4mmmde4 {
            f0: FromValue::from_value(s[0].as_ref().expect("component f0 of Ts4mmmde4 must be present")),
            f1: FromValue::from_value(s[1].as_ref().expect("component f1 of Ts4mmmde4 must be present")),
            f2: FromValue::from_value(s[2].as_ref().expect("component f2 of Ts4mmmde4 must be present")),
            f3: FromValue::from_value(s[3].as_ref().expect("component f3 of Ts4mmmde4 must be present")),
        }
    }
}
impl ToValue for Ts4mmmde4 {
    fn to_value(&self) -> Value {
        Value::Seq(vec![
            Some(self.f0.to_value()),
            Some(self.f1.to_value()),
            Some(self.f2.to_value()),
            Some(self.f3.to_value()),
        ])
    }
}
impl FromValue for Ts4ommdn {
    fn from_value(v: &Value) -> Self {
        let s = match v { Value::Seq(s) => s, other => panic!("Ts4ommdn: expected Seq, got {other:?}") };
        assert_eq!(s.len(), 4, "Ts4ommdn: component count");
        let _ = s;
        Ts4ommdn {
            f0: s[0].as_ref().map(FromValue::from_value),
            f1: FromValue::from_value(s[1].as_ref().expect("component f1 of Ts4ommdn must be present")),
            f2: FromValue::from_value(s[2].as_ref().expect("component f2 of Ts4ommdn must be present")),
            f3: FromValue::from_value(s[3].as_ref().expect("component f3 of Ts4ommdn must be present")),
        }
    }
}
impl ToValue for Ts4ommdn {
    fn to_value(&self) -> Value {
        Value::Seq(vec![
            self.f0.as_ref().map(|x| x.to_value()),
            Some(self.f1.to_value()),
            Some(self.f2.to_value()),
            Some(self.f3.to_value()),
        ])
    }
}
impl FromValue for Ts4ommde0 {
    fn from_value(v: &Value) -> Self {
        let s = match v { Value::Seq(s) => s, other => panic!("Ts4ommde0: expected Seq, got {other:?}") };
        assert_eq!(s.len(), 4, "Ts4ommde0: component count");
        let _ = s;
        Ts4ommde0 {
            f0: s[0].as_ref().map(FromValue::from_value),
            f1: s[1].as_ref().map(FromValue::from_value),
            f2: s[2].as_ref().map(FromValue::from_value),
            f3: FromValue::from_value(s[3].as_ref().expect("component f3 of Ts4ommde0 must be present")),
        }
    }
}
impl ToValue for Ts4ommde0 {
    fn to_value(&self) -> Value {
        Value::Seq(vec![
            self.f0.as_ref().map(|x| x.to_value()),
            self.f1.as_ref().map(|x| x.to_value()),
            self.f2.as_ref().map(|x| x.to_value()),
            Some(self.f3.to_value()),
        ])
    }
}
impl FromValue for Ts4ommde1 {
    fn from_value(v: &Value) -> Self {
        let s = match v { Value::Seq(s) => s, other => panic!("Ts4ommde1: expected Seq, got {other:?}") };
        assert_eq!(s.len(), 4, "Ts4ommde1: component count");
        let _ = s;
        Ts4ommde1 {
            f0: s[0].as_ref().map(FromValue::from_value),
            f1: s[1].as_ref().map(FromValue::from_value),
            f2: s[2].as_ref().map(FromValue::from_value),
            f3: FromValue::from_value(s[3].as_ref().expect("component f3 of Ts4ommde1 must be present")),
        }
    }
}
impl ToValue for Ts4ommde1 {
    fn to_value(&self) -> Value {
        Value::Seq(vec![
            self.f0.as_ref().map(|x| x.to_value()),
            self.f1.as_ref().map(|x| x.to_value()),
            self.f2.as_ref().map(|x| x.to_value()),
            Some(self.f3.to_value()),
        ])
    }
}
impl FromValue for Ts4ommde2 {
    fn from_value(v: &Value) -> Self {
        let s = match v { Value::Seq(s) => s, other => panic!("Ts4ommde2: expected Seq, got {other:?}") };
        assert_eq!(s.len(), 4, "Ts4ommde2: component count");
        let _ = s;
        Ts4ommde2 {
            f0: s[0].as_ref().map(FromValue::from_value),
            f1: FromValue::from_value(s[1].as_ref().expect("component f1 of Ts4ommde2 must be present")),
            f2: s[2].as_ref().map(FromValue::from_value),
            f3: FromValue::from_value(s[3].as_ref().expect("component f3 of Ts4ommde2 must be present")),
        }
    }
}
impl ToValue for Ts4ommde2 {
    fn to_value(&self) -> Value {
        Value::Seq(vec![
            self.f0.as_ref().map(|x| x.to_value()),
            Some(self.f1.to_value()),
            self.f2.as_ref().map(|x| x.to_value()),
            Some(self.f3.to_value()),
        ])
    }
}
impl FromValue for Ts4ommde3 {
    fn from_value(v: &Value) -> Self {
        let s = match v { Value::Seq(s) => s, other => panic!("Ts4ommde3: expected Seq, got {other:?}") };
        assert_eq!(s.len(), 4, "Ts4ommde3: component count");
        let _ = s;
        Ts4ommde3 {
            f0: s[0].as_ref().map(FromValue::from_value),
            f1: FromValue::from_value(s[1].as_ref().expect("component f1 of Ts4ommde3 must be present")),
            f2: FromValue::from_value(s[2].as_ref().expect("component f2 of Ts4ommde3 must be present")),
            f3: FromValue::from_value(s[3].as_ref().expect("component f3 of Ts4ommde3 must be present")),
        }
    }
}
impl ToValue for Ts4ommde3 {
    fn to_value(&self) -> Value {
        Value::Seq(vec![
            self.f0.as_ref().map(|x| x.to_value()),
            Some(self.f1.to_value()),
            Some(self.f2.to_value()),
            Some(self.f3.to_value()),
        ])
    }
}
impl FromValue for Ts4ommde4 {
    fn from_value(v: &Value) -> Self {
        let s = match v { Value::Seq(s) => s, other => panic!("Ts4ommde4: expected Seq, got {other:?}") };
        assert_eq!(s.len(), 4, "Ts4ommde4: component count");
        let _ = s;
        Ts4ommde4 {
            f0: s[0].as_ref().map(FromValue::from_value),
            f1: FromValue::from_value(s[1].as_ref().expect("component f1 of Ts4ommde4 must be present")),
            f2: FromValue::from_value(s[2].as_ref().expect("component f2 of Ts4ommde4 must be present")),
            f3: FromValue::from_value(s[3].as_ref().expect("component f3 of Ts4ommde4 must be present")),
        }
    }
}
impl ToValue for Ts4ommde4 {
    fn to_value(&self) -> Value {
        Value::Seq(vec![
            self.f0.as_ref().map(|x| x.to_value()),
            Some(self.f1.to_value()),
            Some(self.f2.to_value()),
            Some(self.f3.to_value()),
        ])
    }
}
impl FromValue for Ts4dmmdn {
    fn from_value(v: &Value) -> Self {
        let s = match v { Value::Seq(s) => s, other => panic!("Ts4dmmdn: expected Seq, got {other:?}") };
        assert_eq!(s.len(), 4, "Ts4dmmdn: component count");
        let _ = s;
        Ts4dmmdn {
            f0: FromValue::from_value(s[0].as_ref().expect("component f0 of Ts4dmmdn must be present")),
            f1: FromValue::from_value(s[1].as_ref().expect("component f1 of Ts4dmmdn must be present")),
            f2: FromValue::from_value(s[2].as_ref().expect("component f2 of Ts4dmmdn must be present")),
            f3: FromValue::from_value(s[3].as_ref().expect("component f3 of Ts4dmmdn must be present")),
        }
    }
}
impl ToValue for Ts4dmmdn {
    fn to_value(&self) -> Value {
        Value::Seq(vec![
            Some(self.f0.to_value()),
            Some(self.f1.to_value()),
            Some(self.f2.to_value()),
            Some(self.f3.to_value()),
        ])
    }
}
impl FromValue for Ts4dmmde0 {
    fn from_value(v: &Value) -> Self {
        let s = match v { Value::Seq(s) => s, other => panic!("Ts4dmmde0: expected Seq, got {other:?}") };
        assert_eq!(s.len(), 4, "Ts4dmmde0: component count");
        let _ = s;
        Ts4dmmde0 {
            f0: FromValue::from_value(s[0].as_ref().expect("component f0 of Ts4dmmde0 must be present")),
            f1: s[1].as_ref().map(FromValue::from_value),
            f2: s[2].as_ref().map(FromValue::from_value),
            f3: FromValue::from_value(s[3].as_ref().expect("component f3 of Ts4dmmde0 must be present")),
        }
    }
}
impl ToValue for Ts4dmmde0 {
    fn to_value(&self) -> Value {
        Value::Seq(vec![
            Some(self.f0.to_value()),
            self.f1.as_ref().map(|x| x.to_value()),
            self.f2.as_ref().map(|x| x.to_value()),
            Some(self.f3.to_value()),
        ])
    }
}
impl FromValue for Ts4dmmde1 {
    fn from_value(v: &Value) -> Self {
        let s = match v { Value::Seq(s) => s, other => panic!("Ts4dmmde1: expected Seq, got {other:?}") };
        assert_eq!(s.len(), 4, "Ts4dmmde1: component count");
        let _ = s;
        Ts4dmmde1 {
            f0: FromValue::from_value(s[0].as_ref().expect("component f0 of Ts4dmmde1 must be present")),
            f1: s[1].as_ref().map(FromValue::from_value),
            f2: s[2].as_ref().map(FromValue::from_value),
            f3: FromValue::from_value(s[3].as_ref().expect("component f3 of Ts4dmmde1 must be present")),
        }
    }
}
impl ToValue for Ts4dmmde1 {
    fn to_value(&self) -> Value {
        Value::Seq(vec![
            Some(self.f0.to_value()),
            self.f1.as_ref().map(|x| x.to_value()),
            self.f2.as_ref().map(|x| x.to_value()),
            Some(self.f3.to_value()),
        ])
    }
}
impl FromValue for Ts4dmmde2 {
    fn from_value(v: &Value) -> Self {
        let s = match v { Value::Seq(s) => s, other => panic!("Ts4dmmde2: expected Seq, got {other:?}") };
        assert_eq!(s.len(), 4, "Ts4dmmde2: component count");
        let _ = s;
        Ts4dmmde2 {
            f0: FromValue::from_value(s[0].as_ref().expect("component f0 of Ts4dmmde2 must be present")),
            f1: FromValue::from_value(s[1].as_ref().expect("component f1 of Ts4dmmde2 must be present")),
            f2: s[2].as_ref().map(FromValue::from_value),
            f3: FromValue::from_value(s[3].as_ref().expect("component f3 of Ts4dmmde2 must be present")),
        }
    }
}
impl ToValue for Ts4dmmde2 {
    fn to_value(&self) -> Value {
        Value::Seq(vec![
            Some(self.f0.to_value()),
            Some(self.f1.to_value()),
            self.f2.as_ref().map(|x| x.to_value()),
            Some(self.f3.to_value()),
        ])
    }
}
impl FromValue for Ts4dmmde3 {
    fn from_value(v: &Value) -> Self {
        let s = match v { Value::Seq(s) => s, other => panic!("Ts4dmmde3: expected Seq, got {other:?}") };
        assert_eq!(s.len(), 4, "Ts4dmmde3: component count");
        let _ = s;
        Ts4dmmde3 {
            f0: FromValue::from_value(s[0].as_ref().expect("component f0 of Ts4dmmde3 must be present")),
            f1: FromValue::from_value(s[1].as_ref().expect("component f1 of Ts4dmmde3 must be present")),
            f2: FromValue::from_value(s[2].as_ref().expect("component f2 of Ts4dmmde3 must be present")),
            f3: FromValue::from_value(s[3].as_ref().expect("component f3 of Ts4dmmde3 must be present")),
        }
    }
}
impl ToValue for Ts4dmmde3 {
    fn to_value(&self) -> Value {
        Value::Seq(vec![
            Some(self.f0.to_value()),
            Some(self.f1.to_value()),
            Some(self.f2.to_value()),
            Some(self.f3.to_value()),
        ])
    }
}
impl FromValue for Ts4dmmde4 {
    fn from_value(v: &Value) -> Self {
        let s = match v { Value::Seq(s) => s, other => panic!("Ts4dmmde4: expected Seq, got {other:?}") };
        assert_eq!(s.len(), 4, "Ts4dmmde4: component count");
        let _ = s;
        Ts4dmmde4 {
            f0: FromValue::from_value(s[0].as_ref().expect("component f0 of Ts4dmmde4 must be present")),
            f1: FromValue::from_value(s[1].as_ref().expect("component f1 of Ts4dmmde4 must be present")),
            f2: FromValue::from_value(s[2].as_ref().expect("component f2 of Ts4dmmde4 must be present")),
            f3: FromValue::from_value(s[3].as_ref().expect("component f3 of Ts4dmmde4 must be present")),
        }
    }
}
impl ToValue for Ts4dmmde4 {
    fn to_value(&self) -> Value {
        Value::Seq(vec![
            Some(self.f0.to_value()),
            Some(self.f1.to_value()),
            Some(self.f2.to_value()),
            Some(self.f3.to_value()),
        ])
    }
}
impl FromValue for Ts4momdn {
    fn from_value(v: &Value) -> Self {
        let s = match v { Value::Seq(s) => s, other => panic!("Ts4momdn: expected Seq, got {other:?}") };
        assert_eq!(s.len(), 4, "Ts4momdn: component count");
        let _ = s;
        Ts4momdn {
            f0: FromValue::from_value(s[0].as_ref().expect("component f0 of Ts4momdn must be present")),
            f1: s[1].as_ref().map(FromValue::from_value),
            f2: FromValue::from_value(s[2].as_ref().expect("component f2 of Ts4momdn must be present")),
            f3: FromValue::from_value(s[3].as_ref().expect("component f3 of Ts4momdn must be present")),
        }
    }
}
impl ToValue for Ts4momdn {
    fn to_value(&self) -> Value {
        Value::Seq(vec![
            Some(self.f0.to_value()),
            self.f1.as_ref().map(|x| x.to_value()),
            Some(self.f2.to_value()),
            Some(self.f3.to_value()),
        ])
    }
}
impl FromValue for Ts4momde0 {
    fn from_value(v: &Value) -> Self {
        let s = match v { Value::Seq(s) => s, other => panic!("Ts4momde0: expected Seq, got {other:?}") };
        assert_eq!(s.len(), 4, "Ts4momde0: component count");
        let _ = s;
        Ts4momde0 {
            f0: FromValue::from_value(s[0].as_ref().expect("component f0 of Ts4momde0 must be present")),
            f1: s[1].as_ref().map(FromValue::from_value),
            f2: s[2].as_ref().map(FromValue::from_value),
            f3: FromValue::from_value(s[3].as_ref().expect("component f3 of Ts4momde0 must be present")),
        }
    }
}
impl ToValue for Ts4momde0 {
    fn to_value(&self) -> Value {
        Value::Seq(vec![
            Some(self.f0.to_value()),
            self.f1.as_ref().map(|x| x.to_value()),
            self.f2.as_ref().map(|x| x.to_value()),
            Some(self.f3.to_value()),
        ])
    }
}
impl FromValue for Ts4momde1 {
    fn from_value(v: &Value) -> Self {
        let s = match v { Value::Seq(s) => s, other => panic!("Ts4momde1: expected Seq, got {other:?}") };
        assert_eq!(s.len(), 4, "Ts4momde1: component count");
        let _ = s;
        Ts4momde1 {
            f0: FromValue::from_value(s[0].as_ref().expect("component f0 of Ts4momde1 must be present")),
            f1: s[1].as_ref().map(FromValue::from_value),
            f2: s[2].as_ref().map(FromValue::from_value),
            f3: FromValue::from_value(s[3].as_ref().expect("component f3 of Ts4momde1 must be present")),
        }
    }
}
impl ToValue for Ts4momde1 {
    fn to_value(&self) -> Value {
        Value::Seq(vec![
            Some(self.f0.to_value()),
            self.f1.as_ref().map(|x| x.to_value()),
            self.f2.as_ref().map(|x| x.to_value()),
            Some(self.f3.to_value()),
        ])
    }
}
impl FromValue for Ts4momde2 {
    fn from_value(v: &Value) -> Self {
        let s = match v { Value::Seq(s) => s, other => panic!("Ts4momde2: expected Seq, got {other:?}") };
        assert_eq!(s.len(), 4, "Ts4momde2: component count");
        let _ = s;
        Ts4momde2 {
            f0: FromValue::from_value(s[0].as_ref().expect("component f0 of Ts4momde2 must be present")),
            f1: s[1].as_ref().map(FromValue::from_value),
            f2: s[2].as_ref().map(FromValue::from_value),
            f3: FromValue::from_value(s[3].as_ref().expect("component f3 of Ts4momde2 must be present")),
        }
    }
}
impl ToValue for Ts4momde2 {
    fn to_value(&self) -> Value {
        Value::Seq(vec![
            Some(self.f0.to_value()),
            self.f1.as_ref().map(|x| x.to_value()),
            self.f2.as_ref().map(|x| x.to_value()),
            Some(self.f3.to_value()),
        ])
    }
}
impl FromValue for Ts4momde3 {
    fn from_value(v: &Value) -> Self {
        let s = match v { Value::Seq(s) => s, other => panic!("Ts4momde3: expected Seq, got {other:?}") };
        assert_eq!(s.len(), 4, "Ts4momde3: component count");
        let _ = s;
        Ts4momde3 {
            f0: FromValue::from_value(s[0].as_ref().expect("component f0 of Ts4momde3 must be present")),
            f1: s[1].as_ref().map(FromValue::from_value),
            f2: FromValue::from_value(s[2].as_ref().expect("component f2 of Ts4momde3 must be present")),
            f3: FromValue::from_value(s[3].as_ref().expect("component f3 of Ts4momde3 must be present")),
        }
    }
}
impl ToValue for Ts4momde3 {
    fn to_value(&self) -> Value {
        Value::Seq(vec![
            Some(self.f0.to_value()),
            self.f1.as_ref().map(|x| x.to_value()),
            Some(self.f2.to_value()),
            Some(self.f3.to_value()),
        ])
    }
}
impl FromValue for Ts4momde4 {
    fn from_value(v: &Value) -> Self {
        let s = match v { Value::Seq(s) => s, other => panic!("Ts4momde4: expected Seq, got {other:?}") };
        assert_eq!(s.len(), 4, "Ts4momde4: component count");
        let _ = s;
        Ts4momde4 {
            f0: FromValue::from_value(s[0].as_ref().expect("component f0 of Ts4momde4 must be present")),
            f1: s[1].as_ref().map(FromValue::from_value),
            f2: FromValue::from_value(s[2].as_ref().expect("component f2 of Ts4momde4 must be present")),
            f3: FromValue::from_value(s[3].as_ref().expect("component f3 of Ts4momde4 must be present")),
        }
    }
}
impl ToValue for Ts4momde4 {
    fn to_value(&self) -> Value {
        Value::Seq(vec![
            Some(self.f0.to_value()),
            self.f1.as_ref().map(|x| x.to_value()),
            Some(self.f2.to_value()),
            Some(self.f3.to_value()),
        ])
    }
}
impl FromValue for Ts4oomdn {
    fn from_value(v: &Value) -> Self {
        let s = match v { Value::Seq(s) => s, other => panic!("Ts4oomdn: expected Seq, got {other:?}") };
        assert_eq!(s.len(), 4, "Ts4oomdn: component count");
        let _ = s;
        Ts4oomdn {
            f0: s[0].as_ref().map(FromValue::from_value),
            f1: s[1].as_ref().map(FromValue::from_value),
            f2: FromValue::from_value(s[2].as_ref().expect("component f2 of Ts4oomdn must be present")),
            f3: FromValue::from_value(s[3].as_ref().expect("component f3 of Ts4oomdn must be present")),
        }
    }
}
impl ToValue for Ts4oomdn {
    fn to_value(&self) -> Value {
        Value::Seq(vec![
            self.f0.as_ref().map(|x| x.to_value()),
            self.f1.as_ref().map(|x| x.to_value()),
            Some(self.f2.to_value()),
            Some(self.f3.to_value()),
        ])
    }
}
impl FromValue for Ts4oomde0 {
    fn from_value(v: &Value) -> Self {
        let s = match v { Value::Seq(s) => s, other => panic!("Ts4oomde0: expected Seq, got {other:?}") };
        assert_eq!(s.len(), 4, "Ts4oomde0: component count");
        let _ = s;
        Ts4oomde0 {
            f0: s[0].as_ref().map(FromValue::from_value),
            f1: s[1].as_ref().map(FromValue::from_value),
            f2: s[2].as_ref().map(FromValue::from_value),
            f3: FromValue::from_value(s[3].as_ref().expect("component f3 of Ts4oomde0 must be present")),
        }
    }
}
impl ToValue for Ts4oomde0 {
    fn to_value(&self) -> Value {
        Value::Seq(vec![
            self.f0.as_ref().map(|x| x.to_value()),
            self.f1.as_ref().map(|x| x.to_value()),
            self.f2.as_ref().map(|x| x.to_value()),
            Some(self.f3.to_value()),
        ])
    }
}
impl FromValue for Ts4oomde1 {
    fn from_value(v: &Value) -> Self {
        let s = match v { Value::Seq(s) => s, other => panic!("Ts4oomde1: expected Seq, got {other:?}") };
        assert_eq!(s.len(), 4, "Ts4oomde1: component count");
        let _ = s;
        Ts4oomde1 {
            f0: s[0].as_ref().map(FromValue::from_value),
            f1: s[1].as_ref().map(FromValue::from_value),
            f2: s[2].as_ref().map(FromValue::from_value),
            f3: FromValue::from_value(s[3].as_ref().expect("component f3 of Ts4oomde1 must be present")),
        }
    }
}
impl ToValue for Ts4oomde1 {
    fn to_value(&self) -> Value {
        Value::Seq(vec![
            self.f0.as_ref().map(|x| x.to_value()),
            self.f1.as_ref().map(|x| x.to_value()),
            self.f2.as_ref().map(|x| x.to_value()),
            Some(self.f3.to_value()),
        ])
    }
}
impl FromValue for Ts4oomde2 {
    fn from_value(v: &Value) -> Self {
        let s = match v { Value::Seq(s) => s, other => panic!("Ts4oomde2: expected Seq, got {other:?}") };
        assert_eq!(s.len(), 4, "Ts4oomde2: component count");
        let _ = s;
        Ts4oomde2 {
            f0: s[0].as_ref().map(FromValue::from_value),
            f1: s[1].as_ref().map(FromValue::from_value),
            f2: s[2].as_ref().map(FromValue::from_value),
            f3: FromValue::from_value(s[3].as_ref().expect("component f3 of Ts4oomde2 must be present")),
        }
    }
}
impl ToValue for Ts4oomde2 {
    fn to_value(&self) -> Value {
        Value::Seq(vec![
            self.f0.as_ref().map(|x| x.to_value()),
            self.f1.as_ref().map(|x| x.to_value()),
            self.f2.as_ref().map(|x| x.to_value()),
            Some(self.f3.to_value()),
        ])
    }
}
impl FromValue for Ts4oomde3 {
    fn from_value(v: &Value) -> Self {
        let s = match v { Value::Seq(s) => s, other => panic!("Ts4oomde3: expected Seq, got {other:?}") };
        assert_eq!(s.len(), 4, "Ts4oomde3: component count");
        let _ = s;
        Ts4oomde3 {
            f0: s[0].as_ref().map(FromValue::from_value),
            f1: s[1].as_ref().map(FromValue::from_value),
            f2: FromValue::from_value(s[2].as_ref().expect("component f2 of Ts4oomde3 must be present")),
            f3: FromValue::from_value(s[3].as_ref().expect("component f3 of Ts4oomde3 must be present")),
        }
    }
}
impl ToValue for Ts4oomde3 {
    fn to_value(&self) -> Value {
        Value::Seq(vec![
            self.f0.as_ref().map(|x| x.to_value()),
            self.f1.as_ref().map(|x| x.to_value()),
            Some(self.f2.to_value()),
            Some(self.f3.to_value()),
        ])
    }
}
impl FromValue for Ts4oomde4 {
    fn from_value(v: &Value) -> Self {
        let s = match v { Value::Seq(s) => s, other => panic!("Ts4oomde4: expected Seq, got {other:?}") };
        assert_eq!(s.len(), 4, "Ts4oomde4: component count");
        let _ = s;
        Ts4oomde4 {
            f0: s[0].as_ref().map(FromValue::from_value),
            f1: s[1].as_ref().map(FromValue::from_value),
            f2: FromValue::from_value(s[2].as_ref().expect("component f2 of Ts4oomde4 must be present")),
            f3: FromValue::from_value(s[3].as_ref().expect("component f3 of Ts4oomde4 must be present")),
        }
    }
}
impl ToValue for Ts4oomde4 {
    fn to_value(&self) -> Value {
        Value::Seq(vec![
            self.f0.as_ref().map(|x| x.to_value()),
            self.f1.as_ref().map(|x| x.to_value()),
            Some(self.f2.to_value()),
            Some(self.f3.to_value()),
        ])
    }
}
impl FromValue for Ts4domdn {
    fn from_value(v: &Value) -> Self {
        let s = match v { Value::Seq(s) => s, other => panic!("Ts4domdn: expected Seq, got {other:?}") };
        assert_eq!(s.len(), 4, "Ts4domdn: component count");
        let _ = s;
        Ts4domdn {
            f0: FromValue::from_value(s[0].as_ref().expect("component f0 of Ts4domdn must be present")),
            f1: s[1].as_ref().map(FromValue::from_value),
            f2: FromValue::from_value(s[2].as_ref().expect("component f2 of Ts4domdn must be present")),
            f3: FromValue::from_value(s[3].as_ref().expect("component f3 of Ts4domdn must be present")),
        }
    }
}
impl ToValue for Ts4domdn {
    fn to_value(&self) -> Value {
        Value::Seq(vec![
            Some(self.f0.to_value()),
            self.f1.as_ref().map(|x| x.to_value()),
            Some(self.f2.to_value()),
            Some(self.f3.to_value()),
        ])
    }
}
impl FromValue for Ts4domde0 {
    fn from_value(v: &Value) -> Self {
        let s = match v { Value::Seq(s) => s, other => panic!("Ts4domde0: expected Seq, got {other:?}") };
        assert_eq!(s.len(), 4, "Ts4domde0: component count");
        let _ = s;
        Ts4domde0 {
            f0: FromValue::from_value(s[0].as_ref().expect("component f0 of Ts4domde0 must be present")),
            f1: s[1].as_ref().map(FromValue::from_value),
            f2: s[2].as_ref().map(FromValue::from_value),
            f3: FromValue::from_value(s[3].as_ref().expect("component f3 of Ts4domde0 must be present")),
        }
    }
}
impl ToValue for Ts4domde0 {
    fn to_value(&self) -> Value {
        Value::Seq(vec![
            Some(self.f0.to_value()),
            self.f1.as_ref().map(|x| x.to_value()),
            self.f2.as_ref().map(|x| x.to_value()),
            Some(self.f3.to_value()),
        ])
    }
}
impl FromValue for Ts4domde1 {
    fn from_value(v: &Value) -> Self {
        let s = match v { Value::Seq(s) => s, other => panic!("Ts4domde1: expected Seq, got {other:?}") };
        assert_eq!(s.len(), 4, "Ts4domde1: component count");
        let _ = s;
        Ts4domde1 {
            f0: FromValue::from_value(s[0].as_ref().expect("component f0 of Ts4domde1 must be present")),
            f1: s[1].as_ref().map(FromValue::from_value),
            f2: s[2].as_ref().map(FromValue::from_value),
            f3: FromValue::from_value(s[3].as_ref().expect("component f3 of Ts4domde1 must be present")),
        }
    }
}
impl ToValue for Ts4domde1 {
    fn to_value(&self) -> Value {
        Value::Seq(vec![
            Some(self.f0.to_value()),
            self.f1.as_ref().map(|x| x.to_value()),
            self.f2.as_ref().map(|x| x.to_value()),
            Some(self.f3.to_value()),
        ])
    }
}
impl FromValue for Ts4domde2 {
    fn from_value(v: &Value) -> Self {
        let s = match v { Value::Seq(s) => s, other => panic!("Ts4domde2: expected Seq, got {other:?}") };
        assert_eq!(s.len(), 4, "Ts4domde2: component count");
        let _ = s;
        Ts4domde2 {
            f0: FromValue::from_value(s[0].as_ref().expect("component f0 of Ts4domde2 must be present")),
            f1: s[1].as_ref().map(FromValue::from_value),
            f2: s[2].as_ref().map(FromValue::from_value),
            f3: FromValue::from_value(s[3].as_ref().expect("component f3 of Ts4domde2 must be present")),
        }
    }
}
impl ToValue for Ts4domde2 {
    fn to_value(&self) -> Value {
        Value::Seq(vec![
            Some(self.f0.to_value()),
            self.f1.as_ref().map(|x| x.to_value()),
            self.f2.as_ref().map(|x| x.to_value()),
            Some(self.f3.to_value()),
        ])
    }
}
impl FromValue for Ts4domde3 {
    fn from_value(v: &Value) -> Self {
        let s = match v { Value::Seq(s) => s, other => panic!("Ts4domde3: expected Seq, got {other:?}") };
        assert_eq!(s.len(), 4, "Ts4domde3: component count");
        let _ = s;
        Ts4domde3 {
            f0: FromValue::from_value(s[0].as_ref().expect("component f0 of Ts4domde3 must be present")),
            f1: s[1].as_ref().map(FromValue::from_value),
            f2: FromValue::from_value(s[2].as_ref().expect("component f2 of Ts4domde3 must be present")),
            f3: FromValue::from_value(s[3].as_ref().expect("component f3 of Ts4domde3 must be present")),
        }
    }
}
impl ToValue for Ts4domde3 {
    fn to_value(&self) -> Value {
        Value::Seq(vec![
            Some(self.f0.to_value()),
            self.f1.as_ref().map(|x| x.to_value()),
            Some(self.f2.to_value()),
            Some(self.f3.to_value()),
        ])
    }
}
impl FromValue for Ts4domde4 {
    fn from_value(v: &Value) -> Self {
        let s = match v { Value::Seq(s) => s, other => panic!("Ts4domde4: expected Seq, got {other:?}") };
        assert_eq!(s.len(), 4, "Ts4domde4: component count");
        let _ = s;
        Ts4domde4 {
            f0: FromValue::from_value(s[0].as_ref().expect("component f0 of Ts4domde4 must be present")),
            f1: s[1].as_ref().map(FromValue::from_value),
            f2: FromValue::from_value(s[2].as_ref().expect("component f2 of Ts4domde4 must be present")),
            f3: FromValue::from_value(s[3].as_ref().expect("component f3 of Ts4domde4 must be present")),
        }
    }
}
impl ToValue for Ts4domde4 {
    fn to_value(&self) -> Value {
        Value::Seq(vec![
            Some(self.f0.to_value()),
            self.f1.as_ref().map(|x| x.to_value()),
            Some(self.f2.to_value()),
            Some(self.f3.to_value()),
        ])
    }
}

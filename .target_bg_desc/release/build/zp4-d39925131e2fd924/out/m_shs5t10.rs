use asn1rs::prelude::*;

#[asn(sequence, extensible_after(f1))]

#[derive(Default, Debug, Clone, PartialEq, Hash)]
pub struct Ts5mmomde2 {
    #[asn(integer(0..7))] pub f0: u8,
    #[asn(integer(0..7))] pub f1: u8,
    #[asn(optional(integer(0..7)))] pub f2: Option<u8>,
    #[asn(optional(integer(0..7)))] pub f3: Option<u8>,
    #[asn(default(integer(0..7), 5))] pub f4: u8,
}

impl Ts5mmomde2 {
    pub const fn f0_min() -> u8 {
        0
    }

    pub const fn f0_max() -> u8 {
        7
    }

    pub const fn f1_min() -> u8 {
        0
    }

    pub const fn f1_max() -> u8 {
        7
    }

    pub const fn f2_min() -> u8 {
        0
    }

    pub const fn f2_max() -> u8 {
        7
    }

    pub const fn f3_min() -> u8 {
        0
    }

    pub const fn f3_max() -> u8 {
        7
    }

    pub const fn f4_min() -> u8 {
        0
    }

    pub const fn f4_max() -> u8 {
        7
    }
}

#[asn(sequence, extensible_after(f2))]

#[derive(Default, Debug, Clone, PartialEq, Hash)]
pub struct Ts5mmomde3 {
    #[asn(integer(0..7))] pub f0: u8,
    #[asn(integer(0..7))] pub f1: u8,
    #[asn(optional(integer(0..7)))] pub f2: Option<u8>,
    #[asn(optional(integer(0..7)))] pub f3: Option<u8>,
    #[asn(default(integer(0..7), 5))] pub f4: u8,
}

impl Ts5mmomde3 {
    pub const fn f0_min() -> u8 {
        0
    }

    pub const fn f0_max() -> u8 {
        7
    }

    pub const fn f1_min() -> u8 {
        0
    }

    pub const fn f1_max() -> u8 {
        7
    }

    pub const fn f2_min() -> u8 {
        0
    }

    pub const fn f2_max() -> u8 {
        7
    }

    pub const fn f3_min() -> u8 {
        0
    }

    pub const fn f3_max() -> u8 {
        7
    }

    pub const fn f4_min() -> u8 {
        0
    }

    pub const fn f4_max() -> u8 {
        7
    }
}

#[asn(sequence, extensible_after(f3))]

#[derive(Default, Debug, Clone, PartialEq, Hash)]
pub struct Ts5mmomde4 {
    #[asn(integer(0..7))] pub f0: u8,
    #[asn(integer(0..7))] pub f1: u8,
    #[asn(optional(integer(0..7)))] pub f2: Option<u8>,
    #[asn(integer(0..7))] pub f3: u8,
    #[asn(default(integer(0..7), 5))] pub f4: u8,
}

impl Ts5mmomde4 {
    pub const fn f0_min() -> u8 {
        0
    }

    pub const fn f0_max() -> u8 {
        7
    }

    pub const fn f1_min() -> u8 {
        0
    }

    pub const fn f1_max() -> u8 {
        7
    }

    pub const fn f2_min() -> u8 {
        0
    }

    pub const fn f2_max() -> u8 {
        7
    }

    pub const fn f3_min() -> u8 {
        0
    }

    pub const fn f3_max() -> u8 {
        7
    }

    pub const fn f4_min() -> u8 {
        0
    }

    pub const fn f4_max() -> u8 {
        7
    }
}

#[asn(sequence, extensible_after(f4))]

#[derive(Default, Debug, Clone, PartialEq, Hash)]
pub struct Ts5mmomde5 {
    #[asn(integer(0..7))] pub f0: u8,
    #[asn(integer(0..7))] pub f1: u8,
    #[asn(optional(integer(0..7)))] pub f2: Option<u8>,
    #[asn(integer(0..7))] pub f3: u8,
    #[asn(default(integer(0..7), 5))] pub f4: u8,
}

impl Ts5mmomde5 {
    pub const fn f0_min() -> u8 {
        0
    }

    pub const fn f0_max() -> u8 {
        7
    }

    pub const fn f1_min() -> u8 {
        0
    }

    pub const fn f1_max() -> u8 {
        7
    }

    pub const fn f2_min() -> u8 {
        0
    }

    pub const fn f2_max() -> u8 {
        7
    }

    pub const fn f3_min() -> u8 {
        0
    }

    pub const fn f3_max() -> u8 {
        7
    }

    pub const fn f4_min() -> u8 {
        0
    }

    pub const fn f4_max() -> u8 {
        7
    }
}

#[asn(sequence)]

#[derive(Default, Debug, Clone, PartialEq, Hash)]
pub struct Ts5omomdn {
    #[asn(optional(integer(0..7)))] pub f0: Option<u8>,
    #[asn(integer(0..7))] pub f1: u8,
    #[asn(optional(integer(0..7)))] pub f2: Option<u8>,
    #[asn(integer(0..7))] pub f3: u8,
    #[asn(default(integer(0..7), 5))] pub f4: u8,
}

impl Ts5omomdn {
    pub const fn f0_min() -> u8 {
        0
    }

    pub const fn f0_max() -> u8 {
        7
    }

    pub const fn f1_min() -> u8 {
        0
    }

    pub const fn f1_max() -> u8 {
        7
    }

    pub const fn f2_min() -> u8 {
        0
    }

    pub const fn f2_max() -> u8 {
        7
    }

    pub const fn f3_min() -> u8 {
        0
    }

    pub const fn f3_max() -> u8 {
        7
    }

    pub const fn f4_min() -> u8 {
        0
    }

    pub const fn f4_max() -> u8 {
        7
    }
}

#[asn(sequence, extensible_after(f0))]

#[derive(Default, Debug, Clone, PartialEq, Hash)]
pub struct Ts5omomde0 {
    #[asn(optional(integer(0..7)))] pub f0: Option<u8>,
    #[asn(optional(integer(0..7)))] pub f1: Option<u8>,
    #[asn(optional(integer(0..7)))] pub f2: Option<u8>,
    #[asn(optional(integer(0..7)))] pub f3: Option<u8>,
    #[asn(default(integer(0..7), 5))] pub f4: u8,
}

impl Ts5omomde0 {
    pub const fn f0_min() -> u8 {
        0
    }

    pub const fn f0_max() -> u8 {
        7
    }

    pub const fn f1_min() -> u8 {
        0
    }

    pub const fn f1_max() -> u8 {
        7
    }

    pub const fn f2_min() -> u8 {
        0
    }

    pub const fn f2_max() -> u8 {
        7
    }

    pub const fn f3_min() -> u8 {
        0
    }

    pub const fn f3_max() -> u8 {
        7
    }

    pub const fn f4_min() -> u8 {
        0
    }

    pub const fn f4_max() -> u8 {
        7
    }
}

#[asn(sequence, extensible_after(f0))]

#[derive(Default, Debug, Clone, PartialEq, Hash)]
pub struct Ts5omomde1 {
    #[asn(optional(integer(0..7)))] pub f0: Option<u8>,
    #[asn(optional(integer(0..7)))] pub f1: Option<u8>,
    #[asn(optional(integer(0..7)))] pub f2: Option<u8>,
    #[asn(optional(integer(0..7)))] pub f3: Option<u8>,
    #[asn(default(integer(0..7), 5))] pub f4: u8,
}

impl Ts5omomde1 {
    pub const fn f0_min() -> u8 {
        0
    }

    pub const fn f0_max() -> u8 {
        7
    }

    pub const fn f1_min() -> u8 {
        0
    }

    pub const fn f1_max() -> u8 {
        7
    }

    pub const fn f2_min() -> u8 {
        0
    }

    pub const fn f2_max() -> u8 {
        7
    }

    pub const fn f3_min() -> u8 {
        0
    }

    pub const fn f3_max() -> u8 {
        7
    }

    pub const fn f4_min() -> u8 {
        0
    }

    pub const fn f4_max() -> u8 {
        7
    }
}

#[asn(sequence, extensible_after(f1))]

#[derive(Default, Debug, Clone, PartialEq, Hash)]
pub struct Ts5omomde2 {
    #[asn(optional(integer(0..7)))] pub f0: Option<u8>,
    #[asn(integer(0..7))] pub f1: u8,
    #[asn(optional(integer(0..7)))] pub f2: Option<u8>,
    #[asn(optional(integer(0..7)))] pub f3: Option<u8>,
    #[asn(default(integer(0..7), 5))] pub f4: u8,
}

impl Ts5omomde2 {
    pub const fn f0_min() -> u8 {
        0
    }

    pub const fn f0_max() -> u8 {
        7
    }

    pub const fn f1_min() -> u8 {
        0
    }

    pub const fn f1_max() -> u8 {
        7
    }

    pub const fn f2_min() -> u8 {
        0
    }

    pub const fn f2_max() -> u8 {
        7
    }

    pub const fn f3_min() -> u8 {
        0
    }

    pub const fn f3_max() -> u8 {
        7
    }

    pub const fn f4_min() -> u8 {
        0
    }

    pub const fn f4_max() -> u8 {
        7
    }
}

#[asn(sequence, extensible_after(f2))]

#[derive(Default, Debug, Clone, PartialEq, Hash)]
pub struct Ts5omomde3 {
    #[asn(optional(integer(0..7)))] pub f0: Option<u8>,
    #[asn(integer(0..7))] pub f1: u8,
    #[asn(optional(integer(0..7)))] pub f2: Option<u8>,
    #[asn(optional(integer(0..7)))] pub f3: Option<u8>,
    #[asn(default(integer(0..7), 5))] pub f4: u8,
}

impl Ts5omomde3 {
    pub const fn f0_min() -> u8 {
        0
    }

    pub const fn f0_max() -> u8 {
        7
    }

    pub const fn f1_min() -> u8 {
        0
    }

    pub const fn f1_max() -> u8 {
        7
    }

    pub const fn f2_min() -> u8 {
        0
    }

    pub const fn f2_max() -> u8 {
        7
    }

    pub const fn f3_min() -> u8 {
        0
    }

    pub const fn f3_max() -> u8 {
        7
    }

    pub const fn f4_min() -> u8 {
        0
    }

    pub const fn f4_max() -> u8 {
        7
    }
}

#[asn(sequence, extensible_after(f3))]

#[derive(Default, Debug, Clone, PartialEq, Hash)]
pub struct Ts5omomde4 {
    #[asn(optional(integer(0..7)))] pub f0: Option<u8>,
    #[asn(integer(0..7))] pub f1: u8,
    #[asn(optional(integer(0..7)))] pub f2: Option<u8>,
    #[asn(integer(0..7))] pub f3: u8,
    #[asn(default(integer(0..7), 5))] pub f4: u8,
}

impl Ts5omomde4 {
    pub const fn f0_min() -> u8 {
        0
    }

    pub const fn f0_max() -> u8 {
        7
    }

    pub const fn f1_min() -> u8 {
        0
    }

    pub const fn f1_max() -> u8 {
        7
    }

    pub const fn f2_min() -> u8 {
        0
    }

    pub const fn f2_max() -> u8 {
        7
    }

    pub const fn f3_min() -> u8 {
        0
    }

    pub const fn f3_max() -> u8 {
        7
    }

    pub const fn f4_min() -> u8 {
        0
    }

    pub const fn f4_max() -> u8 {
        7
    }
}

#[asn(sequence, extensible_after(f4))]

#[derive(Default, Debug, Clone, PartialEq, Hash)]
pub struct Ts5omomde5 {
    #[asn(optional(integer(0..7)))] pub f0: Option<u8>,
    #[asn(integer(0..7))] pub f1: u8,
    #[asn(optional(integer(0..7)))] pub f2: Option<u8>,
    #[asn(integer(0..7))] pub f3: u8,
    #[asn(default(integer(0..7), 5))] pub f4: u8,
}

impl Ts5omomde5 {
    pub const fn f0_min() -> u8 {
        0
    }

    pub const fn f0_max() -> u8 {
        7
    }

    pub const fn f1_min() -> u8 {
        0
    }

    pub const fn f1_max() -> u8 {
        7
    }

    pub const fn f2_min() -> u8 {
        0
    }

    pub const fn f2_max() -> u8 {
        7
    }

    pub const fn f3_min() -> u8 {
        0
    }

    pub const fn f3_max() -> u8 {
        7
    }

    pub const fn f4_min() -> u8 {
        0
    }

    pub const fn f4_max() -> u8 {
        7
    }
}

#[asn(sequence)]

#[derive(Default, Debug, Clone, PartialEq, Hash)]
pub struct Ts5dmomdn {
    #[asn(default(integer(0..7), 5))] pub f0: u8,
    #[asn(integer(0..7))] pub f1: u8,
    #[asn(optional(integer(0..7)))] pub f2: Option<u8>,
    #[asn(integer(0..7))] pub f3: u8,
    #[asn(default(integer(0..7), 5))] pub f4: u8,
}

impl Ts5dmomdn {
    pub const fn f0_min() -> u8 {
        0
    }

    pub const fn f0_max() -> u8 {
        7
    }

    pub const fn f1_min() -> u8 {
        0
    }

    pub const fn f1_max() -> u8 {
        7
    }

    pub const fn f2_min() -> u8 {
        0
    }

    pub const fn f2_max() -> u8 {
        7
    }

    pub const fn f3_min() -> u8 {
        0
    }

    pub const fn f3_max() -> u8 {
        7
    }

    pub const fn f4_min() -> u8 {
        0
    }

    pub const fn f4_max() -> u8 {
        7
    }
}

#[asn(sequence, extensible_after(f0))]

#[derive(Default, Debug, Clone, PartialEq, Hash)]
pub struct Ts5dmomde0 {
    #[asn(default(integer(0..7), 5))] pub f0: u8,
    #[asn(optional(integer(0..7)))] pub f1: Option<u8>,
    #[asn(optional(integer(0..7)))] pub f2: Option<u8>,
    #[asn(optional(integer(0..7)))] pub f3: Option<u8>,
    #[asn(default(integer(0..7), 5))] pub f4: u8,
}

impl Ts5dmomde0 {
    pub const fn f0_min() -> u8 {
        0
    }

    pub const fn f0_max() -> u8 {
        7
    }

    pub const fn f1_min() -> u8 {
        0
    }

    pub const fn f1_max() -> u8 {
        7
    }

    pub const fn f2_min() -> u8 {
        0
    }

    pub const fn f2_max() -> u8 {
        7
    }

    pub const fn f3_min() -> u8 {
        0
    }

    pub const fn f3_max() -> u8 {
        7
    }

    pub const fn f4_min() -> u8 {
        0
    }

    pub const fn f4_max() -> u8 {
        7
    }
}

#[asn(sequence, extensible_after(f0))]

#[derive(Default, Debug, Clone, PartialEq, Hash)]
pub struct Ts5dmomde1 {
    #[asn(default(integer(0..7), 5))] pub f0: u8,
    #[asn(optional(integer(0..7)))] pub f1: Option<u8>,
    #[asn(optional(integer(0..7)))] pub f2: Option<u8>,
    #[asn(optional(integer(0..7)))] pub f3: Option<u8>,
    #[asn(default(integer(0..7), 5))] pub f4: u8,
}

impl Ts5dmomde1 {
    pub const fn f0_min() -> u8 {
        0
    }

    pub const fn f0_max() -> u8 {
        7
    }

    pub const fn f1_min() -> u8 {
        0
    }

    pub const fn f1_max() -> u8 {
        7
    }

    pub const fn f2_min() -> u8 {
        0
    }

    pub const fn f2_max() -> u8 {
        7
    }

    pub const fn f3_min() -> u8 {
        0
    }

    pub const fn f3_max() -> u8 {
        7
    }

    pub const fn f4_min() -> u8 {
        0
    }

    pub const fn f4_max() -> u8 {
        7
    }
}

#[asn(sequence, extensible_after(f1))]

#[derive(Default, Debug, Clone, PartialEq, Hash)]
pub struct Ts5dmomde2 {
    #[asn(default(integer(0..7), 5))] pub f0: u8,
    #[asn(integer(0..7))] pub f1: u8,
    #[asn(optional(integer(0..7)))] pub f2: Option<u8>,
    #[asn(optional(integer(0..7)))] pub f3: Option<u8>,
    #[asn(default(integer(0..7), 5))] pub f4: u8,
}

impl Ts5dmomde2 {
    pub const fn f0_min() -> u8 {
        0
    }

    pub const fn f0_max() -> u8 {
        7
    }

    pub const fn f1_min() -> u8 {
        0
    }

    pub const fn f1_max() -> u8 {
        7
    }

    pub const fn f2_min() -> u8 {
        0
    }

    pub const fn f2_max() -> u8 {
        7
    }

    pub const fn f3_min() -> u8 {
        0
    }

    pub const fn f3_max() -> u8 {
        7
    }

    pub const fn f4_min() -> u8 {
        0
    }

    pub const fn f4_max() -> u8 {
        7
    }
}

#[asn(sequence, extensible_after(f2))]

#[derive(Default, Debug, Clone, PartialEq, Hash)]
pub struct Ts5dmomde3 {
    #[asn(default(integer(0..7), 5))] pub f0: u8,
    #[asn(integer(0..7))] pub f1: u8,
    #[asn(optional(integer(0..7)))] pub f2: Option<u8>,
    #[asn(optional(integer(0..7)))] pub f3: Option<u8>,
    #[asn(default(integer(0..7), 5))] pub f4: u8,
}

impl Ts5dmomde3 {
    pub const fn f0_min() -> u8 {
        0
    }

    pub const fn f0_max() -> u8 {
        7
    }

    pub const fn f1_min() -> u8 {
        0
    }

    pub const fn f1_max() -> u8 {
        7
    }

    pub const fn f2_min() -> u8 {
        0
    }

    pub const fn f2_max() -> u8 {
        7
    }

    pub const fn f3_min() -> u8 {
        0
    }

    pub const fn f3_max() -> u8 {
        7
    }

    pub const fn f4_min() -> u8 {
        0
    }

    pub const fn f4_max() -> u8 {
        7
    }
}

#[asn(sequence, extensible_after(f3))]

#[derive(Default, Debug, Clone, PartialEq, Hash)]
pub struct Ts5dmomde4 {
    #[asn(default(integer(0..7), 5))] pub f0: u8,
    #[asn(integer(0..7))] pub f1: u8,
    #[asn(optional(integer(0..7)))] pub f2: Option<u8>,
    #[asn(integer(0..7))] pub f3: u8,
    #[asn(default(integer(0..7), 5))] pub f4: u8,
}

impl Ts5dmomde4 {
    pub const fn f0_min() -> u8 {
        0
    }

    pub const fn f0_max() -> u8 {
        7
    }

    pub const fn f1_min() -> u8 {
        0
    }

    pub const fn f1_max() -> u8 {
        7
    }

    pub const fn f2_min() -> u8 {
        0
    }

    pub const fn f2_max() -> u8 {
        7
    }

    pub const fn f3_min() -> u8 {
        0
    }

    pub const fn f3_max() -> u8 {
        7
    }

    pub const fn f4_min() -> u8 {
        0
    }

    pub const fn f4_max() -> u8 {
        7
    }
}

#[asn(sequence, extensible_after(f4))]

#[derive(Default, Debug, Clone, PartialEq, Hash)]
pub struct Ts5dmomde5 {
    #[asn(default(integer(0..7), 5))] pub f0: u8,
    #[asn(integer(0..7))] pub f1: u8,
    #[asn(optional(integer(0..7)))] pub f2: Option<u8>,
    #[asn(integer(0..7))] pub f3: u8,
    #[asn(default(integer(0..7), 5))] pub f4: u8,
}

impl Ts5dmomde5 {
    pub const fn f0_min() -> u8 {
        0
    }

    pub const fn f0_max() -> u8 {
        7
    }

    pub const fn f1_min() -> u8 {
        0
    }

    pub const fn f1_max() -> u8 {
        7
    }

    pub const fn f2_min() -> u8 {
        0
    }

    pub const fn f2_max() -> u8 {
        7
    }

    pub const fn f3_min() -> u8 {
        0
    }

    pub const fn f3_max() -> u8 {
        7
    }

    pub const fn f4_min() -> u8 {
        0
    }

    pub const fn f4_max() -> u8 {
        7
    }
}

#[asn(sequence)]

#[derive(Default, Debug, Clone, PartialEq, Hash)]
pub struct Ts5moomdn {
    #[asn(integer(0..7))] pub f0: u8,
    #[asn(optional(integer(0..7)))] pub f1: Option<u8>,
    #[asn(optional(integer(0..7)))] pub f2: Option<u8>,
    #[asn(integer(0..7))] pub f3: u8,
    #[asn(default(integer(0..7), 5))] pub f4: u8,
}

impl Ts5moomdn {
    pub const fn f0_min() -> u8 {
        0
    }

    pub const fn f0_max() -> u8 {
        7
    }

    pub const fn f1_min() -> u8 {
        0
    }

    pub const fn f1_max() -> u8 {
        7
    }

    pub const fn f2_min() -> u8 {
        0
    }

    pub const fn f2_max() -> u8 {
        7
    }

    pub const fn f3_min() -> u8 {
        0
    }

    pub const fn f3_max() -> u8 {
        7
    }

    pub const fn f4_min() -> u8 {
        0
    }

    pub const fn f4_max() -> u8 {
        7
    }
}

#[asn(sequence, extensible_after(f0))]

#[derive(Default, Debug, Clone, PartialEq, Hash)]
pub struct Ts5moomde0 {
    #[asn(integer(0..7))] pub f0: u8,
    #[asn(optional(integer(0..7)))] pub f1: Option<u8>,
    #[asn(optional(integer(0..7)))] pub f2: Option<u8>,
    #[asn(optional(integer(0..7)))] pub f3: Option<u8>,
    #[asn(default(integer(0..7), 5))] pub f4: u8,
}

impl Ts5moomde0 {
    pub const fn f0_min() -> u8 {
        0
    }

    pub const fn f0_max() -> u8 {
        7
    }

    pub const fn f1_min() -> u8 {
        0
    }

    pub const fn f1_max() -> u8 {
        7
    }

    pub const fn f2_min() -> u8 {
        0
    }

    pub const fn f2_max() -> u8 {
        7
    }

    pub const fn f3_min() -> u8 {
        0
    }

    pub const fn f3_max() -> u8 {
        7
    }

    pub const fn f4_min() -> u8 {
        0
    }

    pub const fn f4_max() -> u8 {
        7
    }
}

#[asn(sequence, extensible_after(f0))]

#[derive(Default, Debug, Clone, PartialEq, Hash)]
pub struct Ts5moomde1 {
    #[asn(integer(0..7))] pub f0: u8,
    #[asn(optional(integer(0..7)))] pub f1: Option<u8>,
    #[asn(optional(integer(0..7)))] pub f2: Option<u8>,
    #[asn(optional(integer(0..7)))] pub f3: Option<u8>,
    #[asn(default(integer(0..7), 5))] pub f4: u8,
}

impl Ts5moomde1 {
    pub const fn f0_min() -> u8 {
        0
    }

    pub const fn f0_max() -> u8 {
        7
    }

    pub const fn f1_min() -> u8 {
        0
    }

    pub const fn f1_max() -> u8 {
        7
    }

    pub const fn f2_min() -> u8 {
        0
    }

    pub const fn f2_max() -> u8 {
        7
    }

    pub const fn f3_min() -> u8 {
        0
    }

    pub const fn f3_max() -> u8 {
        7
    }

    pub const fn f4_min() -> u8 {
        0
    }

    pub const fn f4_max() -> u8 {
        7
    }
}

#[asn(sequence, extensible_after(f1))]

#[derive(Default, Debug, Clone, PartialEq, Hash)]
pub struct Ts5moomde2 {
    #[asn(integer(0..7))] pub f0: u8,
    #[asn(optional(integer(0..7)))] pub f1: Option<u8>,
    #[asn(optional(integer(0..7)))] pub f2: Option<u8>,
    #[asn(optional(integer(0..7)))] pub f3: Option<u8>,
    #[asn(default(integer(0..7), 5))] pub f4: u8,
}

impl Ts5moomde2 {
    pub const fn f0_min() -> u8 {
        0
    }

    pub const fn f0_max() -> u8 {
        7
    }

    pub const fn f1_min() -> u8 {
        0
    }

    pub const fn f1_max() -> u8 {
        7
    }

    pub const fn f2_min() -> u8 {
        0
    }

    pub const fn f2_max() -> u8 {
        7
    }

    pub const fn f3_min() -> u8 {
        0
    }

    pub const fn f3_max() -> u8 {
        7
    }

    pub const fn f4_min() -> u8 {
        0
    }

    pub const fn f4_max() -> u8 {
        7
    }
}

#[asn(sequence, extensible_after(f2))]

#[derive(Default, Debug, Clone, PartialEq, Hash)]
pub struct Ts5moomde3 {
    #[asn(integer(0..7))] pub f0: u8,
    #[asn(optional(integer(0..7)))] pub f1: Option<u8>,
    #[asn(optional(integer(0..7)))] pub f2: Option<u8>,
    #[asn(optional(integer(0..7)))] pub f3: Option<u8>,
    #[asn(default(integer(0..7), 5))] pub f4: u8,
}

impl Ts5moomde3 {
    pub const fn f0_min() -> u8 {
        0
    }

    pub const fn f0_max() -> u8 {
        7
    }

    pub const fn f1_min() -> u8 {
        0
    }

    pub const fn f1_max() -> u8 {
        7
    }

    pub const fn f2_min() -> u8 {
        0
    }

    pub const fn f2_max() -> u8 {
        7
    }

    pub const fn f3_min() -> u8 {
        0
    }

    pub const fn f3_max() -> u8 {
        7
    }

    pub const fn f4_min() -> u8 {
        0
    }

    pub const fn f4_max() -> u8 {
        7
    }
}

#[asn(sequence, extensible_after(f3))]

#[derive(Default, Debug, Clone, PartialEq, Hash)]
pub struct Ts5moomde4 {
    #[asn(integer(0..7))] pub f0: u8,
    #[asn(optional(integer(0..7)))] pub f1: Option<u8>,
    #[asn(optional(integer(0..7)))] pub f2: Option<u8>,
    #[asn(integer(0..7))] pub f3: u8,
    #[asn(default(integer(0..7), 5))] pub f4: u8,
}

impl Ts5moomde4 {
    pub const fn f0_min() -> u8 {
        0
    }

    pub const fn f0_max() -> u8 {
        7
    }

    pub const fn f1_min() -> u8 {
        0
    }

    pub const fn f1_max() -> u8 {
        7
    }

    pub const fn f2_min() -> u8 {
        0
    }

    pub const fn f2_max() -> u8 {
        7
    }

    pub const fn f3_min() -> u8 {
        0
    }

    pub const fn f3_max() -> u8 {
        7
    }

    pub const fn f4_min() -> u8 {
        0
    }

    pub const fn f4_max() -> u8 {
        7
    }
}

#[asn(sequence, extensible_after(f4))]

#[derive(Default, Debug, Clone, PartialEq, Hash)]
pub struct Ts5moomde5 {
    #[asn(integer(0..7))] pub f0: u8,
    #[asn(optional(integer(0..7)))] pub f1: Option<u8>,
    #[asn(optional(integer(0..7)))] pub f2: Option<u8>,
    #[asn(integer(0..7))] pub f3: u8,
    #[asn(default(integer(0..7), 5))] pub f4: u8,
}

impl Ts5moomde5 {
    pub const fn f0_min() -> u8 {
        0
    }

    pub const fn f0_max() -> u8 {
        7
    }

    pub const fn f1_min() -> u8 {
        0
    }

    pub const fn f1_max() -> u8 {
        7
    }

    pub const fn f2_min() -> u8 {
        0
    }

    pub const fn f2_max() -> u8 {
        7
    }

    pub const fn f3_min() -> u8 {
        0
    }

    pub const fn f3_max() -> u8 {
        7
    }

    pub const fn f4_min() -> u8 {
        0
    }

    pub const fn f4_max() -> u8 {
        7
    }
}

#[asn(sequence)]

#[derive(Default, Debug, Clone, PartialEq, Hash)]
pub struct Ts5ooomdn {
    #[asn(optional(integer(0..7)))] pub f0: Option<u8>,
    #[asn(optional(integer(0..7)))] pub f1: Option<u8>,
    #[asn(optional(integer(0..7)))] pub f2: Option<u8>,
    #[asn(integer(0..7))] pub f3: u8,
    #[asn(default(integer(0..7), 5))] pub f4: u8,
}

impl Ts5ooomdn {
    pub const fn f0_min() -> u8 {
        0
    }

    pub const fn f0_max() -> u8 {
        7
    }

    pub const fn f1_min() -> u8 {
        0
    }

    pub const fn f1_max() -> u8 {
        7
    }

    pub const fn f2_min() -> u8 {
        0
    }

    pub const fn f2_max() -> u8 {
        7
    }

    pub const fn f3_min() -> u8 {
        0
    }

    pub const fn f3_max() -> u8 {
        7
    }

    pub const fn f4_min() -> u8 {
        0
    }

    pub const fn f4_max() -> u8 {
        7
    }
}

#[asn(sequence, extensible_after(f0))]

#[derive(Default, Debug, Clone, PartialEq, Hash)]
pub struct Ts5ooomde0 {
    #[asn(optional(integer(0..7)))] pub f0: Option<u8>,
    #[asn(optional(integer(0..7)))] pub f1: Option<u8>,
    #[asn(optional(integer(0..7)))] pub f2: Option<u8>,
    #[asn(optional(integer(0..7)))] pub f3: Option<u8>,
    #[asn(default(integer(0..7), 5))] pub f4: u8,
}

impl Ts5ooomde0 {
    pub const fn f0_min() -> u8 {
        0
    }

    pub const fn f0_max() -> u8 {
        7
    }

    pub const fn f1_min() -> u8 {
        0
    }

    pub const fn f1_max() -> u8 {
        7
    }

    pub const fn f2_min() -> u8 {
        0
    }

    pub const fn f2_max() -> u8 {
        7
    }

    pub const fn f3_min() -> u8 {
        0
    }

    pub const fn f3_max() -> u8 {
        7
    }

    pub const fn f4_min() -> u8 {
        0
    }

    pub const fn f4_max() -> u8 {
        7
    }
}

#[asn(sequence, extensible_after(f0))]

#[derive(Default, Debug, Clone, PartialEq, Hash)]
pub struct Ts5ooomde1 {
    #[asn(optional(integer(0..7)))] pub f0: Option<u8>,
    #[asn(optional(integer(0..7)))] pub f1: Option<u8>,
    #[asn(optional(integer(0..7)))] pub f2: Option<u8>,
    #[asn(optional(integer(0..7)))] pub f3: Option<u8>,
    #[asn(default(integer(0..7), 5))] pub f4: u8,
}

impl Ts5ooomde1 {
    pub const fn f0_min() -> u8 {
        0
    }

    pub const fn f0_max() -> u8 {
        7
    }

    pub const fn f1_min() -> u8 {
        0
    }

    pub const fn f1_max() -> u8 {
        7
    }

    pub const fn f2_min() -> u8 {
        0
    }

    pub const fn f2_max() -> u8 {
        7
    }

    pub const fn f3_min() -> u8 {
        0
    }

    pub const fn f3_max() -> u8 {
        7
    }

    pub const fn f4_min() -> u8 {
        0
    }

    pub const fn f4_max() -> u8 {
        7
    }
}

#[asn(sequence, extensible_after(f1))]

#[derive(Default, Debug, Clone, PartialEq, Hash)]
pub struct Ts5ooomde2 {
    #[asn(optional(integer(0..7)))] pub f0: Option<u8>,
    #[asn(optional(integer(0..7)))] pub f1: Option<u8>,
    #[asn(optional(integer(0..7)))] pub f2: Option<u8>,
    #[asn(optional(integer(0..7)))] pub f3: Option<u8>,
    #[asn(default(integer(0..7), 5))] pub f4: u8,
}

impl Ts5ooomde2 {
    pub const fn f0_min() -> u8 {
        0
    }

    pub const fn f0_max() -> u8 {
        7
    }

    pub const fn f1_min() -> u8 {
        0
    }

    pub const fn f1_max() -> u8 {
        7
    }

    pub const fn f2_min() -> u8 {
        0
    }

    pub const fn f2_max() -> u8 {
        7
    }

    pub const fn f3_min() -> u8 {
        0
    }

    pub const fn f3_max() -> u8 {
        7
    }

    pub const fn f4_min() -> u8 {
        0
    }

    pub const fn f4_max() -> u8 {
        7
    }
}

#[asn(sequence, extensible_after(f2))]

#[derive(Default, Debug, Clone, PartialEq, Hash)]
pub struct Ts5ooomde3 {
    #[asn(optional(integer(0..7)))] pub f0: Option<u8>,
    #[asn(optional(integer(0..7)))] pub f1: Option<u8>,
    #[asn(optional(integer(0..7)))] pub f2: Option<u8>,
    #[asn(optional(integer(0..7)))] pub f3: Option<u8>,
    #[asn(default(integer(0..7), 5))] pub f4: u8,
}

impl Ts5ooomde3 {
    pub const fn f0_min() -> u8 {
        0
    }

    pub const fn f0_max() -> u8 {
        7
    }

    pub const fn f1_min() -> u8 {
        0
    }

    pub const fn f1_max() -> u8 {
        7
    }

    pub const fn f2_min() -> u8 {
        0
    }

    pub const fn f2_max() -> u8 {
        7
    }

    pub const fn f3_min() -> u8 {
        0
    }

    pub const fn f3_max() -> u8 {
        7
    }

    pub const fn f4_min() -> u8 {
        0
    }

    pub const fn f4_max() -> u8 {
        7
    }
}

#[asn(sequence, extensible_after(f3))]

#[derive(Default, Debug, Clone, PartialEq, Hash)]
pub struct Ts5ooomde4 {
    #[asn(optional(integer(0..7)))] pub f0: Option<u8>,
    #[asn(optional(integer(0..7)))] pub f1: Option<u8>,
    #[asn(optional(integer(0..7)))] pub f2: Option<u8>,
    #[asn(integer(0..7))] pub f3: u8,
    #[asn(default(integer(0..7), 5))] pub f4: u8,
}

impl Ts5ooomde4 {
    pub const fn f0_min() -> u8 {
        0
    }

    pub const fn f0_max() -> u8 {
        7
    }

    pub const fn f1_min() -> u8 {
        0
    }

    pub const fn f1_max() -> u8 {
        7
    }

    pub const fn f2_min() -> u8 {
        0
    }

    pub const fn f2_max() -> u8 {
        7
    }

    pub const fn f3_min() -> u8 {
        0
    }

    pub const fn f3_max() -> u8 {
        7
    }

    pub const fn f4_min() -> u8 {
        0
    }

    pub const fn f4_max() -> u8 {
        7
    }
}

#[asn(sequence, extensible_after(f4))]

#[derive(Default, Debug, Clone, PartialEq, Hash)]
pub struct Ts5ooomde5 {
    #[asn(optional(integer(0..7)))] pub f0: Option<u8>,
    #[asn(optional(integer(0..7)))] pub f1: Option<u8>,
    #[asn(optional(integer(0..7)))] pub f2: Option<u8>,
    #[asn(integer(0..7))] pub f3: u8,
    #[asn(default(integer(0..7), 5))] pub f4: u8,
}

impl Ts5ooomde5 {
    pub const fn f0_min() -> u8 {
        0
    }

    pub const fn f0_max() -> u8 {
        7
    }

    pub const fn f1_min() -> u8 {
        0
    }

    pub const fn f1_max() -> u8 {
        7
    }

    pub const fn f2_min() -> u8 {
        0
    }

    pub const fn f2_max() -> u8 {
        7
    }

    pub const fn f3_min() -> u8 {
        0
    }

    pub const fn f3_max() -> u8 {
        7
    }

    pub const fn f4_min() -> u8 {
        0
    }

    pub const fn f4_max() -> u8 {
        7
    }
}

#[asn(sequence)]

#[derive(Default, Debug, Clone, PartialEq, Hash)]
pub struct Ts5doomdn {
    #[asn(default(integer(0..7), 5))] pub f0: u8,
    #[asn(optional(integer(0..7)))] pub f1: Option<u8>,
    #[asn(optional(integer(0..7)))] pub f2: Option<u8>,
    #[asn(integer(0..7))] pub f3: u8,
    #[asn(default(integer(0..7), 5))] pub f4: u8,
}

impl Ts5doomdn {
    pub const fn f0_min() -> u8 {
        0
    }

    pub const fn f0_max() -> u8 {
        7
    }

    pub const fn f1_min() -> u8 {
        0
    }

    pub const fn f1_max() -> u8 {
        7
    }

    pub const fn f2_min() -> u8 {
        0
    }

    pub const fn f2_max() -> u8 {
        7
    }

    pub const fn f3_min() -> u8 {
        0
    }

    pub const fn f3_max() -> u8 {
        7
    }

    pub const fn f4_min() -> u8 {
        0
    }

    pub const fn f4_max() -> u8 {
        7
    }
}

#[asn(sequence, extensible_after(f0))]

#[derive(Default, Debug, Clone, PartialEq, Hash)]
pub struct Ts5doomde0 {
    #[asn(default(integer(0..7), 5))] pub f0: u8,
    #[asn(optional(integer(0..7)))] pub f1: Option<u8>,
    #[asn(optional(integer(0..7)))] pub f2: Option<u8>,
    #[asn(optional(integer(0..7)))] pub f3: Option<u8>,
    #[asn(default(integer(0..7), 5))] pub f4: u8,
}

impl Ts5doomde0 {
    pub const fn f0_min() -> u8 {
        0
    }

    pub const fn f0_max() -> u8 {
        7
    }

    pub const fn f1_min() -> u8 {
        0
    }

    pub const fn f1_max() -> u8 {
        7
    }

    pub const fn f2_min() -> u8 {
        0
    }

    pub const fn f2_max() -> u8 {
        7
    }

    pub const fn f3_min() -> u8 {
        0
    }

    pub const fn f3_max() -> u8 {
        7
    }

    pub const fn f4_min() -> u8 {
        0
    }

    pub const fn f4_max() -> u8 {
        7
    }
}

#[asn(sequence, extensible_after(f0))]

#[derive(Default, Debug, Clone, PartialEq, Hash)]
pub struct Ts5doomde1 {
    #[asn(default(integer(0..7), 5))] pub f0: u8,
    #[asn(optional(integer(0..7)))] pub f1: Option<u8>,
    #[asn(optional(integer(0..7)))] pub f2: Option<u8>,
    #[asn(optional(integer(0..7)))] pub f3: Option<u8>,
    #[asn(default(integer(0..7), 5))] pub f4: u8,
}

impl Ts5doomde1 {
    pub const fn f0_min() -> u8 {
        0
    }

    pub const fn f0_max() -> u8 {
        7
    }

    pub const fn f1_min() -> u8 {
        0
    }

    pub const fn f1_max() -> u8 {
        7
    }

    pub const fn f2_min() -> u8 {
        0
    }

    pub const fn f2_max() -> u8 {
        7
    }

    pub const fn f3_min() -> u8 {
        0
    }

    pub const fn f3_max() -> u8 {
        7
    }

    pub const fn f4_min() -> u8 {
        0
    }

    pub const fn f4_max() -> u8 {
        7
    }
}

#[asn(sequence, extensible_after(f1))]

#[derive(Default, Debug, Clone, PartialEq, Hash)]
pub struct Ts5doomde2 {
    #[asn(default(integer(0..7), 5))] pub f0: u8,
    #[asn(optional(integer(0..7)))] pub f1: Option<u8>,
    #[asn(optional(integer(0..7)))] pub f2: Option<u8>,
    #[asn(optional(integer(0..7)))] pub f3: Option<u8>,
    #[asn(default(integer(0..7), 5))] pub f4: u8,
}

impl Ts5doomde2 {
    pub const fn f0_min() -> u8 {
        0
    }

    pub const fn f0_max() -> u8 {
        7
    }

    pub const fn f1_min() -> u8 {
        0
    }

    pub const fn f1_max() -> u8 {
        7
    }

    pub const fn f2_min() -> u8 {
        0
    }

    pub const fn f2_max() -> u8 {
        7
    }

    pub const fn f3_min() -> u8 {
        0
    }

    pub const fn f3_max() -> u8 {
        7
    }

    pub const fn f4_min() -> u8 {
        0
    }

    pub const fn f4_max() -> u8 {
        7
    }
}

#[asn(sequence, extensible_after(f2))]

#[derive(Default, Debug, Clone, PartialEq, Hash)]
pub struct Ts5doomde3 {
    #[asn(default(integer(0..7), 5))] pub f0: u8,
    #[asn(optional(integer(0..7)))] pub f1: Option<u8>,
    #[asn(optional(integer(0..7)))] pub f2: Option<u8>,
    #[asn(optional(integer(0..7)))] pub f3: Option<u8>,
    #[asn(default(integer(0..7), 5))] pub f4: u8,
}

impl Ts5doomde3 {
    pub const fn f0_min() -> u8 {
        0
    }

    pub const fn f0_max() -> u8 {
        7
    }

    pub const fn f1_min() -> u8 {
        0
    }

    pub const fn f1_max() -> u8 {
        7
    }

    pub const fn f2_min() -> u8 {
        0
    }

    pub const fn f2_max() -> u8 {
        7
    }

    pub const fn f3_min() -> u8 {
        0
    }

    pub const fn f3_max() -> u8 {
        7
    }

    pub const fn f4_min() -> u8 {
        0
    }

    pub const fn f4_max() -> u8 {
        7
    }
}

#[asn(sequence, extensible_after(f3))]

#[derive(Default, Debug, Clone, PartialEq, Hash)]
pub struct Ts5doomde4 {
    #[asn(default(integer(0..7), 5))] pub f0: u8,
    #[asn(optional(integer(0..7)))] pub f1: Option<u8>,
    #[asn(optional(integer(0..7)))] pub f2: Option<u8>,
    #[asn(integer(0..7))] pub f3: u8,
    #[asn(default(integer(0..7), 5))] pub f4: u8,
}

impl Ts5doomde4 {
    pub const fn f0_min() -> u8 {
        0
    }

    pub const fn f0_max() -> u8 {
        7
    }

    pub const fn f1_min() -> u8 {
        0
    }

    pub const fn f1_max() -> u8 {
        7
    }

    pub const fn f2_min() -> u8 {
        0
    }

    pub const fn f2_max() -> u8 {
        7
    }

    pub const fn f3_min() -> u8 {
        0
    }

    pub const fn f3_max() -> u8 {
        7
    }

    pub const fn f4_min() -> u8 {
        0
    }

    pub const fn f4_max() -> u8 {
        7
    }
}

#[asn(sequence, extensible_after(f4))]

#[derive(Default, Debug, Clone, PartialEq, Hash)]
pub struct Ts5doomde5 {
    #[asn(default(integer(0..7), 5))] pub f0: u8,
    #[asn(optional(integer(0..7)))] pub f1: Option<u8>,
    #[asn(optional(integer(0..7)))] pub f2: Option<u8>,
    #[asn(integer(0..7))] pub f3: u8,
    #[asn(default(integer(0..7), 5))] pub f4: u8,
}

impl Ts5doomde5 {
    pub const fn f0_min() -> u8 {
        0
    }

    pub const fn f0_max() -> u8 {
        7
    }

    pub const fn f1_min() -> u8 {
        0
    }

    pub const fn f1_max() -> u8 {
        7
    }

    pub const fn f2_min() -> u8 {
        0
    }

    pub const fn f2_max() -> u8 {
        7
    }

    pub const fn f3_min() -> u8 {
        0
    }

    pub const fn f3_max() -> u8 {
        7
    }

    pub const fn f4_min() -> u8 {
        0
    }

    pub const fn f4_max() -> u8 {
        7
    }
}

#[asn(sequence)]

#[derive(Default, Debug, Clone, PartialEq, Hash)]
pub struct Ts5mdomdn {
    #[asn(integer(0..7))] pub f0: u8,
    #[asn(default(integer(0..7), 5))] pub f1: u8,
    #[asn(optional(integer(0..7)))] pub f2: Option<u8>,
    #[asn(integer(0..7))] pub f3: u8,
    #[asn(default(integer(0..7), 5))] pub f4: u8,
}

impl Ts5mdomdn {
    pub const fn f0_min() -> u8 {
        0
    }

    pub const fn f0_max() -> u8 {
        7
    }

    pub const fn f1_min() -> u8 {
        0
    }

    pub const fn f1_max() -> u8 {
        7
    }

    pub const fn f2_min() -> u8 {
        0
    }

    pub const fn f2_max() -> u8 {
        7
    }

    pub const fn f3_min() -> u8 {
        0
    }

    pub const fn f3_max() -> u8 {
        7
    }

    pub const fn f4_min() -> u8 {
        0
    }

    pub const fn f4_max() -> u8 {
        7
    }
}

#[asn(sequence, extensible_after(f0))]

#[derive(Default, Debug, Clone, PartialEq, Hash)]
pub struct Ts5mdomde0 {
    #[asn(integer(0..7))] pub f0: u8,
    #[asn(default(integer(0..7), 5))] pub f1: u8,
    #[asn(optional(integer(0..7)))] pub f2: Option<u8>,
    #[asn(optional(integer(0..7)))] pub f3: Option<u8>,
    #[asn(default(integer(0..7), 5))] pub f4: u8,
}

impl Ts5mdomde0 {
    pub const fn f0_min() -> u8 {
        0
    }

    pub const fn f0_max() -> u8 {
        7
    }

    pub const fn f1_min() -> u8 {
        0
    }

    pub const fn f1_max() -> u8 {
        7
    }

    pub const fn f2_min() -> u8 {
        0
    }

    pub const fn f2_max() -> u8 {
        7
    }

    pub const fn f3_min() -> u8 {
        0
    }

    pub const fn f3_max() -> u8 {
        7
    }

    pub const fn f4_min() -> u8 {
        0
    }

    pub const fn f4_max() -> u8 {
        7
    }
}

#[asn(sequence, extensible_after(f0))]

#[derive(Default, Debug, Clone, PartialEq, Hash)]
pub struct Ts5mdomde1 {
    #[asn(integer(0..7))] pub f0: u8,
    #[asn(default(integer(0..7), 5))] pub f1: u8,
    #[asn(optional(integer(0..7)))] pub f2: Option<u8>,
    #[asn(optional(integer(0..7)))] pub f3: Option<u8>,
    #[asn(default(integer(0..7), 5))] pub f4: u8,
}

impl Ts5mdomde1 {
    pub const fn f0_min() -> u8 {
        0
    }

    pub const fn f0_max() -> u8 {
        7
    }

    pub const fn f1_min() -> u8 {
        0
    }

    pub const fn f1_max() -> u8 {
        7
    }

    pub const fn f2_min() -> u8 {
        0
    }

    pub const fn f2_max() -> u8 {
        7
    }

    pub const fn f3_min() -> u8 {
        0
    }

    pub const fn f3_max() -> u8 {
        7
    }

    pub const fn f4_min() -> u8 {
        0
    }

    pub const fn f4_max() -> u8 {
        7
    }
}

#[asn(sequence, extensible_after(f1))]

#[derive(Default, Debug, Clone, PartialEq, Hash)]
pub struct Ts5mdomde2 {
    #[asn(integer(0..7))] pub f0: u8,
    #[asn(default(integer(0..7), 5))] pub f1: u8,
    #[asn(optional(integer(0..7)))] pub f2: Option<u8>,
    #[asn(optional(integer(0..7)))] pub f3: Option<u8>,
    #[asn(default(integer(0..7), 5))] pub f4: u8,
}

impl Ts5mdomde2 {
    pub const fn f0_min() -> u8 {
        0
    }

    pub const fn f0_max() -> u8 {
        7
    }

    pub const fn f1_min() -> u8 {
        0
    }

    pub const fn f1_max() -> u8 {
        7
    }

    pub const fn f2_min() -> u8 {
        0
    }

    pub const fn f2_max() -> u8 {
        7
    }

    pub const fn f3_min() -> u8 {
        0
    }

    pub const fn f3_max() -> u8 {
        7
    }

    pub const fn f4_min() -> u8 {
        0
    }

    pub const fn f4_max() -> u8 {
        7
    }
}

#[asn(sequence, extensible_after(f2))]

#[derive(Default, Debug, Clone, PartialEq, Hash)]
pub struct Ts5mdomde3 {
    #[asn(integer(0..7))] pub f0: u8,
    #[asn(default(integer(0..7), 5))] pub f1: u8,
    #[asn(optional(integer(0..7)))] pub f2: Option<u8>,
    #[asn(optional(integer(0..7)))] pub f3: Option<u8>,
    #[asn(default(integer(0..7), 5))] pub f4: u8,
}

impl Ts5mdomde3 {
    pub const fn f0_min() -> u8 {
        0
    }

    pub const fn f0_max() -> u8 {
        7
    }

    pub const fn f1_min() -> u8 {
        0
    }

    pub const fn f1_max() -> u8 {
        7
    }

    pub const fn f2_min() -> u8 {
        0
    }

    pub const fn f2_max() -> u8 {
        7
    }

    pub const fn f3_min() -> u8 {
        0
    }

    pub const fn f3_max() -> u8 {
        7
    }

    pub const fn f4_min() -> u8 {
        0
    }

    pub const fn f4_max() -> u8 {
        7
    }
}

#[asn(sequence, extensible_after(f3))]

#[derive(Default, Debug, Clone, PartialEq, Hash)]
pub struct Ts5mdomde4 {
    #[asn(integer(0..7))] pub f0: u8,
    #[asn(default(integer(0..7), 5))] pub f1: u8,
    #[asn(optional(integer(0..7)))] pub f2: Option<u8>,
    #[asn(integer(0..7))] pub f3: u8,
    #[asn(default(integer(0..7), 5))] pub f4: u8,
}

impl Ts5mdomde4 {
    pub const fn f0_min() -> u8 {
        0
    }

    pub const fn f0_max() -> u8 {
        7
    }

    pub const fn f1_min() -> u8 {
        0
    }

    pub const fn f1_max() -> u8 {
        7
    }

    pub const fn f2_min() -> u8 {
        0
    }

    pub const fn f2_max() -> u8 {
        7
    }

    pub const fn f3_min() -> u8 {
        0
    }

    pub const fn f3_max() -> u8 {
        7
    }

    pub const fn f4_min() -> u8 {
        0
    }

    pub const fn f4_max() -> u8 {
        7
    }
}

#[asn(sequence, extensible_after(f4))]

#[derive(Default, Debug, Clone, PartialEq, Hash)]
pub struct Ts5mdomde5 {
    #[asn(integer(0..7))] pub f0: u8,
    #[asn(default(integer(0..7), 5))] pub f1: u8,
    #[asn(optional(integer(0..7)))] pub f2: Option<u8>,
    #[asn(integer(0..7))] pub f3: u8,
    #[asn(default(integer(0..7), 5))] pub f4: u8,
}

impl Ts5mdomde5 {
    pub const fn f0_min() -> u8 {
        0
    }

    pub const fn f0_max() -> u8 {
        7
    }

    pub const fn f1_min() -> u8 {
        0
    }

    pub const fn f1_max() -> u8 {
        7
    }

    pub const fn f2_min() -> u8 {
        0
    }

    pub const fn f2_max() -> u8 {
        7
    }

    pub const fn f3_min() -> u8 {
        0
    }

    pub const fn f3_max() -> u8 {
        7
    }

    pub const fn f4_min() -> u8 {
        0
    }

    pub const fn f4_max() -> u8 {
        7
    }
}

#[asn(sequence)]

#[derive(Default, Debug, Clone, PartialEq, Hash)]
pub struct Ts5odomdn {
    #[asn(optional(integer(0..7)))] pub f0: Option<u8>,
    #[asn(default(integer(0..7), 5))] pub f1: u8,
    #[asn(optional(integer(0..7)))] pub f2: Option<u8>,
    #[asn(integer(0..7))] pub f3: u8,
    #[asn(default(integer(0..7), 5))] pub f4: u8,
}

impl Ts5odomdn {
    pub const fn f0_min() -> u8 {
        0
    }

    pub const fn f0_max() -> u8 {
        7
    }

    pub const fn f1_min() -> u8 {
        0
    }

    pub const fn f1_max() -> u8 {
        7
    }

    pub const fn f2_min() -> u8 {
        0
    }

    pub const fn f2_max() -> u8 {
        7
    }

    pub const fn f3_min() -> u8 {
        0
    }

    pub const fn f3_max() -> u8 {
        7
    }

    pub const fn f4_min() -> u8 {
        0
    }

    pub const fn f4_max() -> u8 {
        7
    }
}

#[asn(sequence, extensible_after(f0))]

#[derive(Default, Debug, Clone, PartialEq, Hash)]
pub struct Ts5odomde0 {
    #[asn(optional(integer(0..7)))] pub f0: Option<u8>,
    #[asn(default(integer(0..7), 5))] pub f1: u8,
    #[asn(optional(integer(0..7)))] pub f2: Option<u8>,
    #[asn(optional(integer(0..7)))] pub f3: Option<u8>,
    #[asn(default(integer(0..7), 5))] pub f4: u8,
}

impl Ts5odomde0 {
    pub const fn f0_min() -> u8 {
        0
    }

    pub const fn f0_max() -> u8 {
        7
    }

    pub const fn f1_min() -> u8 {
        0
    }

    pub const fn f1_max() -> u8 {
        7
    }

    pub const fn f2_min() -> u8 {
        0
    }

    pub const fn f2_max() -> u8 {
        7
    }

    pub const fn f3_min() -> u8 {
        0
    }

    pub const fn f3_max() -> u8 {
        7
    }

    pub const fn f4_min() -> u8 {
        0
    }

    pub const fn f4_max() -> u8 {
        7
    }
}

#[asn(sequence, extensible_after(f0))]

#[derive(Default, Debug, Clone, PartialEq, Hash)]
pub struct Ts5odomde1 {
    #[asn(optional(integer(0..7)))] pub f0: Option<u8>,
    #[asn(default(integer(0..7), 5))] pub f1: u8,
    #[asn(optional(integer(0..7)))] pub f2: Option<u8>,
    #[asn(optional(integer(0..7)))] pub f3: Option<u8>,
    #[asn(default(integer(0..7), 5))] pub f4: u8,
}

impl Ts5odomde1 {
    pub const fn f0_min() -> u8 {
        0
    }

    pub const fn f0_max() -> u8 {
        7
    }

    pub const fn f1_min() -> u8 {
        0
    }

    pub const fn f1_max() -> u8 {
        7
    }

    pub const fn f2_min() -> u8 {
        0
    }

    pub const fn f2_max() -> u8 {
        7
    }

    pub const fn f3_min() -> u8 {
        0
    }

    pub const fn f3_max() -> u8 {
        7
    }

    pub const fn f4_min() -> u8 {
        0
    }

    pub const fn f4_max() -> u8 {
        7
    }
}

#[asn(sequence, extensible_after(f1))]

#[derive(Default, Debug, Clone, PartialEq, Hash)]
pub struct Ts5odomde2 {
    #[asn(optional(integer(0..7)))] pub f0: Option<u8>,
    #[asn(default(integer(0..7), 5))] pub f1: u8,
    #[asn(optional(integer(0..7)))] pub f2: Option<u8>,
    #[asn(optional(integer(0..7)))] pub f3: Option<u8>,
    #[asn(default(integer(0..7), 5))] pub f4: u8,
}

impl Ts5odomde2 {
    pub const fn f0_min() -> u8 {
        0
    }

    pub const fn f0_max() -> u8 {
        7
    }

    pub const fn f1_min() -> u8 {
        0
    }

    pub const fn f1_max() -> u8 {
        7
    }

    pub const fn f2_min() -> u8 {
        0
    }

    pub const fn f2_max() -> u8 {
        7
    }

    pub const fn f3_min() -> u8 {
        0
    }

    pub const fn f3_max() -> u8 {
        7
    }

    pub const fn f4_min() -> u8 {
        0
    }

    pub const fn f4_max() -> u8 {
        7
    }
}

#[asn(sequence, extensible_after(f2))]

#[derive(Default, Debug, Clone, PartialEq, Hash)]
pub struct Ts5odomde3 {
    #[asn(optional(integer(0..7)))] pub f0: Option<u8>,
    #[asn(default(integer(0..7), 5))] pub f1: u8,
    #[asn(optional(integer(0..7)))] pub f2: Option<u8>,
    #[asn(optional(integer(0..7)))] pub f3: Option<u8>,
    #[asn(default(integer(0..7), 5))] pub f4: u8,
}

impl Ts5odomde3 {
    pub const fn f0_min() -> u8 {
        0
    }

    pub const fn f0_max() -> u8 {
        7
    }

    pub const fn f1_min() -> u8 {
        0
    }

    pub const fn f1_max() -> u8 {
        7
    }

    pub const fn f2_min() -> u8 {
        0
    }

    pub const fn f2_max() -> u8 {
        7
    }

    pub const fn f3_min() -> u8 {
        0
    }

    pub const fn f3_max() -> u8 {
        7
    }

    pub const fn f4_min() -> u8 {
        0
    }

    pub const fn f4_max() -> u8 {
        7
    }
}

#[asn(sequence, extensible_after(f3))]

#[derive(Default, Debug, Clone, PartialEq, Hash)]
pub struct Ts5odomde4 {
    #[asn(optional(integer(0..7)))] pub f0: Option<u8>,
    #[asn(default(integer(0..7), 5))] pub f1: u8,
    #[asn(optional(integer(0..7)))] pub f2: Option<u8>,
    #[asn(integer(0..7))] pub f3: u8,
    #[asn(default(integer(0..7), 5))] pub f4: u8,
}

impl Ts5odomde4 {
    pub const fn f0_min() -> u8 {
        0
    }

    pub const fn f0_max() -> u8 {
        7
    }

    pub const fn f1_min() -> u8 {
        0
    }

    pub const fn f1_max() -> u8 {
        7
    }

    pub const fn f2_min() -> u8 {
        0
    }

    pub const fn f2_max() -> u8 {
        7
    }

    pub const fn f3_min() -> u8 {
        0
    }

    pub const fn f3_max() -> u8 {
        7
    }

    pub const fn f4_min() -> u8 {
        0
    }

    pub const fn f4_max() -> u8 {
        7
    }
}

#[asn(sequence, extensible_after(f4))]

#[derive(Default, Debug, Clone, PartialEq, Hash)]
pub struct Ts5odomde5 {
    #[asn(optional(integer(0..7)))] pub f0: Option<u8>,
    #[asn(default(integer(0..7), 5))] pub f1: u8,
    #[asn(optional(integer(0..7)))] pub f2: Option<u8>,
    #[asn(integer(0..7))] pub f3: u8,
    #[asn(default(integer(0..7), 5))] pub f4: u8,
}

impl Ts5odomde5 {
    pub const fn f0_min() -> u8 {
        0
    }

    pub const fn f0_max() -> u8 {
        7
    }

    pub const fn f1_min() -> u8 {
        0
    }

    pub const fn f1_max() -> u8 {
        7
    }

    pub const fn f2_min() -> u8 {
        0
    }

    pub const fn f2_max() -> u8 {
        7
    }

    pub const fn f3_min() -> u8 {
        0
    }

    pub const fn f3_max() -> u8 {
        7
    }

    pub const fn f4_min() -> u8 {
        0
    }

    pub const fn f4_max() -> u8 {
        7
    }
}

#[asn(sequence)]

#[derive(Default, Debug, Clone, PartialEq, Hash)]
pub struct Ts5ddomdn {
    #[asn(default(integer(0..7), 5))] pub f0: u8,
    #[asn(default(integer(0..7), 5))] pub f1: u8,
    #[asn(optional(integer(0..7)))] pub f2: Option<u8>,
    #[asn(integer(0..7))] pub f3: u8,
    #[asn(default(integer(0..7), 5))] pub f4: u8,
}

impl Ts5ddomdn {
    pub const fn f0_min() -> u8 {
        0
    }

    pub const fn f0_max() -> u8 {
        7
    }

    pub const fn f1_min() -> u8 {
        0
    }

    pub const fn f1_max() -> u8 {
        7
    }

    pub const fn f2_min() -> u8 {
        0
    }

    pub const fn f2_max() -> u8 {
        7
    }

    pub const fn f3_min() -> u8 {
        0
    }

    pub const fn f3_max() -> u8 {
        7
    }

    pub const fn f4_min() -> u8 {
        0
    }

    pub const fn f4_max() -> u8 {
        7
    }
}

#[asn(sequence, extensible_after(f0))]

#[derive(Default, Debug, Clone, PartialEq, Hash)]
pub struct Ts5ddomde0 {
    #[asn(default(integer(0..7), 5))] pub f0: u8,
    #[asn(default(integer(0..7), 5))] pub f1: u8,
    #[asn(optional(integer(0..7)))] pub f2: Option<u8>,
    #[asn(optional(integer(0..7)))] pub f3: Option<u8>,
    #[asn(default(integer(0..7), 5))] pub f4: u8,
}

impl Ts5ddomde0 {
    pub const fn f0_min() -> u8 {
        0
    }

    pub const fn f0_max() -> u8 {
        7
    }

    pub const fn f1_min() -> u8 {
        0
    }

    pub const fn f1_max() -> u8 {
        7
    }

    pub const fn f2_min() -> u8 {
        0
    }

    pub const fn f2_max() -> u8 {
        7
    }

    pub const fn f3_min() -> u8 {
        0
    }

    pub const fn f3_max() -> u8 {
        7
    }

    pub const fn f4_min() -> u8 {
        0
    }

    pub const fn f4_max() -> u8 {
        7
    }
}

#[asn(sequence, extensible_after(f0))]

#[derive(Default, Debug, Clone, PartialEq, Hash)]
pub struct Ts5ddomde1 {
    #[asn(default(integer(0..7), 5))] pub f0: u8,
    #[asn(default(integer(0..7), 5))] pub f1: u8,
    #[asn(optional(integer(0..7)))] pub f2: Option<u8>,
    #[asn(optional(integer(0..7)))] pub f3: Option<u8>,
    #[asn(default(integer(0..7), 5))] pub f4: u8,
}

impl Ts5ddomde1 {
    pub const fn f0_min() -> u8 {
        0
    }

    pub const fn f0_max() -> u8 {
        7
    }

    pub const fn f1_min() -> u8 {
        0
    }

    pub const fn f1_max() -> u8 {
        7
    }

    pub const fn f2_min() -> u8 {
        0
    }

    pub const fn f2_max() -> u8 {
        7
    }

    pub const fn f3_min() -> u8 {
        0
    }

    pub const fn f3_max() -> u8 {
        7
    }

    pub const fn f4_min() -> u8 {
        0
    }

    pub const fn f4_max() -> u8 {
        7
    }
}

#[asn(sequence, extensible_after(f1))]

#[derive(Default, Debug, Clone, PartialEq, Hash)]
pub struct Ts5ddomde2 {
    #[asn(default(integer(0..7), 5))] pub f0: u8,
    #[asn(default(integer(0..7), 5))] pub f1: u8,
    #[asn(optional(integer(0..7)))] pub f2: Option<u8>,
    #[asn(optional(integer(0..7)))] pub f3: Option<u8>,
    #[asn(default(integer(0..7), 5))] pub f4: u8,
}

impl Ts5ddomde2 {
    pub const fn f0_min() -> u8 {
        0
    }

    pub const fn f0_max() -> u8 {
        7
    }

    pub const fn f1_min() -> u8 {
        0
    }

    pub const fn f1_max() -> u8 {
        7
    }

    pub const fn f2_min() -> u8 {
        0
    }

    pub const fn f2_max() -> u8 {
        7
    }

    pub const fn f3_min() -> u8 {
        0
    }

    pub const fn f3_max() -> u8 {
        7
    }

    pub const fn f4_min() -> u8 {
        0
    }

    pub const fn f4_max() -> u8 {
        7
    }
}

#[asn(sequence, extensible_after(f2))]

#[derive(Default, Debug, Clone, PartialEq, Hash)]
pub struct Ts5ddomde3 {
    #[asn(default(integer(0..7), 5))] pub f0: u8,
    #[asn(default(integer(0..7), 5))] pub f1: u8,
    #[asn(optional(integer(0..7)))] pub f2: Option<u8>,
    #[asn(optional(integer(0..7)))] pub f3: Option<u8>,
    #[asn(default(integer(0..7), 5))] pub f4: u8,
}

impl Ts5ddomde3 {
    pub const fn f0_min() -> u8 {
        0
    }

    pub const fn f0_max() -> u8 {
        7
    }

    pub const fn f1_min() -> u8 {
        0
    }

    pub const fn f1_max() -> u8 {
        7
    }

    pub const fn f2_min() -> u8 {
        0
    }

    pub const fn f2_max() -> u8 {
        7
    }

    pub const fn f3_min() -> u8 {
        0
    }

    pub const fn f3_max() -> u8 {
        7
    }

    pub const fn f4_min() -> u8 {
        0
    }

    pub const fn f4_max() -> u8 {
        7
    }
}

#[asn(sequence, extensible_after(f3))]

#[derive(Default, Debug, Clone, PartialEq, Hash)]
pub struct Ts5ddomde4 {
    #[asn(default(integer(0..7), 5))] pub f0: u8,
    #[asn(default(integer(0..7), 5))] pub f1: u8,
    #[asn(optional(integer(0..7)))] pub f2: Option<u8>,
    #[asn(integer(0..7))] pub f3: u8,
    #[asn(default(integer(0..7), 5))] pub f4: u8,
}

impl Ts5ddomde4 {
    pub const fn f0_min() -> u8 {
        0
    }

    pub const fn f0_max() -> u8 {
        7
    }

    pub const fn f1_min() -> u8 {
        0
    }

    pub const fn f1_max() -> u8 {
        7
    }

    pub const fn f2_min() -> u8 {
        0
    }

    pub const fn f2_max() -> u8 {
        7
    }

    pub const fn f3_min() -> u8 {
        0
    }

    pub const fn f3_max() -> u8 {
        7
    }

    pub const fn f4_min() -> u8 {
        0
    }

    pub const fn f4_max() -> u8 {
        7
    }
}

#[asn(sequence, extensible_after(f4))]

#[derive(Default, Debug, Clone, PartialEq, Hash)]
pub struct Ts5ddomde5 {
    #[asn(default(integer(0..7), 5))] pub f0: u8,
    #[asn(default(integer(0..7), 5))] pub f1: u8,
    #[asn(optional(integer(0..7)))] pub f2: Option<u8>,
    #[asn(integer(0..7))] pub f3: u8,
    #[asn(default(integer(0..7), 5))] pub f4: u8,
}

impl Ts5ddomde5 {
    pub const fn f0_min() -> u8 {
        0
    }

    pub const fn f0_max() -> u8 {
        7
    }

    pub const fn f1_min() -> u8 {
        0
    }

    pub const fn f1_max() -> u8 {
        7
    }

    pub const fn f2_min() -> u8 {
        0
    }

    pub const fn f2_max() -> u8 {
        7
    }

    pub const fn f3_min() -> u8 {
        0
    }

    pub const fn f3_max() -> u8 {
        7
    }

    pub const fn f4_min() -> u8 {
        0
    }

    pub const fn f4_max() -> u8 {
        7
    }
}

#[asn(sequence)]

#[derive(Default, Debug, Clone, PartialEq, Hash)]
pub struct Ts5mmdmdn {
    #[asn(integer(0..7))] pub f0: u8,
    #[asn(integer(0..7))] pub f1: u8,
    #[asn(default(integer(0..7), 5))] pub f2: u8,
    #[asn(integer(0..7))] pub f3: u8,
    #[asn(default(integer(0..7), 5))] pub f4: u8,
}

impl Ts5mmdmdn {
    pub const fn f0_min() -> u8 {
        0
    }

    pub const fn f0_max() -> u8 {
        7
    }

    pub const fn f1_min() -> u8 {
        0
    }

    pub const fn f1_max() -> u8 {
        7
    }

    pub const fn f2_min() -> u8 {
        0
    }

    pub const fn f2_max() -> u8 {
        7
    }

    pub const fn f3_min() -> u8 {
        0
    }

    pub const fn f3_max() -> u8 {
        7
    }

    pub const fn f4_min() -> u8 {
        0
    }

    pub const fn f4_max() -> u8 {
        7
    }
}

#[asn(sequence, extensible_after(f0))]

#[derive(Default, Debug, Clone, PartialEq, Hash)]
pub struct Ts5mmdmde0 {
    #[asn(integer(0..7))] pub f0: u8,
    #[asn(optional(integer(0..7)))] pub f1: Option<u8>,
    #[asn(default(integer(0..7), 5))] pub f2: u8,
    #[asn(optional(integer(0..7)))] pub f3: Option<u8>,
    #[asn(default(integer(0..7), 5))] pub f4: u8,
}

impl Ts5mmdmde0 {
    pub const fn f0_min() -> u8 {
        0
    }

    pub const fn f0_max() -> u8 {
        7
    }

    pub const fn f1_min() -> u8 {
        0
    }

    pub const fn f1_max() -> u8 {
        7
    }

    pub const fn f2_min() -> u8 {
        0
    }

    pub const fn f2_max() -> u8 {
        7
    }

    pub const fn f3_min() -> u8 {
        0
    }

    pub const fn f3_max() -> u8 {
        7
    }

    pub const fn f4_min() -> u8 {
        0
    }

    pub const fn f4_max() -> u8 {
        7
    }
}

#[asn(sequence, extensible_after(f0))]

#[derive(Default, Debug, Clone, PartialEq, Hash)]
pub struct Ts5mmdmde1 {
    #[asn(integer(0..7))] pub f0: u8,
    #[asn(optional(integer(0..7)))] pub f1: Option<u8>,
    #[asn(default(integer(0..7), 5))] pub f2: u8,
    #[asn(optional(integer(0..7)))] pub f3: Option<u8>,
    #[asn(default(integer(0..7), 5))] pub f4: u8,
}

impl Ts5mmdmde1 {
    pub const fn f0_min() -> u8 {
        0
    }

    pub const fn f0_max() -> u8 {
        7
    }

    pub const fn f1_min() -> u8 {
        0
    }

    pub const fn f1_max() -> u8 {
        7
    }

    pub const fn f2_min() -> u8 {
        0
    }

    pub const fn f2_max() -> u8 {
        7
    }

    pub const fn f3_min() -> u8 {
        0
    }

    pub const fn f3_max() -> u8 {
        7
    }

    pub const fn f4_min() -> u8 {
        0
    }

    pub const fn f4_max() -> u8 {
        7
    }
}

#[asn(sequence, extensible_after(f1))]

#[derive(Default, Debug, Clone, PartialEq, Hash)]
pub struct Ts5mmdmde2 {
    #[asn(integer(0..7))] pub f0: u8,
    #[asn(integer(0..7))] pub f1: u8,
    #[asn(default(integer(0..7), 5))] pub f2: u8,
    #[asn(optional(integer(0..7)))] pub f3: Option<u8>,
    #[asn(default(integer(0..7), 5))] pub f4: u8,
}

impl Ts5mmdmde2 {
    pub const fn f0_min() -> u8 {
        0
    }

    pub const fn f0_max() -> u8 {
        7
    }

    pub const fn f1_min() -> u8 {
        0
    }

    pub const fn f1_max() -> u8 {
        7
    }

    pub const fn f2_min() -> u8 {
        0
    }

    pub const fn f2_max() -> u8 {
        7
    }

    pub const fn f3_min() -> u8 {
        0
    }

    pub const fn f3_max() -> u8 {
        7
    }

    pub const fn f4_min() -> u8 {
        0
    }

    pub const fn f4_max() -> u8 {
        7
    }
}

#[asn(sequence, extensible_after(f2))]

#[derive(Default, Debug, Clone, PartialEq, Hash)]
pub struct Ts5mmdmde3 {
    #[asn(integer(0..7))] pub f0: u8,
    #[asn(integer(0..7))] pub f1: u8,
    #[asn(default(integer(0..7), 5))] pub f2: u8,
    #[asn(optional(integer(0..7)))] pub f3: Option<u8>,
    #[asn(default(integer(0..7), 5))] pub f4: u8,
}

impl Ts5mmdmde3 {
    pub const fn f0_min() -> u8 {
        0
    }

    pub const fn f0_max() -> u8 {
        7
    }

    pub const fn f1_min() -> u8 {
        0
    }

    pub const fn f1_max() -> u8 {
        7
    }

    pub const fn f2_min() -> u8 {
        0
    }

    pub const fn f2_max() -> u8 {
        7
    }

    pub const fn f3_min() -> u8 {
        0
    }

    pub const fn f3_max() -> u8 {
        7
    }

    pub const fn f4_min() -> u8 {
        0
    }

    pub const fn f4_max() -> u8 {
        7
    }
}

#[asn(sequence, extensible_after(f3))]

#[derive(Default, Debug, Clone, PartialEq, Hash)]
pub struct Ts5mmdmde4 {
    #[asn(integer(0..7))] pub f0: u8,
    #[asn(integer(0..7))] pub f1: u8,
    #[asn(default(integer(0..7), 5))] pub f2: u8,
    #[asn(integer(0..7))] pub f3: u8,
    #[asn(default(integer(0..7), 5))] pub f4: u8,
}

impl Ts5mmdmde4 {
    pub const fn f0_min() -> u8 {
        0
    }

    pub const fn f0_max() -> u8 {
        7
    }

    pub const fn f1_min() -> u8 {
        0
    }

    pub const fn f1_max() -> u8 {
        7
    }

    pub const fn f2_min() -> u8 {
        0
    }

    pub const fn f2_max() -> u8 {
        7
    }

    pub const fn f3_min() -> u8 {
        0
    }

    pub const fn f3_max() -> u8 {
        7
    }

    pub const fn f4_min() -> u8 {
        0
    }

    pub const fn f4_max() -> u8 {
        7
    }
}

#[asn(sequence, extensible_after(f4))]

#[derive(Default, Debug, Clone, PartialEq, Hash)]
pub struct Ts5mmdmde5 {
    #[asn(integer(0..7))] pub f0: u8,
    #[asn(integer(0..7))] pub f1: u8,
    #[asn(default(integer(0..7), 5))] pub f2: u8,
    #[asn(integer(0..7))] pub f3: u8,
    #[asn(default(integer(0..7), 5))] pub f4: u8,
}

impl Ts5mmdmde5 {
    pub const fn f0_min() -> u8 {
        0
    }

    pub const fn f0_max() -> u8 {
        7
    }

    pub const fn f1_min() -> u8 {
        0
    }

    pub const fn f1_max() -> u8 {
        7
    }

    pub const fn f2_min() -> u8 {
        0
    }

    pub const fn f2_max() -> u8 {
        7
    }

    pub const fn f3_min() -> u8 {
        0
    }

    pub const fn f3_max() -> u8 {
        7
    }

    pub const fn f4_min() -> u8 {
        0
    }

    pub const fn f4_max() -> u8 {
        7
    }
}

#[asn(sequence)]

#[derive(Default, Debug, Clone, PartialEq, Hash)]
pub struct Ts5omdmdn {
    #[asn(optional(integer(0..7)))] pub f0: Option<u8>,
    #[asn(integer(0..7))] pub f1: u8,
    #[asn(default(integer(0..7), 5))] pub f2: u8,
    #[asn(integer(0..7))] pub f3: u8,
    #[asn(default(integer(0..7), 5))] pub f4: u8,
}

impl Ts5omdmdn {
    pub const fn f0_min() -> u8 {
        0
    }

    pub const fn f0_max() -> u8 {
        7
    }

    pub const fn f1_min() -> u8 {
        0
    }

    pub const fn f1_max() -> u8 {
        7
    }

    pub const fn f2_min() -> u8 {
        0
    }

    pub const fn f2_max() -> u8 {
        7
    }

    pub const fn f3_min() -> u8 {
        0
    }

    pub const fn f3_max() -> u8 {
        7
    }

    pub const fn f4_min() -> u8 {
        0
    }

    pub const fn f4_max() -> u8 {
        7
    }
}

#[asn(sequence, extensible_after(f0))]

#[derive(Default, Debug, Clone, PartialEq, Hash)]
pub struct Ts5omdmde0 {
    #[asn(optional(integer(0..7)))] pub f0: Option<u8>,
    #[asn(optional(integer(0..7)))] pub f1: Option<u8>,
    #[asn(default(integer(0..7), 5))] pub f2: u8,
    #[asn(optional(integer(0..7)))] pub f3: Option<u8>,
    #[asn(default(integer(0..7), 5))] pub f4: u8,
}

impl Ts5omdmde0 {
    pub const fn f0_min() -> u8 {
        0
    }

    pub const fn f0_max() -> u8 {
        7
    }

    pub const fn f1_min() -> u8 {
        0
    }

    pub const fn f1_max() -> u8 {
        7
    }

    pub const fn f2_min() -> u8 {
        0
    }

    pub const fn f2_max() -> u8 {
        7
    }

    pub const fn f3_min() -> u8 {
        0
    }

    pub const fn f3_max() -> u8 {
        7
    }

    pub const fn f4_min() -> u8 {
        0
    }

    pub const fn f4_max() -> u8 {
        7
    }
}

#[asn(sequence, extensible_after(f0))]

#[derive(Default, Debug, Clone, PartialEq, Hash)]
pub struct Ts5omdmde1 {
    #[asn(optional(integer(0..7)))] pub f0: Option<u8>,
    #[asn(optional(integer(0..7)))] pub f1: Option<u8>,
    #[asn(default(integer(0..7), 5))] pub f2: u8,
    #[asn(optional(integer(0..7)))] pub f3: Option<u8>,
    #[asn(default(integer(0..7), 5))] pub f4: u8,
}

impl Ts5omdmde1 {
    pub const fn f0_min() -> u8 {
        0
    }

    pub const fn f0_max() -> u8 {
        7
    }

    pub const fn f1_min() -> u8 {
        0
    }

    pub const fn f1_max() -> u8 {
        7
    }

    pub const fn f2_min() -> u8 {
        0
    }

    pub const fn f2_max() -> u8 {
        7
    }

    pub const fn f3_min() -> u8 {
        0
    }

    pub const fn f3_max() -> u8 {
        7
    }

    pub const fn f4_min() -> u8 {
        0
    }

    pub const fn f4_max() -> u8 {
        7
    }
}

#[asn(sequence, extensible_after(f1))]

#[derive(Default, Debug, Clone, PartialEq, Hash)]
pub struct Ts5omdmde2 {
    #[asn(optional(integer(0..7)))] pub f0: Option<u8>,
    #[asn(integer(0..7))] pub f1: u8,
    #[asn(default(integer(0..7), 5))] pub f2: u8,
    #[asn(optional(integer(0..7)))] pub f3: Option<u8>,
    #[asn(default(integer(0..7), 5))] pub f4: u8,
}

impl Ts5omdmde2 {
    pub const fn f0_min() -> u8 {
        0
    }

    pub const fn f0_max() -> u8 {
        7
    }

    pub const fn f1_min() -> u8 {
        0
    }

    pub const fn f1_max() -> u8 {
        7
    }

    pub const fn f2_min() -> u8 {
        0
    }

    pub const fn f2_max() -> u8 {
        7
    }

    pub const fn f3_min() -> u8 {
        0
    }

    pub const fn f3_max() -> u8 {
        7
    }

    pub const fn f4_min() -> u8 {
        0
    }

    pub const fn f4_max() -> u8 {
        7
    }
}

#[asn(sequence, extensible_after(f2))]

#[derive(Default, Debug, Clone, PartialEq, Hash)]
pub struct Ts5omdmde3 {
    #[asn(optional(integer(0..7)))] pub f0: Option<u8>,
    #[asn(integer(0..7))] pub f1: u8,
    #[asn(default(integer(0..7), 5))] pub f2: u8,
    #[asn(optional(integer(0..7)))] pub f3: Option<u8>,
    #[asn(default(integer(0..7), 5))] pub f4: u8,
}

impl Ts5omdmde3 {
    pub const fn f0_min() -> u8 {
        0
    }

    pub const fn f0_max() -> u8 {
        7
    }

    pub const fn f1_min() -> u8 {
        0
    }

    pub const fn f1_max() -> u8 {
        7
    }

    pub const fn f2_min() -> u8 {
        0
    }

    pub const fn f2_max() -> u8 {
        7
    }

    pub const fn f3_min() -> u8 {
        0
    }

    pub const fn f3_max() -> u8 {
        7
    }

    pub const fn f4_min() -> u8 {
        0
    }

    pub const fn f4_max() -> u8 {
        7
    }
}

#[asn(sequence, extensible_after(f3))]

#[derive(Default, Debug, Clone, PartialEq, Hash)]
pub struct Ts5omdmde4 {
    #[asn(optional(integer(0..7)))] pub f0: Option<u8>,
    #[asn(integer(0..7))] pub f1: u8,
    #[asn(default(integer(0..7), 5))] pub f2: u8,
    #[asn(integer(0..7))] pub f3: u8,
    #[asn(default(integer(0..7), 5))] pub f4: u8,
}

impl Ts5omdmde4 {
    pub const fn f0_min() -> u8 {
        0
    }

    pub const fn f0_max() -> u8 {
        7
    }

    pub const fn f1_min() -> u8 {
        0
    }

    pub const fn f1_max() -> u8 {
        7
    }

    pub const fn f2_min() -> u8 {
        0
    }

    pub const fn f2_max() -> u8 {
        7
    }

    pub const fn f3_min() -> u8 {
        0
    }

    pub const fn f3_max() -> u8 {
        7
    }

    pub const fn f4_min() -> u8 {
        0
    }

    pub const fn f4_max() -> u8 {
        7
    }
}

#[asn(sequence, extensible_after(f4))]

#[derive(Default, Debug, Clone, PartialEq, Hash)]
pub struct Ts5omdmde5 {
    #[asn(optional(integer(0..7)))] pub f0: Option<u8>,
    #[asn(integer(0..7))] pub f1: u8,
    #[asn(default(integer(0..7), 5))] pub f2: u8,
    #[asn(integer(0..7))] pub f3: u8,
    #[asn(default(integer(0..7), 5))] pub f4: u8,
}

impl Ts5omdmde5 {
    pub const fn f0_min() -> u8 {
        0
    }

    pub const fn f0_max() -> u8 {
        7
    }

    pub const fn f1_min() -> u8 {
        0
    }

    pub const fn f1_max() -> u8 {
        7
    }

    pub const fn f2_min() -> u8 {
        0
    }

    pub const fn f2_max() -> u8 {
        7
    }

    pub const fn f3_min() -> u8 {
        0
    }

    pub const fn f3_max() -> u8 {
        7
    }

    pub const fn f4_min() -> u8 {
        0
    }

    pub const fn f4_max() -> u8 {
        7
    }
}

#[asn(sequence)]

#[derive(Default, Debug, Clone, PartialEq, Hash)]
pub struct Ts5dmdmdn {
    #[asn(default(integer(0..7), 5))] pub f0: u8,
    #[asn(integer(0..7))] pub f1: u8,
    #[asn(default(integer(0..7), 5))] pub f2: u8,
    #[asn(integer(0..7))] pub f3: u8,
    #[asn(default(integer(0..7), 5))] pub f4: u8,
}

impl Ts5dmdmdn {
    pub const fn f0_min() -> u8 {
        0
    }

    pub const fn f0_max() -> u8 {
        7
    }

    pub const fn f1_min() -> u8 {
        0
    }

    pub const fn f1_max() -> u8 {
        7
    }

    pub const fn f2_min() -> u8 {
        0
    }

    pub const fn f2_max() -> u8 {
        7
    }

    pub const fn f3_min() -> u8 {
        0
    }

    pub const fn f3_max() -> u8 {
        7
    }

    pub const fn f4_min() -> u8 {
        0
    }

    pub const fn f4_max() -> u8 {
        7
    }
}

#[asn(sequence, extensible_after(f0))]

#[derive(Default, Debug, Clone, PartialEq, Hash)]
pub struct Ts5dmdmde0 {
    #[asn(default(integer(0..7), 5))] pub f0: u8,
    #[asn(optional(integer(0..7)))] pub f1: Option<u8>,
    #[asn(default(integer(0..7), 5))] pub f2: u8,
    #[asn(optional(integer(0..7)))] pub f3: Option<u8>,
    #[asn(default(integer(0..7), 5))] pub f4: u8,
}

impl Ts5dmdmde0 {
    pub const fn f0_min() -> u8 {
        0
    }

    pub const fn f0_max() -> u8 {
        7
    }

    pub const fn f1_min() -> u8 {
        0
    }

    pub const fn f1_max() -> u8 {
        7
    }

    pub const fn f2_min() -> u8 {
        0
    }

    pub const fn f2_max() -> u8 {
        7
    }

    pub const fn f3_min() -> u8 {
        0
    }

    pub const fn f3_max() -> u8 {
        7
    }

    pub const fn f4_min() -> u8 {
        0
    }

    pub const fn f4_max() -> u8 {
        7
    }
}

#[asn(sequence, extensible_after(f0))]

#[derive(Default, Debug, Clone, PartialEq, Hash)]
pub struct Ts5dmdmde1 {
    #[asn(default(integer(0..7), 5))] pub f0: u8,
    #[asn(optional(integer(0..7)))] pub f1: Option<u8>,
    #[asn(default(integer(0..7), 5))] pub f2: u8,
    #[asn(optional(integer(0..7)))] pub f3: Option<u8>,
    #[asn(default(integer(0..7), 5))] pub f4: u8,
}

impl Ts5dmdmde1 {
    pub const fn f0_min() -> u8 {
        0
    }

    pub const fn f0_max() -> u8 {
        7
    }

    pub const fn f1_min() -> u8 {
        0
    }

    pub const fn f1_max() -> u8 {
        7
    }

    pub const fn f2_min() -> u8 {
        0
    }

    pub const fn f2_max() -> u8 {
        7
    }

    pub const fn f3_min() -> u8 {
        0
    }

    pub const fn f3_max() -> u8 {
        7
    }

    pub const fn f4_min() -> u8 {
        0
    }

    pub const fn f4_max() -> u8 {
        7
    }
}

#[asn(sequence, extensible_after(f1))]

#[derive(Default, Debug, Clone, PartialEq, Hash)]
pub struct Ts5dmdmde2 {
    #[asn(default(integer(0..7), 5))] pub f0: u8,
    #[asn(integer(0..7))] pub f1: u8,
    #[asn(default(integer(0..7), 5))] pub f2: u8,
    #[asn(optional(integer(0..7)))] pub f3: Option<u8>,
    #[asn(default(integer(0..7), 5))] pub f4: u8,
}

impl Ts5dmdmde2 {
    pub const fn f0_min() -> u8 {
        0
    }

    pub const fn f0_max() -> u8 {
        7
    }

    pub const fn f1_min() -> u8 {
        0
    }

    pub const fn f1_max() -> u8 {
        7
    }

    pub const fn f2_min() -> u8 {
        0
    }

    pub const fn f2_max() -> u8 {
        7
    }

    pub const fn f3_min() -> u8 {
        0
    }

    pub const fn f3_max() -> u8 {
        7
    }

    pub const fn f4_min() -> u8 {
        0
    }

    pub const fn f4_max() -> u8 {
        7
    }
}

#[asn(sequence, extensible_after(f2))]

#[derive(Default, Debug, Clone, PartialEq, Hash)]
pub struct Ts5dmdmde3 {
    #[asn(default(integer(0..7), 5))] pub f0: u8,
    #[asn(integer(0..7))] pub f1: u8,
    #[asn(default(integer(0..7), 5))] pub f2: u8,
    #[asn(optional(integer(0..7)))] pub f3: Option<u8>,
    #[asn(default(integer(0..7), 5))] pub f4: u8,
}

impl Ts5dmdmde3 {
    pub const fn f0_min() -> u8 {
        0
    }

    pub const fn f0_max() -> u8 {
        7
    }

    pub const fn f1_min() -> u8 {
        0
    }

    pub const fn f1_max() -> u8 {
        7
    }

    pub const fn f2_min() -> u8 {
        0
    }

    pub const fn f2_max() -> u8 {
        7
    }

    pub const fn f3_min() -> u8 {
        0
    }

    pub const fn f3_max() -> u8 {
        7
    }

    pub const fn f4_min() -> u8 {
        0
    }

    pub const fn f4_max() -> u8 {
        7
    }
}

#[asn(sequence, extensible_after(f3))]

#[derive(Default, Debug, Clone, PartialEq, Hash)]
pub struct Ts5dmdmde4 {
    #[asn(default(integer(0..7), 5))] pub f0: u8,
    #[asn(integer(0..7))] pub f1: u8,
    #[asn(default(integer(0..7), 5))] pub f2: u8,
    #[asn(integer(0..7))] pub f3: u8,
    #[asn(default(integer(0..7), 5))] pub f4: u8,
}

impl Ts5dmdmde4 {
    pub const fn f0_min() -> u8 {
        0
    }

    pub const fn f0_max() -> u8 {
        7
    }

    pub const fn f1_min() -> u8 {
        0
    }

    pub const fn f1_max() -> u8 {
        7
    }

    pub const fn f2_min() -> u8 {
        0
    }

    pub const fn f2_max() -> u8 {
        7
    }

    pub const fn f3_min() -> u8 {
        0
    }

    pub const fn f3_max() -> u8 {
        7
    }

    pub const fn f4_min() -> u8 {
        0
    }

    pub const fn f4_max() -> u8 {
        7
    }
}

#[asn(sequence, extensible_after(f4))]

#[derive(Default, Debug, Clone, PartialEq, Hash)]
pub struct Ts5dmdmde5 {
    #[asn(default(integer(0..7), 5))] pub f0: u8,
    #[asn(integer(0..7))] pub f1: u8,
    #[asn(default(integer(0..7), 5))] pub f2: u8,
    #[asn(integer(0..7))] pub f3: u8,
    #[asn(default(integer(0..7), 5))] pub f4: u8,
}

impl Ts5dmdmde5 {
    pub const fn f0_min() -> u8 {
        0
    }

    pub const fn f0_max() -> u8 {
        7
    }

    pub const fn f1_min() -> u8 {
        0
    }

    pub const fn f1_max() -> u8 {
        7
    }

    pub const fn f2_min() -> u8 {
        0
    }

    pub const fn f2_max() -> u8 {
        7
    }

    pub const fn f3_min() -> u8 {
        0
    }

    pub const fn f3_max() -> u8 {
        7
    }

    pub const fn f4_min() -> u8 {
        0
    }

    pub const fn f4_max() -> u8 {
        7
    }
}

#[asn(sequence)]

#[derive(Default, Debug, Clone, PartialEq, Hash)]
pub struct Ts5modmdn {
    #[asn(integer(0..7))] pub f0: u8,
    #[asn(optional(integer(0..7)))] pub f1: Option<u8>,
    #[asn(default(integer(0..7), 5))] pub f2: u8,
    #[asn(integer(0..7))] pub f3: u8,
    #[asn(default(integer(0..7), 5))] pub f4: u8,
}

impl Ts5modmdn {
    pub const fn f0_min() -> u8 {
        0
    }

    pub const fn f0_max() -> u8 {
        7
    }

    pub const fn f1_min() -> u8 {
        0
    }

    pub const fn f1_max() -> u8 {
        7
    }

    pub const fn f2_min() -> u8 {
        0
    }

    pub const fn f2_max() -> u8 {
        7
    }

    pub const fn f3_min() -> u8 {
        0
    }

    pub const fn f3_max() -> u8 {
        7
    }

    pub const fn f4_min() -> u8 {
        0
    }

    pub const fn f4_max() -> u8 {
        7
    }
}

#[asn(sequence, extensible_after(f0))]

#[derive(Default, Debug, Clone, PartialEq, Hash)]
pub struct Ts5modmde0 {
    #[asn(integer(0..7))] pub f0: u8,
    #[asn(optional(integer(0..7)))] pub f1: Option<u8>,
    #[asn(default(integer(0..7), 5))] pub f2: u8,
    #[asn(optional(integer(0..7)))] pub f3: Option<u8>,
    #[asn(default(integer(0..7), 5))] pub f4: u8,
}

impl Ts5modmde0 {
    pub const fn f0_min() -> u8 {
        0
    }

    pub const fn f0_max() -> u8 {
        7
    }

    pub const fn f1_min() -> u8 {
        0
    }

    pub const fn f1_max() -> u8 {
        7
    }

    pub const fn f2_min() -> u8 {
        0
    }

    pub const fn f2_max() -> u8 {
        7
    }

    pub const fn f3_min() -> u8 {
        0
    }

    pub const fn f3_max() -> u8 {
        7
    }

    pub const fn f4_min() -> u8 {
        0
    }

    pub const fn f4_max() -> u8 {
        7
    }
}

#[asn(sequence, extensible_after(f0))]

#[derive(Default, Debug, Clone, PartialEq, Hash)]
pub struct Ts5modmde1 {
    #[asn(integer(0..7))] pub f0: u8,
    #[asn(optional(integer(0..7)))] pub f1: Option<u8>,
    #[asn(default(integer(0..7), 5))] pub f2: u8,
    #[asn(optional(integer(0..7)))] pub f3: Option<u8>,
    #[asn(default(integer(0..7), 5))] pub f4: u8,
}

impl Ts5modmde1 {
    pub const fn f0_min() -> u8 {
        0
    }

    pub const fn f0_max() -> u8 {
        7
    }

    pub const fn f1_min() -> u8 {
        0
    }

    pub const fn f1_max() -> u8 {
        7
    }

    pub const fn f2_min() -> u8 {
        0
    }

    pub const fn f2_max() -> u8 {
        7
    }

    pub const fn f3_min() -> u8 {
        0
    }

    pub const fn f3_max() -> u8 {
        7
    }

    pub const fn f4_min() -> u8 {
        0
    }

    pub const fn f4_max() -> u8 {
        7
    }
}

#[asn(sequence, extensible_after(f1))]

#[derive(Default, Debug, Clone, PartialEq, Hash)]
pub struct Ts5modmde2 {
    #[asn(integer(0..7))] pub f0: u8,
    #[asn(optional(integer(0..7)))] pub f1: Option<u8>,
    #[asn(default(integer(0..7), 5))] pub f2: u8,
    #[asn(optional(integer(0..7)))] pub f3: Option<u8>,
    #[asn(default(integer(0..7), 5))] pub f4: u8,
}

impl Ts5modmde2 {
    pub const fn f0_min() -> u8 {
        0
    }

    pub const fn f0_max() -> u8 {
        7
    }

    pub const fn f1_min() -> u8 {
        0
    }

    pub const fn f1_max() -> u8 {
        7
    }

    pub const fn f2_min() -> u8 {
        0
    }

    pub const fn f2_max() -> u8 {
        7
    }

    pub const fn f3_min() -> u8 {
        0
    }

    pub const fn f3_max() -> u8 {
        7
    }

    pub const fn f4_min() -> u8 {
        0
    }

    pub const fn f4_max() -> u8 {
        7
    }
}

#[asn(sequence, extensible_after(f2))]

#[derive(Default, Debug, Clone, PartialEq, Hash)]
pub struct Ts5modmde3 {
    #[asn(integer(0..7))] pub f0: u8,
    #[asn(optional(integer(0..7)))] pub f1: Option<u8>,
    #[asn(default(integer(0..7), 5))] pub f2: u8,
    #[asn(optional(integer(0..7)))] pub f3: Option<u8>,
    #[asn(default(integer(0..7), 5))] pub f4: u8,
}

impl Ts5modmde3 {
    pub const fn f0_min() -> u8 {
        0
    }

    pub const fn f0_max() -> u8 {
        7
    }

    pub const fn f1_min() -> u8 {
        0
    }

    pub const fn f1_max() -> u8 {
        7
    }

    pub const fn f2_min() -> u8 {
        0
    }

    pub const fn f2_max() -> u8 {
        7
    }

    pub const fn f3_min() -> u8 {
        0
    }

    pub const fn f3_max() -> u8 {
        7
    }

    pub const fn f4_min() -> u8 {
        0
    }

    pub const fn f4_max() -> u8 {
        7
    }
}

#[asn(sequence, extensible_after(f3))]

#[derive(Default, Debug, Clone, PartialEq, Hash)]
pub struct Ts5modmde4 {
    #[asn(integer(0..7))] pub f0: u8,
    #[asn(optional(integer(0..7)))] pub f1: Option<u8>,
    #[asn(default(integer(0..7), 5))] pub f2: u8,
    #[asn(integer(0..7))] pub f3: u8,
    #[asn(default(integer(0..7), 5))] pub f4: u8,
}

impl Ts5modmde4 {
    pub const fn f0_min() -> u8 {
        0
    }

    pub const fn f0_max() -> u8 {
        7
    }

    pub const fn f1_min() -> u8 {
        0
    }

    pub const fn f1_max() -> u8 {
        7
    }

    pub const fn f2_min() -> u8 {
        0
    }

    pub const fn f2_max() -> u8 {
        7
    }

    pub const fn f3_min() -> u8 {
        0
    }

    pub const fn f3_max() -> u8 {
        7
    }

    pub const fn f4_min() -> u8 {
        0
    }

    pub const fn f4_max() -> u8 {
        7
    }
}

#[asn(sequence, extensible_after(f4))]

#[derive(Default, Debug, Clone, PartialEq, Hash)]
pub struct Ts5modmde5 {
    #[asn(integer(0..7))] pub f0: u8,
    #[asn(optional(integer(0..7)))] pub f1: Option<u8>,
    #[asn(default(integer(0..7), 5))] pub f2: u8,
    #[asn(integer(0..7))] pub f3: u8,
    #[asn(default(integer(0..7), 5))] pub f4: u8,
}

impl Ts5modmde5 {
    pub const fn f0_min() -> u8 {
        0
    }

    pub const fn f0_max() -> u8 {
        7
    }

    pub const fn f1_min() -> u8 {
        0
    }

    pub const fn f1_max() -> u8 {
        7
    }

    pub const fn f2_min() -> u8 {
        0
    }

    pub const fn f2_max() -> u8 {
        7
    }

    pub const fn f3_min() -> u8 {
        0
    }

    pub const fn f3_max() -> u8 {
        7
    }

    pub const fn f4_min() -> u8 {
        0
    }

    pub const fn f4_max() -> u8 {
        7
    }
}

#[asn(sequence)]

#[derive(Default, Debug, Clone, PartialEq, Hash)]
pub struct Ts5oodmdn {
    #[asn(optional(integer(0..7)))] pub f0: Option<u8>,
    #[asn(optional(integer(0..7)))] pub f1: Option<u8>,
    #[asn(default(integer(0..7), 5))] pub f2: u8,
    #[asn(integer(0..7))] pub f3: u8,
    #[asn(default(integer(0..7), 5))] pub f4: u8,
}

impl Ts5oodmdn {
    pub const fn f0_min() -> u8 {
        0
    }

    pub const fn f0_max() -> u8 {
        7
    }

    pub const fn f1_min() -> u8 {
        0
    }

    pub const fn f1_max() -> u8 {
        7
    }

    pub const fn f2_min() -> u8 {
        0
    }

    pub const fn f2_max() -> u8 {
        7
    }

    pub const fn f3_min() -> u8 {
        0
    }

    pub const fn f3_max() -> u8 {
        7
    }

    pub const fn f4_min() -> u8 {
        0
    }

    pub const fn f4_max() -> u8 {
        7
    }
}

#[asn(sequence, extensible_after(f0))]

#[derive(Default, Debug, Clone, PartialEq, Hash)]
pub struct Ts5oodmde0 {
    #[asn(optional(integer(0..7)))] pub f0: Option<u8>,
    #[asn(optional(integer(0..7)))] pub f1: Option<u8>,
    #[asn(default(integer(0..7), 5))] pub f2: u8,
    #[asn(optional(integer(0..7)))] pub f3: Option<u8>,
    #[asn(default(integer(0..7), 5))] pub f4: u8,
}

impl Ts5oodmde0 {
    pub const fn f0_min() -> u8 {
        0
    }

    pub const fn f0_max() -> u8 {
        7
    }

    pub const fn f1_min() -> u8 {
        0
    }

    pub const fn f1_max() -> u8 {
        7
    }

    pub const fn f2_min() -> u8 {
        0
    }

    pub const fn f2_max() -> u8 {
        7
    }

    pub const fn f3_min() -> u8 {
        0
    }

    pub const fn f3_max() -> u8 {
        7
    }

    pub const fn f4_min() -> u8 {
        0
    }

    pub const fn f4_max() -> u8 {
        7
    }
}

#[asn(sequence, extensible_after(f0))]

#[derive(Default, Debug, Clone, PartialEq, Hash)]
pub struct Ts5oodmde1 {
    #[asn(optional(integer(0..7)))] pub f0: Option<u8>,
    #[asn(optional(integer(0..7)))] pub f1: Option<u8>,
    #[asn(default(integer(0..7), 5))] pub f2: u8,
    #[asn(optional(integer(0..7)))] pub f3: Option<u8>,
    #[asn(default(integer(0..7), 5))] pub f4: u8,
}

impl Ts5oodmde1 {
    pub const fn f0_min() -> u8 {
        0
    }

    pub const fn f0_max() -> u8 {
        7
    }

    pub const fn f1_min() -> u8 {
        0
    }

    pub const fn f1_max() -> u8 {
        7
    }

    pub const fn f2_min() -> u8 {
        0
    }

    pub const fn f2_max() -> u8 {
        7
    }

    pub const fn f3_min() -> u8 {
        0
    }

    pub const fn f3_max() -> u8 {
        7
    }

    pub const fn f4_min() -> u8 {
        0
    }

    pub const fn f4_max() -> u8 {
        7
    }
}

#[asn(sequence, extensible_after(f1))]

#[derive(Default, Debug, Clone, PartialEq, Hash)]
pub struct Ts5oodmde2 {
    #[asn(optional(integer(0..7)))] pub f0: Option<u8>,
    #[asn(optional(integer(0..7)))] pub f1: Option<u8>,
    #[asn(default(integer(0..7), 5))] pub f2: u8,
    #[asn(optional(integer(0..7)))] pub f3: Option<u8>,
    #[asn(default(integer(0..7), 5))] pub f4: u8,
}

impl Ts5oodmde2 {
    pub const fn f0_min() -> u8 {
        0
    }

    pub const fn f0_max() -> u8 {
        7
    }

    pub const fn f1_min() -> u8 {
        0
    }

    pub const fn f1_max() -> u8 {
        7
    }

    pub const fn f2_min() -> u8 {
        0
    }

    pub const fn f2_max() -> u8 {
        7
    }

    pub const fn f3_min() -> u8 {
        0
    }

    pub const fn f3_max() -> u8 {
        7
    }

    pub const fn f4_min() -> u8 {
        0
    }

    pub const fn f4_max() -> u8 {
        7
    }
}

#[asn(sequence, extensible_after(f2))]

#[derive(Default, Debug, Clone, PartialEq, Hash)]
pub struct Ts5oodmde3 {
    #[asn(optional(integer(0..7)))] pub f0: Option<u8>,
    #[asn(optional(integer(0..7)))] pub f1: Option<u8>,
    #[asn(default(integer(0..7), 5))] pub f2: u8,
    #[asn(optional(integer(0..7)))] pub f3: Option<u8>,
    #[asn(default(integer(0..7), 5))] pub f4: u8,
}

impl Ts5oodmde3 {
    pub const fn f0_min() -> u8 {
        0
    }

    pub const fn f0_max() -> u8 {
        7
    }

    pub const fn f1_min() -> u8 {
        0
    }

    pub const fn f1_max() -> u8 {
        7
    }

    pub const fn f2_min() -> u8 {
        0
    }

    pub const fn f2_max() -> u8 {
        7
    }

    pub const fn f3_min() -> u8 {
        0
    }

    pub const fn f3_max() -> u8 {
        7
    }

    pub const fn f4_min() -> u8 {
        0
    }

    pub const fn f4_max() -> u8 {
        7
    }
}

#[asn(sequence, extensible_after(f3))]

#[derive(Default, Debug, Clone, PartialEq, Hash)]
pub struct Ts5oodmde4 {
    #[asn(optional(integer(0..7)))] pub f0: Option<u8>,
    #[asn(optional(integer(0..7)))] pub f1: Option<u8>,
    #[asn(default(integer(0..7), 5))] pub f2: u8,
    #[asn(integer(0..7))] pub f3: u8,
    #[asn(default(integer(0..7), 5))] pub f4: u8,
}

impl Ts5oodmde4 {
    pub const fn f0_min() -> u8 {
        0
    }

    pub const fn f0_max() -> u8 {
        7
    }

    pub const fn f1_min() -> u8 {
        0
    }

    pub const fn f1_max() -> u8 {
        7
    }

    pub const fn f2_min() -> u8 {
        0
    }

    pub const fn f2_max() -> u8 {
        7
    }

    pub const fn f3_min() -> u8 {
        0
    }

    pub const fn f3_max() -> u8 {
        7
    }

    pub const fn f4_min() -> u8 {
        0
    }

    pub const fn f4_max() -> u8 {
        7
    }
}

#[asn(sequence, extensible_after(f4))]

#[derive(Default, Debug, Clone, PartialEq, Hash)]
pub struct Ts5oodmde5 {
    #[asn(optional(integer(0..7)))] pub f0: Option<u8>,
    #[asn(optional(integer(0..7)))] pub f1: Option<u8>,
    #[asn(default(integer(0..7), 5))] pub f2: u8,
    #[asn(integer(0..7))] pub f3: u8,
    #[asn(default(integer(0..7), 5))] pub f4: u8,
}

impl Ts5oodmde5 {
    pub const fn f0_min() -> u8 {
        0
    }

    pub const fn f0_max() -> u8 {
        7
    }

    pub const fn f1_min() -> u8 {
        0
    }

    pub const fn f1_max() -> u8 {
        7
    }

    pub const fn f2_min() -> u8 {
        0
    }

    pub const fn f2_max() -> u8 {
        7
    }

    pub const fn f3_min() -> u8 {
        0
    }

    pub const fn f3_max() -> u8 {
        7
    }

    pub const fn f4_min() -> u8 {
        0
    }

    pub const fn f4_max() -> u8 {
        7
    }
}

#[asn(sequence)]

#[derive(Default, Debug, Clone, PartialEq, Hash)]
pub struct Ts5dodmdn {
    #[asn(default(integer(0..7), 5))] pub f0: u8,
    #[asn(optional(integer(0..7)))] pub f1: Option<u8>,
    #[asn(default(integer(0..7), 5))] pub f2: u8,
    #[asn(integer(0..7))] pub f3: u8,
    #[asn(default(integer(0..7), 5))] pub f4: u8,
}

impl Ts5dodmdn {
    pub const fn f0_min() -> u8 {
        0
    }

    pub const fn f0_max() -> u8 {
        7
    }

    pub const fn f1_min() -> u8 {
        0
    }

    pub const fn f1_max() -> u8 {
        7
    }

    pub const fn f2_min() -> u8 {
        0
    }

    pub const fn f2_max() -> u8 {
        7
    }

    pub const fn f3_min() -> u8 {
        0
    }

    pub const fn f3_max() -> u8 {
        7
    }

    pub const fn f4_min() -> u8 {
        0
    }

    pub const fn f4_max() -> u8 {
        7
    }
}

#[asn(sequence, extensible_after(f0))]

#[derive(Default, Debug, Clone, PartialEq, Hash)]
pub struct Ts5dodmde0 {
    #[asn(default(integer(0..7), 5))] pub f0: u8,
    #[asn(optional(integer(0..7)))] pub f1: Option<u8>,
    #[asn(default(integer(0..7), 5))] pub f2: u8,
    #[asn(optional(integer(0..7)))] pub f3: Option<u8>,
    #[asn(default(integer(0..7), 5))] pub f4: u8,
}

impl Ts5dodmde0 {
    pub const fn f0_min() -> u8 {
        0
    }

    pub const fn f0_max() -> u8 {
        7
    }

    pub const fn f1_min() -> u8 {
        0
    }

    pub const fn f1_max() -> u8 {
        7
    }

    pub const fn f2_min() -> u8 {
        0
    }

    pub const fn f2_max() -> u8 {
        7
    }

    pub const fn f3_min() -> u8 {
        0
    }

    pub const fn f3_max() -> u8 {
        7
    }

    pub const fn f4_min() -> u8 {
        0
    }

    pub const fn f4_max() -> u8 {
        7
    }
}

#[asn(sequence, extensible_after(f0))]

#[derive(Default, Debug, Clone, PartialEq, Hash)]
pub struct Ts5dodmde1 {
    #[asn(default(integer(0..7), 5))] pub f0: u8,
    #[asn(optional(integer(0..7)))] pub f1: Option<u8>,
    #[asn(default(integer(0..7), 5))] pub f2: u8,
    #[asn(optional(integer(0..7)))] pub f3: Option<u8>,
    #[asn(default(integer(0..7), 5))] pub f4: u8,
}

impl Ts5dodmde1 {
    pub const fn f0_min() -> u8 {
        0
    }

    pub const fn f0_max() -> u8 {
        7
    }

    pub const fn f1_min() -> u8 {
        0
    }

    pub const fn f1_max() -> u8 {
        7
    }

    pub const fn f2_min() -> u8 {
        0
    }

    pub const fn f2_max() -> u8 {
        7
    }

    pub const fn f3_min() -> u8 {
        0
    }

    pub const fn f3_max() -> u8 {
        7
    }

    pub const fn f4_min() -> u8 {
        0
    }

    pub const fn f4_max() -> u8 {
        7
    }
}

#[asn(sequence, extensible_after(f1))]

#[derive(Default, Debug, Clone, PartialEq, Hash)]
pub struct Ts5dodmde2 {
    #[asn(default(integer(0..7), 5))] pub f0: u8,
    #[asn(optional(integer(0..7)))] pub f1: Option<u8>,
    #[asn(default(integer(0..7), 5))] pub f2: u8,
    #[asn(optional(integer(0..7)))] pub f3: Option<u8>,
    #[asn(default(integer(0..7), 5))] pub f4: u8,
}

impl Ts5dodmde2 {
    pub const fn f0_min() -> u8 {
        0
    }

    pub const fn f0_max() -> u8 {
        7
    }

    pub const fn f1_min() -> u8 {
        0
    }

    pub const fn f1_max() -> u8 {
        7
    }

    pub const fn f2_min() -> u8 {
        0
    }

    pub const fn f2_max() -> u8 {
        7
    }

    pub const fn f3_min() -> u8 {
        0
    }

    pub const fn f3_max() -> u8 {
        7
    }

    pub const fn f4_min() -> u8 {
        0
    }

    pub const fn f4_max() -> u8 {
        7
    }
}

#[asn(sequence, extensible_after(f2))]

#[derive(Default, Debug, Clone, PartialEq, Hash)]
pub struct Ts5dodmde3 {
    #[asn(default(integer(0..7), 5))] pub f0: u8,
    #[asn(optional(integer(0..7)))] pub f1: Option<u8>,
    #[asn(default(integer(0..7), 5))] pub f2: u8,
    #[asn(optional(integer(0..7)))] pub f3: Option<u8>,
    #[asn(default(integer(0..7), 5))] pub f4: u8,
}

impl Ts5dodmde3 {
    pub const fn f0_min() -> u8 {
        0
    }

    pub const fn f0_max() -> u8 {
        7
    }

    pub const fn f1_min() -> u8 {
        0
    }

    pub const fn f1_max() -> u8 {
        7
    }

    pub const fn f2_min() -> u8 {
        0
    }

    pub const fn f2_max() -> u8 {
        7
    }

    pub const fn f3_min() -> u8 {
        0
    }

    pub const fn f3_max() -> u8 {
        7
    }

    pub const fn f4_min() -> u8 {
        0
    }

    pub const fn f4_max() -> u8 {
        7
    }
}

#[asn(sequence, extensible_after(f3))]

#[derive(Default, Debug, Clone, PartialEq, Hash)]
pub struct Ts5dodmde4 {
    #[asn(default(integer(0..7), 5))] pub f0: u8,
    #[asn(optional(integer(0..7)))] pub f1: Option<u8>,
    #[asn(default(integer(0..7), 5))] pub f2: u8,
    #[asn(integer(0..7))] pub f3: u8,
    #[asn(default(integer(0..7), 5))] pub f4: u8,
}

impl Ts5dodmde4 {
    pub const fn f0_min() -> u8 {
        0
    }

    pub const fn f0_max() -> u8 {
        7
    }

    pub const fn f1_min() -> u8 {
        0
    }

    pub const fn f1_max() -> u8 {
        7
    }

    pub const fn f2_min() -> u8 {
        0
    }

    pub const fn f2_max() -> u8 {
        7
    }

    pub const fn f3_min() -> u8 {
        0
    }

    pub const fn f3_max() -> u8 {
        7
    }

    pub const fn f4_min() -> u8 {
        0
    }

    pub const fn f4_max() -> u8 {
        7
    }
}

#[asn(sequence, extensible_after(f4))]

#[derive(Default, Debug, Clone, PartialEq, Hash)]
pub struct Ts5dodmde5 {
    #[asn(default(integer(0..7), 5))] pub f0: u8,
    #[asn(optional(integer(0..7)))] pub f1: Option<u8>,
    #[asn(default(integer(0..7), 5))] pub f2: u8,
    #[asn(integer(0..7))] pub f3: u8,
    #[asn(default(integer(0..7), 5))] pub f4: u8,
}

impl Ts5dodmde5 {
    pub const fn f0_min() -> u8 {
        0
    }

    pub const fn f0_max() -> u8 {
        7
    }

    pub const fn f1_min() -> u8 {
        0
    }

    pub const fn f1_max() -> u8 {
        7
    }

    pub const fn f2_min() -> u8 {
        0
    }

    pub const fn f2_max() -> u8 {
        7
    }

    pub const fn f3_min() -> u8 {
        0
    }

    pub const fn f3_max() -> u8 {
        7
    }

    pub const fn f4_min() -> u8 {
        0
    }

    pub const fn f4_max() -> u8 {
        7
    }
}

#[asn(sequence)]

#[derive(Default, Debug, Clone, PartialEq, Hash)]
pub struct Ts5mddmdn {
    #[asn(integer(0..7))] pub f0: u8,
    #[asn(default(integer(0..7), 5))] pub f1: u8,
    #[asn(default(integer(0..7), 5))] pub f2: u8,
    #[asn(integer(0..7))] pub f3: u8,
    #[asn(default(integer(0..7), 5))] pub f4: u8,
}

impl Ts5mddmdn {
    pub const fn f0_min() -> u8 {
        0
    }

    pub const fn f0_max() -> u8 {
        7
    }

    pub const fn f1_min() -> u8 {
        0
    }

    pub const fn f1_max() -> u8 {
        7
    }

    pub const fn f2_min() -> u8 {
        0
    }

    pub const fn f2_max() -> u8 {
        7
    }

    pub const fn f3_min() -> u8 {
        0
    }

    pub const fn f3_max() -> u8 {
        7
    }

    pub const fn f4_min() -> u8 {
        0
    }

    pub const fn f4_max() -> u8 {
        7
    }
}

#[asn(sequence, extensible_after(f0))]

#[derive(Default, Debug, Clone, PartialEq, Hash)]
pub struct Ts5mddmde0 {
    #[asn(integer(0..7))] pub f0: u8,
    #[asn(default(integer(0..7), 5))] pub f1: u8,
    #[asn(default(integer(0..7), 5))] pub f2: u8,
    #[asn(optional(integer(0..7)))] pub f3: Option<u8>,
    #[asn(default(integer(0..7), 5))] pub f4: u8,
}

impl Ts5mddmde0 {
    pub const fn f0_min() -> u8 {
        0
    }

    pub const fn f0_max() -> u8 {
        7
    }

    pub const fn f1_min() -> u8 {
        0
    }

    pub const fn f1_max() -> u8 {
        7
    }

    pub const fn f2_min() -> u8 {
        0
    }

    pub const fn f2_max() -> u8 {
        7
    }

    pub const fn f3_min() -> u8 {
        0
    }

    pub const fn f3_max() -> u8 {
        7
    }

    pub const fn f4_min() -> u8 {
        0
    }

    pub const fn f4_max() -> u8 {
        7
    }
}

#[asn(sequence, extensible_after(f0))]

#[derive(Default, Debug, Clone, PartialEq, Hash)]
pub struct Ts5mddmde1 {
    #[asn(integer(0..7))] pub f0: u8,
    #[asn(default(integer(0..7), 5))] pub f1: u8,
    #[asn(default(integer(0..7), 5))] pub f2: u8,
    #[asn(optional(integer(0..7)))] pub f3: Option<u8>,
    #[asn(default(integer(0..7), 5))] pub f4: u8,
}

impl Ts5mddmde1 {
    pub const fn f0_min() -> u8 {
        0
    }

    pub const fn f0_max() -> u8 {
        7
    }

    pub const fn f1_min() -> u8 {
        0
    }

    pub const fn f1_max() -> u8 {
        7
    }

    pub const fn f2_min() -> u8 {
        0
    }

    pub const fn f2_max() -> u8 {
        7
    }

    pub const fn f3_min() -> u8 {
        0
    }

    pub const fn f3_max() -> u8 {
        7
    }

    pub const fn f4_min() -> u8 {
        0
    }

    pub const fn f4_max() -> u8 {
        7
    }
}

#[asn(sequence, extensible_after(f1))]

#[derive(Default, Debug, Clone, PartialEq, Hash)]
pub struct Ts5mddmde2 {
    #[asn(integer(0..7))] pub f0: u8,
    #[asn(default(integer(0..7), 5))] pub f1: u8,
    #[asn(default(integer(0..7), 5))] pub f2: u8,
    #[asn(optional(integer(0..7)))] pub f3: Option<u8>,
    #[asn(default(integer(0..7), 5))] pub f4: u8,
}

impl Ts5mddmde2 {
    pub const fn f0_min() -> u8 {
        0
    }

    pub const fn f0_max() -> u8 {
        7
    }

    pub const fn f1_min() -> u8 {
        0
    }

    pub const fn f1_max() -> u8 {
        7
    }

    pub const fn f2_min() -> u8 {
        0
    }

    pub const fn f2_max() -> u8 {
        7
    }

    pub const fn f3_min() -> u8 {
        0
    }

    pub const fn f3_max() -> u8 {
        7
    }

    pub const fn f4_min() -> u8 {
        0
    }

    pub const fn f4_max() -> u8 {
        7
    }
}

#[asn(sequence, extensible_after(f2))]

#[derive(Default, Debug, Clone, PartialEq, Hash)]
pub struct Ts5mddmde3 {
    #[asn(integer(0..7))] pub f0: u8,
    #[asn(default(integer(0..7), 5))] pub f1: u8,
    #[asn(default(integer(0..7), 5))] pub f2: u8,
    #[asn(optional(integer(0..7)))] pub f3: Option<u8>,
    #[asn(default(integer(0..7), 5))] pub f4: u8,
}

impl Ts5mddmde3 {
    pub const fn f0_min() -> u8 {
        0
    }

    pub const fn f0_max() -> u8 {
        7
    }

    pub const fn f1_min() -> u8 {
        0
    }

    pub const fn f1_max() -> u8 {
        7
    }

    pub const fn f2_min() -> u8 {
        0
    }

    pub const fn f2_max() -> u8 {
        7
    }

    pub const fn f3_min() -> u8 {
        0
    }

    pub const fn f3_max() -> u8 {
        7
    }

    pub const fn f4_min() -> u8 {
        0
    }

    pub const fn f4_max() -> u8 {
        7
    }
}

#[asn(sequence, extensible_after(f3))]

#[derive(Default, Debug, Clone, PartialEq, Hash)]
pub struct Ts5mddmde4 {
    #[asn(integer(0..7))] pub f0: u8,
    #[asn(default(integer(0..7), 5))] pub f1: u8,
    #[asn(default(integer(0..7), 5))] pub f2: u8,
    #[asn(integer(0..7))] pub f3: u8,
    #[asn(default(integer(0..7), 5))] pub f4: u8,
}

impl Ts5mddmde4 {
    pub const fn f0_min() -> u8 {
        0
    }

    pub const fn f0_max() -> u8 {
        7
    }

    pub const fn f1_min() -> u8 {
        0
    }

    pub const fn f1_max() -> u8 {
        7
    }

    pub const fn f2_min() -> u8 {
        0
    }

    pub const fn f2_max() -> u8 {
        7
    }

    pub const fn f3_min() -> u8 {
        0
    }

    pub const fn f3_max() -> u8 {
        7
    }

    pub const fn f4_min() -> u8 {
        0
    }

    pub const fn f4_max() -> u8 {
        7
    }
}

#[asn(sequence, extensible_after(f4))]

#[derive(Default, Debug, Clone, PartialEq, Hash)]
pub struct Ts5mddmde5 {
    #[asn(integer(0..7))] pub f0: u8,
    #[asn(default(integer(0..7), 5))] pub f1: u8,
    #[asn(default(integer(0..7), 5))] pub f2: u8,
    #[asn(integer(0..7))] pub f3: u8,
    #[asn(default(integer(0..7), 5))] pub f4: u8,
}

impl Ts5mddmde5 {
    pub const fn f0_min() -> u8 {
        0
    }

    pub const fn f0_max() -> u8 {
        7
    }

    pub const fn f1_min() -> u8 {
        0
    }

    pub const fn f1_max() -> u8 {
        7
    }

    pub const fn f2_min() -> u8 {
        0
    }

    pub const fn f2_max() -> u8 {
        7
    }

    pub const fn f3_min() -> u8 {
        0
    }

    pub const fn f3_max() -> u8 {
        7
    }

    pub const fn f4_min() -> u8 {
        0
    }

    pub const fn f4_max() -> u8 {
        7
    }
}

#[asn(sequence)]

#[derive(Default, Debug, Clone, PartialEq, Hash)]
pub struct Ts5oddmdn {
    #[asn(optional(integer(0..7)))] pub f0: Option<u8>,
    #[asn(default(integer(0..7), 5))] pub f1: u8,
    #[asn(default(integer(0..7), 5))] pub f2: u8,
    #[asn(integer(0..7))] pub f3: u8,
    #[asn(default(integer(0..7), 5))] pub f4: u8,
}

impl Ts5oddmdn {
    pub const fn f0_min() -> u8 {
        0
    }

    pub const fn f0_max() -> u8 {
        7
    }

    pub const fn f1_min() -> u8 {
        0
    }

    pub const fn f1_max() -> u8 {
        7
    }

    pub const fn f2_min() -> u8 {
        0
    }

    pub const fn f2_max() -> u8 {
        7
    }

    pub const fn f3_min() -> u8 {
        0
    }

    pub const fn f3_max() -> u8 {
        7
    }

    pub const fn f4_min() -> u8 {
        0
    }

    pub const fn f4_max() -> u8 {
        7
    }
}

#[asn(sequence, extensible_after(f0))]

#[derive(Default, Debug, Clone, PartialEq, Hash)]
pub struct Ts5oddmde0 {
    #[asn(optional(integer(0..7)))] pub f0: Option<u8>,
    #[asn(default(integer(0..7), 5))] pub f1: u8,
    #[asn(default(integer(0..7), 5))] pub f2: u8,
    #[asn(optional(integer(0..7)))] pub f3: Option<u8>,
    #[asn(default(integer(0..7), 5))] pub f4: u8,
}

impl Ts5oddmde0 {
    pub const fn f0_min() -> u8 {
        0
    }

    pub const fn f0_max() -> u8 {
        7
    }

    pub const fn f1_min() -> u8 {
        0
    }

    pub const fn f1_max() -> u8 {
        7
    }

    pub const fn f2_min() -> u8 {
        0
    }

    pub const fn f2_max() -> u8 {
        7
    }

    pub const fn f3_min() -> u8 {
        0
    }

    pub const fn f3_max() -> u8 {
        7
    }

    pub const fn f4_min() -> u8 {
        0
    }

    pub const fn f4_max() -> u8 {
        7
    }
}

#[asn(sequence, extensible_after(f0))]

#[derive(Default, Debug, Clone, PartialEq, Hash)]
pub struct Ts5oddmde1 {
    #[asn(optional(integer(0..7)))] pub f0: Option<u8>,
    #[asn(default(integer(0..7), 5))] pub f1: u8,
    #[asn(default(integer(0..7), 5))] pub f2: u8,
    #[asn(optional(integer(0..7)))] pub f3: Option<u8>,
    #[asn(default(integer(0..7), 5))] pub f4: u8,
}

impl Ts5oddmde1 {
    pub const fn f0_min() -> u8 {
        0
    }

    pub const fn f0_max() -> u8 {
        7
    }

    pub const fn f1_min() -> u8 {
        0
    }

    pub const fn f1_max() -> u8 {
        7
    }

    pub const fn f2_min() -> u8 {
        0
    }

    pub const fn f2_max() -> u8 {
        7
    }

    pub const fn f3_min() -> u8 {
        0
    }

    pub const fn f3_max() -> u8 {
        7
    }

    pub const fn f4_min() -> u8 {
        0
    }

    pub const fn f4_max() -> u8 {
        7
    }
}

#[asn(sequence, extensible_after(f1))]

#[derive(Default, Debug, Clone, PartialEq, Hash)]
pub struct Ts5oddmde2 {
    #[asn(optional(integer(0..7)))] pub f0: Option<u8>,
    #[asn(default(integer(0..7), 5))] pub f1: u8,
    #[asn(default(integer(0..7), 5))] pub f2: u8,
    #[asn(optional(integer(0..7)))] pub f3: Option<u8>,
    #[asn(default(integer(0..7), 5))] pub f4: u8,
}

impl Ts5oddmde2 {
    pub const fn f0_min() -> u8 {
        0
    }

    pub const fn f0_max() -> u8 {
        7
    }

    pub const fn f1_min() -> u8 {
        0
    }

    pub const fn f1_max() -> u8 {
        7
    }

    pub const fn f2_min() -> u8 {
        0
    }

    pub const fn f2_max() -> u8 {
        7
    }

    pub const fn f3_min() -> u8 {
        0
    }

    pub const fn f3_max() -> u8 {
        7
    }

    pub const fn f4_min() -> u8 {
        0
    }

    pub const fn f4_max() -> u8 {
        7
    }
}

#[asn(sequence, extensible_after(f2))]

#[derive(Default, Debug, Clone, PartialEq, Hash)]
pub struct Ts5oddmde3 {
    #[asn(optional(integer(0..7)))] pub f0: Option<u8>,
    #[asn(default(integer(0..7), 5))] pub f1: u8,
    #[asn(default(integer(0..7), 5))] pub f2: u8,
    #[asn(optional(integer(0..7)))] pub f3: Option<u8>,
    #[asn(default(integer(0..7), 5))] pub f4: u8,
}

impl Ts5oddmde3 {
    pub const fn f0_min() -> u8 {
        0
    }

    pub const fn f0_max() -> u8 {
        7
    }

    pub const fn f1_min() -> u8 {
        0
    }

    pub const fn f1_max() -> u8 {
        7
    }

    pub const fn f2_min() -> u8 {
        0
    }

    pub const fn f2_max() -> u8 {
        7
    }

    pub const fn f3_min() -> u8 {
        0
    }

    pub const fn f3_max() -> u8 {
        7
    }

    pub const fn f4_min() -> u8 {
        0
    }

    pub const fn f4_max() -> u8 {
        7
    }
}

#[asn(sequence, extensible_after(f3))]

#[derive(Default, Debug, Clone, PartialEq, Hash)]
pub struct Ts5oddmde4 {
    #[asn(optional(integer(0..7)))] pub f0: Option<u8>,
    #[asn(default(integer(0..7), 5))] pub f1: u8,
    #[asn(default(integer(0..7), 5))] pub f2: u8,
    #[asn(integer(0..7))] pub f3: u8,
    #[asn(default(integer(0..7), 5))] pub f4: u8,
}

impl Ts5oddmde4 {
    pub const fn f0_min() -> u8 {
        0
    }

    pub const fn f0_max() -> u8 {
        7
    }

    pub const fn f1_min() -> u8 {
        0
    }

    pub const fn f1_max() -> u8 {
        7
    }

    pub const fn f2_min() -> u8 {
        0
    }

    pub const fn f2_max() -> u8 {
        7
    }

    pub const fn f3_min() -> u8 {
        0
    }

    pub const fn f3_max() -> u8 {
        7
    }

    pub const fn f4_min() -> u8 {
        0
    }

    pub const fn f4_max() -> u8 {
        7
    }
}

#[asn(sequence, extensible_after(f4))]

#[derive(Default, Debug, Clone, PartialEq, Hash)]
pub struct Ts5oddmde5 {
    #[asn(optional(integer(0..7)))] pub f0: Option<u8>,
    #[asn(default(integer(0..7), 5))] pub f1: u8,
    #[asn(default(integer(0..7), 5))] pub f2: u8,
    #[asn(integer(0..7))] pub f3: u8,
    #[asn(default(integer(0..7), 5))] pub f4: u8,
}

impl Ts5oddmde5 {
    pub const fn f0_min() -> u8 {
        0
    }

    pub const fn f0_max() -> u8 {
        7
    }

    pub const fn f1_min() -> u8 {
        0
    }

    pub const fn f1_max() -> u8 {
        7
    }

    pub const fn f2_min() -> u8 {
        0
    }

    pub const fn f2_max() -> u8 {
        7
    }

    pub const fn f3_min() -> u8 {
        0
    }

    pub const fn f3_max() -> u8 {
        7
    }

    pub const fn f4_min() -> u8 {
        0
    }

    pub const fn f4_max() -> u8 {
        7
    }
}

#[asn(sequence)]

#[derive(Default, Debug, Clone, PartialEq, Hash)]
pub struct Ts5dddmdn {
    #[asn(default(integer(0..7), 5))] pub f0: u8,
    #[asn(default(integer(0..7), 5))] pub f1: u8,
    #[asn(default(integer(0..7), 5))] pub f2: u8,
    #[asn(integer(0..7))] pub f3: u8,
    #[asn(default(integer(0..7), 5))] pub f4: u8,
}

impl Ts5dddmdn {
    pub const fn f0_min() -> u8 {
        0
    }

    pub const fn f0_max() -> u8 {
        7
    }

    pub const fn f1_min() -> u8 {
        0
    }

    pub const fn f1_max() -> u8 {
        7
    }

    pub const fn f2_min() -> u8 {
        0
    }

    pub const fn f2_max() -> u8 {
        7
    }

    pub const fn f3_min() -> u8 {
        0
    }

    pub const fn f3_max() -> u8 {
        7
    }

    pub const fn f4_min() -> u8 {
        0
    }

    pub const fn f4_max() -> u8 {
        7
    }
}

#[asn(sequence, extensible_after(f0))]

#[derive(Default, Debug, Clone, PartialEq, Hash)]
pub struct Ts5dddmde0 {
    #[asn(default(integer(0..7), 5))] pub f0: u8,
    #[asn(default(integer(0..7), 5))] pub f1: u8,
    #[asn(default(integer(0..7), 5))] pub f2: u8,
    #[asn(optional(integer(0..7)))] pub f3: Option<u8>,
    #[asn(default(integer(0..7), 5))] pub f4: u8,
}

impl Ts5dddmde0 {
    pub const fn f0_min() -> u8 {
        0
    }

    pub const fn f0_max() -> u8 {
        7
    }

    pub const fn f1_min() -> u8 {
        0
    }

    pub const fn f1_max() -> u8 {
        7
    }

    pub const fn f2_min() -> u8 {
        0
    }

    pub const fn f2_max() -> u8 {
        7
    }

    pub const fn f3_min() -> u8 {
        0
    }

    pub const fn f3_max() -> u8 {
        7
    }

    pub const fn f4_min() -> u8 {
        0
    }

    pub const fn f4_max() -> u8 {
        7
    }
}

#[asn(sequence, extensible_after(f0))]

#[derive(Default, Debug, Clone, PartialEq, Hash)]
pub struct Ts5dddmde1 {
    #[asn(default(integer(0..7), 5))] pub f0: u8,
    #[asn(default(integer(0..7), 5))] pub f1: u8,
    #[asn(default(integer(0..7), 5))] pub f2: u8,
    #[asn(optional(integer(0..7)))] pub f3: Option<u8>,
    #[asn(default(integer(0..7), 5))] pub f4: u8,
}

impl Ts5dddmde1 {
    pub const fn f0_min() -> u8 {
        0
    }

    pub const fn f0_max() -> u8 {
        7
    }

    pub const fn f1_min() -> u8 {
        0
    }

    pub const fn f1_max() -> u8 {
        7
    }

    pub const fn f2_min() -> u8 {
        0
    }

    pub const fn f2_max() -> u8 {
        7
    }

    pub const fn f3_min() -> u8 {
        0
    }

    pub const fn f3_max() -> u8 {
        7
    }

    pub const fn f4_min() -> u8 {
        0
    }

    pub const fn f4_max() -> u8 {
        7
    }
}

#[asn(sequence, extensible_after(f1))]

#[derive(Default, Debug, Clone, PartialEq, Hash)]
pub struct Ts5dddmde2 {
    #[asn(default(integer(0..7), 5))] pub f0: u8,
    #[asn(default(integer(0..7), 5))] pub f1: u8,
    #[asn(default(integer(0..7), 5))] pub f2: u8,
    #[asn(optional(integer(0..7)))] pub f3: Option<u8>,
    #[asn(default(integer(0..7), 5))] pub f4: u8,
}

impl Ts5dddmde2 {
    pub const fn f0_min() -> u8 {
        0
    }

    pub const fn f0_max() -> u8 {
        7
    }

    pub const fn f1_min() -> u8 {
        0
    }

    pub const fn f1_max() -> u8 {
        7
    }

    pub const fn f2_min() -> u8 {
        0
    }

    pub const fn f2_max() -> u8 {
        7
    }

    pub const fn f3_min() -> u8 {
        0
    }

    pub const fn f3_max() -> u8 {
        7
    }

    pub const fn f4_min() -> u8 {
        0
    }

    pub const fn f4_max() -> u8 {
        7
    }
}
// ---- harness conversions (generated by the zoo build script from the items above) ----
impl FromValue for Ts5mmomde2 {
    fn from_value(v: &Value) -> Self {
        let s = match v { Value::Seq(s) => s, other => panic!("Ts5mmomde2: expected Seq, got {other:?}") };
        assert_eq!(s.len(), 5, "Ts5mmomde2: component count");
        let _ = s;
        Ts5mmomde2 {
            f0: FromValue::from_value(s[0].as_ref().expect("component f0 of Ts5mmomde2 must be present")),
            f1: FromValue::from_value(s[1].as_ref().expect("component f1 of Ts5mmomde2 must be present")),
            f2: s[2].as_ref().map(FromValue::from_value),
            f3: s[3].as_ref().map(FromValue::from_value),
            f4: FromValue::from_value(s[4].as_ref().expect("component f4 of Ts5mmomde2 must be present")),
        }
    }
}
impl ToValue for Ts5mmomde2 {
    fn to_value(&self) -> Value {
        Value::Seq(vec![
            Some(self.f0.to_value()),
            Some(self.f1.to_value()),
            self.f2.as_ref().map(|x| x.to_value()),
            self.f3.as_ref().map(|x| x.to_value()),
            Some(self.f4.to_value()),
        ])
    }
}
impl FromValue for Ts5mmomde3 {
    fn from_value(v: &Value) -> Self {
        let s = match v { Value::Seq(s) => s, other => panic!("Ts5mmomde3: expected Seq, got {other:?}") };
        assert_eq!(s.len(), 5, "Ts5mmomde3: component count");
        let _ = s;
        Ts5mmomde3 {
            f0: FromValue::from_value(s[0].as_ref().expect("component f0 of Ts5mmomde3 must be present")),
            f1: FromValue::from_value(s[1].as_ref().expect("component f1 of Ts5mmomde3 must be present")),
            f2: s[2].as_ref().map(FromValue::from_value),
            f3: s[3].as_ref().map(FromValue::from_value),
            f4: FromValue::from_value(s[4].as_ref().expect("component f4 of Ts5mmomde3 must be present")),
        }
    }
}
impl ToValue for Ts5mmomde3 {
    fn to_value(&self) -> Value {
        Value::Seq(vec![
            Some(self.f0.to_value()),
            Some(self.f1.to_value()),
            self.f2.as_ref().map(|x| x.to_value()),
            self.f3.as_ref().map(|x| x.to_value()),
            Some(self.f4.to_value()),
        ])
    }
}
impl FromValue for Ts5mmomde4 {
    fn from_value(v: &Value) -> Self {
        let s = match v { Value::Seq(s) => s, other => panic!("Ts5mmomde4: expected Seq, got {other:?}") };
        assert_eq!(s.len(), 5, "Ts5mmomde4: component count");
        let _ = s;
        Ts5mmomde4 {
            f0: FromValue::from_value(s[0].as_ref().expect("component f0 of Ts5mmomde4 must be present")),
            f1: FromValue::from_value(s[1].as_ref().expect("component f1 of Ts5mmomde4 must be present")),
            f2: s[2].as_ref().map(FromValue::from_value),
            f3: FromValue::from_value(s[3].as_ref().expect("component f3 of Ts5mmomde4 must be present")),
            f4: FromValue::from_value(s[4].as_ref().expect("component f4 of Ts5mmomde4 must be present")),
        }
    }
}
impl ToValue for Ts5mmomde4 {
    fn to_value(&self) -> Value {
        Value::Seq(vec![
            Some(self.f0.to_value()),
            Some(self.f1.to_value()),
            self.f2.as_ref().map(|x| x.to_value()),
            Some(self.f3.to_value()),
            Some(self.f4.to_value()),
        ])
    }
}
impl FromValue for Ts5mmomde5 {
    fn from_value(v: &Value) -> Self {
        let s = match v { Value::Seq(s) => s, other => panic!("Ts5mmomde5: expected Seq, got {other:?}") };
        assert_eq!(s.len(), 5, "Ts5mmomde5: component count");
        let _ = s;
        Ts5mmomde5 {
            f0: FromValue::from_value(s[0].as_ref().expect("component f0 of Ts5mmomde5 must be present")),
            f1: FromValue::from_value(s[1].as_ref().expect("component f1 of Ts5mmomde5 must be present")),
            f2: s[2].as_ref().map(FromValue::from_value),
            f3: FromValue::from_value(s[3].as_ref().expect("component f3 of Ts5mmomde5 must be present")),
            f4: FromValue::from_value(s[4].as_ref().expect("component f4 of Ts5mmomde5 must be present")),
        }
    }
}
impl ToValue for Ts5mmomde5 {
    fn to_value(&self) -> Value {
        Value::Seq(vec![
            Some(self.f0.to_value()),
            Some(self.f1.to_value()),
            self.f2.as_ref().map(|x| x.to_value()),
            Some(self.f3.to_value()),
            Some(self.f4.to_value()),
        ])
    }
}
impl FromValue for Ts5omomdn {
    fn from_value(v: &Value) -> Self {
        let s = match v { Value::Seq(s) => s, other => panic!("Ts5omomdn: expected Seq, got {other:?}") };
        assert_eq!(s.len(), 5, "Ts5omomdn: component count");
        let _ = s;
        Ts5omomdn {
            f0: s[0].as_ref().map(FromValue::from_value),
            f1: FromValue::from_value(s[1].as_ref().expect("component f1 of Ts5omomdn must be present")),
            f2: s[2].as_ref().map(FromValue::from_value),
            f3: FromValue::from_value(s[3].as_ref().expect("component f3 of Ts5omomdn must be present")),
            f4: FromValue::from_value(s[4].as_ref().expect("component f4 of Ts5omomdn must be present")),
        }
    }
}
impl ToValue for Ts5omomdn {
    fn to_value(&self) -> Value {
        Value::Seq(vec![
            self.f0.as_ref().map(|x| x.to_value()),
            Some(self.f1.to_value()),
            self.f2.as_ref().map(|x| x.to_value()),
            Some(self.f3.to_value()),
            Some(self.f4.to_value()),
        ])
    }
}
impl FromValue for Ts5omomde0 {
    fn from_value(v: &Value) -> Self {
        let s = match v { Value::Seq(s) => s, other => panic!("Ts5omomde0: expected Seq, got {other:?}") };
        assert_eq!(s.len(), 5, "Ts5omomde0: component count");
        let _ = s;
        Ts5omomde0 {
            f0: s[0].as_ref().map(FromValue::from_value),
            f1: s[1].as_ref().map(FromValue::from_value),
            f2: s[2].as_ref().map(FromValue::from_value),
            f3: s[3].as_ref().map(FromValue::from_value),
            f4: FromValue::from_value(s[4].as_ref().expect("component f4 of Ts5omomde0 must be present")),
        }
    }
}
impl ToValue for Ts5omomde0 {
    fn to_value(&self) -> Value {
        Value::Seq(vec![
            self.f0.as_ref().map(|x| x.to_value()),
            self.f1.as_ref().map(|x| x.to_value()),
            self.f2.as_ref().map(|x| x.to_value()),
            self.f3.as_ref().map(|x| x.to_value()),
            Some(self.f4.to_value()),
        ])
    }
}
impl FromValue for Ts5omomde1 {
    fn from_value(v: &Value) -> Self {
        let s = match v { Value::Seq(s) => s, other => panic!("Ts5omomde1: expected Seq, got {other:?}") };
        assert_eq!(s.len(), 5, "Ts5omomde1: component count");
        let _ = s;
        Ts5omomde1 {
            f0: s[0].as_ref().map(FromValue::from_value),
            f1: s[1].as_ref().map(FromValue::from_value),
            f2: s[2].as_ref().map(FromValue::from_value),
            f3: s[3].as_ref().map(FromValue::from_value),
            f4: FromValue::from_value(s[4].as_ref().expect("component f4 of Ts5omomde1 must be present")),
        }
    }
}
impl ToValue for Ts5omomde1 {
    fn to_value(&self) -> Value {
        Value::Seq(vec![
            self.f0.as_ref().map(|x| x.to_value()),
            self.f1.as_ref().map(|x| x.to_value()),
            self.f2.as_ref().map(|x| x.to_value()),
            self.f3.as_ref().map(|x| x.to_value()),
            Some(self.f4.to_value()),
        ])
    }
}
impl FromValue for Ts5omomde2 {
    fn from_value(v: &Value) -> Self {
        let s = match v { Value::Seq(s) => s, other => panic!("Ts5omomde2: expected Seq, got {other:?}") };
        assert_eq!(s.len(), 5, "Ts5omomde2: component count");
        let _ = s;
        Ts5omomde2 {
            f0: s[0].as_ref().map(FromValue::from_value),
            f1: FromValue::from_value(s[1].as_ref().expect("component f1 of Ts5omomde2 must be present")),
            f2: s[2].as_ref().map(FromValue::from_value),
            f3: s[3].as_ref().map(FromValue::from_value),
            f4: FromValue::from_value(s[4].as_ref().expect("component f4 of Ts5omomde2 must be present")),
        }
    }
}
impl ToValue for Ts5omomde2 {
    fn to_value(&self) -> Value {
        Value::Seq(vec![
            self.f0.as_ref().map(|x| x.to_value()),
            Some(self.f1.to_value()),
            self.f2.as_ref().map(|x| x.to_value()),
            self.f3.as_ref().map(|x| x.to_value()),
            Some(self.f4.to_value()),
        ])
    }
}
impl FromValue for Ts5omomde3 {
    fn from_value(v: &Value) -> Self {
        let s = match v { Value::Seq(s) => s, other => panic!("Ts5omomde3: expected Seq, got {other:?}") };
        assert_eq!(s.len(), 5, "Ts5omomde3: component count");
        let _ = s;
        Ts5omomde3 {
            f0: s[0].as_ref().map(FromValue::from_value),
            f1: FromValue::from_value(s[1].as_ref().expect("component f1 of Ts5omomde3 must be present")),
            f2: s[2].as_ref().map(FromValue::from_value),
            f3: s[3].as_ref().map(FromValue::from_value),
            f4: FromValue::from_value(s[4].as_ref().expect("component f4 of Ts5omomde3 must be present")),
        }
    }
}
impl ToValue for Ts5omomde3 {
    fn to_value(&self) -> Value {
        Value::Seq(vec![
            self.f0.as_ref().map(|x| x.to_value()),
            Some(self.f1.to_value()),
            self.f2.as_ref().map(|x| x.to_value()),
            self.f3.as_ref().map(|x| x.to_value()),
            Some(self.f4.to_value()),
        ])
    }
}
impl FromValue for Ts5omomde4 {
    fn from_value(v: &Value) -> Self {
        let s = match v { Value::Seq(s) => s, other => panic!("Ts5omomde4: expected Seq, got {other:?}") };
        assert_eq!(s.len(), 5, "Ts5omomde4: component count");
        let _ = s;
        Ts5omomde4 {
            f0: s[0].as_ref().map(FromValue::from_value),
            f1: FromValue::from_value(s[1].as_ref().expect("component f1 of Ts5omomde4 must be present")),
            f2: s[2].as_ref().map(FromValue::from_value),
            f3: FromValue::from_value(s[3].as_ref().expect("component f3 of Ts5omomde4 must be present")),
            f4: FromValue::from_value(s[4].as_ref().expect("component f4 of Ts5omomde4 must be present")),
        }
    }
}
impl ToValue for Ts5omomde4 {
    fn to_value(&self) -> Value {
        Value::Seq(vec![
            self.f0.as_ref().map(|x| x.to_value()),
            Some(self.f1.to_value()),
            self.f2.as_ref().map(|x| x.to_value()),
            Some(self.f3.to_value()),
            Some(self.f4.to_value()),
        ])
    }
}
impl FromValue for Ts5omomde5 {
    fn from_value(v: &Value) -> Self {
        let s = match v { Value::Seq(s) => s, other => panic!("Ts5omomde5: expected Seq, got {other:?}") };
        assert_eq!(s.len(), 5, "Ts5omomde5: component count");
        let _ = s;
        Ts5omomde5 {
            f0: s[0].as_ref().map(FromValue::from_value),
            f1: FromValue::from_value(s[1].as_ref().expect("component f1 of Ts5omomde5 must be present")),
            f2: s[2].as_ref().map(FromValue::from_value),
            f3: FromValue::from_value(s[3].as_ref().expect("component f3 of Ts5omomde5 must be present")),
            f4: FromValue::from_value(s[4].as_ref().expect("component f4 of Ts5omomde5 must be present")),
        }
    }
}
impl ToValue for Ts5omomde5 {
    fn to_value(&self) -> Value {
        Value::Seq(vec![
            self.f0.as_ref().map(|x| x.to_value()),
            Some(self.f1.to_value()),
            self.f2.as_ref().map(|x| x.to_value()),
            Some(self.f3.to_value()),
            Some(self.f4.to_value()),
        ])
    }
}
impl FromValue for Ts5dmomdn {
    fn from_value(v: &Value) -> Self {
        let s = match v { Value::Seq(s) => s, other => panic!("Ts5dmomdn: expected Seq, got {other:?}") };
        assert_eq!(s.len(), 5, "Ts5dmomdn: component count");
        let _ = s;
        Ts5dmomdn {
            f0: FromValue::from_value(s[0].as_ref().expect("component f0 of Ts5dmomdn must be present")),
            f1: FromValue::from_value(s[1].as_ref().expect("component f1 of Ts5dmomdn must be present")),
            f2: s[2].as_ref().map(FromValue::from_value),
            f3: FromValue::from_value(s[3].as_ref().expect("component f3 of Ts5dmomdn must be present")),
            f4: FromValue::from_value(s[4].as_ref().expect("component f4 of Ts5dmomdn must be present")),
        }
    }
}
impl ToValue for Ts5dmomdn {
    fn to_value(&self) -> Value {
        Value::Seq(vec![
            Some(self.f0.to_value()),
            Some(self.f1.to_value()),
            self.f2.as_ref().map(|x| x.to_value()),
            Some(self.f3.to_value()),
            Some(self.f4.to_value()),
        ])
    }
}
impl FromValue for Ts5dmomde0 {
    fn from_value(v: &Value) -> Self {
        let s = match v { Value::Seq(s) => s, other => panic!("Ts5dmomde0: expected Seq, got {other:?}") };
        assert_eq!(s.len(), 5, "Ts5dmomde0: component count");
        let _ = s;
        Ts5dmomde0 {
            f0: FromValue::from_value(s[0].as_ref().expect("component f0 of Ts5dmomde0 must be present")),
            f1: s[1].as_ref().map(FromValue::from_value),
            f2: s[2].as_ref().map(FromValue::from_value),
            f3: s[3].as_ref().map(FromValue::from_value),
            f4: FromValue::from_value(s[4].as_ref().expect("component f4 of Ts5dmomde0 must be present")),
        }
    }
}
impl ToValue for Ts5dmomde0 {
    fn to_value(&self) -> Value {
        Value::Seq(vec![
            Some(self.f0.to_value()),
            self.f1.as_ref().map(|x| x.to_value()),
            self.f2.as_ref().map(|x| x.to_value()),
            self.f3.as_ref().map(|x| x.to_value()),
            Some(self.f4.to_value()),
        ])
    }
}
impl FromValue for Ts5dmomde1 {
    fn from_value(v: &Value) -> Self {
        let s = match v { Value::Seq(s) => s, other => panic!("Ts5dmomde1: expected Seq, got {other:?}") };
        assert_eq!(s.len(), 5, "Ts5dmomde1: component count");
        let _ = s;
        Ts5dmomde1 {
            f0: FromValue::from_value(s[0].as_ref().expect("component f0 of Ts5dmomde1 must be present")),
            f1: s[1].as_ref().map(FromValue::from_value),
            f2: s[2].as_ref().map(FromValue::from_value),
            f3: s[3].as_ref().map(FromValue::from_value),
            f4: FromValue::from_value(s[4].as_ref().expect("component f4 of Ts5dmomde1 must be present")),
        }
    }
}
impl ToValue for Ts5dmomde1 {
    fn to_value(&self) -> Value {
        Value::Seq(vec![
            Some(self.f0.to_value()),
            self.f1.as_ref().map(|x| x.to_value()),
            self.f2.as_ref().map(|x| x.to_value()),
            self.f3.as_ref().map(|x| x.to_value()),
            Some(self.f4.to_value()),
        ])
    }
}
impl FromValue for Ts5dmomde2 {
    fn from_value(v: &Value) -> Self {
        let s = match v { Value::Seq(s) => s, other => panic!("Ts5dmomde2: expected Seq, got {other:?}") };
        assert_eq!(s.len(), 5, "Ts5dmomde2: component count");
        let _ = s;
        Ts5dmomde2 {
            f0: FromValue::from_value(s[0].as_ref().expect("component f0 of Ts5dmomde2 must be present")),
            f1: FromValue::from_value(s[1].as_ref().expect("component f1 of Ts5dmomde2 must be present")),
            f2: s[2].as_ref().map(FromValue::from_value),
            f3: s[3].as_ref().map(FromValue::from_value),
            f4: FromValue::from_value(s[4].as_ref().expect("component f4 of Ts5dmomde2 must be present")),
        }
    }
}
impl ToValue for Ts5dmomde2 {
    fn to_value(&self) -> Value {
        Value::Seq(vec![
            Some(self.f0.to_value()),
            Some(self.f1.to_value()),
            self.f2.as_ref().map(|x| x.to_value()),
            self.f3.as_ref().map(|x| x.to_value()),
            Some(self.f4.to_value()),
        ])
    }
}
impl FromValue for Ts5dmomde3 {
    fn from_value(v: &Value) -> Self {
        let s = match v { Value::Seq(s) => s, other => panic!("Ts5dmomde3: expected Seq, got {other:?}") };
        assert_eq!(s.len(), 5, "Ts5dmomde3: component count");
        let _ = s;
        Ts5dmomde3 {
            f0: FromValue::from_value(s[0].as_ref().expect("component f0 of Ts5dmomde3 must be present")),
            f1: FromValue::from_value(s[1].as_ref().expect("component f1 of Ts5dmomde3 must be present")),
            f2: s[2].as_ref().map(FromValue::from_value),
            f3: s[3].as_ref().map(FromValue::from_value),
            f4: FromValue::from_value(s[4].as_ref().expect("component f4 of Ts5dmomde3 must be present")),
        }
    }
}
impl ToValue for Ts5dmomde3 {
    fn to_value(&self) -> Value {
        Value::Seq(vec![
            Some(self.f0.to_value()),
            Some(self.f1.to_value()),
            self.f2.as_ref().map(|x| x.to_value()),
            self.f3.as_ref().map(|x| x.to_value()),
            Some(self.f4.to_value()),
        ])
    }
}
impl FromValue for Ts5dmomde4 {
    fn from_value(v: &Value) -> Self {
        let s = match v { Value::Seq(s) => s, other => panic!("Ts5dmomde4: expected Seq, got {other:?}") };
        assert_eq!(s.len(), 5, "Ts5dmomde4: component count");
        let _ = s;
        Ts5dmomde4 {
            f0: FromValue::from_value(s[0].as_ref().expect("component f0 of Ts5dmomde4 must be present")),
            f1: FromValue::from_value(s[1].as_ref().expect("component f1 of Ts5dmomde4 must be present")),
            f2: s[2].as_ref().map(FromValue::from_value),
            f3: FromValue::from_value(s[3].as_ref().expect("component f3 of Ts5dmomde4 must be present")),
            f4: FromValue::from_value(s[4].as_ref().expect("component f4 of Ts5dmomde4 must be present")),
        }
    }
}
impl ToValue for Ts5dmomde4 {
    fn to_value(&self) -> Value {
        Value::Seq(vec![
            Some(self.f0.to_value()),
            Some(self.f1.to_value()),
            self.f2.as_ref().map(|x| x.to_value()),
            Some(self.f3.to_value()),
            Some(self.f4.to_value()),
        ])
    }
}
impl FromValue for Ts5dmomde5 {
    fn from_value(v: &Value) -> Self {
        let s = match v { Value::Seq(s) => s, other => panic!("Ts5dmomde5: expected Seq, got {other:?}") };
        assert_eq!(s.len(), 5, "Ts5dmomde5: component count");
        let _ = s;
        Ts5dmomde5 {
            f0: FromValue::from_value(s[0].as_ref().expect("component f0 of Ts5dmomde5 must be present")),
            f1: FromValue::from_value(s[1].as_ref().expect("component f1 of Ts5dmomde5 must be present")),
            f2: s[2].as_ref().map(FromValue::from_value),
            f3: FromValue::from_value(s[3].as_ref().expect("component f3 of Ts5dmomde5 must be present")),
            f4: FromValue::from_value(s[4].as_ref().expect("component f4 of Ts5dmomde5 must be present")),
        }
    }
}
impl ToValue for Ts5dmomde5 {
    fn to_value(&self) -> Value {
        Value::Seq(vec![
            Some(self.f0.to_value()),
            Some(self.f1.to_value()),
            self.f2.as_ref().map(|x| x.to_value()),
            Some(self.f3.to_value()),
            Some(self.f4.to_value()),
        ])
    }
}
impl FromValue for Ts5moomdn {
    fn from_value(v: &Value) -> Self {
        let s = match v { Value::Seq(s) => s, other => panic!("Ts5moomdn: expected Seq, got {other:?}") };
        assert_eq!(s.len(), 5, "Ts5moomdn: component count");
        let _ = s;
        Ts5moomdn {
            f0: FromValue::from_value(s[0].as_ref().expect("component f0 of Ts5moomdn must be present")),
            f1: s[1].as_ref().map(FromValue::from_value),
            f2: s[2].as_ref().map(FromValue::from_value),
            f3: FromValue::from_value(s[3].as_ref().expect("component f3 of Ts5moomdn must be present")),
            f4: FromValue::from_value(s[4].as_ref().expect("component f4 of Ts5moomdn must be present")),
        }
    }
}
impl ToValue for Ts5moomdn {
    fn to_value(&self) -> Value {
        Value::Seq(vec![
            Some(self.f0.to_value()),
            self.f1.as_ref().map(|x| x.to_value()),
            self.f2.as_ref().map(|x| x.to_value()),
            Some(self.f3.to_value()),
            Some(self.f4.to_value()),
        ])
    }
}
impl FromValue for Ts5moomde0 {
    fn from_value(v: &Value) -> Self {
        let s = match v { Value::Seq(s) => s, other => panic!("Ts5moomde0: expected Seq, got {other:?}") };
        assert_eq!(s.len(), 5, "Ts5moomde0: component count");
        let _ = s;
        Ts5moomde0 {
            f0: FromValue::from_value(s[0].as_ref().expect("component f0 of Ts5moomde0 must be present")),
            f1: s[1].as_ref().map(FromValue::from_value),
            f2: s[2].as_ref().map(FromValue::from_value),
            f3: s[3].as_ref().map(FromValue::from_value),
            f4: FromValue::from_value(s[4].as_ref().expect("component f4 of Ts5moomde0 must be present")),
        }
    }
}
impl ToValue for Ts5moomde0 {
    fn to_value(&self) -> Value {
        Value::Seq(vec![
            Some(self.f0.to_value()),
            self.f1.as_ref().map(|x| x.to_value()),
            self.f2.as_ref().map(|x| x.to_value()),
            self.f3.as_ref().map(|x| x.to_value()),
            Some(self.f4.to_value()),
        ])
    }
}
impl FromValue for Ts5moomde1 {
    fn from_value(v: &Value) -> Self {
        let s = match v { Value::Seq(s) => s, other => panic!("Ts5moomde1: expected Seq, got {other:?}") };
        assert_eq!(s.len(), 5, "Ts5moomde1: component count");
        let _ = s;
        Ts5moomde1 {
            f0: FromValue::from_value(s[0].as_ref().expect("component f0 of Ts5moomde1 must be present")),
            f1: s[1].as_ref().map(FromValue::from_value),
            f2: s[2].as_ref().map(FromValue::from_value),
            f3: s[3].as_ref().map(FromValue::from_value),
            f4: FromValue::from_value(s[4].as_ref().expect("component f4 of Ts5moomde1 must be present")),
        }
    }
}
impl ToValue for Ts5moomde1 {
    fn to_value(&self) -> Value {
        Value::Seq(vec![
            Some(self.f0.to_value()),
            self.f1.as_ref().map(|x| x.to_value()),
            self.f2.as_ref().map(|x| x.to_value()),
            self.f3.as_ref().map(|x| x.to_value()),
            Some(self.f4.to_value()),
        ])
    }
}
impl FromValue for Ts5moomde2 {
    fn from_value(v: &Value) -> Self {
        let s = match v { Value::Seq(s) => s, other => panic!("Ts5moomde2: expected Seq, got {other:?}") };
        assert_eq!(s.len(), 5, "Ts5moomde2: component count");
        let _ = s;
        Ts5moomde2 {
            f0: FromValue::from_value(s[0].as_ref().expect("component f0 of Ts5moomde2 must be present")),
            f1: s[1].as_ref().map(FromValue::from_value),
            f2: s[2].as_ref().map(FromValue::from_value),
            f3: s[3].as_ref().map(FromValue::from_value),
            f4: FromValue::from_value(s[4].as_ref().expect("component f4 of Ts5moomde2 must be present")),
        }
    }
}
impl ToValue for Ts5moomde2 {
    fn to_value(&self) -> Value {
        Value::Seq(vec![
            Some(self.f0.to_value()),
            self.f1.as_ref().map(|x| x.to_value()),
            self.f2.as_ref().map(|x| x.to_value()),
            self.f3.as_ref().map(|x| x.to_value()),
            Some(self.f4.to_value()),
        ])
    }
}
impl FromValue for Ts5moomde3 {
    fn from_value(v: &Value) -> Self {
        let s = match v { Value::Seq(s) => s, other => panic!("Ts5moomde3: expected Seq, got {other:?}") };
        assert_eq!(s.len(), 5, "Ts5moomde3: component count");
        let _ = s;
        Ts5moomde3 {
            f0: FromValue::from_value(s[0].as_ref().expect("component f0 of Ts5moomde3 must be present")),
            f1: s[1].as_ref().map(FromValue::from_value),
            f2: s[2].as_ref().map(FromValue::from_value),
            f3: s[3].as_ref().map(FromValue::from_value),
            f4: FromValue::from_value(s[4].as_ref().expect("component f4 of Ts5moomde3 must be present")),
        }
    }
}
impl ToValue for Ts5moomde3 {
    fn to_value(&self) -> Value {
        Value::Seq(vec![
            Some(self.f0.to_value()),
            self.f1.as_ref().map(|x| x.to_value()),
            self.f2.as_ref().map(|x| x.to_value()),
            self.f3.as_ref().map(|x| x.to_value()),
            Some(self.f4.to_value()),
        ])
    }
}
impl FromValue for Ts5moomde4 {
    fn from_value(v: &Value) -> Self {
        let s = match v { Value::Seq(s) => s, other => panic!("Ts5moomde4: expected Seq, got {other:?}") };
        assert_eq!(s.len(), 5, "Ts5moomde4: component count");
        let _ = s;
        Ts5moomde4 {
            f0: FromValue::from_value(s[0].as_ref().expect("component f0 of Ts5moomde4 must be present")),
            f1: s[1].as_ref().map(FromValue::from_value),
            f2: s[2].as_ref().map(FromValue::from_value),
            f3: FromValue::from_value(s[3].as_ref().expect("component f3 of Ts5moomde4 must be present")),
            f4: FromValue::from_value(s[4].as_ref().expect("component f4 of Ts5moomde4 must be present")),
        }
    }
}
impl ToValue for Ts5moomde4 {
    fn to_value(&self) -> Value {
        Value::Seq(vec![
            Some(self.f0.to_value()),
            self.f1.as_ref().map(|x| x.to_value()),
            self.f2.as_ref().map(|x| x.to_value()),
            Some(self.f3.to_value()),
            Some(self.f4.to_value()),
        ])
    }
}
impl FromValue for Ts5moomde5 {
    fn from_value(v: &Value) -> Self {
        let s = match v { Value::Seq(s) => s, other => panic!("Ts5moomde5: expected Seq, got {other:?}") };
        assert_eq!(s.len(), 5, "Ts5moomde5: component count");
        let _ = s;
        Ts5moomde5 {
            f0: FromValue::from_value(s[0].as_ref().expect("component f0 of Ts5moomde5 must be present")),
            f1: s[1].as_ref().map(FromValue::from_value),
            f2: s[2].as_ref().map(FromValue::from_value),
            f3: FromValue::from_value(s[3].as_ref().expect("component f3 of Ts5moomde5 must be present")),
            f4: FromValue::from_value(s[4].as_ref().expect("component f4 of Ts5moomde5 must be present")),
        }
    }
}
impl ToValue for Ts5moomde5 {
    fn to_value(&self) -> Value {
        Value::Seq(vec![
            Some(self.f0.to_value()),
            self.f1.as_ref().map(|x| x.to_value()),
            self.f2.as_ref().map(|x| x.to_value()),
            Some(self.f3.to_value()),
            Some(self.f4.to_value()),
        ])
    }
}
impl FromValue for Ts5ooomdn {
    fn from_value(v: &Value) -> Self {
        let s = match v { Value::Seq(s) => s, other => panic!("Ts5ooomdn: expected Seq, got {other:?}") };
        assert_eq!(s.len(), 5, "Ts5ooomdn: component count");
        let _ = s;
        Ts5ooomdn {
            f0: s[0].as_ref().map(FromValue::from_value),
            f1: s[1].as_ref().map(FromValue::from_value),
            f2: s[2].as_ref().map(FromValue::from_value),
            f3: FromValue::from_value(s[3].as_ref().expect("component f3 of Ts5ooomdn must be present")),
            f4: FromValue::from_value(s[4].as_ref().expect("component f4 of Ts5ooomdn must be present")),
        }
    }
}
impl ToValue for Ts5ooomdn {
    fn to_value(&self) -> Value {
        Value::Seq(vec![
            self.f0.as_ref().map(|x| x.to_value()),
            self.f1.as_ref().map(|x| x.to_value()),
            self.f2.as_ref().map(|x| x.to_value()),
            Some(self.f3.to_value()),
            Some(self.f4.to_value()),
        ])
    }
}
impl FromValue for Ts5ooomde0 {
    fn from_value(v: &Value) -> Self {
        let s = match v { Value::Seq(s) => s, other => panic!("Ts5ooomde0: expected Seq, got {other:?}") };
        assert_eq!(s.len(), 5, "Ts5ooomde0: component count");
        let _ = s;
        Ts5ooomde0 {
            f0: s[0].as_ref().map(FromValue::from_value),
            f1: s[1].as_ref().map(FromValue::from_value),
            f2: s[2].as_ref().map(FromValue::from_value),
            f3: s[3].as_ref().map(FromValue::from_value),
            f4: FromValue::from_value(s[4].as_ref().expect("component f4 of Ts5ooomde0 must be present")),
        }
    }
}
impl ToValue for Ts5ooomde0 {
    fn to_value(&self) -> Value {
        Value::Seq(vec![
            self.f0.as_ref().map(|x| x.to_value()),
            self.f1.as_ref().map(|x| x.to_value()),
            self.f2.as_ref().map(|x| x.to_value()),
            self.f3.as_ref().map(|x| x.to_value()),
            Some(self.f4.to_value()),
        ])
    }
}
impl FromValue for Ts5ooomde1 {
    fn from_value(v: &Value) -> Self {
        let s = match v { Value::Seq(s) => s, other => panic!("Ts5ooomde1: expected Seq, got {other:?}") };
        assert_eq!(s.len(), 5, "Ts5ooomde1: component count");
        let _ = s;
        Ts5ooomde1 {
            f0: s[0].as_ref().map(FromValue::from_value),
            f1: s[1].as_ref().map(FromValue::from_value),
            f2: s[2].as_ref().map(FromValue::from_value),
            f3: s[3].as_ref().map(FromValue::from_value),
            f4: FromValue::from_value(s[4].as_ref().expect("component f4 of Ts5ooomde1 must be present")),
        }
    }
}
impl ToValue for Ts5ooomde1 {
    fn to_value(&self) -> Value {
        Value::Seq(vec![
            self.f0.as_ref().map(|x| x.to_value()),
            self.f1.as_ref().map(|x| x.to_value()),
            self.f2.as_ref().map(|x| x.to_value()),
            self.f3.as_ref().map(|x| x.to_value()),
            Some(self.f4.to_value()),
        ])
    }
}
impl FromValue for Ts5ooomde2 {
    fn from_value(v: &Value) -> Self {
        let s = match v { Value::Seq(s) => s, other => panic!("Ts5ooomde2: expected Seq, got {other:?}") };
        assert_eq!(s.len(), 5, "Ts5ooomde2: component count");
        let _ = s;
        Ts5ooomde2 {
            f0: s[0].as_ref().map(FromValue::from_value),
            f1: s[1].as_ref().map(FromValue::from_value),
            f2: s[2].as_ref().map(FromValue::from_value),
            f3: s[3].as_ref().map(FromValue::from_value),
            f4: FromValue::from_value(s[4].as_ref().expect("component f4 of Ts5ooomde2 must be present")),
        }
    }
}
impl ToValue for Ts5ooomde2 {
    fn to_value(&self) -> Value {
        Value::Seq(vec![
            self.f0.as_ref().map(|x| x.to_value()),
            self.f1.as_ref().map(|x| x.to_value()),
            self.f2.as_ref().map(|x| x.to_value()),
            self.f3.as_ref().map(|x| x.to_value()),
            Some(self.f4.to_value()),
        ])
    }
}
impl FromValue for Ts5ooomde3 {
    fn from_value(v: &Value) -> Self {
        let s = match v { Value::Seq(s) => s, other => panic!("Ts5ooomde3: expected Seq, got {other:?}") };
        assert_eq!(s.len(), 5, "Ts5ooomde3: component count");
        let _ = s;
        Ts5ooomde3 {
            f0: s[0].as_ref().map(FromValue::from_value),
            f1: s[1].as_ref().map(FromValue::from_value),
            f2: s[2].as_ref().map(FromValue::from_value),
            f3: s[3].as_ref().map(FromValue::from_value),
            f4: FromValue::from_value(s[4].as_ref().expect("component f4 of Ts5ooomde3 must be present")),
        }
    }
}
impl ToValue for Ts5ooomde3 {
    fn to_value(&self) -> Value {
        Value::Seq(vec![
            self.f0.as_ref().map(|x| x.to_value()),
            self.f1.as_ref().map(|x| x.to_value()),
            self.f2.as_ref().map(|x| x.to_value()),
            self.f3.as_ref().map(|x| x.to_value()),
            Some(self.f4.to_value()),
        ])
    }
}
impl FromValue for Ts5ooomde4 {
    fn from_value(v: &Value) -> Self {
        let s = match v { Value::Seq(s) => s, other => panic!("Ts5ooomde4: expected Seq, got {other:?}") };
        assert_eq!(s.len(), 5, "Ts5ooomde4: component count");
        let _ = s;
        Ts5ooomde4 {
            f0: s[0].as_ref().map(FromValue::from_value),
            f1: s[1].as_ref().map(FromValue::from_value),
            f2: s[2].as_ref().map(FromValue::from_value),
            f3: FromValue::from_value(s[3].as_ref().expect("component f3 of Ts5ooomde4 must be present")),
            f4: FromValue::from_value(s[4].as_ref().expect("component f4 of Ts5ooomde4 must be present")),
        }
    }
}
impl ToValue for Ts5ooomde4 {
    fn to_value(&self) -> Value {
        Value::Seq(vec![
            self.f0.as_ref().map(|x| x.to_value()),
            self.f1.as_ref().map(|x| x.to_value()),
            self.f2.as_ref().map(|x| x.to_value()),
            Some(self.f3.to_value()),
            Some(self.f4.to_value()),
        ])
    }
}
impl FromValue for Ts5ooomde5 {
    fn from_value(v: &Value) -> Self {
        let s = match v { Value::Seq(s) => s, other => panic!("Ts5ooomde5: expected Seq, got {other:?}") };
        assert_eq!(s.len(), 5, "Ts5ooomde5: component count");
        let _ = s;
        Ts5ooomde5 {
            f0: s[0].as_ref().map(FromValue::from_value),
            f1: s[1].as_ref().map(FromValue::from_value),
            f2: s[2].as_ref().map(FromValue::from_value),
            f3: FromValue::from_value(s[3].as_ref().expect("component f3 of Ts5ooomde5 must be present")),
            f4: FromValue::from_value(s[4].as_ref().expect("component f4 of Ts5ooomde5 must be present")),
        }
    }
}
impl ToValue for Ts5ooomde5 {
    fn to_value(&self) -> Value {
        Value::Seq(vec![
            self.f0.as_ref().map(|x| x.to_value()),
            self.f1.as_ref().map(|x| x.to_value()),
            self.f2.as_ref().map(|x| x.to_value()),
            Some(self.f3.to_value()),
            Some(self.f4.to_value()),
        ])
    }
}
impl FromValue for Ts5doomdn {
    fn from_value(v: &Value) -> Self {
        let s = match v { Value::Seq(s) => s, other => panic!("Ts5doomdn: expected Seq, got {other:?}") };
        assert_eq!(s.len(), 5, "Ts5doomdn: component count");
        let _ = s;
        Ts5doomdn {
            f0: FromValue::from_value(s[0].as_ref().expect("component f0 of Ts5doomdn must be present")),
            f1: s[1].as_ref().map(FromValue::from_value),
            f2: s[2].as_ref().map(FromValue::from_value),
            f3: FromValue::from_value(s[3].as_ref().expect("component f3 of Ts5doomdn must be present")),
            f4: FromValue::from_value(s[4].as_ref().expect("component f4 of Ts5doomdn must be present")),
        }
    }
}
impl ToValue for Ts5doomdn {
    fn to_value(&self) -> Value {
        Value::Seq(vec![
            Some(self.f0.to_value()),
            self.f1.as_ref().map(|x| x.to_value()),
            self.f2.as_ref().map(|x| x.to_value()),
            Some(self.f3.to_value()),
            Some(self.f4.to_value()),
        ])
    }
}
impl FromValue for Ts5doomde0 {
    fn from_value(v: &Value) -> Self {
        let s = match v { Value::Seq(s) => s, other => panic!("Ts5doomde0: expected Seq, got {other:?}") };
        assert_eq!(s.len(), 5, "Ts5doomde0: component count");
        let _ = s;
        Ts5doomde0 {
            f0: FromValue::from_value(s[0].as_ref().expect("component f0 of Ts5doomde0 must be present")),
            f1: s[1].as_ref().map(FromValue::from_value),
            f2: s[2].as_ref().map(FromValue::from_value),
            f3: s[3].as_ref().map(FromValue::from_value),
            f4: FromValue::from_value(s[4].as_ref().expect("component f4 of Ts5doomde0 must be present")),
        }
    }
}
impl ToValue for Ts5doomde0 {
    fn to_value(&self) -> Value {
        Value::Seq(vec![
            Some(self.f0.to_value()),
            self.f1.as_ref().map(|x| x.to_value()),
            self.f2.as_ref().map(|x| x.to_value()),
            self.f3.as_ref().map(|x| x.to_value()),
            Some(self.f4.to_value()),
        ])
    }
}
impl FromValue for Ts5doomde1 {
    fn from_value(v: &Value) -> Self {
        let s = match v { Value::Seq(s) => s, other => panic!("Ts5doomde1: expected Seq, got {other:?}") };
        assert_eq!(s.len(), 5, "Ts5doomde1: component count");
        let _ = s;
        Ts5doomde1 {
            f0: FromValue::from_value(s[0].as_ref().expect("component f0 of Ts5doomde1 must be present")),
            f1: s[1].as_ref().map(FromValue::from_value),
            f2: s[2].as_ref().map(FromValue::from_value),
            f3: s[3].as_ref().map(FromValue::from_value),
            f4: FromValue::from_value(s[4].as_ref().expect("component f4 of Ts5doomde1 must be present")),
        }
    }
}
impl ToValue for Ts5doomde1 {
    fn to_value(&self) -> Value {
        Value::Seq(vec![
            Some(self.f0.to_value()),
            self.f1.as_ref().map(|x| x.to_value()),
            self.f2.as_ref().map(|x| x.to_value()),
            self.f3.as_ref().map(|x| x.to_value()),
            Some(self.f4.to_value()),
        ])
    }
}
impl FromValue for Ts5doomde2 {
    fn from_value(v: &Value) -> Self {
        let s = match v { Value::Seq(s) => s, other => panic!("Ts5doomde2: expected Seq, got {other:?}") };
        assert_eq!(s.len(), 5, "Ts5doomde2: component count");
        let _ = s;
        Ts5doomde2 {
            f0: FromValue::from_value(s[0].as_ref().expect("component f0 of Ts5doomde2 must be present")),
            f1: s[1].as_ref().map(FromValue::from_value),
            f2: s[2].as_ref().map(FromValue::from_value),
            f3: s[3].as_ref().map(FromValue::from_value),
            f4: FromValue::from_value(s[4].as_ref().expect("component f4 of Ts5doomde2 must be present")),
        }
    }
}
impl ToValue for Ts5doomde2 {
    fn to_value(&self) -> Value {
        Value::Seq(vec![
            Some(self.f0.to_value()),
            self.f1.as_ref().map(|x| x.to_value()),
            self.f2.as_ref().map(|x| x.to_value()),
            self.f3.as_ref().map(|x| x.to_value()),
            Some(self.f4.to_value()),
        ])
    }
}
impl FromValue for Ts5doomde3 {
    fn from_value(v: &Value) -> Self {
        let s = match v { Value::Seq(s) => s, other => panic!("Ts5doomde3: expected Seq, got {other:?}") };
        assert_eq!(s.len(), 5, "Ts5doomde3: component count");
        let _ = s;
        Ts5doomde3 {
            f0: FromValue::from_value(s[0].as_ref().expect("component f0 of Ts5doomde3 must be present")),
            f1: s[1].as_ref().map(FromValue::from_value),
            f2: s[2].as_ref().map(FromValue::from_value),
            f3: s[3].as_ref().map(FromValue::from_value),
            f4: FromValue::from_value(s[4].as_ref().expect("component f4 of Ts5doomde3 must be present")),
        }
    }
}
impl ToValue for Ts5doomde3 {
    fn to_value(&self) -> Value {
        Value::Seq(vec![
            Some(self.f0.to_value()),
            self.f1.as_ref().map(|x| x.to_value()),
            self.f2.as_ref().map(|x| x.to_value()),
            self.f3.as_ref().map(|x| x.to_value()),
            Some(self.f4.to_value()),
        ])
    }
}
impl FromValue for Ts5doomde4 {
    fn from_value(v: &Value) -> Self {
        let s = match v { Value::Seq(s) => s, other => panic!("Ts5doomde4: expected Seq, got {other:?}") };
        assert_eq!(s.len(), 5, "Ts5doomde4: component count");
        let _ = s;
        Ts5doomde4 {
            f0: FromValue::from_value(s[0].as_ref().expect("component f0 of Ts5doomde4 must be present")),
            f1: s[1].as_ref().map(FromValue::from_value),
            f2: s[2].as_ref().map(FromValue::from_value),
            f3: FromValue::from_value(s[3].as_ref().expect("component f3 of Ts5doomde4 must be present")),
            f4: FromValue::from_value(s[4].as_ref().expect("component f4 of Ts5doomde4 must be present")),
        }
    }
}
impl ToValue for Ts5doomde4 {
    fn to_value(&self) -> Value {
        Value::Seq(vec![
            Some(self.f0.to_value()),
            self.f1.as_ref().map(|x| x.to_value()),
            self.f2.as_ref().map(|x| x.to_value()),
            Some(self.f3.to_value()),
            Some(self.f4.to_value()),
        ])
    }
}
impl FromValue for Ts5doomde5 {
    fn from_value(v: &Value) -> Self {
        let s = match v { Value::Seq(s) => s, other => panic!("Ts5doomde5: expected Seq, got {other:?}") };
        assert_eq!(s.len(), 5, "Ts5doomde5: component count");
        let _ = s;
        Ts5doomde5 {
            f0: FromValue::from_value(s[0].as_ref().expect("component f0 of Ts5doomde5 must be present")),
            f1: s[1].as_ref().map(FromValue::from_value),
            f2: s[2].as_ref().map(FromValue::from_value),
            f3: FromValue::from_value(s[3].as_ref().expect("component f3 of Ts5doomde5 must be present")),
            f4: FromValue::from_value(s[4].as_ref().expect("component f4 of Ts5doomde5 must be present")),
        }
    }
}
impl ToValue for Ts5doomde5 {
    fn to_value(&self) -> Value {
        Value::Seq(vec![
            Some(self.f0.to_value()),
            self.f1.as_ref().map(|x| x.to_value()),
            self.f2.as_ref().map(|x| x.to_value()),
            Some(self.f3.to_value()),
            Some(self.f4.to_value()),
        ])
    }
}
impl FromValue for Ts5mdomdn {
    fn from_value(v: &Value) -> Self {
        let s = match v { Value::Seq(s) => s, other => panic!("Ts5mdomdn: expected Seq, got {other:?}") };
        assert_eq!(s.len(), 5, "Ts5mdomdn: component count");
        let _ = s;
        Ts5mdomdn {
            f0: FromValue::from_value(s[0].as_ref().expect("component f0 of Ts5mdomdn must be present")),
            f1: FromValue::from_value(s[1].as_ref().expect("component f1 of Ts5mdomdn must be present")),
            f2: s[2].as_ref().map(FromValue::from_value),
            f3: FromValue::from_value(s[3].as_ref().expect("component f3 of Ts5mdomdn must be present")),
            f4: FromValue::from_value(s[4].as_ref().expect("component f4 of Ts5mdomdn must be present")),
        }
    }
}
impl ToValue for Ts5mdomdn {
    fn to_value(&self) -> Value {
        Value::Seq(vec![
            Some(self.f0.to_value()),
            Some(self.f1.to_value()),
            self.f2.as_ref().map(|x| x.to_value()),
            Some(self.f3.to_value()),
            Some(self.f4.to_value()),
        ])
    }
}
impl FromValue for Ts5mdomde0 {
    fn from_value(v: &Value) -> Self {
        let s = match v { Value::Seq(s) => s, other => panic!("Ts5mdomde0: expected Seq, got {other:?}") };
        assert_eq!(s.len(), 5, "Ts5mdomde0: component count");
        let _ = s;
        Ts5mdomde0 {
            f0: FromValue::from_value(s[0].as_ref().expect("component f0 of Ts5mdomde0 must be present")),
            f1: FromValue::from_value(s[1].as_ref().expect("component f1 of Ts5mdomde0 must be present")),
            f2: s[2].as_ref().map(FromValue::from_value),
            f3: s[3].as_ref().map(FromValue::from_value),
            f4: FromValue::from_value(s[4].as_ref().expect("component f4 of Ts5mdomde0 must be present")),
        }
    }
}
impl ToValue for Ts5mdomde0 {
    fn to_value(&self) -> Value {
        Value::Seq(vec![
            Some(self.f0.to_value()),
            Some(self.f1.to_value()),
            self.f2.as_ref().map(|x| x.to_value()),
            self.f3.as_ref().map(|x| x.to_value()),
            Some(self.f4.to_value()),
        ])
    }
}
impl FromValue for Ts5mdomde1 {
    fn from_value(v: &Value) -> Self {
        let s = match v { Value::Seq(s) => s, other => panic!("Ts5mdomde1: expected Seq, got {other:?}") };
        assert_eq!(s.len(), 5, "Ts5mdomde1: component count");
        let _ = s;
        Ts5mdomde1 {
            f0: FromValue::from_value(s[0].as_ref().expect("component f0 of Ts5mdomde1 must be present")),
            f1: FromValue::from_value(s[1].as_ref().expect("component f1 of Ts5mdomde1 must be present")),
            f2: s[2].as_ref().map(FromValue::from_value),
            f3: s[3].as_ref().map(FromValue::from_value),
            f4: FromValue::from_value(s[4].as_ref().expect("component f4 of Ts5mdomde1 must be present")),
        }
    }
}
impl ToValue for Ts5mdomde1 {
    fn to_value(&self) -> Value {
        Value::Seq(vec![
            Some(self.f0.to_value()),
            Some(self.f1.to_value()),
            self.f2.as_ref().map(|x| x.to_value()),
            self.f3.as_ref().map(|x| x.to_value()),
            Some(self.f4.to_value()),
        ])
    }
}
impl FromValue for Ts5mdomde2 {
    fn from_value(v: &Value) -> Self {
        let s = match v { Value::Seq(s) => s, other => panic!("Ts5mdomde2: expected Seq, got {other:?}") };
        assert_eq!(s.len(), 5, "Ts5mdomde2: component count");
        let _ = s;
        Ts5mdomde2 {
            f0: FromValue::from_value(s[0].as_ref().expect("component f0 of Ts5mdomde2 must be present")),
            f1: FromValue::from_value(s[1].as_ref().expect("component f1 of Ts5mdomde2 must be present")),
            f2: s[2].as_ref().map(FromValue::from_value),
            f3: s[3].as_ref().map(FromValue::from_value),
            f4: FromValue::from_value(s[4].as_ref().expect("component f4 of Ts5mdomde2 must be present")),
        }
    }
}
impl ToValue for Ts5mdomde2 {
    fn to_value(&self) -> Value {
        Value::Seq(vec![
            Some(self.f0.to_value()),
            Some(self.f1.to_value()),
            self.f2.as_ref().map(|x| x.to_value()),
            self.f3.as_ref().map(|x| x.to_value()),
            Some(self.f4.to_value()),
        ])
    }
}
impl FromValue for Ts5mdomde3 {
    fn from_value(v: &Value) -> Self {
        let s = match v { Value::Seq(s) => s, other => panic!("Ts5mdomde3: expected Seq, got {other:?}") };
        assert_eq!(s.len(), 5, "Ts5mdomde3: component count");
        let _ = s;
        Ts5mdomde3 {
            f0: FromValue::from_value(s[0].as_ref().expect("component f0 of Ts5mdomde3 must be present")),
            f1: FromValue::from_value(s[1].as_ref().expect("component f1 of Ts5mdomde3 must be present")),
            f2: s[2].as_ref().map(FromValue::from_value),
            f3: s[3].as_ref().map(FromValue::from_value),
            f4: FromValue::from_value(s[4].as_ref().expect("component f4 of Ts5mdomde3 must be present")),
        }
    }
}
impl ToValue for Ts5mdomde3 {
    fn to_value(&self) -> Value {
        Value::Seq(vec![
            Some(self.f0.to_value()),
            Some(self.f1.to_value()),
            self.f2.as_ref().map(|x| x.to_value()),
            self.f3.as_ref().map(|x| x.to_value()),
            Some(self.f4.to_value()),
        ])
    }
}
impl FromValue for Ts5mdomde4 {
    fn from_value(v: &Value) -> Self {
        let s = match v { Value::Seq(s) => s, other => panic!("Ts5mdomde4: expected Seq, got {other:?}") };
        assert_eq!(s.len(), 5, "Ts5mdomde4: component count");
        let _ = s;
        Ts5mdomde4 {
            f0: FromValue::from_value(s[0].as_ref().expect("component f0 of Ts5mdomde4 must be present")),
            f1: FromValue::from_value(s[1].as_ref().expect("component f1 of Ts5mdomde4 must be present")),
            f2: s[2].as_ref().map(FromValue::from_value),
            f3: FromValue::from_value(s[3].as_ref().expect("component f3 of Ts5mdomde4 must be present")),
            f4: FromValue::from_value(s[4].as_ref().expect("component f4 of Ts5mdomde4 must be present")),
        }
    }
}
impl ToValue for Ts5mdomde4 {
    fn to_value(&self) -> Value {
        Value::Seq(vec![
            Some(self.f0.to_value()),
            Some(self.f1.to_value()),
            self.f2.as_ref().map(|x| x.to_value()),
            Some(self.f3.to_value()),
            Some(self.f4.to_value()),
        ])
    }
}
impl FromValue for Ts5mdomde5 {
    fn from_value(v: &Value) -> Self {
        let s = match v { Value::Seq(s) => s, other => panic!("Ts5mdomde5: expected Seq, got {other:?}") };
        assert_eq!(s.len(), 5, "Ts5mdomde5: component count");
        let _ = s;
        Ts5mdomde5 {
            f0: FromValue::from_value(s[0].as_ref().expect("component f0 of Ts5mdomde5 must be present")),
            f1: FromValue::from_value(s[1].as_ref().expect("component f1 of Ts5mdomde5 must be present")),
            f2: s[2].as_ref().map(FromValue::from_value),
            f3: FromValue::from_value(s[3].as_ref().expect("component f3 of Ts5mdomde5 must be present")),
            f4: FromValue::from_value(s[4].as_ref().expect("component f4 of Ts5mdomde5 must be present")),
        }
    }
}
impl ToValue for Ts5mdomde5 {
    fn to_value(&self) -> Value {
        Value::Seq(vec![
            Some(self.f0.to_value()),
            Some(self.f1.to_value()),
            self.f2.as_ref().map(|x| x.to_value()),
            Some(self.f3.to_value()),
            Some(self.f4.to_value()),
        ])
    }
}
impl FromValue for Ts5odomdn {
    fn from_value(v: &Value) -> Self {
        let s = match v { Value::Seq(s) => s, other => panic!("Ts5odomdn: expected Seq, got {other:?}") };
        assert_eq!(s.len(), 5, "Ts5odomdn: component count");
        let _ = s;
        Ts5odomdn {
            f0: s[0].as_ref().map(FromValue::from_value),
            f1: FromValue::from_value(s[1].as_ref().expect("component f1 of Ts5odomdn must be present")),
            f2: s[2].as_ref().map(FromValue::from_value),
            f3: FromValue::from_value(s[3].as_ref().expect("component f3 of Ts5odomdn must be present")),
            f4: FromValue::from_value(s[4].as_ref().expect("component f4 of Ts5odomdn must be present")),
        }
    }
}
impl ToValue for Ts5odomdn {
    fn to_value(&self) -> Value {
        Value::Seq(vec![
            self.f0.as_ref().map(|x| x.to_value()),
            Some(self.f1.to_value()),
            self.f2.as_ref().map(|x| x.to_value()),
            Some(self.f3.to_value()),
            Some(self.f4.to_value()),
        ])
    }
}
impl FromValue for Ts5odomde0 {
    fn from_value(v: &Value) -> Self {
        let s = match v { Value::Seq(s) => s, other => panic!("Ts5odomde0: expected Seq, got {other:?}") };
        assert_eq!(s.len(), 5, "Ts5odomde0: component count");
        let _ = s;
        Ts5odomde0 {
            f0: s[0].as_ref().map(FromValue::from_value),
            f1: FromValue::from_value(s[1].as_ref().expect("component f1 of Ts5odomde0 must be present")),
            f2: s[2].as_ref().map(FromValue::from_value),
            f3: s[3].as_ref().map(FromValue::from_value),
            f4: FromValue::from_value(s[4].as_ref().expect("component f4 of Ts5odomde0 must be present")),
        }
    }
}
impl ToValue for Ts5odomde0 {
    fn to_value(&self) -> Value {
        Value::Seq(vec![
            self.f0.as_ref().map(|x| x.to_value()),
            Some(self.f1.to_value()),
            self.f2.as_ref().map(|x| x.to_value()),
            self.f3.as_ref().map(|x| x.to_value()),
            Some(self.f4.to_value()),
        ])
    }
}
impl FromValue for Ts5odomde1 {
    fn from_value(v: &Value) -> Self {
        let s = match v { Value::Seq(s) => s, other => panic!("Ts5odomde1: expected Seq, got {other:?}") };
        assert_eq!(s.len(), 5, "Ts5odomde1: component count");
        let _ = s;
        Ts5odomde1 {
            f0: s[0].as_ref().map(FromValue::from_value),
            f1: FromValue::from_value(s[1].as_ref().expect("component f1 of Ts5odomde1 must be present")),
            f2: s[2].as_ref().map(FromValue::from_value),
            f3: s[3].as_ref().map(FromValue::from_value),
            f4: FromValue::from_value(s[4].as_ref().expect("component f4 of Ts5odomde1 must be present")),
        }
    }
}
impl ToValue for Ts5odomde1 {
    fn to_value(&self) -> Value {
        Value::Seq(vec![
            self.f0.as_ref().map(|x| x.to_value()),
            Some(self.f1.to_value()),
            self.f2.as_ref().map(|x| x.to_value()),
            self.f3.as_ref().map(|x| x.to_value()),
            Some(self.f4.to_value()),
        ])
    }
}
impl FromValue for Ts5odomde2 {
    fn from_value(v: &Value) -> Self {
        let s = match v { Value::Seq(s) => s, other => panic!("Ts5odomde2: expected Seq, got {other:?}") };
        assert_eq!(s.len(), 5, "Ts5odomde2: component count");
        let _ = s;
        Ts5odomde2 {
            f0: s[0].as_ref().map(FromValue::from_value),
            f1: FromValue::from_value(s[1].as_ref().expect("component f1 of Ts5odomde2 must be present")),
            f2: s[2].as_ref().map(FromValue::from_value),
            f3: s[3].as_ref().map(FromValue::from_value),
            f4: FromValue::from_value(s[4].as_ref().expect("component f4 of Ts5odomde2 must be present")),
        }
    }
}
impl ToValue for Ts5odomde2 {
    fn to_value(&self) -> Value {
        Value::Seq(vec![
            self.f0.as_ref().map(|x| x.to_value()),
            Some(self.f1.to_value()),
            self.f2.as_ref().map(|x| x.to_value()),
            self.f3.as_ref().map(|x| x.to_value()),
            Some(self.f4.to_value()),
        ])
    }
}
impl FromValue for Ts5odomde3 {
    fn from_value(v: &Value) -> Self {
        let s = match v { Value::Seq(s) => s, other => panic!("Ts5odomde3: expected Seq, got {other:?}") };
        assert_eq!(s.len(), 5, "Ts5odomde3: component count");
        let _ = s;
        Ts5odomde3 {
            f0: s[0].as_ref().map(FromValue::from_value),
            f1: FromValue::from_value(s[1].as_ref().expect("component f1 of Ts5odomde3 must be present")),
            f2: s[2].as_ref().map(FromValue::from_value),
            f3: s[3].as_ref().map(FromValue::from_value),
            f4: FromValue::from_value(s[4].as_ref().expect("component f4 of Ts5odomde3 must be present")),
        }
    }
}
impl ToValue for Ts5odomde3 {
    fn to_value(&self) -> Value {
        Value::Seq(vec![
            self.f0.as_ref().map(|x| x.to_value()),
            Some(self.f1.to_value()),
            self.f2.as_ref().map(|x| x.to_value()),
            self.f3.as_ref().map(|x| x.to_value()),
            Some(self.f4.to_value()),
        ])
    }
}
impl FromValue for Ts5odomde4 {
    fn from_value(v: &Value) -> Self {
        let s = match v { Value::Seq(s) => s, other => panic!("Ts5odomde4: expected Seq, got {other:?}") };
        assert_eq!(s.len(), 5, "Ts5odomde4: component count");
        let _ = s;
        Ts5odomde4 {
            f0: s[0].as_ref().map(FromValue::from_value),
            f1: FromValue::from_value(s[1].as_ref().expect("component f1 of Ts5odomde4 must be present")),
            f2: s[2].as_ref().map(FromValue::from_value),
            f3: FromValue::from_value(s[3].as_ref().expect("component f3 of Ts5odomde4 must be present")),
            f4: FromValue::from_value(s[4].as_ref().expect("component f4 of Ts5odomde4 must be present")),
        }
    }
}
impl ToValue for Ts5odomde4 {
    fn to_value(&self) -> Value {
        Value::Seq(vec![
            self.f0.as_ref().map(|x| x.to_value()),
            Some(self.f1.to_value()),
            self.f2.as_ref().map(|x| x.to_value()),
            Some(self.f3.to_value()),
            Some(self.f4.to_value()),
        ])
    }
}
impl FromValue for Ts5odomde5 {
    fn from_value(v: &Value) -> Self {
        let s = match v { Value::Seq(s) => s, other => panic!("Ts5odomde5: expected Seq, got {other:?}") };
        assert_eq!(s.len(), 5, "Ts5odomde5: component count");
        let _ = s;
        Ts5odomde5 {
            f0: s[0].as_ref().map(FromValue::from_value),
            f1: FromValue::from_value(s[1].as_ref().expect("component f1 of Ts5odomde5 must be present")),
            f2: s[2].as_ref().map(FromValue::from_value),
            f3: FromValue::from_value(s[3].as_ref().expect("component f3 of Ts5odomde5 must be present")),
            f4: FromValue::from_value(s[4].as_ref().expect("component f4 of Ts5odomde5 must be present")),
        }
    }
}
impl ToValue for Ts5odomde5 {
    fn to_value(&self) -> Value {
        Value::Seq(vec![
            self.f0.as_ref().map(|x| x.to_value()),
            Some(self.f1.to_value()),
            self.f2.as_ref().map(|x| x.to_value()),
            Some(self.f3.to_value()),
            Some(self.f4.to_value()),
        ])
    }
}
impl FromValue for Ts5ddomdn {
    fn from_value(v: &Value) -> Self {
        let s = match v { Value::Seq(s) => s, other => panic!("Ts5ddomdn: expected Seq, got {other:?}") };
        assert_eq!(s.len(), 5, "Ts5ddomdn: component count");
        let _ = s;
        Ts5ddomdn {
            f0: FromValue::from_value(s[0].as_ref().expect("component f0 of Ts5ddomdn must be present")),
            f1: FromValue::from_value(s[1].as_ref().expect("component f1 of Ts5ddomdn must be present")),
            f2: s[2].as_ref().map(FromValue::from_value),
            f3: FromValue::from_value(s[3].as_ref().expect("component f3 of Ts5ddomdn must be present")),
            f4: FromValue::from_value(s[4].as_ref().expect("component f4 of Ts5ddomdn must be present")),
        }
    }
}
impl ToValue for Ts5ddomdn {
    fn to_value(&self) -> Value {
        Value::Seq(vec![
            Some(self.f0.to_value()),
            Some(self.f1.to_value()),
            self.f2.as_ref().map(|x| x.to_value()),
            Some(self.f3.to_value()),
            Some(self.f4.to_value()),
        ])
    }
}
impl FromValue for Ts5ddomde0 {
    fn from_value(v: &Value) -> Self {
        let s = match v { Value::Seq(s) => s, other => panic!("Ts5ddomde0: expected Seq, got {other:?}") };
        assert_eq!(s.len(), 5, "Ts5ddomde0: component count");
        let _ = s;
        Ts5ddomde0 {
            f0: FromValue::from_value(s[0].as_ref().expect("component f0 of Ts5ddomde0 must be present")),
            f1: FromValue::from_value(s[1].as_ref().expect("component f1 of Ts5ddomde0 must be present")),
            f2: s[2].as_ref().map(FromValue::from_value),
            f3: s[3].as_ref().map(FromValue::from_value),
            f4: FromValue::from_value(s[4].as_ref().expect("component f4 of Ts5ddomde0 must be present")),
        }
    }
}
impl ToValue for Ts5ddomde0 {
    fn to_value(&self) -> Value {
        Value::Seq(vec![
            Some(self.f0.to_value()),
            Some(self.f1.to_value()),
            self.f2.as_ref().map(|x| x.to_value()),
            self.f3.as_ref().map(|x| x.to_value()),
            Some(self.f4.to_value()),
        ])
    }
}
impl FromValue for Ts5ddomde1 {
    fn from_value(v: &Value) -> Self {
        let s = match v { Value::Seq(s) => s, other => panic!("Ts5ddomde1: expected Seq, got {other:?}") };
        assert_eq!(s.len(), 5, "Ts5ddomde1: component count");
        let _ = s;
        Ts5ddomde1 {
            f0: FromValue::from_value(s[0].as_ref().expect("component f0 of Ts5ddomde1 must be present")),
            f1: FromValue::from_value(s[1].as_ref().expect("component f1 of Ts5ddomde1 must be present")),
            f2: s[2].as_ref().map(FromValue::from_value),
            f3: s[3].as_ref().map(FromValue::from_value),
            f4: FromValue::from_value(s[4].as_ref().expect("component f4 of Ts5ddomde1 must be present")),
        }
    }
}
impl ToValue for Ts5ddomde1 {
    fn to_value(&self) -> Value {
        Value::Seq(vec![
            Some(self.f0.to_value()),
            Some(self.f1.to_value()),
            self.f2.as_ref().map(|x| x.to_value()),
            self.f3.as_ref().map(|x| x.to_value()),
            Some(self.f4.to_value()),
        ])
    }
}
impl FromValue for Ts5ddomde2 {
    fn from_value(v: &Value) -> Self {
        let s = match v { Value::Seq(s) => s, other => panic!("Ts5ddomde2: expected Seq, got {other:?}") };
        assert_eq!(s.len(), 5, "Ts5ddomde2: component count");
        let _ = s;
        Ts5ddomde2 {
            f0: FromValue::from_value(s[0].as_ref().expect("component f0 of Ts5ddomde2 must be present")),
            f1: FromValue::from_value(s[1].as_ref().expect("component f1 of Ts5ddomde2 must be present")),
            f2: s[2].as_ref().map(FromValue::from_value),
            f3: s[3].as_ref().map(FromValue::from_value),
            f4: FromValue::from_value(s[4].as_ref().expect("component f4 of Ts5ddomde2 must be present")),
        }
    }
}
impl ToValue for Ts5ddomde2 {
    fn to_value(&self) -> Value {
        Value::Seq(vec![
            Some(self.f0.to_value()),
            Some(self.f1.to_value()),
            self.f2.as_ref().map(|x| x.to_value()),
            self.f3.as_ref().map(|x| x.to_value()),
            Some(self.f4.to_value()),
        ])
    }
}
impl FromValue for Ts5ddomde3 {
    fn from_value(v: &Value) -> Self {
        let s = match v { Value::Seq(s) => s, other => panic!("Ts5ddomde3: expected Seq, got {other:?}") };
        assert_eq!(s.len(), 5, "Ts5ddomde3: component count");
        let _ = s;
        Ts5ddomde3 {
            f0: FromValue::from_value(s[0].as_ref().expect("component f0 of Ts5ddomde3 must be present")),
            f1: FromValue::from_value(s[1].as_ref().expect("component f1 of Ts5ddomde3 must be present")),
            f2: s[2].as_ref().map(FromValue::from_value),
            f3: s[3].as_ref().map(FromValue::from_value),
            f4: FromValue::from_value(s[4].as_ref().expect("component f4 of Ts5ddomde3 must be present")),
        }
    }
}
impl ToValue for Ts5ddomde3 {
    fn to_value(&self) -> Value {
        Value::Seq(vec![
            Some(self.f0.to_value()),
            Some(self.f1.to_value()),
            self.f2.as_ref().map(|x| x.to_value()),
            self.f3.as_ref().map(|x| x.to_value()),
            Some(self.f4.to_value()),
        ])
    }
}
impl FromValue for Ts5ddomde4 {
    fn from_value(v: &Value) -> Self {
        let s = match v { Value::Seq(s) => s, other => panic!("Ts5ddomde4: expected Seq, got {other:?}") };
        assert_eq!(s.len(), 5, "Ts5ddomde4: component count");
        let _ = s;
        Ts5ddomde4 {
            f0: FromValue::from_value(s[0].as_ref().expect("component f0 of Ts5ddomde4 must be present")),
            f1: FromValue::from_value(s[1].as_ref().expect("component f1 of Ts5ddomde4 must be present")),
            f2: s[2].as_ref().map(FromValue::from_value),
            f3: FromValue::from_value(s[3].as_ref().expect("component f3 of Ts5ddomde4 must be present")),
            f4: FromValue::from_value(s[4].as_ref().expect("component f4 of Ts5ddomde4 must be present")),
        }
    }
}
impl ToValue for Ts5ddomde4 {
    fn to_value(&self) -> Value {
        Value::Seq(vec![
            Some(self.f0.to_value()),
            Some(self.f1.to_value()),
            self.f2.as_ref().map(|x| x.to_value()),
            Some(self.f3.to_value()),
            Some(self.f4.to_value()),
        ])
    }
}
impl FromValue for Ts5ddomde5 {
    fn from_value(v: &Value) -> Self {
        let s = match v { Value::Seq(s) => s, other => panic!("Ts5ddomde5: expected Seq, got {other:?}") };
        assert_eq!(s.len(), 5, "Ts5ddomde5: component count");
        let _ = s;
        Ts5ddomde5 {
            f0: FromValue::from_value(s[0].as_ref().expect("component f0 of Ts5ddomde5 must be present")),
            f1: FromValue::from_value(s[1].as_ref().expect("component f1 of Ts5ddomde5 must be present")),
            f2: s[2].as_ref().map(FromValue::from_value),
            f3: FromValue::from_value(s[3].as_ref().expect("component f3 of Ts5ddomde5 must be present")),
            f4: FromValue::from_value(s[4].as_ref().expect("component f4 of Ts5ddomde5 must be present")),
        }
    }
}
impl ToValue for Ts5ddomde5 {
    fn to_value(&self) -> Value {
        Value::Seq(vec![
            Some(self.f0.to_value()),
            Some(self.f1.to_value()),
            self.f2.as_ref().map(|x| x.to_value()),
            Some(self.f3.to_value()),
            Some(self.f4.to_value()),
        ])
    }
}
impl FromValue for Ts5mmdmdn {
    fn from_value(v: &Value) -> Self {
        let s = match v { Value::Seq(s) => s, other => panic!("Ts5mmdmdn: expected Seq, got {other:?}") };
        assert_eq!(s.len(), 5, "Ts5mmdmdn: component count");
        let _ = s;
        Ts5mmdmdn {
            f0: FromValue::from_value(s[0].as_ref().expect("component f0 of Ts5mmdmdn must be present")),
            f1: FromValue::from_value(s[1].as_ref().expect("component f1 of Ts5mmdmdn must be present")),
            f2: FromValue::from_value(s[2].as_ref().expect("component f2 of Ts5mmdmdn must be present")),
            f3: FromValue::from_value(s[3].as_ref().expect("component f3 of Ts5mmdmdn must be present")),
            f4: FromValue::from_value(s[4].as_ref().expect("component f4 of Ts5mmdmdn must be present")),
        }
    }
}
impl ToValue for Ts5mmdmdn {
    fn to_value(&self) -> Value {
        Value::Seq(vec![
            Some(self.f0.to_value()),
            Some(self.f1.to_value()),
            Some(self.f2.to_value()),
            Some(self.f3.to_value()),
            Some(self.f4.to_value()),
        ])
    }
}
impl FromValue for Ts5mmdmde0 {
    fn from_value(v: &Value) -> Self {
        let s = match v { Value::Seq(s) => s, other => panic!("Ts5mmdmde0: expected Seq, got {other:?}") };
        assert_eq!(s.len(), 5, "Ts5mmdmde0: component count");
        let _ = s;
        Ts5mmdmde0 {
            f0: FromValue::from_value(s[0].as_ref().expect("component f0 of Ts5mmdmde0 must be present")),
            f1: s[1].as_ref().map(FromValue::from_value),
            f2: FromValue::from_value(s[2].as_ref().expect("component f2 of Ts5mmdmde0 must be present")),
            f3: s[3].as_ref().map(FromValue::from_value),
            f4: FromValue::from_value(s[4].as_ref().expect("component f4 of Ts5mmdmde0 must be present")),
        }
    }
}
impl ToValue for Ts5mmdmde0 {
    fn to_value(&self) -> Value {
        Value::Seq(vec![
            Some(self.f0.to_value()),
            self.f1.as_ref().map(|x| x.to_value()),
            Some(self.f2.to_value()),
            self.f3.as_ref().map(|x| x.to_value()),
            Some(self.f4.to_value()),
        ])
    }
}
impl FromValue for Ts5mmdmde1 {
    fn from_value(v: &Value) -> Self {
        let s = match v { Value::Seq(s) => s, other => panic!("Ts5mmdmde1: expected Seq, got {other:?}") };
        assert_eq!(s.len(), 5, "Ts5mmdmde1: component count");
        let _ = s;
        Ts5mmdmde1 {
            f0: FromValue::from_value(s[0].as_ref().expect("component f0 of Ts5mmdmde1 must be present")),
            f1: s[1].as_ref().map(FromValue::from_value),
            f2: FromValue::from_value(s[2].as_ref().expect("component f2 of Ts5mmdmde1 must be present")),
            f3: s[3].as_ref().map(FromValue::from_value),
            f4: FromValue::from_value(s[4].as_ref().expect("component f4 of Ts5mmdmde1 must be present")),
        }
    }
}
impl ToValue for Ts5mmdmde1 {
    fn to_value(&self) -> Value {
        Value::Seq(vec![
            Some(self.f0.to_value()),
            self.f1.as_ref().map(|x| x.to_value()),
            Some(self.f2.to_value()),
            self.f3.as_ref().map(|x| x.to_value()),
            Some(self.f4.to_value()),
        ])
    }
}
impl FromValue for Ts5mmdmde2 {
    fn from_value(v: &Value) -> Self {
        let s = match v { Value::Seq(s) => s, other => panic!("Ts5mmdmde2: expected Seq, got {other:?}") };
        assert_eq!(s.len(), 5, "Ts5mmdmde2: component count");
        let _ = s;
        Ts5mmdmde2 {
            f0: FromValue::from_value(s[0].as_ref().expect("component f0 of Ts5mmdmde2 must be present")),
            f1: FromValue::from_value(s[1].as_ref().expect("component f1 of Ts5mmdmde2 must be present")),
            f2: FromValue::from_value(s[2].as_ref().expect("component f2 of Ts5mmdmde2 must be present")),
            f3: s[3].as_ref().map(FromValue::from_value),
            f4: FromValue::from_value(s[4].as_ref().expect("component f4 of Ts5mmdmde2 must be present")),
        }
    }
}
impl ToValue for Ts5mmdmde2 {
    fn to_value(&self) -> Value {
        Value::Seq(vec![
            Some(self.f0.to_value()),
            Some(self.f1.to_value()),
            Some(self.f2.to_value()),
            self.f3.as_ref().map(|x| x.to_value()),
            Some(self.f4.to_value()),
        ])
    }
}
impl FromValue for Ts5mmdmde3 {
    fn from_value(v: &Value) -> Self {
        let s = match v { Value::Seq(s) => s, other => panic!("Ts5mmdmde3: expected Seq, got {other:?}") };
        assert_eq!(s.len(), 5, "Ts5mmdmde3: component count");
        let _ = s;
        Ts5mmdmde3 {
            f0: FromValue::from_value(s[0].as_ref().expect("component f0 of Ts5mmdmde3 must be present")),
            f1: FromValue::from_value(s[1].as_ref().expect("component f1 of Ts5mmdmde3 must be present")),
            f2: FromValue::from_value(s[2].as_ref().expect("component f2 of Ts5mmdmde3 must be present")),
            f3: s[3].as_ref().map(FromValue::from_value),
            f4: FromValue::from_value(s[4].as_ref().expect("component f4 of Ts5mmdmde3 must be present")),
        }
    }
}
impl ToValue for Ts5mmdmde3 {
    fn to_value(&self) -> Value {
        Value::Seq(vec![
            Some(self.f0.to_value()),
            Some(self.f1.to_value()),
            Some(self.f2.to_value()),
            self.f3.as_ref().map(|x| x.to_value()),
            Some(self.f4.to_value()),
        ])
    }
}
impl FromValue for Ts5mmdmde4 {
    fn from_value(v: &Value) -> Self {
        let s = match v { Value::Seq(s) => s, other => panic!("Ts5mmdmde4: expected Seq, got {other:?}") };
        assert_eq!(s.len(), 5, "Ts5mmdmde4: component count");
        let _ = s;
        Ts5mmdmde4 {
            f0: FromValue::from_value(s[0].as_ref().expect("component f0 of Ts5mmdmde4 must be present")),
            f1: FromValue::from_value(s[1].as_ref().expect("component f1 of Ts5mmdmde4 must be present")),
            f2: FromValue::from_value(s[2].as_ref().expect("component f2 of Ts5mmdmde4 must be present")),
            f3: FromValue::from_value(s[3].as_ref().expect("component f3 of Ts5mmdmde4 must be present")),
            f4: FromValue::from_value(s[4].as_ref().expect("component f4 of Ts5mmdmde4 must be present")),
        }
    }
}
impl ToValue for Ts5mmdmde4 {
    fn to_value(&self) -> Value {
        Value::Seq(vec![
            Some(self.f0.to_value()),
            Some(self.f1.to_value()),
            Some(self.f2.to_value()),
            Some(self.f3.to_value()),
            Some(self.f4.to_value()),
        ])
    }
}
impl FromValue for Ts5mmdmde5 {
    fn from_value(v: &Value) -> Self {
        let s = match v { Value::Seq(s) => s, other => panic!("Ts5mmdmde5: expected Seq, got {other:?}") };
        assert_eq!(s.len(), 5, "Ts5mmdmde5: component count");
        let _ = s;
        Ts5mmdmde5 {
            f0: FromValue::from_value(s[0].as_ref().expect("component f0 of Ts5mmdmde5 must be present")),
            f1: FromValue::from_value(s[1].as_ref().expect("component f1 of Ts5mmdmde5 must be present")),
            f2: FromValue::from_value(s[2].as_ref().expect("component f2 of Ts5mmdmde5 must be present")),
            f3: FromValue::from_value(s[3].as_ref().expect("component f3 of Ts5mmdmde5 must be present")),
            f4: FromValue::from_value(s[4].as_ref().expect("component f4 of Ts5mmdmde5 must be present")),
        }
    }
}
impl ToValue for Ts5mmdmde5 {
    fn to_value(&self) -> Value {
        Value::Seq(vec![
            Some(self.f0.to_value()),
            Some(self.f1.to_value()),
            Some(self.f2.to_value()),
            Some(self.f3.to_value()),
            Some(self.f4.to_value()),
        ])
    }
}
impl FromValue for Ts5omdmdn {
    fn from_value(v: &Value) -> Self {
        let s = match v { Value::Seq(s) => s, other => panic!("Ts5omdmdn: expected Seq, got {other:?}") };
        assert_eq!(s.len(), 5, "Ts5omdmdn: component count");
        let _ = s;
        Ts5omdmdn {
            f0: s[0].as_ref().map(FromValue::from_value),
            f1: FromValue::from_value(s[1].as_ref().expect("component f1 of Ts5omdmdn must be present")),
            f2: FromValue::from_value(s[2].as_ref().expect("component f2 of Ts5omdmdn must be present")),
            f3: FromValue::from_value(s[3].as_ref().expect("component f3 of Ts5omdmdn must be present")),
            f4: FromValue::from_value(s[4].as_ref().expect("component f4 of Ts5omdmdn must be present")),
        }
    }
}
impl ToValue for Ts5omdmdn {
    fn to_value(&self) -> Value {
        Value::Seq(vec![
            self.f0.as_ref().map(|x| x.to_value()),
            Some(self.f1.to_value()),
            Some(self.f2.to_value()),
            Some(self.f3.to_value()),
            Some(self.f4.to_value()),
        ])
    }
}
impl FromValue for Ts5omdmde0 {
    fn from_value(v: &Value) -> Self {
        let s = match v { Value::Seq(s) => s, other => panic!("Ts5omdmde0: expected Seq, got {other:?}") };
        assert_eq!(s.len(), 5, "Ts5omdmde0: component count");
        let _ = s;
        Ts5omdmde0 {
            f0: s[0].as_ref().map(FromValue::from_value),
            f1: s[1].as_ref().map(FromValue::from_value),
            f2: FromValue::from_value(s[2].as_ref().expect("component f2 of Ts5omdmde0 must be present")),
            f3: s[3].as_ref().map(FromValue::from_value),
            f4: FromValue::from_value(s[4].as_ref().expect("component f4 of Ts5omdmde0 must be present")),
        }
    }
}
impl ToValue for Ts5omdmde0 {
    fn to_value(&self) -> Value {
        Value::Seq(vec![
            self.f0.as_ref().map(|x| x.to_value()),
            self.f1.as_ref().map(|x| x.to_value()),
            Some(self.f2.to_value()),
            self.f3.as_ref().map(|x| x.to_value()),
            Some(self.f4.to_value()),
        ])
    }
}
impl FromValue for Ts5omdmde1 {
    fn from_value(v: &Value) -> Self {
        let s = match v { Value::Seq(s) => s, other => panic!("Ts5omdmde1: expected Seq, got {other:?}") };
        assert_eq!(s.len(), 5, "Ts5omdmde1: component count");
        let _ = s;
        Ts5omdmde1 {
            f0: s[0].as_ref().map(FromValue::from_value),
            f1: s[1].as_ref().map(FromValue::from_value),
            f2: FromValue::from_value(s[2].as_ref().expect("component f2 of Ts5omdmde1 must be present")),
            f3: s[3].as_ref().map(FromValue::from_value),
            f4: FromValue::from_value(s[4].as_ref().expect("component f4 of Ts5omdmde1 must be present")),
        }
    }
}
impl ToValue for Ts5omdmde1 {
    fn to_value(&self) -> Value {
        Value::Seq(vec![
            self.f0.as_ref().map(|x| x.to_value()),
            self.f1.as_ref().map(|x| x.to_value()),
            Some(self.f2.to_value()),
            self.f3.as_ref().map(|x| x.to_value()),
            Some(self.f4.to_value()),
        ])
    }
}
impl FromValue for Ts5omdmde2 {
    fn from_value(v: &Value) -> Self {
        let s = match v { Value::Seq(s) => s, other => panic!("Ts5omdmde2: expected Seq, got {other:?}") };
        assert_eq!(s.len(), 5, "Ts5omdmde2: component count");
        let _ = s;
        Ts5omdmde2 {
            f0: s[0].as_ref().map(FromValue::from_value),
            f1: FromValue::from_value(s[1].as_ref().expect("component f1 of Ts5omdmde2 must be present")),
            f2: FromValue::from_value(s[2].as_ref().expect("component f2 of Ts5omdmde2 must be present")),
            f3: s[3].as_ref().map(FromValue::from_value),
            f4: FromValue::from_value(s[4].as_ref().expect("component f4 of Ts5omdmde2 must be present")),
        }
    }
}
impl ToValue for Ts5omdmde2 {
    fn to_value(&self) -> Value {
        Value::Seq(vec![
            self.f0.as_ref().map(|x| x.to_value()),
            Some(self.f1.to_value()),
            Some(self.f2.to_value()),
            self.f3.as_ref().map(|x| x.to_value()),
            Some(self.f4.to_value()),
        ])
    }
}
impl FromValue for Ts5omdmde3 {
    fn from_value(v: &Value) -> Self {
        let s = match v { Value::Seq(s) => s, other => panic!("Ts5omdmde3: expected Seq, got {other:?}") };
        assert_eq!(s.len(), 5, "Ts5omdmde3: component count");
        let _ = s;
        Ts5omdmde3 {
            f0: s[0].as_ref().map(FromValue::from_value),
            f1: FromValue::from_value(s[1].as_ref().expect("component f1 of Ts5omdmde3 must be present")),
            f2: FromValue::from_value(s[2].as_ref().expect("component f2 of Ts5omdmde3 must be present")),
            f3: s[3].as_ref().map(FromValue::from_value),
            f4: FromValue::from_value(s[4].as_ref().expect("component f4 of Ts5omdmde3 must be present")),
        }
    }
}
impl ToValue for Ts5omdmde3 {
    fn to_value(&self) -> Value {
        Value::Seq(vec![
            self.f0.as_ref().map(|x| x.to_value()),
            Some(self.f1.to_value()),
            Some(self.f2.to_value()),
            self.f3.as_ref().map(|x| x.to_value()),
            Some(self.f4.to_value()),
        ])
    }
}
impl FromValue for Ts5omdmde4 {
    fn from_value(v: &Value) -> Self {
        let s = match v { Value::Seq(s) => s, other => panic!("Ts5omdmde4: expected Seq, got {other:?}") };
        assert_eq!(s.len(), 5, "Ts5omdmde4: component count");
        let _ = s;
        Ts5omdmde4 {
            f0: s[0].as_ref().map(FromValue::from_value),
            f1: FromValue::from_value(s[1].as_ref().expect("component f1 of Ts5omdmde4 must be present")),
            f2: FromValue::from_value(s[2].as_ref().expect("component f2 of Ts5omdmde4 must be present")),
            f3: FromValue::from_value(s[3].as_ref().expect("component f3 of Ts5omdmde4 must be present")),
            f4: FromValue::from_value(s[4].as_ref().expect("component f4 of Ts5omdmde4 must be present")),
        }
    }
}
impl ToValue for Ts5omdmde4 {
    fn to_value(&self) -> Value {
        Value::Seq(vec![
            self.f0.as_ref().map(|x| x.to_value()),
            Some(self.f1.to_value()),
            Some(self.f2.to_value()),
            Some(self.f3.to_value()),
            Some(self.f4.to_value()),
        ])
    }
}
impl FromValue for Ts5omdmde5 {
    fn from_value(v: &Value) -> Self {
        let s = match v { Value::Seq(s) => s, other => panic!("Ts5omdmde5: expected Seq, got {other:?}") };
        assert_eq!(s.len(), 5, "Ts5omdmde5: component count");
        let _ = s;
        Ts5omdmde5 {
            f0: s[0].as_ref().map(FromValue::from_value),
            f1: FromValue::from_value(s[1].as_ref().expect("component f1 of Ts5omdmde5 must be present")),
            f2: FromValue::from_value(s[2].as_ref().expect("component f2 of Ts5omdmde5 must be present")),
            f3: FromValue::from_value(s[3].as_ref().expect("component f3 of Ts5omdmde5 must be present")),
            f4: FromValue::from_value(s[4].as_ref().expect("component f4 of Ts5omdmde5 must be present")),
        }
    }
}
impl ToValue for Ts5omdmde5 {
    fn to_value(&self) -> Value {
        Value::Seq(vec![
            self.f0.as_ref().map(|x| x.to_value()),
            Some(self.f1.to_value()),
            Some(self.f2.to_value()),
            Some(self.f3.to_value()),
            Some(self.f4.to_value()),
        ])
    }
}
impl FromValue for Ts5dmdmdn {
    fn from_value(v: &Value) -> Self {
        let s = match v { Value::Seq(s) => s, other => panic!("Ts5dmdmdn: expected Seq, got {other:?}") };
        assert_eq!(s.len(), 5, "Ts5dmdmdn: component count");
        let _ = s;
        Ts5dmdmdn {
            f0: FromValue::from_value(s[0].as_ref().expect("component f0 of Ts5dmdmdn must be present")),
            f1: FromValue::from_value(s[1].as_ref().expect("component f1 of Ts5dmdmdn must be present")),
            f2: FromValue::from_value(s[2].as_ref().expect("component f2 of Ts5dmdmdn must be present")),
            f3: FromValue::from_value(s[3].as_ref().expect("component f3 of Ts5dmdmdn must be present")),
            f4: FromValue::from_value(s[4].as_ref().expect("component f4 of Ts5dmdmdn must be present")),
        }
    }
}
impl ToValue for Ts5dmdmdn {
    fn to_value(&self) -> Value {
        Value::Seq(vec![
            Some(self.f0.to_value()),
            Some(self.f1.to_value()),
            Some(self.f2.to_value()),
            Some(self.f3.to_value()),
            Some(self.f4.to_value()),
        ])
    }
}
impl FromValue for Ts5dmdmde0 {
    fn from_value(v: &Value) -> Self {
        let s = match v { Value::Seq(s) => s, other => panic!("Ts5dmdmde0: expected Seq, got {other:?}") };
        assert_eq!(s.len(), 5, "Ts5dmdmde0: component count");
        let _ = s;
        Ts5dmdmde0 {
            f0: FromValue::from_value(s[0].as_ref().expect("component f0 of Ts5dmdmde0 must be present")),
            f1: s[1].as_ref().map(FromValue::from_value),
            f2: FromValue::from_value(s[2].as_ref().expect("component f2 of Ts5dmdmde0 must be present")),
            f3: s[3].as_ref().map(FromValue::from_value),
            f4: FromValue::from_value(s[4].as_ref().expect("component f4 of Ts5dmdmde0 must be present")),
        }
    }
}
impl ToValue for Ts5dmdmde0 {
    fn to_value(&self) -> Value {
        Value::Seq(vec![
            Some(self.f0.to_value()),
            self.f1.as_ref().map(|x| x.to_value()),
            Some(self.f2.to_value()),
            self.f3.as_ref().map(|x| x.to_value()),
            Some(self.f4.to_value()),
        ])
    }
}
impl FromValue for Ts5dmdmde1 {
    fn from_value(v: &Value) -> Self {
        let s = match v { Value::Seq(s) => s, other => panic!("Ts5dmdmde1: expected Seq, got {other:?}") };
        assert_eq!(s.len(), 5, "Ts5dmdmde1: component count");
        let _ = s;
        Ts5dmdmde1 {
            f0: FromValue::from_value(s[0].as_ref().expect("component f0 of Ts5dmdmde1 must be present")),
            f1: s[1].as_ref().map(FromValue::from_value),
            f2: FromValue::from_value(s[2].as_ref().expect("component f2 of Ts5dmdmde1 must be present")),
            f3: s[3].as_ref().map(FromValue::from_value),
            f4: FromValue::from_value(s[4].as_ref().expect("component f4 of Ts5dmdmde1 must be present")),
        }
    }
}
impl ToValue for Ts5dmdmde1 {
    fn to_value(&self) -> Value {
        Value::Seq(vec![
            Some(self.f0.to_value()),
            self.f1.as_ref().map(|x| x.to_value()),
            Some(self.f2.to_value()),
            self.f3.as_ref().map(|x| x.to_value()),
            Some(self.f4.to_value()),
        ])
    }
}
impl FromValue for Ts5dmdmde2 {
    fn from_value(v: &Value) -> Self {
        let s = match v { Value::Seq(s) => s, other => panic!("Ts5dmdmde2: expected Seq, got {other:?}") };
        assert_eq!(s.len(), 5, "Ts5dmdmde2: component count");
        let _ = s;
        Ts5dmdmde2 {
            f0: FromValue::from_value(s[0].as_ref().expect("component f0 of Ts5dmdmde2 must be present")),
            f1: FromValue::from_value(s[1].as_ref().expect("component f1 of Ts5dmdmde2 must be present")),
            f2: FromValue::from_value(s[2].as_ref().expect("component f2 of Ts5dmdmde2 must be present")),
            f3: s[3].as_ref().map(FromValue::from_value),
            f4: FromValue::from_value(s[4].as_ref().expect("component f4 of Ts5dmdmde2 must be present")),
        }
    }
}
impl ToValue for Ts5dmdmde2 {
    fn to_value(&self) -> Value {
        Value::Seq(vec![
            Some(self.f0.to_value()),
            Some(self.f1.to_value()),
            Some(self.f2.to_value()),
            self.f3.as_ref().map(|x| x.to_value()),
            Some(self.f4.to_value()),
        ])
    }
}
impl FromValue for Ts5dmdmde3 {
    fn from_value(v: &Value) -> Self {
        let s = match v { Value::Seq(s) => s, other => panic!("Ts5dmdmde3: expected Seq, got {other:?}") };
        assert_eq!(s.len(), 5, "Ts5dmdmde3: component count");
        let _ = s;
        Ts5dmdmde3 {
            f0: FromValue::from_value(s[0].as_ref().expect("component f0 of Ts5dmdmde3 must be present")),
            f1: FromValue::from_value(s[1].as_ref().expect("component f1 of Ts5dmdmde3 must be present")),
            f2: FromValue::from_value(s[2].as_ref().expect("component f2 of Ts5dmdmde3 must be present")),
            f3: s[3].as_ref().map(FromValue::from_value),
            f4: FromValue::from_value(s[4].as_ref().expect("component f4 of Ts5dmdmde3 must be present")),
        }
    }
}
impl ToValue for Ts5dmdmde3 {
    fn to_value(&self) -> Value {
        Value::Seq(vec![
            Some(self.f0.to_value()),
            Some(self.f1.to_value()),
            Some(self.f2.to_value()),
            self.f3.as_ref().map(|x| x.to_value()),
            Some(self.f4.to_value()),
        ])
    }
}
impl FromValue for Ts5dmdmde4 {
    fn from_value(v: &Value) -> Self {
        let s = match v { Value::Seq(s) => s, other => panic!("Ts5dmdmde4: expected Seq, got {other:?}") };
        assert_eq!(s.len(), 5, "Ts5dmdmde4: component count");
        let _ = s;
        Ts5dmdmde4 {
            f0: FromValue::from_value(s[0].as_ref().expect("component f0 of Ts5dmdmde4 must be present")),
            f1: FromValue::from_value(s[1].as_ref().expect("component f1 of Ts5dmdmde4 must be present")),
            f2: FromValue::from_value(s[2].as_ref().expect("component f2 of Ts5dmdmde4 must be present")),
            f3: FromValue::from_value(s[3].as_ref().expect("component f3 of Ts5dmdmde4 must be present")),
            f4: FromValue::from_value(s[4].as_ref().expect("component f4 of Ts5dmdmde4 must be present")),
        }
    }
}
impl ToValue for Ts5dmdmde4 {
    fn to_value(&self) -> Value {
        Value::Seq(vec![
            Some(self.f0.to_value()),
            Some(self.f1.to_value()),
            Some(self.f2.to_value()),
            Some(self.f3.to_value()),
            Some(self.f4.to_value()),
        ])
    }
}
impl FromValue for Ts5dmdmde5 {
    fn from_value(v: &Value) -> Self {
        let s = match v { Value::Seq(s) => s, other => panic!("Ts5dmdmde5: expected Seq, got {other:?}") };
        assert_eq!(s.len(), 5, "Ts5dmdmde5: component count");
        let _ = s;
        Ts5dmdmde5 {
            f0: FromValue::from_value(s[0].as_ref().expect("component f0 of Ts5dmdmde5 must be present")),
            f1: FromValue::from_value(s[1].as_ref().expect("component f1 of Ts5dmdmde5 must be present")),
            f2: FromValue::from_value(s[2].as_ref().expect("component f2 of Ts5dmdmde5 must be present")),
            f3: FromValue::from_value(s[3].as_ref().expect("component f3 of Ts5dmdmde5 must be present")),
            f4: FromValue::from_value(s[4].as_ref().expect("component f4 of Ts5dmdmde5 must be present")),
        }
    }
}
impl ToValue for Ts5dmdmde5 {
    fn to_value(&self) -> Value {
        Value::Seq(vec![
            Some(self.f0.to_value()),
            Some(self.f1.to_value()),
            Some(self.f2.to_value()),
            Some(self.f3.to_value()),
            Some(self.f4.to_value()),
        ])
    }
}
impl FromValue for Ts5modmdn {
    fn from_value(v: &Value) -> Self {
        let s = match v { Value::Seq(s) => s, other => panic!("Ts5modmdn: expected Seq, got {other:?}") };
        assert_eq!(s.len(), 5, "Ts5modmdn: component count");
        let _ = s;
        Ts5modmdn {
            f0: FromValue::from_value(s[0].as_ref().expect("component f0 of Ts5modmdn must be present")),
            f1: s[1].as_ref().map(FromValue::from_value),
            f2: FromValue::from_value(s[2].as_ref().expect("component f2 of Ts5modmdn must be present")),
            f3: FromValue::from_value(s[3].as_ref().expect("component f3 of Ts5modmdn must be present")),
            f4: FromValue::from_value(s[4].as_ref().expect("component f4 of Ts5modmdn must be present")),
        }
    }
}
impl ToValue for Ts5modmdn {
    fn to_value(&self) -> Value {
        Value::Seq(vec![
            Some(self.f0.to_value()),
            self.f1.as_ref().map(|x| x.to_value()),
            Some(self.f2.to_value()),
            Some(self.f3.to_value()),
            Some(self.f4.to_value()),
        ])
    }
}
impl FromValue for Ts5modmde0 {
    fn from_value(v: &Value) -> Self {
        let s = match v { Value::Seq(s) => s, other => panic!("Ts5modmde0: expected Seq, got {other:?}") };
        assert_eq!(s.len(), 5, "Ts5modmde0: component count");
        let _ = s;
        Ts5modmde0 {
            f0: FromValue::from_value(s[0].as_ref().expect("component f0 of Ts5modmde0 must be present")),
            f1: s[1].as_ref().map(FromValue::from_value),
            f2: FromValue::from_value(s[2].as_ref().expect("component f2 of Ts5modmde0 must be present")),
            f3: s[3].as_ref().map(FromValue::from_value),
            f4: FromValue::from_value(s[4].as_ref().expect("component f4 of Ts5modmde0 must be present")),
        }
    }
}
impl ToValue for Ts5modmde0 {
    fn to_value(&self) -> Value {
        Value::Seq(vec![
            Some(self.f0.to_value()),
            self.f1.as_ref().map(|x| x.to_value()),
            Some(self.f2.to_value()),
            self.f3.as_ref().map(|x| x.to_value()),
            Some(self.f4.to_value()),
        ])
    }
}
impl FromValue for Ts5modmde1 {
    fn from_value(v: &Value) -> Self {
        let s = match v { Value::Seq(s) => s, other => panic!("Ts5modmde1: expected Seq, got {other:?}") };
        assert_eq!(s.len(), 5, "Ts5modmde1: component count");
        let _ = s;
        Ts5modmde1 {
            f0: FromValue::from_value(s[0].as_ref().expect("component f0 of Ts5modmde1 must be present")),
            f1: s[1].as_ref().map(FromValue::from_value),
            f2: FromValue::from_value(s[2].as_ref().expect("component f2 of Ts5modmde1 must be present")),
            f3: s[3].as_ref().map(FromValue::from_value),
            f4: FromValue::from_value(s[4].as_ref().expect("component f4 of Ts5modmde1 must be present")),
        }
    }
}
impl ToValue for Ts5modmde1 {
    fn to_value(&self) -> Value {
        Value::Seq(vec![
            Some(self.f0.to_value()),
            self.f1.as_ref().map(|x| x.to_value()),
            Some(self.f2.to_value()),
            self.f3.as_ref().map(|x| x.to_value()),
            Some(self.f4.to_value()),
        ])
    }
}
impl FromValue for Ts5modmde2 {
    fn from_value(v: &Value) -> Self {
        let s = match v { Value::Seq(s) => s, other => panic!("Ts5modmde2: expected Seq, got {other:?}") };
        assert_eq!(s.len(), 5, "Ts5modmde2: component count");
        let _ = s;
        Ts5modmde2 {
            f0: FromValue::from_value(s[0].as_ref().expect("component f0 of Ts5modmde2 must be present")),
            f1: s[1].as_ref().map(FromValue::from_value),
            f2: FromValue::from_value(s[2].as_ref().expect("component f2 of Ts5modmde2 must be present")),
            f3: s[3].as_ref().map(FromValue::from_value),
            f4: FromValue::from_value(s[4].as_ref().expect("component f4 of Ts5modmde2 must be present")),
        }
    }
}
impl ToValue for Ts5modmde2 {
    fn to_value(&self) -> Value {
        Value::Seq(vec![
            Some(self.f0.to_value()),
            self.f1.as_ref().map(|x| x.to_value()),
            Some(self.f2.to_value()),
            self.f3.as_ref().map(|x| x.to_value()),
            Some(self.f4.to_value()),
        ])
    }
}
impl FromValue for Ts5modmde3 {
    fn from_value(v: &Value) -> Self {
        let s = match v { Value::Seq(s) => s, other => panic!("Ts5modmde3: expected Seq, got {other:?}") };
        assert_eq!(s.len(), 5, "Ts5modmde3: component count");
        let _ = s;
        Ts5modmde3 {
            f0: FromValue::from_value(s[0].as_ref().expect("component f0 of Ts5modmde3 must be present")),
            f1: s[1].as_ref().map(FromValue::from_value),
            f2: FromValue::from_value(s[2].as_ref().expect("component f2 of Ts5modmde3 must be present")),
            f3: s[3].as_ref().map(FromValue::from_value),
            f4: FromValue::from_value(s[4].as_ref().expect("component f4 of Ts5modmde3 must be present")),
        }
    }
}
impl ToValue for Ts5modmde3 {
    fn to_value(&self) -> Value {
        Value::Seq(vec![
            Some(self.f0.to_value()),
            self.f1.as_ref().map(|x| x.to_value()),
            Some(self.f2.to_value()),
            self.f3.as_ref().map(|x| x.to_value()),
            Some(self.f4.to_value()),
        ])
    }
}
impl FromValue for Ts5modmde4 {
    fn from_value(v: &Value) -> Self {
        let s = match v { Value::Seq(s) => s, other => panic!("Ts5modmde4: expected Seq, got {other:?}") };
        assert_eq!(s.len(), 5, "Ts5modmde4: component count");
        let _ = s;
        Ts5modmde4 {
            f0: FromValue::from_value(s[0].as_ref().expect("component f0 of Ts5modmde4 must be present")),
            f1: s[1].as_ref().map(FromValue::from_value),
            f2: FromValue::from_value(s[2].as_ref().expect("component f2 of Ts5modmde4 must be present")),
            f3: FromValue::from_value(s[3].as_ref().expect("component f3 of Ts5modmde4 must be present")),
            f4: FromValue::from_value(s[4].as_ref().expect("component f4 of Ts5modmde4 must be present")),
        }
    }
}
impl ToValue for Ts5modmde4 {
    fn to_value(&self) -> Value {
        Value::Seq(vec![
            Some(self.f0.to_value()),
            self.f1.as_ref().map(|x| x.to_value()),
            Some(self.f2.to_value()),
            Some(self.f3.to_value()),
            Some(self.f4.to_value()),
        ])
    }
}
impl FromValue for Ts5modmde5 {
    fn from_value(v: &Value) -> Self {
        let s = match v { Value::Seq(s) => s, other => panic!("Ts5modmde5: expected Seq, got {other:?}") };
        assert_eq!(s.len(), 5, "Ts5modmde5: component count");
        let _ = s;
        Ts5modmde5 {
            f0: FromValue::from_value(s[0].as_ref().expect("component f0 of Ts5modmde5 must be present")),
            f1: s[1].as_ref().map(FromValue::from_value),
            f2: FromValue::from_value(s[2].as_ref().expect("component f2 of Ts5modmde5 must be present")),
            f3: FromValue::from_value(s[3].as_ref().expect("component f3 of Ts5modmde5 must be present")),
            f4: FromValue::from_value(s[4].as_ref().expect("component f4 of Ts5modmde5 must be present")),
        }
    }
}
impl ToValue for Ts5modmde5 {
    fn to_value(&self) -> Value {
        Value::Seq(vec![
            Some(self.f0.to_value()),
            self.f1.as_ref().map(|x| x.to_value()),
            Some(self.f2.to_value()),
            Some(self.f3.to_value()),
            Some(self.f4.to_value()),
        ])
    }
}
impl FromValue for Ts5oodmdn {
    fn from_value(v: &Value) -> Self {
        let s = match v { Value::Seq(s) => s, other => panic!("Ts5oodmdn: expected Seq, got {other:?}") };
        assert_eq!(s.len(), 5, "Ts5oodmdn: component count");
        let _ = s;
        Ts5oodmdn {
            f0: s[0].as_ref().map(FromValue::from_value),
            f1: s[1].as_ref().map(FromValue::from_value),
            f2: FromValue::from_value(s[2].as_ref().expect("component f2 of Ts5oodmdn must be present")),
            f3: FromValue::from_value(s[3].as_ref().expect("component f3 of Ts5oodmdn must be present")),
            f4: FromValue::from_value(s[4].as_ref().expect("component f4 of Ts5oodmdn must be present")),
        }
    }
}
impl ToValue for Ts5oodmdn {
    fn to_value(&self) -> Value {
        Value::Seq(vec![
            self.f0.as_ref().map(|x| x.to_value()),
            self.f1.as_ref().map(|x| x.to_value()),
            Some(self.f2.to_value()),
            Some(self.f3.to_value()),
            Some(self.f4.to_value()),
        ])
    }
}
impl FromValue for Ts5oodmde0 {
    fn from_value(v: &Value) -> Self {
        let s = match v { Value::Seq(s) => s, other => panic!("Ts5oodmde0: expected Seq, got {other:?}") };
        assert_eq!(s.len(), 5, "Ts5oodmde0: component count");
        let _ = s;
        Ts5oodmde0 {
            f0: s[0].as_ref().map(FromValue::from_value),
            f1: s[1].as_ref().map(FromValue::from_value),
            f2: FromValue::from_value(s[2].as_ref().expect("component f2 of Ts5oodmde0 must be present")),
            f3: s[3].as_ref().map(FromValue::from_value),
            f4: FromValue::from_value(s[4].as_ref().expect("component f4 of Ts5oodmde0 must be present")),
        }
    }
}
impl ToValue for Ts5oodmde0 {
    fn to_value(&self) -> Value {
        Value::Seq(vec![
            self.f0.as_ref().map(|x| x.to_value()),
            self.f1.as_ref().map(|x| x.to_value()),
            Some(self.f2.to_value()),
            self.f3.as_ref().map(|x| x.to_value()),
            Some(self.f4.to_value()),
        ])
    }
}
impl FromValue for Ts5oodmde1 {
    fn from_value(v: &Value) -> Self {
        let s = match v { Value::Seq(s) => s, other => panic!("Ts5oodmde1: expected Seq, got {other:?}") };
        assert_eq!(s.len(), 5, "Ts5oodmde1: component count");
        let _ = s;
        Ts5oodmde1 {
            f0: s[0].as_ref().map(FromValue::from_value),
            f1: s[1].as_ref().map(FromValue::from_value),
            f2: FromValue::from_value(s[2].as_ref().expect("component f2 of Ts5oodmde1 must be present")),
            f3: s[3].as_ref().map(FromValue::from_value),
            f4: FromValue::from_value(s[4].as_ref().expect("component f4 of Ts5oodmde1 must be present")),
        }
    }
}
impl ToValue for Ts5oodmde1 {
    fn to_value(&self) -> Value {
        Value::Seq(vec![
            self.f0.as_ref().map(|x| x.to_value()),
            self.f1.as_ref().map(|x| x.to_value()),
            Some(self.f2.to_value()),
            self.f3.as_ref().map(|x| x.to_value()),
            Some(self.f4.to_value()),
        ])
    }
}
impl FromValue for Ts5oodmde2 {
    fn from_value(v: &Value) -> Self {
        let s = match v { Value::Seq(s) => s, other => panic!("Ts5oodmde2: expected Seq, got {other:?}") };
        assert_eq!(s.len(), 5, "Ts5oodmde2: component count");
        let _ = s;
        Ts5oodmde2 {
            f0: s[0].as_ref().map(FromValue::from_value),
            f1: s[1].as_ref().map(FromValue::from_value),
            f2: FromValue::from_value(s[2].as_ref().expect("component f2 of Ts5oodmde2 must be present")),
            f3: s[3].as_ref().map(FromValue::from_value),
            f4: FromValue::from_value(s[4].as_ref().expect("component f4 of Ts5oodmde2 must be present")),
        }
    }
}
impl ToValue for Ts5oodmde2 {
    fn to_value(&self) -> Value {
        Value::Seq(vec![
            self.f0.as_ref().map(|x| x.to_value()),
            self.f1.as_ref().map(|x| x.to_value()),
            Some(self.f2.to_value()),
            self.f3.as_ref().map(|x| x.to_value()),
            Some(self.f4.to_value()),
        ])
    }
}
impl FromValue for Ts5oodmde3 {
    fn from_value(v: &Value) -> Self {
        let s = match v { Value::Seq(s) => s, other => panic!("Ts5oodmde3: expected Seq, got {other:?}") };
        assert_eq!(s.len(), 5, "Ts5oodmde3: component count");
        let _ = s;
        Ts5oodmde3 {
            f0: s[0].as_ref().map(FromValue::from_value),
            f1: s[1].as_ref().map(FromValue::from_value),
            f2: FromValue::from_value(s[2].as_ref().expect("component f2 of Ts5oodmde3 must be present")),
            f3: s[3].as_ref().map(FromValue::from_value),
            f4: FromValue::from_value(s[4].as_ref().expect("component f4 of Ts5oodmde3 must be present")),
        }
    }
}
impl ToValue for Ts5oodmde3 {
    fn to_value(&self) -> Value {
        Value::Seq(vec![
            self.f0.as_ref().map(|x| x.to_value()),
            self.f1.as_ref().map(|x| x.to_value()),
            Some(self.f2.to_value()),
            self.f3.as_ref().map(|x| x.to_value()),
            Some(self.f4.to_value()),
        ])
    }
}
impl FromValue for Ts5oodmde4 {
    fn from_value(v: &Value) -> Self {
        let s = match v { Value::Seq(s) => s, other => panic!("Ts5oodmde4: expected Seq, got {other:?}") };
        assert_eq!(s.len(), 5, "Ts5oodmde4: component count");
        let _ = s;
        Ts5oodmde4 {
            f0: s[0].as_ref().map(FromValue::from_value),
            f1: s[1].as_ref().map(FromValue::from_value),
            f2: FromValue::from_value(s[2].as_ref().expect("component f2 of Ts5oodmde4 must be present")),
            f3: FromValue::from_value(s[3].as_ref().expect("component f3 of Ts5oodmde4 must be present")),
            f4: FromValue::from_value(s[4].as_ref().expect("component f4 of Ts5oodmde4 must be present")),
        }
    }
}
impl ToValue for Ts5oodmde4 {
    fn to_value(&self) -> Value {
        Value::Seq(vec![
            self.f0.as_ref().map(|x| x.to_value()),
            self.f1.as_ref().map(|x| x.to_value()),
            Some(self.f2.to_value()),
            Some(self.f3.to_value()),
            Some(self.f4.to_value()),
        ])
    }
}
impl FromValue for Ts5oodmde5 {
    fn from_value(v: &Value) -> Self {
        let s = match v { Value::Seq(s) => s, other => panic!("Ts5oodmde5: expected Seq, got {other:?}") };
        assert_eq!(s.len(), 5, "Ts5oodmde5: component count");
        let _ = s;
        Ts5oodmde5 {
            f0: s[0].as_ref().map(FromValue::from_value),
            f1: s[1].as_ref().map(FromValue::from_value),
            f2: FromValue::from_value(s[2].as_ref().expect("component f2 of Ts5oodmde5 must be present")),
            f3: FromValue::from_value(s[3].as_ref().expect("component f3 of Ts5oodmde5 must be present")),
            f4: FromValue::from_value(s[4].as_ref().expect("component f4 of Ts5oodmde5 must be present")),
        }
    }
}
impl ToValue for Ts5oodmde5 {
    fn to_value(&self) -> Value {
        Value::Seq(vec![
            self.f0.as_ref().map(|x| x.to_value()),
            self.f1.as_ref().map(|x| x.to_value()),
            Some(self.f2.to_value()),
            Some(self.f3.to_value()),
            Some(self.f4.to_value()),
        ])
    }
}
impl FromValue for Ts5dodmdn {
    fn from_value(v: &Value) -> Self {
        let s = match v { Value::Seq(s) => s, other => panic!("Ts5dodmdn: expected Seq, got {other:?}") };
        assert_eq!(s.len(), 5, "Ts5dodmdn: component count");
        let _ = s;
        Ts5dodmdn {
            f0: FromValue::from_value(s[0].as_ref().expect("component f0 of Ts5dodmdn must be present")),
            f1: s[1].as_ref().map(FromValue::from_value),
            f2: FromValue::from_value(s[2].as_ref().expect("component f2 of Ts5dodmdn must be present")),
            f3: FromValue::from_value(s[3].as_ref().expect("component f3 of Ts5dodmdn must be present")),
            f4: FromValue::from_value(s[4].as_ref().expect("component f4 of Ts5dodmdn must be present")),
        }
    }
}
impl ToValue for Ts5dodmdn {
    fn to_value(&self) -> Value {
        Value::Seq(vec![
            Some(self.f0.to_value()),
            self.f1.as_ref().map(|x| x.to_value()),
            Some(self.f2.to_value()),
            Some(self.f3.to_value()),
            Some(self.f4.to_value()),
        ])
    }
}
impl FromValue for Ts5dodmde0 {
    fn from_value(v: &Value) -> Self {
        let s = match v { Value::Seq(s) => s, other => panic!("Ts5dodmde0: expected Seq, got {other:?}") };
        assert_eq!(s.len(), 5, "Ts5dodmde0: component count");
        let _ = s;
        Ts5dodmde0 {
            f0: FromValue::from_value(s[0].as_ref().expect("component f0 of Ts5dodmde0 must be present")),
            f1: s[1].as_ref().map(FromValue::from_value),
            f2: FromValue::from_value(s[2].as_ref().expect("component f2 of Ts5dodmde0 must be present")),
            f3: s[3].as_ref().map(FromValue::from_value),
            f4: FromValue::from_value(s[4].as_ref().expect("component f4 of Ts5dodmde0 must be present")),
        }
    }
}
impl ToValue for Ts5dodmde0 {
    fn to_value(&self) -> Value {
        Value::Seq(vec![
            Some(self.f0.to_value()),
            self.f1.as_ref().map(|x| x.to_value()),
            Some(self.f2.to_value()),
            self.f3.as_ref().map(|x| x.to_value()),
            Some(self.f4.to_value()),
        ])
    }
}
impl FromValue for Ts5dodmde1 {
    fn from_value(v: &Value) -> Self {
        let s = match v { Value::Seq(s) => s, other => panic!("Ts5dodmde1: expected Seq, got {other:?}") };
        assert_eq!(s.len(), 5, "Ts5dodmde1: component count");
        let _ = s;
        Ts5dodmde1 {
            f0: FromValue::from_value(s[0].as_ref().expect("component f0 of Ts5dodmde1 must be present")),
            f1: s[1].as_ref().map(FromValue::from_value),
            f2: FromValue::from_value(s[2].as_ref().expect("component f2 of Ts5dodmde1 must be present")),
            f3: s[3].as_ref().map(FromValue::from_value),
            f4: FromValue::from_value(s[4].as_ref().expect("component f4 of Ts5dodmde1 must be present")),
        }
    }
}
impl ToValue for Ts5dodmde1 {
    fn to_value(&self) -> Value {
        Value::Seq(vec![
            Some(self.f0.to_value()),
            self.f1.as_ref().map(|x| x.to_value()),
            Some(self.f2.to_value()),
            self.f3.as_ref().map(|x| x.to_value()),
            Some(self.f4.to_value()),
        ])
    }
}
impl FromValue for Ts5dodmde2 {
    fn from_value(v: &Value) -> Self {
        let s = match v { Value::Seq(s) => s, other => panic!("Ts5dodmde2: expected Seq, got {other:?}") };
        assert_eq!(s.len(), 5, "Ts5dodmde2: component count");
        let _ = s;
        Ts5dodmde2 {
            f0: FromValue::from_value(s[0].as_ref().expect("component f0 of Ts5dodmde2 must be present")),
            f1: s[1].as_ref().map(FromValue::from_value),
            f2: FromValue::from_value(s[2].as_ref().expect("component f2 of Ts5dodmde2 must be present")),
            f3: s[3].as_ref().map(FromValue::from_value),
            f4: FromValue::from_value(s[4].as_ref().expect("component f4 of Ts5dodmde2 must be present")),
        }
    }
}
impl ToValue for Ts5dodmde2 {
    fn to_value(&self) -> Value {
        Value::Seq(vec![
            Some(self.f0.to_value()),
            self.f1.as_ref().map(|x| x.to_value()),
            Some(self.f2.to_value()),
            self.f3.as_ref().map(|x| x.to_value()),
            Some(self.f4.to_value()),
        ])
    }
}
impl FromValue for Ts5dodmde3 {
    fn from_value(v: &Value) -> Self {
        let s = match v { Value::Seq(s) => s, other => panic!("Ts5dodmde3: expected Seq, got {other:?}") };
        assert_eq!(s.len(), 5, "Ts5dodmde3: component count");
        let _ = s;
        Ts5dodmde3 {
            f0: FromValue::from_value(s[0].as_ref().expect("component f0 of Ts5dodmde3 must be present")),
            f1: s[1].as_ref().map(FromValue::from_value),
            f2: FromValue::from_value(s[2].as_ref().expect("component f2 of Ts5dodmde3 must be present")),
            f3: s[3].as_ref().map(FromValue::from_value),
            f4: FromValue::from_value(s[4].as_ref().expect("component f4 of Ts5dodmde3 must be present")),
        }
    }
}
impl ToValue for Ts5dodmde3 {
    fn to_value(&self) -> Value {
        Value::Seq(vec![
            Some(self.f0.to_value()),
            self.f1.as_ref().map(|x| x.to_value()),
            Some(self.f2.to_value()),
            self.f3.as_ref().map(|x| x.to_value()),
            Some(self.f4.to_value()),
        ])
    }
}
impl FromValue for Ts5dodmde4 {
    fn from_value(v: &Value) -> Self {
        let s = match v { Value::Seq(s) => s, other => panic!("Ts5dodmde4: expected Seq, got {other:?}") };
        assert_eq!(s.len(), 5, "Ts5dodmde4: component count");
        let _ = s;
        Ts5dodmde4 {
            f0: FromValue::from_value(s[0].as_ref().expect("component f0 of Ts5dodmde4 must be present")),
            f1: s[1].as_ref().map(FromValue::from_value),
            f2: FromValue::from_value(s[2].as_ref().expect("component f2 of Ts5dodmde4 must be present")),
            f3: FromValue::from_value(s[3].as_ref().expect("component f3 of Ts5dodmde4 must be present")),
            f4: FromValue::from_value(s[4].as_ref().expect("component f4 of Ts5dodmde4 must be present")),
        }
    }
}
impl ToValue for Ts5dodmde4 {
    fn to_value(&self) -> Value {
        Value::Seq(vec![
            Some(self.f0.to_value()),
            self.f1.as_ref().map(|x| x.to_value()),
            Some(self.f2.to_value()),
            Some(self.f3.to_value()),
            Some(self.f4.to_value()),
        ])
    }
}
impl FromValue for Ts5dodmde5 {
    fn from_value(v: &Value) -> Self {
        let s = match v { Value::Seq(s) => s, other => panic!("Ts5dodmde5: expected Seq, got {other:?}") };
        assert_eq!(s.len(), 5, "Ts5dodmde5: component count");
        let _ = s;
        Ts5dodmde5 {
            f0: FromValue::from_value(s[0].as_ref().expect("component f0 of Ts5dodmde5 must be present")),
            f1: s[1].as_ref().map(FromValue::from_value),
            f2: FromValue::from_value(s[2].as_ref().expect("component f2 of Ts5dodmde5 must be present")),
            f3: FromValue::from_value(s[3].as_ref().expect("component f3 of Ts5dodmde5 must be present")),
            f4: FromValue::from_value(s[4].as_ref().expect("component f4 of Ts5dodmde5 must be present")),
        }
    }
}
impl ToValue for Ts5dodmde5 {
    fn to_value(&self) -> Value {
        Value::Seq(vec![
            Some(self.f0.to_value()),
            self.f1.as_ref().map(|x| x.to_value()),
            Some(self.f2.to_value()),
            Some(self.f3.to_value()),
            Some(self.f4.to_value()),
        ])
    }
}
impl FromValue for Ts5mddmdn {
    fn from_value(v: &Value) -> Self {
        let s = match v { Value::Seq(s) => s, other => panic!("Ts5mddmdn: expected Seq, got {other:?}") };
        assert_eq!(s.len(), 5, "Ts5mddmdn: component count");
        let _ = s;
        Ts5mddmdn {
            f0: FromValue::from_value(s[0].as_ref().expect("component f0 of Ts5mddmdn must be present")),
            f1: FromValue::from_value(s[1].as_ref().expect("component f1 of Ts5mddmdn must be present")),
            f2: FromValue::from_value(s[2].as_ref().expect("component f2 of Ts5mddmdn must be present")),
            f3: FromValue::from_value(s[3].as_ref().expect("component f3 of Ts5mddmdn must be present")),
            f4: FromValue::from_value(s[4].as_ref().expect("component f4 of Ts5mddmdn must be present")),
        }
    }
}
impl ToValue for Ts5mddmdn {
    fn to_value(&self) -> Value {
        Value::Seq(vec![
            Some(self.f0.to_value()),
            Some(self.f1.to_value()),
            Some(self.f2.to_value()),
            Some(self.f3.to_value()),
            Some(self.f4.to_value()),
        ])
    }
}
impl FromValue for Ts5mddmde0 {
    fn from_value(v: &Value) -> Self {
        let s = match v { Value::Seq(s) => s, other => panic!("Ts5mddmde0: expected Seq, got {other:?}") };
        assert_eq!(s.len(), 5, "Ts5mddmde0: component count");
        let _ = s;
        Ts5mddmde0 {
            f0: FromValue::from_value(s[0].as_ref().expect("component f0 of Ts5mddmde0 must be present")),
            f1: FromValue::from_value(s[1].as_ref().expect("component f1 of Ts5mddmde0 must be present")),
            f2: FromValue::from_value(s[2].as_ref().expect("component f2 of Ts5mddmde0 must be present")),
            f3: s[3].as_ref().map(FromValue::from_value),
            f4: FromValue::from_value(s[4].as_ref().expect("component f4 of Ts5mddmde0 must be present")),
        }
    }
}
impl ToValue for Ts5mddmde0 {
    fn to_value(&self) -> Value {
        Value::Seq(vec![
            Some(self.f0.to_value()),
            Some(self.f1.to_value()),
            Some(self.f2.to_value()),
            self.f3.as_ref().map(|x| x.to_value()),
            Some(self.f4.to_value()),
        ])
    }
}
impl FromValue for Ts5mddmde1 {
    fn from_value(v: &Value) -> Self {
        let s = match v { Value::Seq(s) => s, other => panic!("Ts5mddmde1: expected Seq, got {other:?}") };
        assert_eq!(s.len(), 5, "Ts5mddmde1: component count");
        let _ = s;
        Ts5mddmde1 {
            f0: FromValue::from_value(s[0].as_ref().expect("component f0 of Ts5mddmde1 must be present")),
            f1: FromValue::from_value(s[1].as_ref().expect("component f1 of Ts5mddmde1 must be present")),
            f2: FromValue::from_value(s[2].as_ref().expect("component f2 of Ts5mddmde1 must be present")),
            f3: s[3].as_ref().map(FromValue::from_value),
            f4: FromValue::from_value(s[4].as_ref().expect("component f4 of Ts5mddmde1 must be present")),
        }
    }
}
impl ToValue for Ts5mddmde1 {
    fn to_value(&self) -> Value {
        Value::Seq(vec![
            Some(self.f0.to_value()),
            Some(self.f1.to_value()),
            Some(self.f2.to_value()),
            self.f3.as_ref().map(|x| x.to_value()),
            Some(self.f4.to_value()),
        ])
    }
}
impl FromValue for Ts5mddmde2 {
    fn from_value(v: &Value) -> Self {
        let s = match v { Value::Seq(s) => s, other => panic!("Ts5mddmde2: expected Seq, got {other:?}") };
        assert_eq!(s.len(), 5, "Ts5mddmde2: component count");
        let _ = s;
        Ts5mddmde2 {
            f0: FromValue::from_value(s[0].as_ref().expect("component f0 of Ts5mddmde2 must be present")),
            f1: FromValue::from_value(s[1].as_ref().expect("component f1 of Ts5mddmde2 must be present")),
            f2: FromValue::from_value(s[2].as_ref().expect("component f2 of Ts5mddmde2 must be present")),
            f3: s[3].as_ref().map(FromValue::from_value),
            f4: FromValue::from_value(s[4].as_ref().expect("component f4 of Ts5mddmde2 must be present")),
        }
    }
}
impl ToValue for Ts5mddmde2 {
    fn to_value(&self) -> Value {
        Value::Seq(vec![
            Some(self.f0.to_value()),
            Some(self.f1.to_value()),
            Some(self.f2.to_value()),
            self.f3.as_ref().map(|x| x.to_value()),
            Some(self.f4.to_value()),
        ])
    }
}
impl FromValue for Ts5mddmde3 {
    fn from_value(v: &Value) -> Self {
        let s = match v { Value::Seq(s) => s, other => panic!("Ts5mddmde3: expected Seq, got {other:?}") };
        assert_eq!(s.len(), 5, "Ts5mddmde3: component count");
        let _ = s;
        Ts5mddmde3 {
            f0: FromValue::from_value(s[0].as_ref().expect("component f0 of Ts5mddmde3 must be present")),
            f1: FromValue::from_value(s[1].as_ref().expect("component f1 of Ts5mddmde3 must be present")),
            f2: FromValue::from_value(s[2].as_ref().expect("component f2 of Ts5mddmde3 must be present")),
            f3: s[3].as_ref().map(FromValue::from_value),
            f4: FromValue::from_value(s[4].as_ref().expect("component f4 of Ts5mddmde3 must be present")),
        }
    }
}
impl ToValue for Ts5mddmde3 {
    fn to_value(&self) -> Value {
        Value::Seq(vec![
            Some(self.f0.to_value()),
            Some(self.f1.to_value()),
            Some(self.f2.to_value()),
            self.f3.as_ref().map(|x| x.to_value()),
            Some(self.f4.to_value()),
        ])
    }
}
impl FromValue for Ts5mddmde4 {
    fn from_value(v: &Value) -> Self {
        let s = match v { Value::Seq(s) => s, other => panic!("Ts5mddmde4: expected Seq, got {other:?}") };
        assert_eq!(s.len(), 5, "Ts5mddmde4: component count");
        let _ = s;
        Ts5mddmde4 {
            f0: FromValue::from_value(s[0].as_ref().expect("component f0 of Ts5mddmde4 must be present")),
            f1: FromValue::from_value(s[1].as_ref().expect("component f1 of Ts5mddmde4 must be present")),
            f2: FromValue::from_value(s[2].as_ref().expect("component f2 of Ts5mddmde4 must be present")),
            f3: FromValue::from_value(s[3].as_ref().expect("component f3 of Ts5mddmde4 must be present")),
            f4: FromValue::from_value(s[4].as_ref().expect("component f4 of Ts5mddmde4 must be present")),
        }
    }
}
impl ToValue for Ts5mddmde4 {
    fn to_value(&self) -> Value {
        Value::Seq(vec![
            Some(self.f0.to_value()),
            Some(self.f1.to_value()),
            Some(self.f2.to_value()),
            Some(self.f3.to_value()),
            Some(self.f4.to_value()),
        ])
    }
}
impl FromValue for Ts5mddmde5 {
    fn from_value(v: &Value) -> Self {
        let s = match v { Value::Seq(s) => s, other => panic!("Ts5mddmde5: expected Seq, got {other:?}") };
        assert_eq!(s.len(), 5, "Ts5mddmde5: component count");
        let _ = s;
        Ts5mddmde5 {
            f0: FromValue::from_value(s[0].as_ref().expect("component f0 of Ts5mddmde5 must be present")),
            f1: FromValue::from_value(s[1].as_ref().expect("component f1 of Ts5mddmde5 must be present")),
            f2: FromValue::from_value(s[2].as_ref().expect("component f2 of Ts5mddmde5 must be present")),
            f3: FromValue::from_value(s[3].as_ref().expect("component f3 of Ts5mddmde5 must be present")),
            f4: FromValue::from_value(s[4].as_ref().expect("component f4 of Ts5mddmde5 must be present")),
        }
    }
}
impl ToValue for Ts5mddmde5 {
    fn to_value(&self) -> Value {
        Value::Seq(vec![
            Some(self.f0.to_value()),
            Some(self.f1.to_value()),
            Some(self.f2.to_value()),
            Some(self.f3.to_value()),
            Some(self.f4.to_value()),
        ])
    }
}
impl FromValue for Ts5oddmdn {
    fn from_value(v: &Value) -> Self {
        let s = match v { Value::Seq(s) => s, other => panic!("Ts5oddmdn: expected Seq, got {other:?}") };
        assert_eq!(s.len(), 5, "Ts5oddmdn: component count");
        let _ = s;
        Ts5oddmdn {
            f0: s[0].as_ref().map(FromValue::from_value),
            f1: FromValue::from_value(s[1].as_ref().expect("component f1 of Ts5oddmdn must be present")),
            f2: FromValue::from_value(s[2].as_ref().expect("component f2 of Ts5oddmdn must be present")),
            f3: FromValue::from_value(s[3].as_ref().expect("component f3 of Ts5oddmdn must be present")),
            f4: FromValue::from_value(s[4].as_ref().expect("component f4 of Ts5oddmdn must be present")),
        }
    }
}
impl ToValue for Ts5oddmdn {
    fn to_value(&self) -> Value {
        Value::Seq(vec![
            self.f0.as_ref().map(|x| x.to_value()),
            Some(self.f1.to_value()),
            Some(self.f2.to_value()),
            Some(self.f3.to_value()),
            Some(self.f4.to_value()),
        ])
    }
}
impl FromValue for Ts5oddmde0 {
    fn from_value(v: &Value) -> Self {
        let s = match v { Value::Seq(s) => s, other => panic!("Ts5oddmde0: expected Seq, got {other:?}") };
        assert_eq!(s.len(), 5, "Ts5oddmde0: component count");
        let _ = s;
        Ts5oddmde0 {
            f0: s[0].as_ref().map(FromValue::from_value),
            f1: FromValue::from_value(s[1].as_ref().expect("component f1 of Ts5oddmde0 must be present")),
            f2: FromValue::from_value(s[2].as_ref().expect("component f2 of Ts5oddmde0 must be present")),
            f3: s[3].as_ref().map(FromValue::from_value),
            f4: FromValue::from_value(s[4].as_ref().expect("component f4 of Ts5oddmde0 must be present")),
        }
    }
}
impl ToValue for Ts5oddmde0 {
    fn to_value(&self) -> Value {
        Value::Seq(vec![
            self.f0.as_ref().map(|x| x.to_value()),
            Some(self.f1.to_value()),
            Some(self.f2.to_value()),
            self.f3.as_ref().map(|x| x.to_value()),
            Some(self.f4.to_value()),
        ])
    }
}
impl FromValue for Ts5oddmde1 {
    fn from_value(v: &Value) -> Self {
        let s = match v { Value::Seq(s) => s, other => panic!("Ts5oddmde1: expected Seq, got {other:?}") };
        assert_eq!(s.len(), 5, "Ts5oddmde1: component count");
        let _ = s;
        Ts5oddmde1 {
            f0: s[0].as_ref().map(FromValue::from_value),
            f1: FromValue::from_value(s[1].as_ref().expect("component f1 of Ts5oddmde1 must be present")),
            f2: FromValue::from_value(s[2].as_ref().expect("component f2 of Ts5oddmde1 must be present")),
            f3: s[3].as_ref().map(FromValue::from_value),
            f4: FromValue::from_value(s[4].as_ref().expect("component f4 of Ts5oddmde1 must be present")),
        }
    }
}
impl ToValue for Ts5oddmde1 {
    fn to_value(&self) -> Value {
        Value::Seq(vec![
            self.f0.as_ref().map(|x| x.to_value()),
            Some(self.f1.to_value()),
            Some(self.f2.to_value()),
            self.f3.as_ref().map(|x| x.to_value()),
            Some(self.f4.to_value()),
        ])
    }
}
impl FromValue for Ts5oddmde2 {
    fn from_value(v: &Value) -> Self {
        let s = match v { Value::Seq(s) => s, other => panic!("Ts5oddmde2: expected Seq, got {other:?}") };
        assert_eq!(s.len(), 5, "Ts5oddmde2: component count");
        let _ = s;
        Ts5oddmde2 {
            f0: s[0].as_ref().map(FromValue::from_value),
            f1: FromValue::from_value(s[1].as_ref().expect("component f1 of Ts5oddmde2 must be present")),
            f2: FromValue::from_value(s[2].as_ref().expect("component f2 of Ts5oddmde2 must be present")),
            f3: s[3].as_ref().map(FromValue::from_value),
            f4: FromValue::from_value(s[4].as_ref().expect("component f4 of Ts5oddmde2 must be present")),
        }
    }
}
impl ToValue for Ts5oddmde2 {
    fn to_value(&self) -> Value {
        Value::Seq(vec![
            self.f0.as_ref().map(|x| x.to_value()),
            Some(self.f1.to_value()),
            Some(self.f2.to_value()),
            self.f3.as_ref().map(|x| x.to_value()),
            Some(self.f4.to_value()),
        ])
    }
}
impl FromValue for Ts5oddmde3 {
    fn from_value(v: &Value) -> Self {
        let s = match v { Value::Seq(s) => s, other => panic!("Ts5oddmde3: expected Seq, got {other:?}") };
        assert_eq!(s.len(), 5, "Ts5oddmde3: component count");
        let _ = s;
        Ts5oddmde3 {
            f0: s[0].as_ref().map(FromValue::from_value),
            f1: FromValue::from_value(s[1].as_ref().expect("component f1 of Ts5oddmde3 must be present")),
            f2: FromValue::from_value(s[2].as_ref().expect("component f2 of Ts5oddmde3 must be present")),
            f3: s[3].as_ref().map(FromValue::from_value),
            f4: FromValue::from_value(s[4].as_ref().expect("component f4 of Ts5oddmde3 must be present")),
        }
    }
}
impl ToValue for Ts5oddmde3 {
    fn to_value(&self) -> Value {
        Value::Seq(vec![
            self.f0.as_ref().map(|x| x.to_value()),
            Some(self.f1.to_value()),
            Some(self.f2.to_value()),
            self.f3.as_ref().map(|x| x.to_value()),
            Some(self.f4.to_value()),
        ])
    }
}
impl FromValue for Ts5oddmde4 {
    fn from_value(v: &Value) -> Self {
        let s = match v { Value::Seq(s) => s, other => panic!("Ts5oddmde4: expected Seq, got {other:?}") };
        assert_eq!(s.len(), 5, "Ts5oddmde4: component count");
        let _ = s;
        Ts5oddmde4 {
            f0: s[0].as_ref().map(FromValue::from_value),
            f1: FromValue::from_value(s[1].as_ref().expect("component f1 of Ts5oddmde4 must be present")),
            f2: FromValue::from_value(s[2].as_ref().expect("component f2 of Ts5oddmde4 must be present")),
            f3: FromValue::from_value(s[3].as_ref().expect("component f3 of Ts5oddmde4 must be present")),
            f4: FromValue::from_value(s[4].as_ref().expect("component f4 of Ts5oddmde4 must be present")),
        }
    }
}
impl ToValue for Ts5oddmde4 {
    fn to_value(&self) -> Value {
        Value::Seq(vec![
            self.f0.as_ref().map(|x| x.to_value()),
            Some(self.f1.to_value()),
            Some(self.f2.to_value()),
            Some(self.f3.to_value()),
            Some(self.f4.to_value()),
        ])
    }
}
impl FromValue for Ts5oddmde5 {
    fn from_value(v: &Value) -> Self {
        let s = match v { Value::Seq(s) => s, other => panic!("Ts5oddmde5: expected Seq, got {other:?}") };
        assert_eq!(s.len(), 5, "Ts5oddmde5: component count");
        let _ = s;
        Ts5oddmde5 {
            f0: s[0].as_ref().map(FromValue::from_value),
            f1: FromValue::from_value(s[1].as_ref().expect("component f1 of Ts5oddmde5 must be present")),
            f2: FromValue::from_value(s[2].as_ref().expect("component f2 of Ts5oddmde5 must be present")),
            f3: FromValue::from_value(s[3].as_ref().expect("component f3 of Ts5oddmde5 must be present")),
            f4: FromValue::from_value(s[4].as_ref().expect("component f4 of Ts5oddmde5 must be present")),
        }
    }
}
impl ToValue for Ts5oddmde5 {
    fn to_value(&self) -> Value {
        Value::Seq(vec![
            self.f0.as_ref().map(|x| x.to_value()),
            Some(self.f1.to_value()),
            Some(self.f2.to_value()),
            Some(self.f3.to_value()),
            Some(self.f4.to_value()),
        ])
    }
}
impl FromValue for Ts5dddmdn {
    fn from_value(v: &Value) -> Self {
        let s = match v { Value::Seq(s) => s, other => panic!("Ts5dddmdn: expected Seq, got {other:?}") };
        assert_eq!(s.len(), 5, "Ts5dddmdn: component count");
        let _ = s;
        Ts5dddmdn {
            f0: FromValue::from_value(s[0].as_ref().expect("component f0 of Ts5dddmdn must be present")),
            f1: FromValue::from_value(s[1].as_ref().expect("component f1 of Ts5dddmdn must be present")),
            f2: FromValue::from_value(s[2].as_ref().expect("component f2 of Ts5dddmdn must be present")),
            f3: FromValue::from_value(s[3].as_ref().expect("component f3 of Ts5dddmdn must be present")),
            f4: FromValue::from_value(s[4].as_ref().expect("component f4 of Ts5dddmdn must be present")),
        }
    }
}
impl ToValue for Ts5dddmdn {
    fn to_value(&self) -> Value {
        Value::Seq(vec![
            Some(self.f0.to_value()),
            Some(self.f1.to_value()),
            Some(self.f2.to_value()),
            Some(self.f3.to_value()),
            Some(self.f4.to_value()),
        ])
    }
}
impl FromValue for Ts5dddmde0 {
    fn from_value(v: &Value) -> Self {
        let s = match v { Value::Seq(s) => s, other => panic!("Ts5dddmde0: expected Seq, got {other:?}") };
        assert_eq!(s.len(), 5, "Ts5dddmde0: component count");
        let _ = s;
        Ts5dddmde0 {
            f0: FromValue::from_value(s[0].as_ref().expect("component f0 of Ts5dddmde0 must be present")),
            f1: FromValue::from_value(s[1].as_ref().expect("component f1 of Ts5dddmde0 must be present")),
            f2: FromValue::from_value(s[2].as_ref().expect("component f2 of Ts5dddmde0 must be present")),
            f3: s[3].as_ref().map(FromValue::from_value),
            f4: FromValue::from_value(s[4].as_ref().expect("component f4 of Ts5dddmde0 must be present")),
        }
    }
}
impl ToValue for Ts5dddmde0 {
    fn to_value(&self) -> Value {
        Value::Seq(vec![
            Some(self.f0.to_value()),
            Some(self.f1.to_value()),
            Some(self.f2.to_value()),
            self.f3.as_ref().map(|x| x.to_value()),
            Some(self.f4.to_value()),
        ])
    }
}
impl FromValue for Ts5dddmde1 {
    fn from_value(v: &Value) -> Self {
        let s = match v { Value::Seq(s) => s, other => panic!("Ts5dddmde1: expected Seq, got {other:?}") };
        assert_eq!(s.len(), 5, "Ts5dddmde1: component count");
        let _ = s;
        Ts5dddmde1 {
            f0: FromValue::from_value(s[0].as_ref().expect("component f0 of Ts5dddmde1 must be present")),
            f1: FromValue::from_value(s[1].as_ref().expect("component f1 of Ts5dddmde1 must be present")),
            f2: FromValue::from_value(s[2].as_ref().expect("component f2 of Ts5dddmde1 must be present")),
            f3: s[3].as_ref().map(FromValue::from_value),
            f4: FromValue::from_value(s[4].as_ref().expect("component f4 of Ts5dddmde1 must be present")),
        }
    }
}
impl ToValue for Ts5dddmde1 {
    fn to_value(&self) -> Value {
        Value::Seq(vec![
            Some(self.f0.to_value()),
            Some(self.f1.to_value()),
            Some(self.f2.to_value()),
            self.f3.as_ref().map(|x| x.to_value()),
            Some(self.f4.to_value()),
        ])
    }
}
impl FromValue for Ts5dddmde2 {
    fn from_value(v: &Value) -> Self {
        let s = match v { Value::Seq(s) => s, other => panic!("Ts5dddmde2: expected Seq, got {other:?}") };
        assert_eq!(s.len(), 5, "Ts5dddmde2: component count");
        let _ = s;
        Ts5dddmde2 {
            f0: FromValue::from_value(s[0].as_ref().expect("component f0 of Ts5dddmde2 must be present")),
            f1: FromValue::from_value(s[1].as_ref().expect("component f1 of Ts5dddmde2 must be present")),
            f2: FromValue::from_value(s[2].as_ref().expect("component f2 of Ts5dddmde2 must be present")),
            f3: s[3].as_ref().map(FromValue::from_value),
            f4: FromValue::from_value(s[4].as_ref().expect("component f4 of Ts5dddmde2 must be present")),
        }
    }
}
impl ToValue for Ts5dddmde2 {
    fn to_value(&self) -> Value {
        Value::Seq(vec![
            Some(self.f0.to_value()),
            Some(self.f1.to_value()),
            Some(self.f2.to_value()),
            self.f3.as_ref().map(|x| x.to_value()),
            Some(self.f4.to_value()),
        ])
    }
}

use asn1rs::prelude::*;

#[asn(sequence, extensible_after(f0))]

#[derive(Default, Debug, Clone, PartialEq, Hash)]
pub struct Ts5odmome1 {
    #[asn(optional(integer(0..7)))] pub f0: Option<u8>,
    #[asn(default(integer(0..7), 5))] pub f1: u8,
    #[asn(optional(integer(0..7)))] pub f2: Option<u8>,
    #[asn(optional(integer(0..7)))] pub f3: Option<u8>,
    #[asn(optional(integer(0..7)))] pub f4: Option<u8>,
}

impl Ts5odmome1 {
    pub const fn f0_min() -> u8 {
        0
    }

    pub const fn f0_max() -> u8 {
        7
    }

    pub const fn f1_min() -> u8 {
        0
    }

    pub const fn f1_max() -> u8 {
        7
    }

    pub const fn f2_min() -> u8 {
        0
    }

    pub const fn f2_max() -> u8 {
        7
    }

    pub const fn f3_min() -> u8 {
        0
    }

    pub const fn f3_max() -> u8 {
        7
    }

    pub const fn f4_min() -> u8 {
        0
    }

    pub const fn f4_max() -> u8 {
        7
    }
}

#[asn(sequence, extensible_after(f1))]

#[derive(Default, Debug, Clone, PartialEq, Hash)]
pub struct Ts5odmome2 {
    #[asn(optional(integer(0..7)))] pub f0: Option<u8>,
    #[asn(default(integer(0..7), 5))] pub f1: u8,
    #[asn(optional(integer(0..7)))] pub f2: Option<u8>,
    #[asn(optional(integer(0..7)))] pub f3: Option<u8>,
    #[asn(optional(integer(0..7)))] pub f4: Option<u8>,
}

impl Ts5odmome2 {
    pub const fn f0_min() -> u8 {
        0
    }

    pub const fn f0_max() -> u8 {
        7
    }

    pub const fn f1_min() -> u8 {
        0
    }

    pub const fn f1_max() -> u8 {
        7
    }

    pub const fn f2_min() -> u8 {
        0
    }

    pub const fn f2_max() -> u8 {
        7
    }

    pub const fn f3_min() -> u8 {
        0
    }

    pub const fn f3_max() -> u8 {
        7
    }

    pub const fn f4_min() -> u8 {
        0
    }

    pub const fn f4_max() -> u8 {
        7
    }
}

#[asn(sequence, extensible_after(f2))]

#[derive(Default, Debug, Clone, PartialEq, Hash)]
pub struct Ts5odmome3 {
    #[asn(optional(integer(0..7)))] pub f0: Option<u8>,
    #[asn(default(integer(0..7), 5))] pub f1: u8,
    #[asn(integer(0..7))] pub f2: u8,
    #[asn(optional(integer(0..7)))] pub f3: Option<u8>,
    #[asn(optional(integer(0..7)))] pub f4: Option<u8>,
}

impl Ts5odmome3 {
    pub const fn f0_min() -> u8 {
        0
    }

    pub const fn f0_max() -> u8 {
        7
    }

    pub const fn f1_min() -> u8 {
        0
    }

    pub const fn f1_max() -> u8 {
        7
    }

    pub const fn f2_min() -> u8 {
        0
    }

    pub const fn f2_max() -> u8 {
        7
    }

    pub const fn f3_min() -> u8 {
        0
    }

    pub const fn f3_max() -> u8 {
        7
    }

    pub const fn f4_min() -> u8 {
        0
    }

    pub const fn f4_max() -> u8 {
        7
    }
}

#[asn(sequence, extensible_after(f3))]

#[derive(Default, Debug, Clone, PartialEq, Hash)]
pub struct Ts5odmome4 {
    #[asn(optional(integer(0..7)))] pub f0: Option<u8>,
    #[asn(default(integer(0..7), 5))] pub f1: u8,
    #[asn(integer(0..7))] pub f2: u8,
    #[asn(optional(integer(0..7)))] pub f3: Option<u8>,
    #[asn(optional(integer(0..7)))] pub f4: Option<u8>,
}

impl Ts5odmome4 {
    pub const fn f0_min() -> u8 {
        0
    }

    pub const fn f0_max() -> u8 {
        7
    }

    pub const fn f1_min() -> u8 {
        0
    }

    pub const fn f1_max() -> u8 {
        7
    }

    pub const fn f2_min() -> u8 {
        0
    }

    pub const fn f2_max() -> u8 {
        7
    }

    pub const fn f3_min() -> u8 {
        0
    }

    pub const fn f3_max() -> u8 {
        7
    }

    pub const fn f4_min() -> u8 {
        0
    }

    pub const fn f4_max() -> u8 {
        7
    }
}

#[asn(sequence, extensible_after(f4))]

#[derive(Default, Debug, Clone, PartialEq, Hash)]
pub struct Ts5odmome5 {
    #[asn(optional(integer(0..7)))] pub f0: Option<u8>,
    #[asn(default(integer(0..7), 5))] pub f1: u8,
    #[asn(integer(0..7))] pub f2: u8,
    #[asn(optional(integer(0..7)))] pub f3: Option<u8>,
    #[asn(integer(0..7))] pub f4: u8,
}

impl Ts5odmome5 {
    pub const fn f0_min() -> u8 {
        0
    }

    pub const fn f0_max() -> u8 {
        7
    }

    pub const fn f1_min() -> u8 {
        0
    }

    pub const fn f1_max() -> u8 {
        7
    }

    pub const fn f2_min() -> u8 {
        0
    }

    pub const fn f2_max() -> u8 {
        7
    }

    pub const fn f3_min() -> u8 {
        0
    }

    pub const fn f3_max() -> u8 {
        7
    }

    pub const fn f4_min() -> u8 {
        0
    }

    pub const fn f4_max() -> u8 {
        7
    }
}

#[asn(sequence)]

#[derive(Default, Debug, Clone, PartialEq, Hash)]
pub struct Ts5ddmomn {
    #[asn(default(integer(0..7), 5))] pub f0: u8,
    #[asn(default(integer(0..7), 5))] pub f1: u8,
    #[asn(integer(0..7))] pub f2: u8,
    #[asn(optional(integer(0..7)))] pub f3: Option<u8>,
    #[asn(integer(0..7))] pub f4: u8,
}

impl Ts5ddmomn {
    pub const fn f0_min() -> u8 {
        0
    }

    pub const fn f0_max() -> u8 {
        7
    }

    pub const fn f1_min() -> u8 {
        0
    }

    pub const fn f1_max() -> u8 {
        7
    }

    pub const fn f2_min() -> u8 {
        0
    }

    pub const fn f2_max() -> u8 {
        7
    }

    pub const fn f3_min() -> u8 {
        0
    }

    pub const fn f3_max() -> u8 {
        7
    }

    pub const fn f4_min() -> u8 {
        0
    }

    pub const fn f4_max() -> u8 {
        7
    }
}

#[asn(sequence, extensible_after(f0))]

#[derive(Default, Debug, Clone, PartialEq, Hash)]
pub struct Ts5ddmome0 {
    #[asn(default(integer(0..7), 5))] pub f0: u8,
    #[asn(default(integer(0..7), 5))] pub f1: u8,
    #[asn(optional(integer(0..7)))] pub f2: Option<u8>,
    #[asn(optional(integer(0..7)))] pub f3: Option<u8>,
    #[asn(optional(integer(0..7)))] pub f4: Option<u8>,
}

impl Ts5ddmome0 {
    pub const fn f0_min() -> u8 {
        0
    }

    pub const fn f0_max() -> u8 {
        7
    }

    pub const fn f1_min() -> u8 {
        0
    }

    pub const fn f1_max() -> u8 {
        7
    }

    pub const fn f2_min() -> u8 {
        0
    }

    pub const fn f2_max() -> u8 {
        7
    }

    pub const fn f3_min() -> u8 {
        0
    }

    pub const fn f3_max() -> u8 {
        7
    }

    pub const fn f4_min() -> u8 {
        0
    }

    pub const fn f4_max() -> u8 {
        7
    }
}

#[asn(sequence, extensible_after(f0))]

#[derive(Default, Debug, Clone, PartialEq, Hash)]
pub struct Ts5ddmome1 {
    #[asn(default(integer(0..7), 5))] pub f0: u8,
    #[asn(default(integer(0..7), 5))] pub f1: u8,
    #[asn(optional(integer(0..7)))] pub f2: Option<u8>,
    #[asn(optional(integer(0..7)))] pub f3: Option<u8>,
    #[asn(optional(integer(0..7)))] pub f4: Option<u8>,
}

impl Ts5ddmome1 {
    pub const fn f0_min() -> u8 {
        0
    }

    pub const fn f0_max() -> u8 {
        7
    }

    pub const fn f1_min() -> u8 {
        0
    }

    pub const fn f1_max() -> u8 {
        7
    }

    pub const fn f2_min() -> u8 {
        0
    }

    pub const fn f2_max() -> u8 {
        7
    }

    pub const fn f3_min() -> u8 {
        0
    }

    pub const fn f3_max() -> u8 {
        7
    }

    pub const fn f4_min() -> u8 {
        0
    }

    pub const fn f4_max() -> u8 {
        7
    }
}

#[asn(sequence, extensible_after(f1))]

#[derive(Default, Debug, Clone, PartialEq, Hash)]
pub struct Ts5ddmome2 {
    #[asn(default(integer(0..7), 5))] pub f0: u8,
    #[asn(default(integer(0..7), 5))] pub f1: u8,
    #[asn(optional(integer(0..7)))] pub f2: Option<u8>,
    #[asn(optional(integer(0..7)))] pub f3: Option<u8>,
    #[asn(optional(integer(0..7)))] pub f4: Option<u8>,
}

impl Ts5ddmome2 {
    pub const fn f0_min() -> u8 {
        0
    }

    pub const fn f0_max() -> u8 {
        7
    }

    pub const fn f1_min() -> u8 {
        0
    }

    pub const fn f1_max() -> u8 {
        7
    }

    pub const fn f2_min() -> u8 {
        0
    }

    pub const fn f2_max() -> u8 {
        7
    }

    pub const fn f3_min() -> u8 {
        0
    }

    pub const fn f3_max() -> u8 {
        7
    }

    pub const fn f4_min() -> u8 {
        0
    }

    pub const fn f4_max() -> u8 {
        7
    }
}

#[asn(sequence, extensible_after(f2))]

#[derive(Default, Debug, Clone, PartialEq, Hash)]
pub struct Ts5ddmome3 {
    #[asn(default(integer(0..7), 5))] pub f0: u8,
    #[asn(default(integer(0..7), 5))] pub f1: u8,
    #[asn(integer(0..7))] pub f2: u8,
    #[asn(optional(integer(0..7)))] pub f3: Option<u8>,
    #[asn(optional(integer(0..7)))] pub f4: Option<u8>,
}

impl Ts5ddmome3 {
    pub const fn f0_min() -> u8 {
        0
    }

    pub const fn f0_max() -> u8 {
        7
    }

    pub const fn f1_min() -> u8 {
        0
    }

    pub const fn f1_max() -> u8 {
        7
    }

    pub const fn f2_min() -> u8 {
        0
    }

    pub const fn f2_max() -> u8 {
        7
    }

    pub const fn f3_min() -> u8 {
        0
    }

    pub const fn f3_max() -> u8 {
        7
    }

    pub const fn f4_min() -> u8 {
        0
    }

    pub const fn f4_max() -> u8 {
        7
    }
}

#[asn(sequence, extensible_after(f3))]

#[derive(Default, Debug, Clone, PartialEq, Hash)]
pub struct Ts5ddmome4 {
    #[asn(default(integer(0..7), 5))] pub f0: u8,
    #[asn(default(integer(0..7), 5))] pub f1: u8,
    #[asn(integer(0..7))] pub f2: u8,
    #[asn(optional(integer(0..7)))] pub f3: Option<u8>,
    #[asn(optional(integer(0..7)))] pub f4: Option<u8>,
}

impl Ts5ddmome4 {
    pub const fn f0_min() -> u8 {
        0
    }

    pub const fn f0_max() -> u8 {
        7
    }

    pub const fn f1_min() -> u8 {
        0
    }

    pub const fn f1_max() -> u8 {
        7
    }

    pub const fn f2_min() -> u8 {
        0
    }

    pub const fn f2_max() -> u8 {
        7
    }

    pub const fn f3_min() -> u8 {
        0
    }

    pub const fn f3_max() -> u8 {
        7
    }

    pub const fn f4_min() -> u8 {
        0
    }

    pub const fn f4_max() -> u8 {
        7
    }
}

#[asn(sequence, extensible_after(f4))]

#[derive(Default, Debug, Clone, PartialEq, Hash)]
pub struct Ts5ddmome5 {
    #[asn(default(integer(0..7), 5))] pub f0: u8,
    #[asn(default(integer(0..7), 5))] pub f1: u8,
    #[asn(integer(0..7))] pub f2: u8,
    #[asn(optional(integer(0..7)))] pub f3: Option<u8>,
    #[asn(integer(0..7))] pub f4: u8,
}

impl Ts5ddmome5 {
    pub const fn f0_min() -> u8 {
        0
    }

    pub const fn f0_max() -> u8 {
        7
    }

    pub const fn f1_min() -> u8 {
        0
    }

    pub const fn f1_max() -> u8 {
        7
    }

    pub const fn f2_min() -> u8 {
        0
    }

    pub const fn f2_max() -> u8 {
        7
    }

    pub const fn f3_min() -> u8 {
        0
    }

    pub const fn f3_max() -> u8 {
        7
    }

    pub const fn f4_min() -> u8 {
        0
    }

    pub const fn f4_max() -> u8 {
        7
    }
}

#[asn(sequence)]

#[derive(Default, Debug, Clone, PartialEq, Hash)]
pub struct Ts5mmoomn {
    #[asn(integer(0..7))] pub f0: u8,
    #[asn(integer(0..7))] pub f1: u8,
    #[asn(optional(integer(0..7)))] pub f2: Option<u8>,
    #[asn(optional(integer(0..7)))] pub f3: Option<u8>,
    #[asn(integer(0..7))] pub f4: u8,
}

impl Ts5mmoomn {
    pub const fn f0_min() -> u8 {
        0
    }

    pub const fn f0_max() -> u8 {
        7
    }

    pub const fn f1_min() -> u8 {
        0
    }

    pub const fn f1_max() -> u8 {
        7
    }

    pub const fn f2_min() -> u8 {
        0
    }

    pub const fn f2_max() -> u8 {
        7
    }

    pub const fn f3_min() -> u8 {
        0
    }

    pub const fn f3_max() -> u8 {
        7
    }

    pub const fn f4_min() -> u8 {
        0
    }

    pub const fn f4_max() -> u8 {
        7
    }
}

#[asn(sequence, extensible_after(f0))]

#[derive(Default, Debug, Clone, PartialEq, Hash)]
pub struct Ts5mmoome0 {
    #[asn(integer(0..7))] pub f0: u8,
    #[asn(optional(integer(0..7)))] pub f1: Option<u8>,
    #[asn(optional(integer(0..7)))] pub f2: Option<u8>,
    #[asn(optional(integer(0..7)))] pub f3: Option<u8>,
    #[asn(optional(integer(0..7)))] pub f4: Option<u8>,
}

impl Ts5mmoome0 {
    pub const fn f0_min() -> u8 {
        0
    }

    pub const fn f0_max() -> u8 {
        7
    }

    pub const fn f1_min() -> u8 {
        0
    }

    pub const fn f1_max() -> u8 {
        7
    }

    pub const fn f2_min() -> u8 {
        0
    }

    pub const fn f2_max() -> u8 {
        7
    }

    pub const fn f3_min() -> u8 {
        0
    }

    pub const fn f3_max() -> u8 {
        7
    }

    pub const fn f4_min() -> u8 {
        0
    }

    pub const fn f4_max() -> u8 {
        7
    }
}

#[asn(sequence, extensible_after(f0))]

#[derive(Default, Debug, Clone, PartialEq, Hash)]
pub struct Ts5mmoome1 {
    #[asn(integer(0..7))] pub f0: u8,
    #[asn(optional(integer(0..7)))] pub f1: Option<u8>,
    #[asn(optional(integer(0..7)))] pub f2: Option<u8>,
    #[asn(optional(integer(0..7)))] pub f3: Option<u8>,
    #[asn(optional(integer(0..7)))] pub f4: Option<u8>,
}

impl Ts5mmoome1 {
    pub const fn f0_min() -> u8 {
        0
    }

    pub const fn f0_max() -> u8 {
        7
    }

    pub const fn f1_min() -> u8 {
        0
    }

    pub const fn f1_max() -> u8 {
        7
    }

    pub const fn f2_min() -> u8 {
        0
    }

    pub const fn f2_max() -> u8 {
        7
    }

    pub const fn f3_min() -> u8 {
        0
    }

    pub const fn f3_max() -> u8 {
        7
    }

    pub const fn f4_min() -> u8 {
        0
    }

    pub const fn f4_max() -> u8 {
        7
    }
}

#[asn(sequence, extensible_after(f1))]

#[derive(Default, Debug, Clone, PartialEq, Hash)]
pub struct Ts5mmoome2 {
    #[asn(integer(0..7))] pub f0: u8,
    #[asn(integer(0..7))] pub f1: u8,
    #[asn(optional(integer(0..7)))] pub f2: Option<u8>,
    #[asn(optional(integer(0..7)))] pub f3: Option<u8>,
    #[asn(optional(integer(0..7)))] pub f4: Option<u8>,
}

impl Ts5mmoome2 {
    pub const fn f0_min() -> u8 {
        0
    }

    pub const fn f0_max() -> u8 {
        7
    }

    pub const fn f1_min() -> u8 {
        0
    }

    pub const fn f1_max() -> u8 {
        7
    }

    pub const fn f2_min() -> u8 {
        0
    }

    pub const fn f2_max() -> u8 {
        7
    }

    pub const fn f3_min() -> u8 {
        0
    }

    pub const fn f3_max() -> u8 {
        7
    }

    pub const fn f4_min() -> u8 {
        0
    }

    pub const fn f4_max() -> u8 {
        7
    }
}

#[asn(sequence, extensible_after(f2))]

#[derive(Default, Debug, Clone, PartialEq, Hash)]
pub struct Ts5mmoome3 {
    #[asn(integer(0..7))] pub f0: u8,
    #[asn(integer(0..7))] pub f1: u8,
    #[asn(optional(integer(0..7)))] pub f2: Option<u8>,
    #[asn(optional(integer(0..7)))] pub f3: Option<u8>,
    #[asn(optional(integer(0..7)))] pub f4: Option<u8>,
}

impl Ts5mmoome3 {
    pub const fn f0_min() -> u8 {
        0
    }

    pub const fn f0_max() -> u8 {
        7
    }

    pub const fn f1_min() -> u8 {
        0
    }

    pub const fn f1_max() -> u8 {
        7
    }

    pub const fn f2_min() -> u8 {
        0
    }

    pub const fn f2_max() -> u8 {
        7
    }

    pub const fn f3_min() -> u8 {
        0
    }

    pub const fn f3_max() -> u8 {
        7
    }

    pub const fn f4_min() -> u8 {
        0
    }

    pub const fn f4_max() -> u8 {
        7
    }
}

#[asn(sequence, extensible_after(f3))]

#[derive(Default, Debug, Clone, PartialEq, Hash)]
pub struct Ts5mmoome4 {
    #[asn(integer(0..7))] pub f0: u8,
    #[asn(integer(0..7))] pub f1: u8,
    #[asn(optional(integer(0..7)))] pub f2: Option<u8>,
    #[asn(optional(integer(0..7)))] pub f3: Option<u8>,
    #[asn(optional(integer(0..7)))] pub f4: Option<u8>,
}

impl Ts5mmoome4 {
    pub const fn f0_min() -> u8 {
        0
    }

    pub const fn f0_max() -> u8 {
        7
    }

    pub const fn f1_min() -> u8 {
        0
    }

    pub const fn f1_max() -> u8 {
        7
    }

    pub const fn f2_min() -> u8 {
        0
    }

    pub const fn f2_max() -> u8 {
        7
    }

    pub const fn f3_min() -> u8 {
        0
    }

    pub const fn f3_max() -> u8 {
        7
    }

    pub const fn f4_min() -> u8 {
        0
    }

    pub const fn f4_max() -> u8 {
        7
    }
}

#[asn(sequence, extensible_after(f4))]

#[derive(Default, Debug, Clone, PartialEq, Hash)]
pub struct Ts5mmoome5 {
    #[asn(integer(0..7))] pub f0: u8,
    #[asn(integer(0..7))] pub f1: u8,
    #[asn(optional(integer(0..7)))] pub f2: Option<u8>,
    #[asn(optional(integer(0..7)))] pub f3: Option<u8>,
    #[asn(integer(0..7))] pub f4: u8,
}

impl Ts5mmoome5 {
    pub const fn f0_min() -> u8 {
        0
    }

    pub const fn f0_max() -> u8 {
        7
    }

    pub const fn f1_min() -> u8 {
        0
    }

    pub const fn f1_max() -> u8 {
        7
    }

    pub const fn f2_min() -> u8 {
        0
    }

    pub const fn f2_max() -> u8 {
        7
    }

    pub const fn f3_min() -> u8 {
        0
    }

    pub const fn f3_max() -> u8 {
        7
    }

    pub const fn f4_min() -> u8 {
        0
    }

    pub const fn f4_max() -> u8 {
        7
    }
}

#[asn(sequence)]

#[derive(Default, Debug, Clone, PartialEq, Hash)]
pub struct Ts5omoomn {
    #[asn(optional(integer(0..7)))] pub f0: Option<u8>,
    #[asn(integer(0..7))] pub f1: u8,
    #[asn(optional(integer(0..7)))] pub f2: Option<u8>,
    #[asn(optional(integer(0..7)))] pub f3: Option<u8>,
    #[asn(integer(0..7))] pub f4: u8,
}

impl Ts5omoomn {
    pub const fn f0_min() -> u8 {
        0
    }

    pub const fn f0_max() -> u8 {
        7
    }

    pub const fn f1_min() -> u8 {
        0
    }

    pub const fn f1_max() -> u8 {
        7
    }

    pub const fn f2_min() -> u8 {
        0
    }

    pub const fn f2_max() -> u8 {
        7
    }

    pub const fn f3_min() -> u8 {
        0
    }

    pub const fn f3_max() -> u8 {
        7
    }

    pub const fn f4_min() -> u8 {
        0
    }

    pub const fn f4_max() -> u8 {
        7
    }
}

#[asn(sequence, extensible_after(f0))]

#[derive(Default, Debug, Clone, PartialEq, Hash)]
pub struct Ts5omoome0 {
    #[asn(optional(integer(0..7)))] pub f0: Option<u8>,
    #[asn(optional(integer(0..7)))] pub f1: Option<u8>,
    #[asn(optional(integer(0..7)))] pub f2: Option<u8>,
    #[asn(optional(integer(0..7)))] pub f3: Option<u8>,
    #[asn(optional(integer(0..7)))] pub f4: Option<u8>,
}

impl Ts5omoome0 {
    pub const fn f0_min() -> u8 {
        0
    }

    pub const fn f0_max() -> u8 {
        7
    }

    pub const fn f1_min() -> u8 {
        0
    }

    pub const fn f1_max() -> u8 {
        7
    }

    pub const fn f2_min() -> u8 {
        0
    }

    pub const fn f2_max() -> u8 {
        7
    }

    pub const fn f3_min() -> u8 {
        0
    }

    pub const fn f3_max() -> u8 {
        7
    }

    pub const fn f4_min() -> u8 {
        0
    }

    pub const fn f4_max() -> u8 {
        7
    }
}

#[asn(sequence, extensible_after(f0))]

#[derive(Default, Debug, Clone, PartialEq, Hash)]
pub struct Ts5omoome1 {
    #[asn(optional(integer(0..7)))] pub f0: Option<u8>,
    #[asn(optional(integer(0..7)))] pub f1: Option<u8>,
    #[asn(optional(integer(0..7)))] pub f2: Option<u8>,
    #[asn(optional(integer(0..7)))] pub f3: Option<u8>,
    #[asn(optional(integer(0..7)))] pub f4: Option<u8>,
}

impl Ts5omoome1 {
    pub const fn f0_min() -> u8 {
        0
    }

    pub const fn f0_max() -> u8 {
        7
    }

    pub const fn f1_min() -> u8 {
        0
    }

    pub const fn f1_max() -> u8 {
        7
    }

    pub const fn f2_min() -> u8 {
        0
    }

    pub const fn f2_max() -> u8 {
        7
    }

    pub const fn f3_min() -> u8 {
        0
    }

    pub const fn f3_max() -> u8 {
        7
    }

    pub const fn f4_min() -> u8 {
        0
    }

    pub const fn f4_max() -> u8 {
        7
    }
}

#[asn(sequence, extensible_after(f1))]

#[derive(Default, Debug, Clone, PartialEq, Hash)]
pub struct Ts5omoome2 {
    #[asn(optional(integer(0..7)))] pub f0: Option<u8>,
    #[asn(integer(0..7))] pub f1: u8,
    #[asn(optional(integer(0..7)))] pub f2: Option<u8>,
    #[asn(optional(integer(0..7)))] pub f3: Option<u8>,
    #[asn(optional(integer(0..7)))] pub f4: Option<u8>,
}

impl Ts5omoome2 {
    pub const fn f0_min() -> u8 {
        0
    }

    pub const fn f0_max() -> u8 {
        7
    }

    pub const fn f1_min() -> u8 {
        0
    }

    pub const fn f1_max() -> u8 {
        7
    }

    pub const fn f2_min() -> u8 {
        0
    }

    pub const fn f2_max() -> u8 {
        7
    }

    pub const fn f3_min() -> u8 {
        0
    }

    pub const fn f3_max() -> u8 {
        7
    }

    pub const fn f4_min() -> u8 {
        0
    }

    pub const fn f4_max() -> u8 {
        7
    }
}

#[asn(sequence, extensible_after(f2))]

#[derive(Default, Debug, Clone, PartialEq, Hash)]
pub struct Ts5omoome3 {
    #[asn(optional(integer(0..7)))] pub f0: Option<u8>,
    #[asn(integer(0..7))] pub f1: u8,
    #[asn(optional(integer(0..7)))] pub f2: Option<u8>,
    #[asn(optional(integer(0..7)))] pub f3: Option<u8>,
    #[asn(optional(integer(0..7)))] pub f4: Option<u8>,
}

impl Ts5omoome3 {
    pub const fn f0_min() -> u8 {
        0
    }

    pub const fn f0_max() -> u8 {
        7
    }

    pub const fn f1_min() -> u8 {
        0
    }

    pub const fn f1_max() -> u8 {
        7
    }

    pub const fn f2_min() -> u8 {
        0
    }

    pub const fn f2_max() -> u8 {
        7
    }

    pub const fn f3_min() -> u8 {
        0
    }

    pub const fn f3_max() -> u8 {
        7
    }

    pub const fn f4_min() -> u8 {
        0
    }

    pub const fn f4_max() -> u8 {
        7
    }
}

#[asn(sequence, extensible_after(f3))]

#[derive(Default, Debug, Clone, PartialEq, Hash)]
pub struct Ts5omoome4 {
    #[asn(optional(integer(0..7)))] pub f0: Option<u8>,
    #[asn(integer(0..7))] pub f1: u8,
    #[asn(optional(integer(0..7)))] pub f2: Option<u8>,
    #[asn(optional(integer(0..7)))] pub f3: Option<u8>,
    #[asn(optional(integer(0..7)))] pub f4: Option<u8>,
}

impl Ts5omoome4 {
    pub const fn f0_min() -> u8 {
        0
    }

    pub const fn f0_max() -> u8 {
        7
    }

    pub const fn f1_min() -> u8 {
        0
    }

    pub const fn f1_max() -> u8 {
        7
    }

    pub const fn f2_min() -> u8 {
        0
    }

    pub const fn f2_max() -> u8 {
        7
    }

    pub const fn f3_min() -> u8 {
        0
    }

    pub const fn f3_max() -> u8 {
        7
    }

    pub const fn f4_min() -> u8 {
        0
    }

    pub const fn f4_max() -> u8 {
        7
    }
}

#[asn(sequence, extensible_after(f4))]

#[derive(Default, Debug, Clone, PartialEq, Hash)]
pub struct Ts5omoome5 {
    #[asn(optional(integer(0..7)))] pub f0: Option<u8>,
    #[asn(integer(0..7))] pub f1: u8,
    #[asn(optional(integer(0..7)))] pub f2: Option<u8>,
    #[asn(optional(integer(0..7)))] pub f3: Option<u8>,
    #[asn(integer(0..7))] pub f4: u8,
}

impl Ts5omoome5 {
    pub const fn f0_min() -> u8 {
        0
    }

    pub const fn f0_max() -> u8 {
        7
    }

    pub const fn f1_min() -> u8 {
        0
    }

    pub const fn f1_max() -> u8 {
        7
    }

    pub const fn f2_min() -> u8 {
        0
    }

    pub const fn f2_max() -> u8 {
        7
    }

    pub const fn f3_min() -> u8 {
        0
    }

    pub const fn f3_max() -> u8 {
        7
    }

    pub const fn f4_min() -> u8 {
        0
    }

    pub const fn f4_max() -> u8 {
        7
    }
}

#[asn(sequence)]

#[derive(Default, Debug, Clone, PartialEq, Hash)]
pub struct Ts5dmoomn {
    #[asn(default(integer(0..7), 5))] pub f0: u8,
    #[asn(integer(0..7))] pub f1: u8,
    #[asn(optional(integer(0..7)))] pub f2: Option<u8>,
    #[asn(optional(integer(0..7)))] pub f3: Option<u8>,
    #[asn(integer(0..7))] pub f4: u8,
}

impl Ts5dmoomn {
    pub const fn f0_min() -> u8 {
        0
    }

    pub const fn f0_max() -> u8 {
        7
    }

    pub const fn f1_min() -> u8 {
        0
    }

    pub const fn f1_max() -> u8 {
        7
    }

    pub const fn f2_min() -> u8 {
        0
    }

    pub const fn f2_max() -> u8 {
        7
    }

    pub const fn f3_min() -> u8 {
        0
    }

    pub const fn f3_max() -> u8 {
        7
    }

    pub const fn f4_min() -> u8 {
        0
    }

    pub const fn f4_max() -> u8 {
        7
    }
}

#[asn(sequence, extensible_after(f0))]

#[derive(Default, Debug, Clone, PartialEq, Hash)]
pub struct Ts5dmoome0 {
    #[asn(default(integer(0..7), 5))] pub f0: u8,
    #[asn(optional(integer(0..7)))] pub f1: Option<u8>,
    #[asn(optional(integer(0..7)))] pub f2: Option<u8>,
    #[asn(optional(integer(0..7)))] pub f3: Option<u8>,
    #[asn(optional(integer(0..7)))] pub f4: Option<u8>,
}

impl Ts5dmoome0 {
    pub const fn f0_min() -> u8 {
        0
    }

    pub const fn f0_max() -> u8 {
        7
    }

    pub const fn f1_min() -> u8 {
        0
    }

    pub const fn f1_max() -> u8 {
        7
    }

    pub const fn f2_min() -> u8 {
        0
    }

    pub const fn f2_max() -> u8 {
        7
    }

    pub const fn f3_min() -> u8 {
        0
    }

    pub const fn f3_max() -> u8 {
        7
    }

    pub const fn f4_min() -> u8 {
        0
    }

    pub const fn f4_max() -> u8 {
        7
    }
}

#[asn(sequence, extensible_after(f0))]

#[derive(Default, Debug, Clone, PartialEq, Hash)]
pub struct Ts5dmoome1 {
    #[asn(default(integer(0..7), 5))] pub f0: u8,
    #[asn(optional(integer(0..7)))] pub f1: Option<u8>,
    #[asn(optional(integer(0..7)))] pub f2: Option<u8>,
    #[asn(optional(integer(0..7)))] pub f3: Option<u8>,
    #[asn(optional(integer(0..7)))] pub f4: Option<u8>,
}

impl Ts5dmoome1 {
    pub const fn f0_min() -> u8 {
        0
    }

    pub const fn f0_max() -> u8 {
        7
    }

    pub const fn f1_min() -> u8 {
        0
    }

    pub const fn f1_max() -> u8 {
        7
    }

    pub const fn f2_min() -> u8 {
        0
    }

    pub const fn f2_max() -> u8 {
        7
    }

    pub const fn f3_min() -> u8 {
        0
    }

    pub const fn f3_max() -> u8 {
        7
    }

    pub const fn f4_min() -> u8 {
        0
    }

    pub const fn f4_max() -> u8 {
        7
    }
}

#[asn(sequence, extensible_after(f1))]

#[derive(Default, Debug, Clone, PartialEq, Hash)]
pub struct Ts5dmoome2 {
    #[asn(default(integer(0..7), 5))] pub f0: u8,
    #[asn(integer(0..7))] pub f1: u8,
    #[asn(optional(integer(0..7)))] pub f2: Option<u8>,
    #[asn(optional(integer(0..7)))] pub f3: Option<u8>,
    #[asn(optional(integer(0..7)))] pub f4: Option<u8>,
}

impl Ts5dmoome2 {
    pub const fn f0_min() -> u8 {
        0
    }

    pub const fn f0_max() -> u8 {
        7
    }

    pub const fn f1_min() -> u8 {
        0
    }

    pub const fn f1_max() -> u8 {
        7
    }

    pub const fn f2_min() -> u8 {
        0
    }

    pub const fn f2_max() -> u8 {
        7
    }

    pub const fn f3_min() -> u8 {
        0
    }

    pub const fn f3_max() -> u8 {
        7
    }

    pub const fn f4_min() -> u8 {
        0
    }

    pub const fn f4_max() -> u8 {
        7
    }
}

#[asn(sequence, extensible_after(f2))]

#[derive(Default, Debug, Clone, PartialEq, Hash)]
pub struct Ts5dmoome3 {
    #[asn(default(integer(0..7), 5))] pub f0: u8,
    #[asn(integer(0..7))] pub f1: u8,
    #[asn(optional(integer(0..7)))] pub f2: Option<u8>,
    #[asn(optional(integer(0..7)))] pub f3: Option<u8>,
    #[asn(optional(integer(0..7)))] pub f4: Option<u8>,
}

impl Ts5dmoome3 {
    pub const fn f0_min() -> u8 {
        0
    }

    pub const fn f0_max() -> u8 {
        7
    }

    pub const fn f1_min() -> u8 {
        0
    }

    pub const fn f1_max() -> u8 {
        7
    }

    pub const fn f2_min() -> u8 {
        0
    }

    pub const fn f2_max() -> u8 {
        7
    }

    pub const fn f3_min() -> u8 {
        0
    }

    pub const fn f3_max() -> u8 {
        7
    }

    pub const fn f4_min() -> u8 {
        0
    }

    pub const fn f4_max() -> u8 {
        7
    }
}

#[asn(sequence, extensible_after(f3))]

#[derive(Default, Debug, Clone, PartialEq, Hash)]
pub struct Ts5dmoome4 {
    #[asn(default(integer(0..7), 5))] pub f0: u8,
    #[asn(integer(0..7))] pub f1: u8,
    #[asn(optional(integer(0..7)))] pub f2: Option<u8>,
    #[asn(optional(integer(0..7)))] pub f3: Option<u8>,
    #[asn(optional(integer(0..7)))] pub f4: Option<u8>,
}

impl Ts5dmoome4 {
    pub const fn f0_min() -> u8 {
        0
    }

    pub const fn f0_max() -> u8 {
        7
    }

    pub const fn f1_min() -> u8 {
        0
    }

    pub const fn f1_max() -> u8 {
        7
    }

    pub const fn f2_min() -> u8 {
        0
    }

    pub const fn f2_max() -> u8 {
        7
    }

    pub const fn f3_min() -> u8 {
        0
    }

    pub const fn f3_max() -> u8 {
        7
    }

    pub const fn f4_min() -> u8 {
        0
    }

    pub const fn f4_max() -> u8 {
        7
    }
}

#[asn(sequence, extensible_after(f4))]

#[derive(Default, Debug, Clone, PartialEq, Hash)]
pub struct Ts5dmoome5 {
    #[asn(default(integer(0..7), 5))] pub f0: u8,
    #[asn(integer(0..7))] pub f1: u8,
    #[asn(optional(integer(0..7)))] pub f2: Option<u8>,
    #[asn(optional(integer(0..7)))] pub f3: Option<u8>,
    #[asn(integer(0..7))] pub f4: u8,
}

impl Ts5dmoome5 {
    pub const fn f0_min() -> u8 {
        0
    }

    pub const fn f0_max() -> u8 {
        7
    }

    pub const fn f1_min() -> u8 {
        0
    }

    pub const fn f1_max() -> u8 {
        7
    }

    pub const fn f2_min() -> u8 {
        0
    }

    pub const fn f2_max() -> u8 {
        7
    }

    pub const fn f3_min() -> u8 {
        0
    }

    pub const fn f3_max() -> u8 {
        7
    }

    pub const fn f4_min() -> u8 {
        0
    }

    pub const fn f4_max() -> u8 {
        7
    }
}

#[asn(sequence)]

#[derive(Default, Debug, Clone, PartialEq, Hash)]
pub struct Ts5mooomn {
    #[asn(integer(0..7))] pub f0: u8,
    #[asn(optional(integer(0..7)))] pub f1: Option<u8>,
    #[asn(optional(integer(0..7)))] pub f2: Option<u8>,
    #[asn(optional(integer(0..7)))] pub f3: Option<u8>,
    #[asn(integer(0..7))] pub f4: u8,
}

impl Ts5mooomn {
    pub const fn f0_min() -> u8 {
        0
    }

    pub const fn f0_max() -> u8 {
        7
    }

    pub const fn f1_min() -> u8 {
        0
    }

    pub const fn f1_max() -> u8 {
        7
    }

    pub const fn f2_min() -> u8 {
        0
    }

    pub const fn f2_max() -> u8 {
        7
    }

    pub const fn f3_min() -> u8 {
        0
    }

    pub const fn f3_max() -> u8 {
        7
    }

    pub const fn f4_min() -> u8 {
        0
    }

    pub const fn f4_max() -> u8 {
        7
    }
}

#[asn(sequence, extensible_after(f0))]

#[derive(Default, Debug, Clone, PartialEq, Hash)]
pub struct Ts5mooome0 {
    #[asn(integer(0..7))] pub f0: u8,
    #[asn(optional(integer(0..7)))] pub f1: Option<u8>,
    #[asn(optional(integer(0..7)))] pub f2: Option<u8>,
    #[asn(optional(integer(0..7)))] pub f3: Option<u8>,
    #[asn(optional(integer(0..7)))] pub f4: Option<u8>,
}

impl Ts5mooome0 {
    pub const fn f0_min() -> u8 {
        0
    }

    pub const fn f0_max() -> u8 {
        7
    }

    pub const fn f1_min() -> u8 {
        0
    }

    pub const fn f1_max() -> u8 {
        7
    }

    pub const fn f2_min() -> u8 {
        0
    }

    pub const fn f2_max() -> u8 {
        7
    }

    pub const fn f3_min() -> u8 {
        0
    }

    pub const fn f3_max() -> u8 {
        7
    }

    pub const fn f4_min() -> u8 {
        0
    }

    pub const fn f4_max() -> u8 {
        7
    }
}

#[asn(sequence, extensible_after(f0))]

#[derive(Default, Debug, Clone, PartialEq, Hash)]
pub struct Ts5mooome1 {
    #[asn(integer(0..7))] pub f0: u8,
    #[asn(optional(integer(0..7)))] pub f1: Option<u8>,
    #[asn(optional(integer(0..7)))] pub f2: Option<u8>,
    #[asn(optional(integer(0..7)))] pub f3: Option<u8>,
    #[asn(optional(integer(0..7)))] pub f4: Option<u8>,
}

impl Ts5mooome1 {
    pub const fn f0_min() -> u8 {
        0
    }

    pub const fn f0_max() -> u8 {
        7
    }

    pub const fn f1_min() -> u8 {
        0
    }

    pub const fn f1_max() -> u8 {
        7
    }

    pub const fn f2_min() -> u8 {
        0
    }

    pub const fn f2_max() -> u8 {
        7
    }

    pub const fn f3_min() -> u8 {
        0
    }

    pub const fn f3_max() -> u8 {
        7
    }

    pub const fn f4_min() -> u8 {
        0
    }

    pub const fn f4_max() -> u8 {
        7
    }
}

#[asn(sequence, extensible_after(f1))]

#[derive(Default, Debug, Clone, PartialEq, Hash)]
pub struct Ts5mooome2 {
    #[asn(integer(0..7))] pub f0: u8,
    #[asn(optional(integer(0..7)))] pub f1: Option<u8>,
    #[asn(optional(integer(0..7)))] pub f2: Option<u8>,
    #[asn(optional(integer(0..7)))] pub f3: Option<u8>,
    #[asn(optional(integer(0..7)))] pub f4: Option<u8>,
}

impl Ts5mooome2 {
    pub const fn f0_min() -> u8 {
        0
    }

    pub const fn f0_max() -> u8 {
        7
    }

    pub const fn f1_min() -> u8 {
        0
    }

    pub const fn f1_max() -> u8 {
        7
    }

    pub const fn f2_min() -> u8 {
        0
    }

    pub const fn f2_max() -> u8 {
        7
    }

    pub const fn f3_min() -> u8 {
        0
    }

    pub const fn f3_max() -> u8 {
        7
    }

    pub const fn f4_min() -> u8 {
        0
    }

    pub const fn f4_max() -> u8 {
        7
    }
}

#[asn(sequence, extensible_after(f2))]

#[derive(Default, Debug, Clone, PartialEq, Hash)]
pub struct Ts5mooome3 {
    #[asn(integer(0..7))] pub f0: u8,
    #[asn(optional(integer(0..7)))] pub f1: Option<u8>,
    #[asn(optional(integer(0..7)))] pub f2: Option<u8>,
    #[asn(optional(integer(0..7)))] pub f3: Option<u8>,
    #[asn(optional(integer(0..7)))] pub f4: Option<u8>,
}

impl Ts5mooome3 {
    pub const fn f0_min() -> u8 {
        0
    }

    pub const fn f0_max() -> u8 {
        7
    }

    pub const fn f1_min() -> u8 {
        0
    }

    pub const fn f1_max() -> u8 {
        7
    }

    pub const fn f2_min() -> u8 {
        0
    }

    pub const fn f2_max() -> u8 {
        7
    }

    pub const fn f3_min() -> u8 {
        0
    }

    pub const fn f3_max() -> u8 {
        7
    }

    pub const fn f4_min() -> u8 {
        0
    }

    pub const fn f4_max() -> u8 {
        7
    }
}

#[asn(sequence, extensible_after(f3))]

#[derive(Default, Debug, Clone, PartialEq, Hash)]
pub struct Ts5mooome4 {
    #[asn(integer(0..7))] pub f0: u8,
    #[asn(optional(integer(0..7)))] pub f1: Option<u8>,
    #[asn(optional(integer(0..7)))] pub f2: Option<u8>,
    #[asn(optional(integer(0..7)))] pub f3: Option<u8>,
    #[asn(optional(integer(0..7)))] pub f4: Option<u8>,
}

impl Ts5mooome4 {
    pub const fn f0_min() -> u8 {
        0
    }

    pub const fn f0_max() -> u8 {
        7
    }

    pub const fn f1_min() -> u8 {
        0
    }

    pub const fn f1_max() -> u8 {
        7
    }

    pub const fn f2_min() -> u8 {
        0
    }

    pub const fn f2_max() -> u8 {
        7
    }

    pub const fn f3_min() -> u8 {
        0
    }

    pub const fn f3_max() -> u8 {
        7
    }

    pub const fn f4_min() -> u8 {
        0
    }

    pub const fn f4_max() -> u8 {
        7
    }
}

#[asn(sequence, extensible_after(f4))]

#[derive(Default, Debug, Clone, PartialEq, Hash)]
pub struct Ts5mooome5 {
    #[asn(integer(0..7))] pub f0: u8,
    #[asn(optional(integer(0..7)))] pub f1: Option<u8>,
    #[asn(optional(integer(0..7)))] pub f2: Option<u8>,
    #[asn(optional(integer(0..7)))] pub f3: Option<u8>,
    #[asn(integer(0..7))] pub f4: u8,
}

impl Ts5mooome5 {
    pub const fn f0_min() -> u8 {
        0
    }

    pub const fn f0_max() -> u8 {
        7
    }

    pub const fn f1_min() -> u8 {
        0
    }

    pub const fn f1_max() -> u8 {
        7
    }

    pub const fn f2_min() -> u8 {
        0
    }

    pub const fn f2_max() -> u8 {
        7
    }

    pub const fn f3_min() -> u8 {
        0
    }

    pub const fn f3_max() -> u8 {
        7
    }

    pub const fn f4_min() -> u8 {
        0
    }

    pub const fn f4_max() -> u8 {
        7
    }
}

#[asn(sequence)]

#[derive(Default, Debug, Clone, PartialEq, Hash)]
pub struct Ts5oooomn {
    #[asn(optional(integer(0..7)))] pub f0: Option<u8>,
    #[asn(optional(integer(0..7)))] pub f1: Option<u8>,
    #[asn(optional(integer(0..7)))] pub f2: Option<u8>,
    #[asn(optional(integer(0..7)))] pub f3: Option<u8>,
    #[asn(integer(0..7))] pub f4: u8,
}

impl Ts5oooomn {
    pub const fn f0_min() -> u8 {
        0
    }

    pub const fn f0_max() -> u8 {
        7
    }

    pub const fn f1_min() -> u8 {
        0
    }

    pub const fn f1_max() -> u8 {
        7
    }

    pub const fn f2_min() -> u8 {
        0
    }

    pub const fn f2_max() -> u8 {
        7
    }

    pub const fn f3_min() -> u8 {
        0
    }

    pub const fn f3_max() -> u8 {
        7
    }

    pub const fn f4_min() -> u8 {
        0
    }

    pub const fn f4_max() -> u8 {
        7
    }
}

#[asn(sequence, extensible_after(f0))]

#[derive(Default, Debug, Clone, PartialEq, Hash)]
pub struct Ts5oooome0 {
    #[asn(optional(integer(0..7)))] pub f0: Option<u8>,
    #[asn(optional(integer(0..7)))] pub f1: Option<u8>,
    #[asn(optional(integer(0..7)))] pub f2: Option<u8>,
    #[asn(optional(integer(0..7)))] pub f3: Option<u8>,
    #[asn(optional(integer(0..7)))] pub f4: Option<u8>,
}

impl Ts5oooome0 {
    pub const fn f0_min() -> u8 {
        0
    }

    pub const fn f0_max() -> u8 {
        7
    }

    pub const fn f1_min() -> u8 {
        0
    }

    pub const fn f1_max() -> u8 {
        7
    }

    pub const fn f2_min() -> u8 {
        0
    }

    pub const fn f2_max() -> u8 {
        7
    }

    pub const fn f3_min() -> u8 {
        0
    }

    pub const fn f3_max() -> u8 {
        7
    }

    pub const fn f4_min() -> u8 {
        0
    }

    pub const fn f4_max() -> u8 {
        7
    }
}

#[asn(sequence, extensible_after(f0))]

#[derive(Default, Debug, Clone, PartialEq, Hash)]
pub struct Ts5oooome1 {
    #[asn(optional(integer(0..7)))] pub f0: Option<u8>,
    #[asn(optional(integer(0..7)))] pub f1: Option<u8>,
    #[asn(optional(integer(0..7)))] pub f2: Option<u8>,
    #[asn(optional(integer(0..7)))] pub f3: Option<u8>,
    #[asn(optional(integer(0..7)))] pub f4: Option<u8>,
}

impl Ts5oooome1 {
    pub const fn f0_min() -> u8 {
        0
    }

    pub const fn f0_max() -> u8 {
        7
    }

    pub const fn f1_min() -> u8 {
        0
    }

    pub const fn f1_max() -> u8 {
        7
    }

    pub const fn f2_min() -> u8 {
        0
    }

    pub const fn f2_max() -> u8 {
        7
    }

    pub const fn f3_min() -> u8 {
        0
    }

    pub const fn f3_max() -> u8 {
        7
    }

    pub const fn f4_min() -> u8 {
        0
    }

    pub const fn f4_max() -> u8 {
        7
    }
}

#[asn(sequence, extensible_after(f1))]

#[derive(Default, Debug, Clone, PartialEq, Hash)]
pub struct Ts5oooome2 {
    #[asn(optional(integer(0..7)))] pub f0: Option<u8>,
    #[asn(optional(integer(0..7)))] pub f1: Option<u8>,
    #[asn(optional(integer(0..7)))] pub f2: Option<u8>,
    #[asn(optional(integer(0..7)))] pub f3: Option<u8>,
    #[asn(optional(integer(0..7)))] pub f4: Option<u8>,
}

impl Ts5oooome2 {
    pub const fn f0_min() -> u8 {
        0
    }

    pub const fn f0_max() -> u8 {
        7
    }

    pub const fn f1_min() -> u8 {
        0
    }

    pub const fn f1_max() -> u8 {
        7
    }

    pub const fn f2_min() -> u8 {
        0
    }

    pub const fn f2_max() -> u8 {
        7
    }

    pub const fn f3_min() -> u8 {
        0
    }

    pub const fn f3_max() -> u8 {
        7
    }

    pub const fn f4_min() -> u8 {
        0
    }

    pub const fn f4_max() -> u8 {
        7
    }
}

#[asn(sequence, extensible_after(f2))]

#[derive(Default, Debug, Clone, PartialEq, Hash)]
pub struct Ts5oooome3 {
    #[asn(optional(integer(0..7)))] pub f0: Option<u8>,
    #[asn(optional(integer(0..7)))] pub f1: Option<u8>,
    #[asn(optional(integer(0..7)))] pub f2: Option<u8>,
    #[asn(optional(integer(0..7)))] pub f3: Option<u8>,
    #[asn(optional(integer(0..7)))] pub f4: Option<u8>,
}

impl Ts5oooome3 {
    pub const fn f0_min() -> u8 {
        0
    }

    pub const fn f0_max() -> u8 {
        7
    }

    pub const fn f1_min() -> u8 {
        0
    }

    pub const fn f1_max() -> u8 {
        7
    }

    pub const fn f2_min() -> u8 {
        0
    }

    pub const fn f2_max() -> u8 {
        7
    }

    pub const fn f3_min() -> u8 {
        0
    }

    pub const fn f3_max() -> u8 {
        7
    }

    pub const fn f4_min() -> u8 {
        0
    }

    pub const fn f4_max() -> u8 {
        7
    }
}

#[asn(sequence, extensible_after(f3))]

#[derive(Default, Debug, Clone, PartialEq, Hash)]
pub struct Ts5oooome4 {
    #[asn(optional(integer(0..7)))] pub f0: Option<u8>,
    #[asn(optional(integer(0..7)))] pub f1: Option<u8>,
    #[asn(optional(integer(0..7)))] pub f2: Option<u8>,
    #[asn(optional(integer(0..7)))] pub f3: Option<u8>,
    #[asn(optional(integer(0..7)))] pub f4: Option<u8>,
}

impl Ts5oooome4 {
    pub const fn f0_min() -> u8 {
        0
    }

    pub const fn f0_max() -> u8 {
        7
    }

    pub const fn f1_min() -> u8 {
        0
    }

    pub const fn f1_max() -> u8 {
        7
    }

    pub const fn f2_min() -> u8 {
        0
    }

    pub const fn f2_max() -> u8 {
        7
    }

    pub const fn f3_min() -> u8 {
        0
    }

    pub const fn f3_max() -> u8 {
        7
    }

    pub const fn f4_min() -> u8 {
        0
    }

    pub const fn f4_max() -> u8 {
        7
    }
}

#[asn(sequence, extensible_after(f4))]

#[derive(Default, Debug, Clone, PartialEq, Hash)]
pub struct Ts5oooome5 {
    #[asn(optional(integer(0..7)))] pub f0: Option<u8>,
    #[asn(optional(integer(0..7)))] pub f1: Option<u8>,
    #[asn(optional(integer(0..7)))] pub f2: Option<u8>,
    #[asn(optional(integer(0..7)))] pub f3: Option<u8>,
    #[asn(integer(0..7))] pub f4: u8,
}

impl Ts5oooome5 {
    pub const fn f0_min() -> u8 {
        0
    }

    pub const fn f0_max() -> u8 {
        7
    }

    pub const fn f1_min() -> u8 {
        0
    }

    pub const fn f1_max() -> u8 {
        7
    }

    pub const fn f2_min() -> u8 {
        0
    }

    pub const fn f2_max() -> u8 {
        7
    }

    pub const fn f3_min() -> u8 {
        0
    }

    pub const fn f3_max() -> u8 {
        7
    }

    pub const fn f4_min() -> u8 {
        0
    }

    pub const fn f4_max() -> u8 {
        7
    }
}

#[asn(sequence)]

#[derive(Default, Debug, Clone, PartialEq, Hash)]
pub struct Ts5dooomn {
    #[asn(default(integer(0..7), 5))] pub f0: u8,
    #[asn(optional(integer(0..7)))] pub f1: Option<u8>,
    #[asn(optional(integer(0..7)))] pub f2: Option<u8>,
    #[asn(optional(integer(0..7)))] pub f3: Option<u8>,
    #[asn(integer(0..7))] pub f4: u8,
}

impl Ts5dooomn {
    pub const fn f0_min() -> u8 {
        0
    }

    pub const fn f0_max() -> u8 {
        7
    }

    pub const fn f1_min() -> u8 {
        0
    }

    pub const fn f1_max() -> u8 {
        7
    }

    pub const fn f2_min() -> u8 {
        0
    }

    pub const fn f2_max() -> u8 {
        7
    }

    pub const fn f3_min() -> u8 {
        0
    }

    pub const fn f3_max() -> u8 {
        7
    }

    pub const fn f4_min() -> u8 {
        0
    }

    pub const fn f4_max() -> u8 {
        7
    }
}

#[asn(sequence, extensible_after(f0))]

#[derive(Default, Debug, Clone, PartialEq, Hash)]
pub struct Ts5dooome0 {
    #[asn(default(integer(0..7), 5))] pub f0: u8,
    #[asn(optional(integer(0..7)))] pub f1: Option<u8>,
    #[asn(optional(integer(0..7)))] pub f2: Option<u8>,
    #[asn(optional(integer(0..7)))] pub f3: Option<u8>,
    #[asn(optional(integer(0..7)))] pub f4: Option<u8>,
}

impl Ts5dooome0 {
    pub const fn f0_min() -> u8 {
        0
    }

    pub const fn f0_max() -> u8 {
        7
    }

    pub const fn f1_min() -> u8 {
        0
    }

    pub const fn f1_max() -> u8 {
        7
    }

    pub const fn f2_min() -> u8 {
        0
    }

    pub const fn f2_max() -> u8 {
        7
    }

    pub const fn f3_min() -> u8 {
        0
    }

    pub const fn f3_max() -> u8 {
        7
    }

    pub const fn f4_min() -> u8 {
        0
    }

    pub const fn f4_max() -> u8 {
        7
    }
}

#[asn(sequence, extensible_after(f0))]

#[derive(Default, Debug, Clone, PartialEq, Hash)]
pub struct Ts5dooome1 {
    #[asn(default(integer(0..7), 5))] pub f0: u8,
    #[asn(optional(integer(0..7)))] pub f1: Option<u8>,
    #[asn(optional(integer(0..7)))] pub f2: Option<u8>,
    #[asn(optional(integer(0..7)))] pub f3: Option<u8>,
    #[asn(optional(integer(0..7)))] pub f4: Option<u8>,
}

impl Ts5dooome1 {
    pub const fn f0_min() -> u8 {
        0
    }

    pub const fn f0_max() -> u8 {
        7
    }

    pub const fn f1_min() -> u8 {
        0
    }

    pub const fn f1_max() -> u8 {
        7
    }

    pub const fn f2_min() -> u8 {
        0
    }

    pub const fn f2_max() -> u8 {
        7
    }

    pub const fn f3_min() -> u8 {
        0
    }

    pub const fn f3_max() -> u8 {
        7
    }

    pub const fn f4_min() -> u8 {
        0
    }

    pub const fn f4_max() -> u8 {
        7
    }
}

#[asn(sequence, extensible_after(f1))]

#[derive(Default, Debug, Clone, PartialEq, Hash)]
pub struct Ts5dooome2 {
    #[asn(default(integer(0..7), 5))] pub f0: u8,
    #[asn(optional(integer(0..7)))] pub f1: Option<u8>,
    #[asn(optional(integer(0..7)))] pub f2: Option<u8>,
    #[asn(optional(integer(0..7)))] pub f3: Option<u8>,
    #[asn(optional(integer(0..7)))] pub f4: Option<u8>,
}

impl Ts5dooome2 {
    pub const fn f0_min() -> u8 {
        0
    }

    pub const fn f0_max() -> u8 {
        7
    }

    pub const fn f1_min() -> u8 {
        0
    }

    pub const fn f1_max() -> u8 {
        7
    }

    pub const fn f2_min() -> u8 {
        0
    }

    pub const fn f2_max() -> u8 {
        7
    }

    pub const fn f3_min() -> u8 {
        0
    }

    pub const fn f3_max() -> u8 {
        7
    }

    pub const fn f4_min() -> u8 {
        0
    }

    pub const fn f4_max() -> u8 {
        7
    }
}

#[asn(sequence, extensible_after(f2))]

#[derive(Default, Debug, Clone, PartialEq, Hash)]
pub struct Ts5dooome3 {
    #[asn(default(integer(0..7), 5))] pub f0: u8,
    #[asn(optional(integer(0..7)))] pub f1: Option<u8>,
    #[asn(optional(integer(0..7)))] pub f2: Option<u8>,
    #[asn(optional(integer(0..7)))] pub f3: Option<u8>,
    #[asn(optional(integer(0..7)))] pub f4: Option<u8>,
}

impl Ts5dooome3 {
    pub const fn f0_min() -> u8 {
        0
    }

    pub const fn f0_max() -> u8 {
        7
    }

    pub const fn f1_min() -> u8 {
        0
    }

    pub const fn f1_max() -> u8 {
        7
    }

    pub const fn f2_min() -> u8 {
        0
    }

    pub const fn f2_max() -> u8 {
        7
    }

    pub const fn f3_min() -> u8 {
        0
    }

    pub const fn f3_max() -> u8 {
        7
    }

    pub const fn f4_min() -> u8 {
        0
    }

    pub const fn f4_max() -> u8 {
        7
    }
}

#[asn(sequence, extensible_after(f3))]

#[derive(Default, Debug, Clone, PartialEq, Hash)]
pub struct Ts5dooome4 {
    #[asn(default(integer(0..7), 5))] pub f0: u8,
    #[asn(optional(integer(0..7)))] pub f1: Option<u8>,
    #[asn(optional(integer(0..7)))] pub f2: Option<u8>,
    #[asn(optional(integer(0..7)))] pub f3: Option<u8>,
    #[asn(optional(integer(0..7)))] pub f4: Option<u8>,
}

impl Ts5dooome4 {
    pub const fn f0_min() -> u8 {
        0
    }

    pub const fn f0_max() -> u8 {
        7
    }

    pub const fn f1_min() -> u8 {
        0
    }

    pub const fn f1_max() -> u8 {
        7
    }

    pub const fn f2_min() -> u8 {
        0
    }

    pub const fn f2_max() -> u8 {
        7
    }

    pub const fn f3_min() -> u8 {
        0
    }

    pub const fn f3_max() -> u8 {
        7
    }

    pub const fn f4_min() -> u8 {
        0
    }

    pub const fn f4_max() -> u8 {
        7
    }
}

#[asn(sequence, extensible_after(f4))]

#[derive(Default, Debug, Clone, PartialEq, Hash)]
pub struct Ts5dooome5 {
    #[asn(default(integer(0..7), 5))] pub f0: u8,
    #[asn(optional(integer(0..7)))] pub f1: Option<u8>,
    #[asn(optional(integer(0..7)))] pub f2: Option<u8>,
    #[asn(optional(integer(0..7)))] pub f3: Option<u8>,
    #[asn(integer(0..7))] pub f4: u8,
}

impl Ts5dooome5 {
    pub const fn f0_min() -> u8 {
        0
    }

    pub const fn f0_max() -> u8 {
        7
    }

    pub const fn f1_min() -> u8 {
        0
    }

    pub const fn f1_max() -> u8 {
        7
    }

    pub const fn f2_min() -> u8 {
        0
    }

    pub const fn f2_max() -> u8 {
        7
    }

    pub const fn f3_min() -> u8 {
        0
    }

    pub const fn f3_max() -> u8 {
        7
    }

    pub const fn f4_min() -> u8 {
        0
    }

    pub const fn f4_max() -> u8 {
        7
    }
}

#[asn(sequence)]

#[derive(Default, Debug, Clone, PartialEq, Hash)]
pub struct Ts5mdoomn {
    #[asn(integer(0..7))] pub f0: u8,
    #[asn(default(integer(0..7), 5))] pub f1: u8,
    #[asn(optional(integer(0..7)))] pub f2: Option<u8>,
    #[asn(optional(integer(0..7)))] pub f3: Option<u8>,
    #[asn(integer(0..7))] pub f4: u8,
}

impl Ts5mdoomn {
    pub const fn f0_min() -> u8 {
        0
    }

    pub const fn f0_max() -> u8 {
        7
    }

    pub const fn f1_min() -> u8 {
        0
    }

    pub const fn f1_max() -> u8 {
        7
    }

    pub const fn f2_min() -> u8 {
        0
    }

    pub const fn f2_max() -> u8 {
        7
    }

    pub const fn f3_min() -> u8 {
        0
    }

    pub const fn f3_max() -> u8 {
        7
    }

    pub const fn f4_min() -> u8 {
        0
    }

    pub const fn f4_max() -> u8 {
        7
    }
}

#[asn(sequence, extensible_after(f0))]

#[derive(Default, Debug, Clone, PartialEq, Hash)]
pub struct Ts5mdoome0 {
    #[asn(integer(0..7))] pub f0: u8,
    #[asn(default(integer(0..7), 5))] pub f1: u8,
    #[asn(optional(integer(0..7)))] pub f2: Option<u8>,
    #[asn(optional(integer(0..7)))] pub f3: Option<u8>,
    #[asn(optional(integer(0..7)))] pub f4: Option<u8>,
}

impl Ts5mdoome0 {
    pub const fn f0_min() -> u8 {
        0
    }

    pub const fn f0_max() -> u8 {
        7
    }

    pub const fn f1_min() -> u8 {
        0
    }

    pub const fn f1_max() -> u8 {
        7
    }

    pub const fn f2_min() -> u8 {
        0
    }

    pub const fn f2_max() -> u8 {
        7
    }

    pub const fn f3_min() -> u8 {
        0
    }

    pub const fn f3_max() -> u8 {
        7
    }

    pub const fn f4_min() -> u8 {
        0
    }

    pub const fn f4_max() -> u8 {
        7
    }
}

#[asn(sequence, extensible_after(f0))]

#[derive(Default, Debug, Clone, PartialEq, Hash)]
pub struct Ts5mdoome1 {
    #[asn(integer(0..7))] pub f0: u8,
    #[asn(default(integer(0..7), 5))] pub f1: u8,
    #[asn(optional(integer(0..7)))] pub f2: Option<u8>,
    #[asn(optional(integer(0..7)))] pub f3: Option<u8>,
    #[asn(optional(integer(0..7)))] pub f4: Option<u8>,
}

impl Ts5mdoome1 {
    pub const fn f0_min() -> u8 {
        0
    }

    pub const fn f0_max() -> u8 {
        7
    }

    pub const fn f1_min() -> u8 {
        0
    }

    pub const fn f1_max() -> u8 {
        7
    }

    pub const fn f2_min() -> u8 {
        0
    }

    pub const fn f2_max() -> u8 {
        7
    }

    pub const fn f3_min() -> u8 {
        0
    }

    pub const fn f3_max() -> u8 {
        7
    }

    pub const fn f4_min() -> u8 {
        0
    }

    pub const fn f4_max() -> u8 {
        7
    }
}

#[asn(sequence, extensible_after(f1))]

#[derive(Default, Debug, Clone, PartialEq, Hash)]
pub struct Ts5mdoome2 {
    #[asn(integer(0..7))] pub f0: u8,
    #[asn(default(integer(0..7), 5))] pub f1: u8,
    #[asn(optional(integer(0..7)))] pub f2: Option<u8>,
    #[asn(optional(integer(0..7)))] pub f3: Option<u8>,
    #[asn(optional(integer(0..7)))] pub f4: Option<u8>,
}

impl Ts5mdoome2 {
    pub const fn f0_min() -> u8 {
        0
    }

    pub const fn f0_max() -> u8 {
        7
    }

    pub const fn f1_min() -> u8 {
        0
    }

    pub const fn f1_max() -> u8 {
        7
    }

    pub const fn f2_min() -> u8 {
        0
    }

    pub const fn f2_max() -> u8 {
        7
    }

    pub const fn f3_min() -> u8 {
        0
    }

    pub const fn f3_max() -> u8 {
        7
    }

    pub const fn f4_min() -> u8 {
        0
    }

    pub const fn f4_max() -> u8 {
        7
    }
}

#[asn(sequence, extensible_after(f2))]

#[derive(Default, Debug, Clone, PartialEq, Hash)]
pub struct Ts5mdoome3 {
    #[asn(integer(0..7))] pub f0: u8,
    #[asn(default(integer(0..7), 5))] pub f1: u8,
    #[asn(optional(integer(0..7)))] pub f2: Option<u8>,
    #[asn(optional(integer(0..7)))] pub f3: Option<u8>,
    #[asn(optional(integer(0..7)))] pub f4: Option<u8>,
}

impl Ts5mdoome3 {
    pub const fn f0_min() -> u8 {
        0
    }

    pub const fn f0_max() -> u8 {
        7
    }

    pub const fn f1_min() -> u8 {
        0
    }

    pub const fn f1_max() -> u8 {
        7
    }

    pub const fn f2_min() -> u8 {
        0
    }

    pub const fn f2_max() -> u8 {
        7
    }

    pub const fn f3_min() -> u8 {
        0
    }

    pub const fn f3_max() -> u8 {
        7
    }

    pub const fn f4_min() -> u8 {
        0
    }

    pub const fn f4_max() -> u8 {
        7
    }
}

#[asn(sequence, extensible_after(f3))]

#[derive(Default, Debug, Clone, PartialEq, Hash)]
pub struct Ts5mdoome4 {
    #[asn(integer(0..7))] pub f0: u8,
    #[asn(default(integer(0..7), 5))] pub f1: u8,
    #[asn(optional(integer(0..7)))] pub f2: Option<u8>,
    #[asn(optional(integer(0..7)))] pub f3: Option<u8>,
    #[asn(optional(integer(0..7)))] pub f4: Option<u8>,
}

impl Ts5mdoome4 {
    pub const fn f0_min() -> u8 {
        0
    }

    pub const fn f0_max() -> u8 {
        7
    }

    pub const fn f1_min() -> u8 {
        0
    }

    pub const fn f1_max() -> u8 {
        7
    }

    pub const fn f2_min() -> u8 {
        0
    }

    pub const fn f2_max() -> u8 {
        7
    }

    pub const fn f3_min() -> u8 {
        0
    }

    pub const fn f3_max() -> u8 {
        7
    }

    pub const fn f4_min() -> u8 {
        0
    }

    pub const fn f4_max() -> u8 {
        7
    }
}

#[asn(sequence, extensible_after(f4))]

#[derive(Default, Debug, Clone, PartialEq, Hash)]
pub struct Ts5mdoome5 {
    #[asn(integer(0..7))] pub f0: u8,
    #[asn(default(integer(0..7), 5))] pub f1: u8,
    #[asn(optional(integer(0..7)))] pub f2: Option<u8>,
    #[asn(optional(integer(0..7)))] pub f3: Option<u8>,
    #[asn(integer(0..7))] pub f4: u8,
}

impl Ts5mdoome5 {
    pub const fn f0_min() -> u8 {
        0
    }

    pub const fn f0_max() -> u8 {
        7
    }

    pub const fn f1_min() -> u8 {
        0
    }

    pub const fn f1_max() -> u8 {
        7
    }

    pub const fn f2_min() -> u8 {
        0
    }

    pub const fn f2_max() -> u8 {
        7
    }

    pub const fn f3_min() -> u8 {
        0
    }

    pub const fn f3_max() -> u8 {
        7
    }

    pub const fn f4_min() -> u8 {
        0
    }

    pub const fn f4_max() -> u8 {
        7
    }
}

#[asn(sequence)]

#[derive(Default, Debug, Clone, PartialEq, Hash)]
pub struct Ts5odoomn {
    #[asn(optional(integer(0..7)))] pub f0: Option<u8>,
    #[asn(default(integer(0..7), 5))] pub f1: u8,
    #[asn(optional(integer(0..7)))] pub f2: Option<u8>,
    #[asn(optional(integer(0..7)))] pub f3: Option<u8>,
    #[asn(integer(0..7))] pub f4: u8,
}

impl Ts5odoomn {
    pub const fn f0_min() -> u8 {
        0
    }

    pub const fn f0_max() -> u8 {
        7
    }

    pub const fn f1_min() -> u8 {
        0
    }

    pub const fn f1_max() -> u8 {
        7
    }

    pub const fn f2_min() -> u8 {
        0
    }

    pub const fn f2_max() -> u8 {
        7
    }

    pub const fn f3_min() -> u8 {
        0
    }

    pub const fn f3_max() -> u8 {
        7
    }

    pub const fn f4_min() -> u8 {
        0
    }

    pub const fn f4_max() -> u8 {
        7
    }
}

#[asn(sequence, extensible_after(f0))]

#[derive(Default, Debug, Clone, PartialEq, Hash)]
pub struct Ts5odoome0 {
    #[asn(optional(integer(0..7)))] pub f0: Option<u8>,
    #[asn(default(integer(0..7), 5))] pub f1: u8,
    #[asn(optional(integer(0..7)))] pub f2: Option<u8>,
    #[asn(optional(integer(0..7)))] pub f3: Option<u8>,
    #[asn(optional(integer(0..7)))] pub f4: Option<u8>,
}

impl Ts5odoome0 {
    pub const fn f0_min() -> u8 {
        0
    }

    pub const fn f0_max() -> u8 {
        7
    }

    pub const fn f1_min() -> u8 {
        0
    }

    pub const fn f1_max() -> u8 {
        7
    }

    pub const fn f2_min() -> u8 {
        0
    }

    pub const fn f2_max() -> u8 {
        7
    }

    pub const fn f3_min() -> u8 {
        0
    }

    pub const fn f3_max() -> u8 {
        7
    }

    pub const fn f4_min() -> u8 {
        0
    }

    pub const fn f4_max() -> u8 {
        7
    }
}

#[asn(sequence, extensible_after(f0))]

#[derive(Default, Debug, Clone, PartialEq, Hash)]
pub struct Ts5odoome1 {
    #[asn(optional(integer(0..7)))] pub f0: Option<u8>,
    #[asn(default(integer(0..7), 5))] pub f1: u8,
    #[asn(optional(integer(0..7)))] pub f2: Option<u8>,
    #[asn(optional(integer(0..7)))] pub f3: Option<u8>,
    #[asn(optional(integer(0..7)))] pub f4: Option<u8>,
}

impl Ts5odoome1 {
    pub const fn f0_min() -> u8 {
        0
    }

    pub const fn f0_max() -> u8 {
        7
    }

    pub const fn f1_min() -> u8 {
        0
    }

    pub const fn f1_max() -> u8 {
        7
    }

    pub const fn f2_min() -> u8 {
        0
    }

    pub const fn f2_max() -> u8 {
        7
    }

    pub const fn f3_min() -> u8 {
        0
    }

    pub const fn f3_max() -> u8 {
        7
    }

    pub const fn f4_min() -> u8 {
        0
    }

    pub const fn f4_max() -> u8 {
        7
    }
}

#[asn(sequence, extensible_after(f1))]

#[derive(Default, Debug, Clone, PartialEq, Hash)]
pub struct Ts5odoome2 {
    #[asn(optional(integer(0..7)))] pub f0: Option<u8>,
    #[asn(default(integer(0..7), 5))] pub f1: u8,
    #[asn(optional(integer(0..7)))] pub f2: Option<u8>,
    #[asn(optional(integer(0..7)))] pub f3: Option<u8>,
    #[asn(optional(integer(0..7)))] pub f4: Option<u8>,
}

impl Ts5odoome2 {
    pub const fn f0_min() -> u8 {
        0
    }

    pub const fn f0_max() -> u8 {
        7
    }

    pub const fn f1_min() -> u8 {
        0
    }

    pub const fn f1_max() -> u8 {
        7
    }

    pub const fn f2_min() -> u8 {
        0
    }

    pub const fn f2_max() -> u8 {
        7
    }

    pub const fn f3_min() -> u8 {
        0
    }

    pub const fn f3_max() -> u8 {
        7
    }

    pub const fn f4_min() -> u8 {
        0
    }

    pub const fn f4_max() -> u8 {
        7
    }
}

#[asn(sequence, extensible_after(f2))]

#[derive(Default, Debug, Clone, PartialEq, Hash)]
pub struct Ts5odoome3 {
    #[asn(optional(integer(0..7)))] pub f0: Option<u8>,
    #[asn(default(integer(0..7), 5))] pub f1: u8,
    #[asn(optional(integer(0..7)))] pub f2: Option<u8>,
    #[asn(optional(integer(0..7)))] pub f3: Option<u8>,
    #[asn(optional(integer(0..7)))] pub f4: Option<u8>,
}

impl Ts5odoome3 {
    pub const fn f0_min() -> u8 {
        0
    }

    pub const fn f0_max() -> u8 {
        7
    }

    pub const fn f1_min() -> u8 {
        0
    }

    pub const fn f1_max() -> u8 {
        7
    }

    pub const fn f2_min() -> u8 {
        0
    }

    pub const fn f2_max() -> u8 {
        7
    }

    pub const fn f3_min() -> u8 {
        0
    }

    pub const fn f3_max() -> u8 {
        7
    }

    pub const fn f4_min() -> u8 {
        0
    }

    pub const fn f4_max() -> u8 {
        7
    }
}

#[asn(sequence, extensible_after(f3))]

#[derive(Default, Debug, Clone, PartialEq, Hash)]
pub struct Ts5odoome4 {
    #[asn(optional(integer(0..7)))] pub f0: Option<u8>,
    #[asn(default(integer(0..7), 5))] pub f1: u8,
    #[asn(optional(integer(0..7)))] pub f2: Option<u8>,
    #[asn(optional(integer(0..7)))] pub f3: Option<u8>,
    #[asn(optional(integer(0..7)))] pub f4: Option<u8>,
}

impl Ts5odoome4 {
    pub const fn f0_min() -> u8 {
        0
    }

    pub const fn f0_max() -> u8 {
        7
    }

    pub const fn f1_min() -> u8 {
        0
    }

    pub const fn f1_max() -> u8 {
        7
    }

    pub const fn f2_min() -> u8 {
        0
    }

    pub const fn f2_max() -> u8 {
        7
    }

    pub const fn f3_min() -> u8 {
        0
    }

    pub const fn f3_max() -> u8 {
        7
    }

    pub const fn f4_min() -> u8 {
        0
    }

    pub const fn f4_max() -> u8 {
        7
    }
}

#[asn(sequence, extensible_after(f4))]

#[derive(Default, Debug, Clone, PartialEq, Hash)]
pub struct Ts5odoome5 {
    #[asn(optional(integer(0..7)))] pub f0: Option<u8>,
    #[asn(default(integer(0..7), 5))] pub f1: u8,
    #[asn(optional(integer(0..7)))] pub f2: Option<u8>,
    #[asn(optional(integer(0..7)))] pub f3: Option<u8>,
    #[asn(integer(0..7))] pub f4: u8,
}

impl Ts5odoome5 {
    pub const fn f0_min() -> u8 {
        0
    }

    pub const fn f0_max() -> u8 {
        7
    }

    pub const fn f1_min() -> u8 {
        0
    }

    pub const fn f1_max() -> u8 {
        7
    }

    pub const fn f2_min() -> u8 {
        0
    }

    pub const fn f2_max() -> u8 {
        7
    }

    pub const fn f3_min() -> u8 {
        0
    }

    pub const fn f3_max() -> u8 {
        7
    }

    pub const fn f4_min() -> u8 {
        0
    }

    pub const fn f4_max() -> u8 {
        7
    }
}

#[asn(sequence)]

#[derive(Default, Debug, Clone, PartialEq, Hash)]
pub struct Ts5ddoomn {
    #[asn(default(integer(0..7), 5))] pub f0: u8,
    #[asn(default(integer(0..7), 5))] pub f1: u8,
    #[asn(optional(integer(0..7)))] pub f2: Option<u8>,
    #[asn(optional(integer(0..7)))] pub f3: Option<u8>,
    #[asn(integer(0..7))] pub f4: u8,
}

impl Ts5ddoomn {
    pub const fn f0_min() -> u8 {
        0
    }

    pub const fn f0_max() -> u8 {
        7
    }

    pub const fn f1_min() -> u8 {
        0
    }

    pub const fn f1_max() -> u8 {
        7
    }

    pub const fn f2_min() -> u8 {
        0
    }

    pub const fn f2_max() -> u8 {
        7
    }

    pub const fn f3_min() -> u8 {
        0
    }

    pub const fn f3_max() -> u8 {
        7
    }

    pub const fn f4_min() -> u8 {
        0
    }

    pub const fn f4_max() -> u8 {
        7
    }
}

#[asn(sequence, extensible_after(f0))]

#[derive(Default, Debug, Clone, PartialEq, Hash)]
pub struct Ts5ddoome0 {
    #[asn(default(integer(0..7), 5))] pub f0: u8,
    #[asn(default(integer(0..7), 5))] pub f1: u8,
    #[asn(optional(integer(0..7)))] pub f2: Option<u8>,
    #[asn(optional(integer(0..7)))] pub f3: Option<u8>,
    #[asn(optional(integer(0..7)))] pub f4: Option<u8>,
}

impl Ts5ddoome0 {
    pub const fn f0_min() -> u8 {
        0
    }

    pub const fn f0_max() -> u8 {
        7
    }

    pub const fn f1_min() -> u8 {
        0
    }

    pub const fn f1_max() -> u8 {
        7
    }

    pub const fn f2_min() -> u8 {
        0
    }

    pub const fn f2_max() -> u8 {
        7
    }

    pub const fn f3_min() -> u8 {
        0
    }

    pub const fn f3_max() -> u8 {
        7
    }

    pub const fn f4_min() -> u8 {
        0
    }

    pub const fn f4_max() -> u8 {
        7
    }
}

#[asn(sequence, extensible_after(f0))]

#[derive(Default, Debug, Clone, PartialEq, Hash)]
pub struct Ts5ddoome1 {
    #[asn(default(integer(0..7), 5))] pub f0: u8,
    #[asn(default(integer(0..7), 5))] pub f1: u8,
    #[asn(optional(integer(0..7)))] pub f2: Option<u8>,
    #[asn(optional(integer(0..7)))] pub f3: Option<u8>,
    #[asn(optional(integer(0..7)))] pub f4: Option<u8>,
}

impl Ts5ddoome1 {
    pub const fn f0_min() -> u8 {
        0
    }

    pub const fn f0_max() -> u8 {
        7
    }

    pub const fn f1_min() -> u8 {
        0
    }

    pub const fn f1_max() -> u8 {
        7
    }

    pub const fn f2_min() -> u8 {
        0
    }

    pub const fn f2_max() -> u8 {
        7
    }

    pub const fn f3_min() -> u8 {
        0
    }

    pub const fn f3_max() -> u8 {
        7
    }

    pub const fn f4_min() -> u8 {
        0
    }

    pub const fn f4_max() -> u8 {
        7
    }
}

#[asn(sequence, extensible_after(f1))]

#[derive(Default, Debug, Clone, PartialEq, Hash)]
pub struct Ts5ddoome2 {
    #[asn(default(integer(0..7), 5))] pub f0: u8,
    #[asn(default(integer(0..7), 5))] pub f1: u8,
    #[asn(optional(integer(0..7)))] pub f2: Option<u8>,
    #[asn(optional(integer(0..7)))] pub f3: Option<u8>,
    #[asn(optional(integer(0..7)))] pub f4: Option<u8>,
}

impl Ts5ddoome2 {
    pub const fn f0_min() -> u8 {
        0
    }

    pub const fn f0_max() -> u8 {
        7
    }

    pub const fn f1_min() -> u8 {
        0
    }

    pub const fn f1_max() -> u8 {
        7
    }

    pub const fn f2_min() -> u8 {
        0
    }

    pub const fn f2_max() -> u8 {
        7
    }

    pub const fn f3_min() -> u8 {
        0
    }

    pub const fn f3_max() -> u8 {
        7
    }

    pub const fn f4_min() -> u8 {
        0
    }

    pub const fn f4_max() -> u8 {
        7
    }
}

#[asn(sequence, extensible_after(f2))]

#[derive(Default, Debug, Clone, PartialEq, Hash)]
pub struct Ts5ddoome3 {
    #[asn(default(integer(0..7), 5))] pub f0: u8,
    #[asn(default(integer(0..7), 5))] pub f1: u8,
    #[asn(optional(integer(0..7)))] pub f2: Option<u8>,
    #[asn(optional(integer(0..7)))] pub f3: Option<u8>,
    #[asn(optional(integer(0..7)))] pub f4: Option<u8>,
}

impl Ts5ddoome3 {
    pub const fn f0_min() -> u8 {
        0
    }

    pub const fn f0_max() -> u8 {
        7
    }

    pub const fn f1_min() -> u8 {
        0
    }

    pub const fn f1_max() -> u8 {
        7
    }

    pub const fn f2_min() -> u8 {
        0
    }

    pub const fn f2_max() -> u8 {
        7
    }

    pub const fn f3_min() -> u8 {
        0
    }

    pub const fn f3_max() -> u8 {
        7
    }

    pub const fn f4_min() -> u8 {
        0
    }

    pub const fn f4_max() -> u8 {
        7
    }
}

#[asn(sequence, extensible_after(f3))]

#[derive(Default, Debug, Clone, PartialEq, Hash)]
pub struct Ts5ddoome4 {
    #[asn(default(integer(0..7), 5))] pub f0: u8,
    #[asn(default(integer(0..7), 5))] pub f1: u8,
    #[asn(optional(integer(0..7)))] pub f2: Option<u8>,
    #[asn(optional(integer(0..7)))] pub f3: Option<u8>,
    #[asn(optional(integer(0..7)))] pub f4: Option<u8>,
}

impl Ts5ddoome4 {
    pub const fn f0_min() -> u8 {
        0
    }

    pub const fn f0_max() -> u8 {
        7
    }

    pub const fn f1_min() -> u8 {
        0
    }

    pub const fn f1_max() -> u8 {
        7
    }

    pub const fn f2_min() -> u8 {
        0
    }

    pub const fn f2_max() -> u8 {
        7
    }

    pub const fn f3_min() -> u8 {
        0
    }

    pub const fn f3_max() -> u8 {
        7
    }

    pub const fn f4_min() -> u8 {
        0
    }

    pub const fn f4_max() -> u8 {
        7
    }
}

#[asn(sequence, extensible_after(f4))]

#[derive(Default, Debug, Clone, PartialEq, Hash)]
pub struct Ts5ddoome5 {
    #[asn(default(integer(0..7), 5))] pub f0: u8,
    #[asn(default(integer(0..7), 5))] pub f1: u8,
    #[asn(optional(integer(0..7)))] pub f2: Option<u8>,
    #[asn(optional(integer(0..7)))] pub f3: Option<u8>,
    #[asn(integer(0..7))] pub f4: u8,
}

impl Ts5ddoome5 {
    pub const fn f0_min() -> u8 {
        0
    }

    pub const fn f0_max() -> u8 {
        7
    }

    pub const fn f1_min() -> u8 {
        0
    }

    pub const fn f1_max() -> u8 {
        7
    }

    pub const fn f2_min() -> u8 {
        0
    }

    pub const fn f2_max() -> u8 {
        7
    }

    pub const fn f3_min() -> u8 {
        0
    }

    pub const fn f3_max() -> u8 {
        7
    }

    pub const fn f4_min() -> u8 {
        0
    }

    pub const fn f4_max() -> u8 {
        7
    }
}

#[asn(sequence)]

#[derive(Default, Debug, Clone, PartialEq, Hash)]
pub struct Ts5mmdomn {
    #[asn(integer(0..7))] pub f0: u8,
    #[asn(integer(0..7))] pub f1: u8,
    #[asn(default(integer(0..7), 5))] pub f2: u8,
    #[asn(optional(integer(0..7)))] pub f3: Option<u8>,
    #[asn(integer(0..7))] pub f4: u8,
}

impl Ts5mmdomn {
    pub const fn f0_min() -> u8 {
        0
    }

    pub const fn f0_max() -> u8 {
        7
    }

    pub const fn f1_min() -> u8 {
        0
    }

    pub const fn f1_max() -> u8 {
        7
    }

    pub const fn f2_min() -> u8 {
        0
    }

    pub const fn f2_max() -> u8 {
        7
    }

    pub const fn f3_min() -> u8 {
        0
    }

    pub const fn f3_max() -> u8 {
        7
    }

    pub const fn f4_min() -> u8 {
        0
    }

    pub const fn f4_max() -> u8 {
        7
    }
}

#[asn(sequence, extensible_after(f0))]

#[derive(Default, Debug, Clone, PartialEq, Hash)]
pub struct Ts5mmdome0 {
    #[asn(integer(0..7))] pub f0: u8,
    #[asn(optional(integer(0..7)))] pub f1: Option<u8>,
    #[asn(default(integer(0..7), 5))] pub f2: u8,
    #[asn(optional(integer(0..7)))] pub f3: Option<u8>,
    #[asn(optional(integer(0..7)))] pub f4: Option<u8>,
}

impl Ts5mmdome0 {
    pub const fn f0_min() -> u8 {
        0
    }

    pub const fn f0_max() -> u8 {
        7
    }

    pub const fn f1_min() -> u8 {
        0
    }

    pub const fn f1_max() -> u8 {
        7
    }

    pub const fn f2_min() -> u8 {
        0
    }

    pub const fn f2_max() -> u8 {
        7
    }

    pub const fn f3_min() -> u8 {
        0
    }

    pub const fn f3_max() -> u8 {
        7
    }

    pub const fn f4_min() -> u8 {
        0
    }

    pub const fn f4_max() -> u8 {
        7
    }
}

#[asn(sequence, extensible_after(f0))]

#[derive(Default, Debug, Clone, PartialEq, Hash)]
pub struct Ts5mmdome1 {
    #[asn(integer(0..7))] pub f0: u8,
    #[asn(optional(integer(0..7)))] pub f1: Option<u8>,
    #[asn(default(integer(0..7), 5))] pub f2: u8,
    #[asn(optional(integer(0..7)))] pub f3: Option<u8>,
    #[asn(optional(integer(0..7)))] pub f4: Option<u8>,
}

impl Ts5mmdome1 {
    pub const fn f0_min() -> u8 {
        0
    }

    pub const fn f0_max() -> u8 {
        7
    }

    pub const fn f1_min() -> u8 {
        0
    }

    pub const fn f1_max() -> u8 {
        7
    }

    pub const fn f2_min() -> u8 {
        0
    }

    pub const fn f2_max() -> u8 {
        7
    }

    pub const fn f3_min() -> u8 {
        0
    }

    pub const fn f3_max() -> u8 {
        7
    }

    pub const fn f4_min() -> u8 {
        0
    }

    pub const fn f4_max() -> u8 {
        7
    }
}

#[asn(sequence, extensible_after(f1))]

#[derive(Default, Debug, Clone, PartialEq, Hash)]
pub struct Ts5mmdome2 {
    #[asn(integer(0..7))] pub f0: u8,
    #[asn(integer(0..7))] pub f1: u8,
    #[asn(default(integer(0..7), 5))] pub f2: u8,
    #[asn(optional(integer(0..7)))] pub f3: Option<u8>,
    #[asn(optional(integer(0..7)))] pub f4: Option<u8>,
}

impl Ts5mmdome2 {
    pub const fn f0_min() -> u8 {
        0
    }

    pub const fn f0_max() -> u8 {
        7
    }

    pub const fn f1_min() -> u8 {
        0
    }

    pub const fn f1_max() -> u8 {
        7
    }

    pub const fn f2_min() -> u8 {
        0
    }

    pub const fn f2_max() -> u8 {
        7
    }

    pub const fn f3_min() -> u8 {
        0
    }

    pub const fn f3_max() -> u8 {
        7
    }

    pub const fn f4_min() -> u8 {
        0
    }

    pub const fn f4_max() -> u8 {
        7
    }
}

#[asn(sequence, extensible_after(f2))]

#[derive(Default, Debug, Clone, PartialEq, Hash)]
pub struct Ts5mmdome3 {
    #[asn(integer(0..7))] pub f0: u8,
    #[asn(integer(0..7))] pub f1: u8,
    #[asn(default(integer(0..7), 5))] pub f2: u8,
    #[asn(optional(integer(0..7)))] pub f3: Option<u8>,
    #[asn(optional(integer(0..7)))] pub f4: Option<u8>,
}

impl Ts5mmdome3 {
    pub const fn f0_min() -> u8 {
        0
    }

    pub const fn f0_max() -> u8 {
        7
    }

    pub const fn f1_min() -> u8 {
        0
    }

    pub const fn f1_max() -> u8 {
        7
    }

    pub const fn f2_min() -> u8 {
        0
    }

    pub const fn f2_max() -> u8 {
        7
    }

    pub const fn f3_min() -> u8 {
        0
    }

    pub const fn f3_max() -> u8 {
        7
    }

    pub const fn f4_min() -> u8 {
        0
    }

    pub const fn f4_max() -> u8 {
        7
    }
}

#[asn(sequence, extensible_after(f3))]

#[derive(Default, Debug, Clone, PartialEq, Hash)]
pub struct Ts5mmdome4 {
    #[asn(integer(0..7))] pub f0: u8,
    #[asn(integer(0..7))] pub f1: u8,
    #[asn(default(integer(0..7), 5))] pub f2: u8,
    #[asn(optional(integer(0..7)))] pub f3: Option<u8>,
    #[asn(optional(integer(0..7)))] pub f4: Option<u8>,
}

impl Ts5mmdome4 {
    pub const fn f0_min() -> u8 {
        0
    }

    pub const fn f0_max() -> u8 {
        7
    }

    pub const fn f1_min() -> u8 {
        0
    }

    pub const fn f1_max() -> u8 {
        7
    }

    pub const fn f2_min() -> u8 {
        0
    }

    pub const fn f2_max() -> u8 {
        7
    }

    pub const fn f3_min() -> u8 {
        0
    }

    pub const fn f3_max() -> u8 {
        7
    }

    pub const fn f4_min() -> u8 {
        0
    }

    pub const fn f4_max() -> u8 {
        7
    }
}

#[asn(sequence, extensible_after(f4))]

#[derive(Default, Debug, Clone, PartialEq, Hash)]
pub struct Ts5mmdome5 {
    #[asn(integer(0..7))] pub f0: u8,
    #[asn(integer(0..7))] pub f1: u8,
    #[asn(default(integer(0..7), 5))] pub f2: u8,
    #[asn(optional(integer(0..7)))] pub f3: Option<u8>,
    #[asn(integer(0..7))] pub f4: u8,
}

impl Ts5mmdome5 {
    pub const fn f0_min() -> u8 {
        0
    }

    pub const fn f0_max() -> u8 {
        7
    }

    pub const fn f1_min() -> u8 {
        0
    }

    pub const fn f1_max() -> u8 {
        7
    }

    pub const fn f2_min() -> u8 {
        0
    }

    pub const fn f2_max() -> u8 {
        7
    }

    pub const fn f3_min() -> u8 {
        0
    }

    pub const fn f3_max() -> u8 {
        7
    }

    pub const fn f4_min() -> u8 {
        0
    }

    pub const fn f4_max() -> u8 {
        7
    }
}

#[asn(sequence)]

#[derive(Default, Debug, Clone, PartialEq, Hash)]
pub struct Ts5omdomn {
    #[asn(optional(integer(0..7)))] pub f0: Option<u8>,
    #[asn(integer(0..7))] pub f1: u8,
    #[asn(default(integer(0..7), 5))] pub f2: u8,
    #[asn(optional(integer(0..7)))] pub f3: Option<u8>,
    #[asn(integer(0..7))] pub f4: u8,
}

impl Ts5omdomn {
    pub const fn f0_min() -> u8 {
        0
    }

    pub const fn f0_max() -> u8 {
        7
    }

    pub const fn f1_min() -> u8 {
        0
    }

    pub const fn f1_max() -> u8 {
        7
    }

    pub const fn f2_min() -> u8 {
        0
    }

    pub const fn f2_max() -> u8 {
        7
    }

    pub const fn f3_min() -> u8 {
        0
    }

    pub const fn f3_max() -> u8 {
        7
    }

    pub const fn f4_min() -> u8 {
        0
    }

    pub const fn f4_max() -> u8 {
        7
    }
}

#[asn(sequence, extensible_after(f0))]

#[derive(Default, Debug, Clone, PartialEq, Hash)]
pub struct Ts5omdome0 {
    #[asn(optional(integer(0..7)))] pub f0: Option<u8>,
    #[asn(optional(integer(0..7)))] pub f1: Option<u8>,
    #[asn(default(integer(0..7), 5))] pub f2: u8,
    #[asn(optional(integer(0..7)))] pub f3: Option<u8>,
    #[asn(optional(integer(0..7)))] pub f4: Option<u8>,
}

impl Ts5omdome0 {
    pub const fn f0_min() -> u8 {
        0
    }

    pub const fn f0_max() -> u8 {
        7
    }

    pub const fn f1_min() -> u8 {
        0
    }

    pub const fn f1_max() -> u8 {
        7
    }

    pub const fn f2_min() -> u8 {
        0
    }

    pub const fn f2_max() -> u8 {
        7
    }

    pub const fn f3_min() -> u8 {
        0
    }

    pub const fn f3_max() -> u8 {
        7
    }

    pub const fn f4_min() -> u8 {
        0
    }

    pub const fn f4_max() -> u8 {
        7
    }
}

#[asn(sequence, extensible_after(f0))]

#[derive(Default, Debug, Clone, PartialEq, Hash)]
pub struct Ts5omdome1 {
    #[asn(optional(integer(0..7)))] pub f0: Option<u8>,
    #[asn(optional(integer(0..7)))] pub f1: Option<u8>,
    #[asn(default(integer(0..7), 5))] pub f2: u8,
    #[asn(optional(integer(0..7)))] pub f3: Option<u8>,
    #[asn(optional(integer(0..7)))] pub f4: Option<u8>,
}

impl Ts5omdome1 {
    pub const fn f0_min() -> u8 {
        0
    }

    pub const fn f0_max() -> u8 {
        7
    }

    pub const fn f1_min() -> u8 {
        0
    }

    pub const fn f1_max() -> u8 {
        7
    }

    pub const fn f2_min() -> u8 {
        0
    }

    pub const fn f2_max() -> u8 {
        7
    }

    pub const fn f3_min() -> u8 {
        0
    }

    pub const fn f3_max() -> u8 {
        7
    }

    pub const fn f4_min() -> u8 {
        0
    }

    pub const fn f4_max() -> u8 {
        7
    }
}

#[asn(sequence, extensible_after(f1))]

#[derive(Default, Debug, Clone, PartialEq, Hash)]
pub struct Ts5omdome2 {
    #[asn(optional(integer(0..7)))] pub f0: Option<u8>,
    #[asn(integer(0..7))] pub f1: u8,
    #[asn(default(integer(0..7), 5))] pub f2: u8,
    #[asn(optional(integer(0..7)))] pub f3: Option<u8>,
    #[asn(optional(integer(0..7)))] pub f4: Option<u8>,
}

impl Ts5omdome2 {
    pub const fn f0_min() -> u8 {
        0
    }

    pub const fn f0_max() -> u8 {
        7
    }

    pub const fn f1_min() -> u8 {
        0
    }

    pub const fn f1_max() -> u8 {
        7
    }

    pub const fn f2_min() -> u8 {
        0
    }

    pub const fn f2_max() -> u8 {
        7
    }

    pub const fn f3_min() -> u8 {
        0
    }

    pub const fn f3_max() -> u8 {
        7
    }

    pub const fn f4_min() -> u8 {
        0
    }

    pub const fn f4_max() -> u8 {
        7
    }
}

#[asn(sequence, extensible_after(f2))]

#[derive(Default, Debug, Clone, PartialEq, Hash)]
pub struct Ts5omdome3 {
    #[asn(optional(integer(0..7)))] pub f0: Option<u8>,
    #[asn(integer(0..7))] pub f1: u8,
    #[asn(default(integer(0..7), 5))] pub f2: u8,
    #[asn(optional(integer(0..7)))] pub f3: Option<u8>,
    #[asn(optional(integer(0..7)))] pub f4: Option<u8>,
}

impl Ts5omdome3 {
    pub const fn f0_min() -> u8 {
        0
    }

    pub const fn f0_max() -> u8 {
        7
    }

    pub const fn f1_min() -> u8 {
        0
    }

    pub const fn f1_max() -> u8 {
        7
    }

    pub const fn f2_min() -> u8 {
        0
    }

    pub const fn f2_max() -> u8 {
        7
    }

    pub const fn f3_min() -> u8 {
        0
    }

    pub const fn f3_max() -> u8 {
        7
    }

    pub const fn f4_min() -> u8 {
        0
    }

    pub const fn f4_max() -> u8 {
        7
    }
}

#[asn(sequence, extensible_after(f3))]

#[derive(Default, Debug, Clone, PartialEq, Hash)]
pub struct Ts5omdome4 {
    #[asn(optional(integer(0..7)))] pub f0: Option<u8>,
    #[asn(integer(0..7))] pub f1: u8,
    #[asn(default(integer(0..7), 5))] pub f2: u8,
    #[asn(optional(integer(0..7)))] pub f3: Option<u8>,
    #[asn(optional(integer(0..7)))] pub f4: Option<u8>,
}

impl Ts5omdome4 {
    pub const fn f0_min() -> u8 {
        0
    }

    pub const fn f0_max() -> u8 {
        7
    }

    pub const fn f1_min() -> u8 {
        0
    }

    pub const fn f1_max() -> u8 {
        7
    }

    pub const fn f2_min() -> u8 {
        0
    }

    pub const fn f2_max() -> u8 {
        7
    }

    pub const fn f3_min() -> u8 {
        0
    }

    pub const fn f3_max() -> u8 {
        7
    }

    pub const fn f4_min() -> u8 {
        0
    }

    pub const fn f4_max() -> u8 {
        7
    }
}

#[asn(sequence, extensible_after(f4))]

#[derive(Default, Debug, Clone, PartialEq, Hash)]
pub struct Ts5omdome5 {
    #[asn(optional(integer(0..7)))] pub f0: Option<u8>,
    #[asn(integer(0..7))] pub f1: u8,
    #[asn(default(integer(0..7), 5))] pub f2: u8,
    #[asn(optional(integer(0..7)))] pub f3: Option<u8>,
    #[asn(integer(0..7))] pub f4: u8,
}

impl Ts5omdome5 {
    pub const fn f0_min() -> u8 {
        0
    }

    pub const fn f0_max() -> u8 {
        7
    }

    pub const fn f1_min() -> u8 {
        0
    }

    pub const fn f1_max() -> u8 {
        7
    }

    pub const fn f2_min() -> u8 {
        0
    }

    pub const fn f2_max() -> u8 {
        7
    }

    pub const fn f3_min() -> u8 {
        0
    }

    pub const fn f3_max() -> u8 {
        7
    }

    pub const fn f4_min() -> u8 {
        0
    }

    pub const fn f4_max() -> u8 {
        7
    }
}

#[asn(sequence)]

#[derive(Default, Debug, Clone, PartialEq, Hash)]
pub struct Ts5dmdomn {
    #[asn(default(integer(0..7), 5))] pub f0: u8,
    #[asn(integer(0..7))] pub f1: u8,
    #[asn(default(integer(0..7), 5))] pub f2: u8,
    #[asn(optional(integer(0..7)))] pub f3: Option<u8>,
    #[asn(integer(0..7))] pub f4: u8,
}

impl Ts5dmdomn {
    pub const fn f0_min() -> u8 {
        0
    }

    pub const fn f0_max() -> u8 {
        7
    }

    pub const fn f1_min() -> u8 {
        0
    }

    pub const fn f1_max() -> u8 {
        7
    }

    pub const fn f2_min() -> u8 {
        0
    }

    pub const fn f2_max() -> u8 {
        7
    }

    pub const fn f3_min() -> u8 {
        0
    }

    pub const fn f3_max() -> u8 {
        7
    }

    pub const fn f4_min() -> u8 {
        0
    }

    pub const fn f4_max() -> u8 {
        7
    }
}

#[asn(sequence, extensible_after(f0))]

#[derive(Default, Debug, Clone, PartialEq, Hash)]
pub struct Ts5dmdome0 {
    #[asn(default(integer(0..7), 5))] pub f0: u8,
    #[asn(optional(integer(0..7)))] pub f1: Option<u8>,
    #[asn(default(integer(0..7), 5))] pub f2: u8,
    #[asn(optional(integer(0..7)))] pub f3: Option<u8>,
    #[asn(optional(integer(0..7)))] pub f4: Option<u8>,
}

impl Ts5dmdome0 {
    pub const fn f0_min() -> u8 {
        0
    }

    pub const fn f0_max() -> u8 {
        7
    }

    pub const fn f1_min() -> u8 {
        0
    }

    pub const fn f1_max() -> u8 {
        7
    }

    pub const fn f2_min() -> u8 {
        0
    }

    pub const fn f2_max() -> u8 {
        7
    }

    pub const fn f3_min() -> u8 {
        0
    }

    pub const fn f3_max() -> u8 {
        7
    }

    pub const fn f4_min() -> u8 {
        0
    }

    pub const fn f4_max() -> u8 {
        7
    }
}

#[asn(sequence, extensible_after(f0))]

#[derive(Default, Debug, Clone, PartialEq, Hash)]
pub struct Ts5dmdome1 {
    #[asn(default(integer(0..7), 5))] pub f0: u8,
    #[asn(optional(integer(0..7)))] pub f1: Option<u8>,
    #[asn(default(integer(0..7), 5))] pub f2: u8,
    #[asn(optional(integer(0..7)))] pub f3: Option<u8>,
    #[asn(optional(integer(0..7)))] pub f4: Option<u8>,
}

impl Ts5dmdome1 {
    pub const fn f0_min() -> u8 {
        0
    }

    pub const fn f0_max() -> u8 {
        7
    }

    pub const fn f1_min() -> u8 {
        0
    }

    pub const fn f1_max() -> u8 {
        7
    }

    pub const fn f2_min() -> u8 {
        0
    }

    pub const fn f2_max() -> u8 {
        7
    }

    pub const fn f3_min() -> u8 {
        0
    }

    pub const fn f3_max() -> u8 {
        7
    }

    pub const fn f4_min() -> u8 {
        0
    }

    pub const fn f4_max() -> u8 {
        7
    }
}

#[asn(sequence, extensible_after(f1))]

#[derive(Default, Debug, Clone, PartialEq, Hash)]
pub struct Ts5dmdome2 {
    #[asn(default(integer(0..7), 5))] pub f0: u8,
    #[asn(integer(0..7))] pub f1: u8,
    #[asn(default(integer(0..7), 5))] pub f2: u8,
    #[asn(optional(integer(0..7)))] pub f3: Option<u8>,
    #[asn(optional(integer(0..7)))] pub f4: Option<u8>,
}

impl Ts5dmdome2 {
    pub const fn f0_min() -> u8 {
        0
    }

    pub const fn f0_max() -> u8 {
        7
    }

    pub const fn f1_min() -> u8 {
        0
    }

    pub const fn f1_max() -> u8 {
        7
    }

    pub const fn f2_min() -> u8 {
        0
    }

    pub const fn f2_max() -> u8 {
        7
    }

    pub const fn f3_min() -> u8 {
        0
    }

    pub const fn f3_max() -> u8 {
        7
    }

    pub const fn f4_min() -> u8 {
        0
    }

    pub const fn f4_max() -> u8 {
        7
    }
}

#[asn(sequence, extensible_after(f2))]

#[derive(Default, Debug, Clone, PartialEq, Hash)]
pub struct Ts5dmdome3 {
    #[asn(default(integer(0..7), 5))] pub f0: u8,
    #[asn(integer(0..7))] pub f1: u8,
    #[asn(default(integer(0..7), 5))] pub f2: u8,
    #[asn(optional(integer(0..7)))] pub f3: Option<u8>,
    #[asn(optional(integer(0..7)))] pub f4: Option<u8>,
}

impl Ts5dmdome3 {
    pub const fn f0_min() -> u8 {
        0
    }

    pub const fn f0_max() -> u8 {
        7
    }

    pub const fn f1_min() -> u8 {
        0
    }

    pub const fn f1_max() -> u8 {
        7
    }

    pub const fn f2_min() -> u8 {
        0
    }

    pub const fn f2_max() -> u8 {
        7
    }

    pub const fn f3_min() -> u8 {
        0
    }

    pub const fn f3_max() -> u8 {
        7
    }

    pub const fn f4_min() -> u8 {
        0
    }

    pub const fn f4_max() -> u8 {
        7
    }
}

#[asn(sequence, extensible_after(f3))]

#[derive(Default, Debug, Clone, PartialEq, Hash)]
pub struct Ts5dmdome4 {
    #[asn(default(integer(0..7), 5))] pub f0: u8,
    #[asn(integer(0..7))] pub f1: u8,
    #[asn(default(integer(0..7), 5))] pub f2: u8,
    #[asn(optional(integer(0..7)))] pub f3: Option<u8>,
    #[asn(optional(integer(0..7)))] pub f4: Option<u8>,
}

impl Ts5dmdome4 {
    pub const fn f0_min() -> u8 {
        0
    }

    pub const fn f0_max() -> u8 {
        7
    }

    pub const fn f1_min() -> u8 {
        0
    }

    pub const fn f1_max() -> u8 {
        7
    }

    pub const fn f2_min() -> u8 {
        0
    }

    pub const fn f2_max() -> u8 {
        7
    }

    pub const fn f3_min() -> u8 {
        0
    }

    pub const fn f3_max() -> u8 {
        7
    }

    pub const fn f4_min() -> u8 {
        0
    }

    pub const fn f4_max() -> u8 {
        7
    }
}

#[asn(sequence, extensible_after(f4))]

#[derive(Default, Debug, Clone, PartialEq, Hash)]
pub struct Ts5dmdome5 {
    #[asn(default(integer(0..7), 5))] pub f0: u8,
    #[asn(integer(0..7))] pub f1: u8,
    #[asn(default(integer(0..7), 5))] pub f2: u8,
    #[asn(optional(integer(0..7)))] pub f3: Option<u8>,
    #[asn(integer(0..7))] pub f4: u8,
}

impl Ts5dmdome5 {
    pub const fn f0_min() -> u8 {
        0
    }

    pub const fn f0_max() -> u8 {
        7
    }

    pub const fn f1_min() -> u8 {
        0
    }

    pub const fn f1_max() -> u8 {
        7
    }

    pub const fn f2_min() -> u8 {
        0
    }

    pub const fn f2_max() -> u8 {
        7
    }

    pub const fn f3_min() -> u8 {
        0
    }

    pub const fn f3_max() -> u8 {
        7
    }

    pub const fn f4_min() -> u8 {
        0
    }

    pub const fn f4_max() -> u8 {
        7
    }
}

#[asn(sequence)]

#[derive(Default, Debug, Clone, PartialEq, Hash)]
pub struct Ts5modomn {
    #[asn(integer(0..7))] pub f0: u8,
    #[asn(optional(integer(0..7)))] pub f1: Option<u8>,
    #[asn(default(integer(0..7), 5))] pub f2: u8,
    #[asn(optional(integer(0..7)))] pub f3: Option<u8>,
    #[asn(integer(0..7))] pub f4: u8,
}

impl Ts5modomn {
    pub const fn f0_min() -> u8 {
        0
    }

    pub const fn f0_max() -> u8 {
        7
    }

    pub const fn f1_min() -> u8 {
        0
    }

    pub const fn f1_max() -> u8 {
        7
    }

    pub const fn f2_min() -> u8 {
        0
    }

    pub const fn f2_max() -> u8 {
        7
    }

    pub const fn f3_min() -> u8 {
        0
    }

    pub const fn f3_max() -> u8 {
        7
    }

    pub const fn f4_min() -> u8 {
        0
    }

    pub const fn f4_max() -> u8 {
        7
    }
}

#[asn(sequence, extensible_after(f0))]

#[derive(Default, Debug, Clone, PartialEq, Hash)]
pub struct Ts5modome0 {
    #[asn(integer(0..7))] pub f0: u8,
    #[asn(optional(integer(0..7)))] pub f1: Option<u8>,
    #[asn(default(integer(0..7), 5))] pub f2: u8,
    #[asn(optional(integer(0..7)))] pub f3: Option<u8>,
    #[asn(optional(integer(0..7)))] pub f4: Option<u8>,
}

impl Ts5modome0 {
    pub const fn f0_min() -> u8 {
        0
    }

    pub const fn f0_max() -> u8 {
        7
    }

    pub const fn f1_min() -> u8 {
        0
    }

    pub const fn f1_max() -> u8 {
        7
    }

    pub const fn f2_min() -> u8 {
        0
    }

    pub const fn f2_max() -> u8 {
        7
    }

    pub const fn f3_min() -> u8 {
        0
    }

    pub const fn f3_max() -> u8 {
        7
    }

    pub const fn f4_min() -> u8 {
        0
    }

    pub const fn f4_max() -> u8 {
        7
    }
}

#[asn(sequence, extensible_after(f0))]

#[derive(Default, Debug, Clone, PartialEq, Hash)]
pub struct Ts5modome1 {
    #[asn(integer(0..7))] pub f0: u8,
    #[asn(optional(integer(0..7)))] pub f1: Option<u8>,
    #[asn(default(integer(0..7), 5))] pub f2: u8,
    #[asn(optional(integer(0..7)))] pub f3: Option<u8>,
    #[asn(optional(integer(0..7)))] pub f4: Option<u8>,
}

impl Ts5modome1 {
    pub const fn f0_min() -> u8 {
        0
    }

    pub const fn f0_max() -> u8 {
        7
    }

    pub const fn f1_min() -> u8 {
        0
    }

    pub const fn f1_max() -> u8 {
        7
    }

    pub const fn f2_min() -> u8 {
        0
    }

    pub const fn f2_max() -> u8 {
        7
    }

    pub const fn f3_min() -> u8 {
        0
    }

    pub const fn f3_max() -> u8 {
        7
    }

    pub const fn f4_min() -> u8 {
        0
    }

    pub const fn f4_max() -> u8 {
        7
    }
}

#[asn(sequence, extensible_after(f1))]

#[derive(Default, Debug, Clone, PartialEq, Hash)]
pub struct Ts5modome2 {
    #[asn(integer(0..7))] pub f0: u8,
    #[asn(optional(integer(0..7)))] pub f1: Option<u8>,
    #[asn(default(integer(0..7), 5))] pub f2: u8,
    #[asn(optional(integer(0..7)))] pub f3: Option<u8>,
    #[asn(optional(integer(0..7)))] pub f4: Option<u8>,
}

impl Ts5modome2 {
    pub const fn f0_min() -> u8 {
        0
    }

    pub const fn f0_max() -> u8 {
        7
    }

    pub const fn f1_min() -> u8 {
        0
    }

    pub const fn f1_max() -> u8 {
        7
    }

    pub const fn f2_min() -> u8 {
        0
    }

    pub const fn f2_max() -> u8 {
        7
    }

    pub const fn f3_min() -> u8 {
        0
    }

    pub const fn f3_max() -> u8 {
        7
    }

    pub const fn f4_min() -> u8 {
        0
    }

    pub const fn f4_max() -> u8 {
        7
    }
}

#[asn(sequence, extensible_after(f2))]

#[derive(Default, Debug, Clone, PartialEq, Hash)]
pub struct Ts5modome3 {
    #[asn(integer(0..7))] pub f0: u8,
    #[asn(optional(integer(0..7)))] pub f1: Option<u8>,
    #[asn(default(integer(0..7), 5))] pub f2: u8,
    #[asn(optional(integer(0..7)))] pub f3: Option<u8>,
    #[asn(optional(integer(0..7)))] pub f4: Option<u8>,
}

impl Ts5modome3 {
    pub const fn f0_min() -> u8 {
        0
    }

    pub const fn f0_max() -> u8 {
        7
    }

    pub const fn f1_min() -> u8 {
        0
    }

    pub const fn f1_max() -> u8 {
        7
    }

    pub const fn f2_min() -> u8 {
        0
    }

    pub const fn f2_max() -> u8 {
        7
    }

    pub const fn f3_min() -> u8 {
        0
    }

    pub const fn f3_max() -> u8 {
        7
    }

    pub const fn f4_min() -> u8 {
        0
    }

    pub const fn f4_max() -> u8 {
        7
    }
}

#[asn(sequence, extensible_after(f3))]

#[derive(Default, Debug, Clone, PartialEq, Hash)]
pub struct Ts5modome4 {
    #[asn(integer(0..7))] pub f0: u8,
    #[asn(optional(integer(0..7)))] pub f1: Option<u8>,
    #[asn(default(integer(0..7), 5))] pub f2: u8,
    #[asn(optional(integer(0..7)))] pub f3: Option<u8>,
    #[asn(optional(integer(0..7)))] pub f4: Option<u8>,
}

impl Ts5modome4 {
    pub const fn f0_min() -> u8 {
        0
    }

    pub const fn f0_max() -> u8 {
        7
    }

    pub const fn f1_min() -> u8 {
        0
    }

    pub const fn f1_max() -> u8 {
        7
    }

    pub const fn f2_min() -> u8 {
        0
    }

    pub const fn f2_max() -> u8 {
        7
    }

    pub const fn f3_min() -> u8 {
        0
    }

    pub const fn f3_max() -> u8 {
        7
    }

    pub const fn f4_min() -> u8 {
        0
    }

    pub const fn f4_max() -> u8 {
        7
    }
}

#[asn(sequence, extensible_after(f4))]

#[derive(Default, Debug, Clone, PartialEq, Hash)]
pub struct Ts5modome5 {
    #[asn(integer(0..7))] pub f0: u8,
    #[asn(optional(integer(0..7)))] pub f1: Option<u8>,
    #[asn(default(integer(0..7), 5))] pub f2: u8,
    #[asn(optional(integer(0..7)))] pub f3: Option<u8>,
    #[asn(integer(0..7))] pub f4: u8,
}

impl Ts5modome5 {
    pub const fn f0_min() -> u8 {
        0
    }

    pub const fn f0_max() -> u8 {
        7
    }

    pub const fn f1_min() -> u8 {
        0
    }

    pub const fn f1_max() -> u8 {
        7
    }

    pub const fn f2_min() -> u8 {
        0
    }

    pub const fn f2_max() -> u8 {
        7
    }

    pub const fn f3_min() -> u8 {
        0
    }

    pub const fn f3_max() -> u8 {
        7
    }

    pub const fn f4_min() -> u8 {
        0
    }

    pub const fn f4_max() -> u8 {
        7
    }
}

#[asn(sequence)]

#[derive(Default, Debug, Clone, PartialEq, Hash)]
pub struct Ts5oodomn {
    #[asn(optional(integer(0..7)))] pub f0: Option<u8>,
    #[asn(optional(integer(0..7)))] pub f1: Option<u8>,
    #[asn(default(integer(0..7), 5))] pub f2: u8,
    #[asn(optional(integer(0..7)))] pub f3: Option<u8>,
    #[asn(integer(0..7))] pub f4: u8,
}

impl Ts5oodomn {
    pub const fn f0_min() -> u8 {
        0
    }

    pub const fn f0_max() -> u8 {
        7
    }

    pub const fn f1_min() -> u8 {
        0
    }

    pub const fn f1_max() -> u8 {
        7
    }

    pub const fn f2_min() -> u8 {
        0
    }

    pub const fn f2_max() -> u8 {
        7
    }

    pub const fn f3_min() -> u8 {
        0
    }

    pub const fn f3_max() -> u8 {
        7
    }

    pub const fn f4_min() -> u8 {
        0
    }

    pub const fn f4_max() -> u8 {
        7
    }
}

#[asn(sequence, extensible_after(f0))]

#[derive(Default, Debug, Clone, PartialEq, Hash)]
pub struct Ts5oodome0 {
    #[asn(optional(integer(0..7)))] pub f0: Option<u8>,
    #[asn(optional(integer(0..7)))] pub f1: Option<u8>,
    #[asn(default(integer(0..7), 5))] pub f2: u8,
    #[asn(optional(integer(0..7)))] pub f3: Option<u8>,
    #[asn(optional(integer(0..7)))] pub f4: Option<u8>,
}

impl Ts5oodome0 {
    pub const fn f0_min() -> u8 {
        0
    }

    pub const fn f0_max() -> u8 {
        7
    }

    pub const fn f1_min() -> u8 {
        0
    }

    pub const fn f1_max() -> u8 {
        7
    }

    pub const fn f2_min() -> u8 {
        0
    }

    pub const fn f2_max() -> u8 {
        7
    }

    pub const fn f3_min() -> u8 {
        0
    }

    pub const fn f3_max() -> u8 {
        7
    }

    pub const fn f4_min() -> u8 {
        0
    }

    pub const fn f4_max() -> u8 {
        7
    }
}

#[asn(sequence, extensible_after(f0))]

#[derive(Default, Debug, Clone, PartialEq, Hash)]
pub struct Ts5oodome1 {
    #[asn(optional(integer(0..7)))] pub f0: Option<u8>,
    #[asn(optional(integer(0..7)))] pub f1: Option<u8>,
    #[asn(default(integer(0..7), 5))] pub f2: u8,
    #[asn(optional(integer(0..7)))] pub f3: Option<u8>,
    #[asn(optional(integer(0..7)))] pub f4: Option<u8>,
}

impl Ts5oodome1 {
    pub const fn f0_min() -> u8 {
        0
    }

    pub const fn f0_max() -> u8 {
        7
    }

    pub const fn f1_min() -> u8 {
        0
    }

    pub const fn f1_max() -> u8 {
        7
    }

    pub const fn f2_min() -> u8 {
        0
    }

    pub const fn f2_max() -> u8 {
        7
    }

    pub const fn f3_min() -> u8 {
        0
    }

    pub const fn f3_max() -> u8 {
        7
    }

    pub const fn f4_min() -> u8 {
        0
    }

    pub const fn f4_max() -> u8 {
        7
    }
}

#[asn(sequence, extensible_after(f1))]

#[derive(Default, Debug, Clone, PartialEq, Hash)]
pub struct Ts5oodome2 {
    #[asn(optional(integer(0..7)))] pub f0: Option<u8>,
    #[asn(optional(integer(0..7)))] pub f1: Option<u8>,
    #[asn(default(integer(0..7), 5))] pub f2: u8,
    #[asn(optional(integer(0..7)))] pub f3: Option<u8>,
    #[asn(optional(integer(0..7)))] pub f4: Option<u8>,
}

impl Ts5oodome2 {
    pub const fn f0_min() -> u8 {
        0
    }

    pub const fn f0_max() -> u8 {
        7
    }

    pub const fn f1_min() -> u8 {
        0
    }

    pub const fn f1_max() -> u8 {
        7
    }

    pub const fn f2_min() -> u8 {
        0
    }

    pub const fn f2_max() -> u8 {
        7
    }

    pub const fn f3_min() -> u8 {
        0
    }

    pub const fn f3_max() -> u8 {
        7
    }

    pub const fn f4_min() -> u8 {
        0
    }

    pub const fn f4_max() -> u8 {
        7
    }
}

#[asn(sequence, extensible_after(f2))]

#[derive(Default, Debug, Clone, PartialEq, Hash)]
pub struct Ts5oodome3 {
    #[asn(optional(integer(0..7)))] pub f0: Option<u8>,
    #[asn(optional(integer(0..7)))] pub f1: Option<u8>,
    #[asn(default(integer(0..7), 5))] pub f2: u8,
    #[asn(optional(integer(0..7)))] pub f3: Option<u8>,
    #[asn(optional(integer(0..7)))] pub f4: Option<u8>,
}

impl Ts5oodome3 {
    pub const fn f0_min() -> u8 {
        0
    }

    pub const fn f0_max() -> u8 {
        7
    }

    pub const fn f1_min() -> u8 {
        0
    }

    pub const fn f1_max() -> u8 {
        7
    }

    pub const fn f2_min() -> u8 {
        0
    }

    pub const fn f2_max() -> u8 {
        7
    }

    pub const fn f3_min() -> u8 {
        0
    }

    pub const fn f3_max() -> u8 {
        7
    }

    pub const fn f4_min() -> u8 {
        0
    }

    pub const fn f4_max() -> u8 {
        7
    }
}

#[asn(sequence, extensible_after(f3))]

#[derive(Default, Debug, Clone, PartialEq, Hash)]
pub struct Ts5oodome4 {
    #[asn(optional(integer(0..7)))] pub f0: Option<u8>,
    #[asn(optional(integer(0..7)))] pub f1: Option<u8>,
    #[asn(default(integer(0..7), 5))] pub f2: u8,
    #[asn(optional(integer(0..7)))] pub f3: Option<u8>,
    #[asn(optional(integer(0..7)))] pub f4: Option<u8>,
}

impl Ts5oodome4 {
    pub const fn f0_min() -> u8 {
        0
    }

    pub const fn f0_max() -> u8 {
        7
    }

    pub const fn f1_min() -> u8 {
        0
    }

    pub const fn f1_max() -> u8 {
        7
    }

    pub const fn f2_min() -> u8 {
        0
    }

    pub const fn f2_max() -> u8 {
        7
    }

    pub const fn f3_min() -> u8 {
        0
    }

    pub const fn f3_max() -> u8 {
        7
    }

    pub const fn f4_min() -> u8 {
        0
    }

    pub const fn f4_max() -> u8 {
        7
    }
}

#[asn(sequence, extensible_after(f4))]

#[derive(Default, Debug, Clone, PartialEq, Hash)]
pub struct Ts5oodome5 {
    #[asn(optional(integer(0..7)))] pub f0: Option<u8>,
    #[asn(optional(integer(0..7)))] pub f1: Option<u8>,
    #[asn(default(integer(0..7), 5))] pub f2: u8,
    #[asn(optional(integer(0..7)))] pub f3: Option<u8>,
    #[asn(integer(0..7))] pub f4: u8,
}

impl Ts5oodome5 {
    pub const fn f0_min() -> u8 {
        0
    }

    pub const fn f0_max() -> u8 {
        7
    }

    pub const fn f1_min() -> u8 {
        0
    }

    pub const fn f1_max() -> u8 {
        7
    }

    pub const fn f2_min() -> u8 {
        0
    }

    pub const fn f2_max() -> u8 {
        7
    }

    pub const fn f3_min() -> u8 {
        0
    }

    pub const fn f3_max() -> u8 {
        7
    }

    pub const fn f4_min() -> u8 {
        0
    }

    pub const fn f4_max() -> u8 {
        7
    }
}

#[asn(sequence)]

#[derive(Default, Debug, Clone, PartialEq, Hash)]
pub struct Ts5dodomn {
    #[asn(default(integer(0..7), 5))] pub f0: u8,
    #[asn(optional(integer(0..7)))] pub f1: Option<u8>,
    #[asn(default(integer(0..7), 5))] pub f2: u8,
    #[asn(optional(integer(0..7)))] pub f3: Option<u8>,
    #[asn(integer(0..7))] pub f4: u8,
}

impl Ts5dodomn {
    pub const fn f0_min() -> u8 {
        0
    }

    pub const fn f0_max() -> u8 {
        7
    }

    pub const fn f1_min() -> u8 {
        0
    }

    pub const fn f1_max() -> u8 {
        7
    }

    pub const fn f2_min() -> u8 {
        0
    }

    pub const fn f2_max() -> u8 {
        7
    }

    pub const fn f3_min() -> u8 {
        0
    }

    pub const fn f3_max() -> u8 {
        7
    }

    pub const fn f4_min() -> u8 {
        0
    }

    pub const fn f4_max() -> u8 {
        7
    }
}

#[asn(sequence, extensible_after(f0))]

#[derive(Default, Debug, Clone, PartialEq, Hash)]
pub struct Ts5dodome0 {
    #[asn(default(integer(0..7), 5))] pub f0: u8,
    #[asn(optional(integer(0..7)))] pub f1: Option<u8>,
    #[asn(default(integer(0..7), 5))] pub f2: u8,
    #[asn(optional(integer(0..7)))] pub f3: Option<u8>,
    #[asn(optional(integer(0..7)))] pub f4: Option<u8>,
}

impl Ts5dodome0 {
    pub const fn f0_min() -> u8 {
        0
    }

    pub const fn f0_max() -> u8 {
        7
    }

    pub const fn f1_min() -> u8 {
        0
    }

    pub const fn f1_max() -> u8 {
        7
    }

    pub const fn f2_min() -> u8 {
        0
    }

    pub const fn f2_max() -> u8 {
        7
    }

    pub const fn f3_min() -> u8 {
        0
    }

    pub const fn f3_max() -> u8 {
        7
    }

    pub const fn f4_min() -> u8 {
        0
    }

    pub const fn f4_max() -> u8 {
        7
    }
}

#[asn(sequence, extensible_after(f0))]

#[derive(Default, Debug, Clone, PartialEq, Hash)]
pub struct Ts5dodome1 {
    #[asn(default(integer(0..7), 5))] pub f0: u8,
    #[asn(optional(integer(0..7)))] pub f1: Option<u8>,
    #[asn(default(integer(0..7), 5))] pub f2: u8,
    #[asn(optional(integer(0..7)))] pub f3: Option<u8>,
    #[asn(optional(integer(0..7)))] pub f4: Option<u8>,
}

impl Ts5dodome1 {
    pub const fn f0_min() -> u8 {
        0
    }

    pub const fn f0_max() -> u8 {
        7
    }

    pub const fn f1_min() -> u8 {
        0
    }

    pub const fn f1_max() -> u8 {
        7
    }

    pub const fn f2_min() -> u8 {
        0
    }

    pub const fn f2_max() -> u8 {
        7
    }

    pub const fn f3_min() -> u8 {
        0
    }

    pub const fn f3_max() -> u8 {
        7
    }

    pub const fn f4_min() -> u8 {
        0
    }

    pub const fn f4_max() -> u8 {
        7
    }
}

#[asn(sequence, extensible_after(f1))]

#[derive(Default, Debug, Clone, PartialEq, Hash)]
pub struct Ts5dodome2 {
    #[asn(default(integer(0..7), 5))] pub f0: u8,
    #[asn(optional(integer(0..7)))] pub f1: Option<u8>,
    #[asn(default(integer(0..7), 5))] pub f2: u8,
    #[asn(optional(integer(0..7)))] pub f3: Option<u8>,
    #[asn(optional(integer(0..7)))] pub f4: Option<u8>,
}

impl Ts5dodome2 {
    pub const fn f0_min() -> u8 {
        0
    }

    pub const fn f0_max() -> u8 {
        7
    }

    pub const fn f1_min() -> u8 {
        0
    }

    pub const fn f1_max() -> u8 {
        7
    }

    pub const fn f2_min() -> u8 {
        0
    }

    pub const fn f2_max() -> u8 {
        7
    }

    pub const fn f3_min() -> u8 {
        0
    }

    pub const fn f3_max() -> u8 {
        7
    }

    pub const fn f4_min() -> u8 {
        0
    }

    pub const fn f4_max() -> u8 {
        7
    }
}

#[asn(sequence, extensible_after(f2))]

#[derive(Default, Debug, Clone, PartialEq, Hash)]
pub struct Ts5dodome3 {
    #[asn(default(integer(0..7), 5))] pub f0: u8,
    #[asn(optional(integer(0..7)))] pub f1: Option<u8>,
    #[asn(default(integer(0..7), 5))] pub f2: u8,
    #[asn(optional(integer(0..7)))] pub f3: Option<u8>,
    #[asn(optional(integer(0..7)))] pub f4: Option<u8>,
}

impl Ts5dodome3 {
    pub const fn f0_min() -> u8 {
        0
    }

    pub const fn f0_max() -> u8 {
        7
    }

    pub const fn f1_min() -> u8 {
        0
    }

    pub const fn f1_max() -> u8 {
        7
    }

    pub const fn f2_min() -> u8 {
        0
    }

    pub const fn f2_max() -> u8 {
        7
    }

    pub const fn f3_min() -> u8 {
        0
    }

    pub const fn f3_max() -> u8 {
        7
    }

    pub const fn f4_min() -> u8 {
        0
    }

    pub const fn f4_max() -> u8 {
        7
    }
}

#[asn(sequence, extensible_after(f3))]

#[derive(Default, Debug, Clone, PartialEq, Hash)]
pub struct Ts5dodome4 {
    #[asn(default(integer(0..7), 5))] pub f0: u8,
    #[asn(optional(integer(0..7)))] pub f1: Option<u8>,
    #[asn(default(integer(0..7), 5))] pub f2: u8,
    #[asn(optional(integer(0..7)))] pub f3: Option<u8>,
    #[asn(optional(integer(0..7)))] pub f4: Option<u8>,
}

impl Ts5dodome4 {
    pub const fn f0_min() -> u8 {
        0
    }

    pub const fn f0_max() -> u8 {
        7
    }

    pub const fn f1_min() -> u8 {
        0
    }

    pub const fn f1_max() -> u8 {
        7
    }

    pub const fn f2_min() -> u8 {
        0
    }

    pub const fn f2_max() -> u8 {
        7
    }

    pub const fn f3_min() -> u8 {
        0
    }

    pub const fn f3_max() -> u8 {
        7
    }

    pub const fn f4_min() -> u8 {
        0
    }

    pub const fn f4_max() -> u8 {
        7
    }
}

#[asn(sequence, extensible_after(f4))]

#[derive(Default, Debug, Clone, PartialEq, Hash)]
pub struct Ts5dodome5 {
    #[asn(default(integer(0..7), 5))] pub f0: u8,
    #[asn(optional(integer(0..7)))] pub f1: Option<u8>,
    #[asn(default(integer(0..7), 5))] pub f2: u8,
    #[asn(optional(integer(0..7)))] pub f3: Option<u8>,
    #[asn(integer(0..7))] pub f4: u8,
}

impl Ts5dodome5 {
    pub const fn f0_min() -> u8 {
        0
    }

    pub const fn f0_max() -> u8 {
        7
    }

    pub const fn f1_min() -> u8 {
        0
    }

    pub const fn f1_max() -> u8 {
        7
    }

    pub const fn f2_min() -> u8 {
        0
    }

    pub const fn f2_max() -> u8 {
        7
    }

    pub const fn f3_min() -> u8 {
        0
    }

    pub const fn f3_max() -> u8 {
        7
    }

    pub const fn f4_min() -> u8 {
        0
    }

    pub const fn f4_max() -> u8 {
        7
    }
}

#[asn(sequence)]

#[derive(Default, Debug, Clone, PartialEq, Hash)]
pub struct Ts5mddomn {
    #[asn(integer(0..7))] pub f0: u8,
    #[asn(default(integer(0..7), 5))] pub f1: u8,
    #[asn(default(integer(0..7), 5))] pub f2: u8,
    #[asn(optional(integer(0..7)))] pub f3: Option<u8>,
    #[asn(integer(0..7))] pub f4: u8,
}

impl Ts5mddomn {
    pub const fn f0_min() -> u8 {
        0
    }

    pub const fn f0_max() -> u8 {
        7
    }

    pub const fn f1_min() -> u8 {
        0
    }

    pub const fn f1_max() -> u8 {
        7
    }

    pub const fn f2_min() -> u8 {
        0
    }

    pub const fn f2_max() -> u8 {
        7
    }

    pub const fn f3_min() -> u8 {
        0
    }

    pub const fn f3_max() -> u8 {
        7
    }

    pub const fn f4_min() -> u8 {
        0
    }

    pub const fn f4_max() -> u8 {
        7
    }
}

#[asn(sequence, extensible_after(f0))]

#[derive(Default, Debug, Clone, PartialEq, Hash)]
pub struct Ts5mddome0 {
    #[asn(integer(0..7))] pub f0: u8,
    #[asn(default(integer(0..7), 5))] pub f1: u8,
    #[asn(default(integer(0..7), 5))] pub f2: u8,
    #[asn(optional(integer(0..7)))] pub f3: Option<u8>,
    #[asn(optional(integer(0..7)))] pub f4: Option<u8>,
}

impl Ts5mddome0 {
    pub const fn f0_min() -> u8 {
        0
    }

    pub const fn f0_max() -> u8 {
        7
    }

    pub const fn f1_min() -> u8 {
        0
    }

    pub const fn f1_max() -> u8 {
        7
    }

    pub const fn f2_min() -> u8 {
        0
    }

    pub const fn f2_max() -> u8 {
        7
    }

    pub const fn f3_min() -> u8 {
        0
    }

    pub const fn f3_max() -> u8 {
        7
    }

    pub const fn f4_min() -> u8 {
        0
    }

    pub const fn f4_max() -> u8 {
        7
    }
}

#[asn(sequence, extensible_after(f0))]

#[derive(Default, Debug, Clone, PartialEq, Hash)]
pub struct Ts5mddome1 {
    #[asn(integer(0..7))] pub f0: u8,
    #[asn(default(integer(0..7), 5))] pub f1: u8,
    #[asn(default(integer(0..7), 5))] pub f2: u8,
    #[asn(optional(integer(0..7)))] pub f3: Option<u8>,
    #[asn(optional(integer(0..7)))] pub f4: Option<u8>,
}

impl Ts5mddome1 {
    pub const fn f0_min() -> u8 {
        0
    }

    pub const fn f0_max() -> u8 {
        7
    }

    pub const fn f1_min() -> u8 {
        0
    }

    pub const fn f1_max() -> u8 {
        7
    }

    pub const fn f2_min() -> u8 {
        0
    }

    pub const fn f2_max() -> u8 {
        7
    }

    pub const fn f3_min() -> u8 {
        0
    }

    pub const fn f3_max() -> u8 {
        7
    }

    pub const fn f4_min() -> u8 {
        0
    }

    pub const fn f4_max() -> u8 {
        7
    }
}
// ---- harness conversions (generated by the zoo build script from the items above) ----
impl FromValue for Ts5odmome1 {
    fn from_value(v: &Value) -> Self {
        let s = match v { Value::Seq(s) => s, other => panic!("Ts5odmome1: expected Seq, got {other:?}") };
        assert_eq!(s.len(), 5, "Ts5odmome1: component count");
        let _ = s;
        Ts5odmome1 {
            f0: s[0].as_ref().map(FromValue::from_value),
            f1: FromValue::from_value(s[1].as_ref().expect("component f1 of Ts5odmome1 must be present")),
            f2: s[2].as_ref().map(FromValue::from_value),
            f3: s[3].as_ref().map(FromValue::from_value),
            f4: s[4].as_ref().map(FromValue::from_value),
        }
    }
}
impl ToValue for Ts5odmome1 {
    fn to_value(&self) -> Value {
        Value::Seq(vec![
            self.f0.as_ref().map(|x| x.to_value()),
            Some(self.f1.to_value()),
            self.f2.as_ref().map(|x| x.to_value()),
            self.f3.as_ref().map(|x| x.to_value()),
            self.f4.as_ref().map(|x| x.to_value()),
        ])
    }
}
impl FromValue for Ts5odmome2 {
    fn from_value(v: &Value) -> Self {
        let s = match v { Value::Seq(s) => s, other => panic!("Ts5odmome2: expected Seq, got {other:?}") };
        assert_eq!(s.len(), 5, "Ts5odmome2: component count");
        let _ = s;
        Ts5odmome2 {
            f0: s[0].as_ref().map(FromValue::from_value),
            f1: FromValue::from_value(s[1].as_ref().expect("component f1 of Ts5odmome2 must be present")),
            f2: s[2].as_ref().map(FromValue::from_value),
            f3: s[3].as_ref().map(FromValue::from_value),
            f4: s[4].as_ref().map(FromValue::from_value),
        }
    }
}
impl ToValue for Ts5odmome2 {
    fn to_value(&self) -> Value {
        Value::Seq(vec![
            self.f0.as_ref().map(|x| x.to_value()),
            Some(self.f1.to_value()),
            self.f2.as_ref().map(|x| x.to_value()),
            self.f3.as_ref().map(|x| x.to_value()),
            self.f4.as_ref().map(|x| x.to_value()),
        ])
    }
}
impl FromValue for Ts5odmome3 {
    fn from_value(v: &Value) -> Self {
        let s = match v { Value::Seq(s) => s, other => panic!("Ts5odmome3: expected Seq, got {other:?}") };
        assert_eq!(s.len(), 5, "Ts5odmome3: component count");
        let _ = s;
        Ts5odmome3 {
            f0: s[0].as_ref().map(FromValue::from_value),
            f1: FromValue::from_value(s[1].as_ref().expect("component f1 of Ts5odmome3 must be present")),
            f2: FromValue::from_value(s[2].as_ref().expect("component f2 of Ts5odmome3 must be present")),
            f3: s[3].as_ref().map(FromValue::from_value),
            f4: s[4].as_ref().map(FromValue::from_value),
        }
    }
}
impl ToValue for Ts5odmome3 {
    fn to_value(&self) -> Value {
        Value::Seq(vec![
            self.f0.as_ref().map(|x| x.to_value()),
            Some(self.f1.to_value()),
            Some(self.f2.to_value()),
            self.f3.as_ref().map(|x| x.to_value()),
            self.f4.as_ref().map(|x| x.to_value()),
        ])
    }
}
impl FromValue for Ts5odmome4 {
    fn from_value(v: &Value) -> Self {
        let s = match v { Value::Seq(s) => s, other => panic!("Ts5odmome4: expected Seq, got {other:?}") };
        assert_eq!(s.len(), 5, "Ts5odmome4: component count");
        let _ = s;
        Ts5odmome4 {
            f0: s[0].as_ref().map(FromValue::from_value),
            f1: FromValue::from_value(s[1].as_ref().expect("component f1 of Ts5odmome4 must be present")),
            f2: FromValue::from_value(s[2].as_ref().expect("component f2 of Ts5odmome4 must be present")),
            f3: s[3].as_ref().map(FromValue::from_value),
            f4: s[4].as_ref().map(FromValue::from_value),
        }
    }
}
impl ToValue for Ts5odmome4 {
    fn to_value(&self) -> Value {
        Value::Seq(vec![
            self.f0.as_ref().map(|x| x.to_value()),
            Some(self.f1.to_value()),
            Some(self.f2.to_value()),
            self.f3.as_ref().map(|x| x.to_value()),
            self.f4.as_ref().map(|x| x.to_value()),
        ])
    }
}
impl FromValue for Ts5odmome5 {
    fn from_value(v: &Value) -> Self {
        let s = match v { Value::Seq(s) => s, other => panic!("Ts5odmome5: expected Seq, got {other:?}") };
        assert_eq!(s.len(), 5, "Ts5odmome5: component count");
        let _ = s;
        Ts5odmome5 {
            f0: s[0].as_ref().map(FromValue::from_value),
            f1: FromValue::from_value(s[1].as_ref().expect("component f1 of Ts5odmome5 must be present")),
            f2: FromValue::from_value(s[2].as_ref().expect("component f2 of Ts5odmome5 must be present")),
            f3: s[3].as_ref().map(FromValue::from_value),
            f4: FromValue::from_value(s[4].as_ref().expect("component f4 of Ts5odmome5 must be present")),
        }
    }
}
impl ToValue for Ts5odmome5 {
    fn to_value(&self) -> Value {
        Value::Seq(vec![
            self.f0.as_ref().map(|x| x.to_value()),
            Some(self.f1.to_value()),
            Some(self.f2.to_value()),
            self.f3.as_ref().map(|x| x.to_value()),
            Some(self.f4.to_value()),
        ])
    }
}
impl FromValue for Ts5ddmomn {
    fn from_value(v: &Value) -> Self {
        let s = match v { Value::Seq(s) => s, other => panic!("Ts5ddmomn: expected Seq, got {other:?}") };
        assert_eq!(s.len(), 5, "Ts5ddmomn: component count");
        let _ = s;
        Ts5ddmomn {
            f0: FromValue::from_value(s[0].as_ref().expect("component f0 of Ts5ddmomn must be present")),
            f1: FromValue::from_value(s[1].as_ref().expect("component f1 of Ts5ddmomn must be present")),
            f2: FromValue::from_value(s[2].as_ref().expect("component f2 of Ts5ddmomn must be present")),
            f3: s[3].as_ref().map(FromValue::from_value),
            f4: FromValue::from_value(s[4].as_ref().expect("component f4 of Ts5ddmomn must be present")),
        }
    }
}
impl ToValue for Ts5ddmomn {
    fn to_value(&self) -> Value {
        Value::Seq(vec![
            Some(self.f0.to_value()),
            Some(self.f1.to_value()),
            Some(self.f2.to_value()),
            self.f3.as_ref().map(|x| x.to_value()),
            Some(self.f4.to_value()),
        ])
    }
}
impl FromValue for Ts5ddmome0 {
    fn from_value(v: &Value) -> Self {
        let s = match v { Value::Seq(s) => s, other => panic!("Ts5ddmome0: expected Seq, got {other:?}") };
        assert_eq!(s.len(), 5, "Ts5ddmome0: component count");
        let _ = s;
        Ts5ddmome0 {
            f0: FromValue::from_value(s[0].as_ref().expect("component f0 of Ts5ddmome0 must be present")),
            f1: FromValue::from_value(s[1].as_ref().expect("component f1 of Ts5ddmome0 must be present")),
            f2: s[2].as_ref().map(FromValue::from_value),
            f3: s[3].as_ref().map(FromValue::from_value),
            f4: s[4].as_ref().map(FromValue::from_value),
        }
    }
}
impl ToValue for Ts5ddmome0 {
    fn to_value(&self) -> Value {
        Value::Seq(vec![
            Some(self.f0.to_value()),
            Some(self.f1.to_value()),
            self.f2.as_ref().map(|x| x.to_value()),
            self.f3.as_ref().map(|x| x.to_value()),
            self.f4.as_ref().map(|x| x.to_value()),
        ])
    }
}
impl FromValue for Ts5ddmome1 {
    fn from_value(v: &Value) -> Self {
        let s = match v { Value::Seq(s) => s, other => panic!("Ts5ddmome1: expected Seq, got {other:?}") };
        assert_eq!(s.len(), 5, "Ts5ddmome1: component count");
        let _ = s;
        Ts5ddmome1 {
            f0: FromValue::from_value(s[0].as_ref().expect("component f0 of Ts5ddmome1 must be present")),
            f1: FromValue::from_value(s[1].as_ref().expect("component f1 of Ts5ddmome1 must be present")),
            f2: s[2].as_ref().map(FromValue::from_value),
            f3: s[3].as_ref().map(FromValue::from_value),
            f4: s[4].as_ref().map(FromValue::from_value),
        }
    }
}
impl ToValue for Ts5ddmome1 {
    fn to_value(&self) -> Value {
        Value::Seq(vec![
            Some(self.f0.to_value()),
            Some(self.f1.to_value()),
            self.f2.as_ref().map(|x| x.to_value()),
            self.f3.as_ref().map(|x| x.to_value()),
            self.f4.as_ref().map(|x| x.to_value()),
        ])
    }
}
impl FromValue for Ts5ddmome2 {
    fn from_value(v: &Value) -> Self {
        let s = match v { Value::Seq(s) => s, other => panic!("Ts5ddmome2: expected Seq, got {other:?}") };
        assert_eq!(s.len(), 5, "Ts5ddmome2: component count");
        let _ = s;
        Ts5ddmome2 {
            f0: FromValue::from_value(s[0].as_ref().expect("component f0 of Ts5ddmome2 must be present")),
            f1: FromValue::from_value(s[1].as_ref().expect("component f1 of Ts5ddmome2 must be present")),
            f2: s[2].as_ref().map(FromValue::from_value),
            f3: s[3].as_ref().map(FromValue::from_value),
            f4: s[4].as_ref().map(FromValue::from_value),
        }
    }
}
impl ToValue for Ts5ddmome2 {
    fn to_value(&self) -> Value {
        Value::Seq(vec![
            Some(self.f0.to_value()),
            Some(self.f1.to_value()),
            self.f2.as_ref().map(|x| x.to_value()),
            self.f3.as_ref().map(|x| x.to_value()),
            self.f4.as_ref().map(|x| x.to_value()),
        ])
    }
}
impl FromValue for Ts5ddmome3 {
    fn from_value(v: &Value) -> Self {
        let s = match v { Value::Seq(s) => s, other => panic!("Ts5ddmome3: expected Seq, got {other:?}") };
        assert_eq!(s.len(), 5, "Ts5ddmome3: component count");
        let _ = s;
        Ts5ddmome3 {
            f0: FromValue::from_value(s[0].as_ref().expect("component f0 of Ts5ddmome3 must be present")),
            f1: FromValue::from_value(s[1].as_ref().expect("component f1 of Ts5ddmome3 must be present")),
            f2: FromValue::from_value(s[2].as_ref().expect("component f2 of Ts5ddmome3 must be present")),
            f3: s[3].as_ref().map(FromValue::from_value),
            f4: s[4].as_ref().map(FromValue::from_value),
        }
    }
}
impl ToValue for Ts5ddmome3 {
    fn to_value(&self) -> Value {
        Value::Seq(vec![
            Some(self.f0.to_value()),
            Some(self.f1.to_value()),
            Some(self.f2.to_value()),
            self.f3.as_ref().map(|x| x.to_value()),
            self.f4.as_ref().map(|x| x.to_value()),
        ])
    }
}
impl FromValue for Ts5ddmome4 {
    fn from_value(v: &Value) -> Self {
        let s = match v { Value::Seq(s) => s, other => panic!("Ts5ddmome4: expected Seq, got {other:?}") };
        assert_eq!(s.len(), 5, "Ts5ddmome4: component count");
        let _ = s;
        Ts5ddmome4 {
            f0: FromValue::from_value(s[0].as_ref().expect("component f0 of Ts5ddmome4 must be present")),
            f1: FromValue::from_value(s[1].as_ref().expect("component f1 of Ts5ddmome4 must be present")),
            f2: FromValue::from_value(s[2].as_ref().expect("component f2 of Ts5ddmome4 must be present")),
            f3: s[3].as_ref().map(FromValue::from_value),
            f4: s[4].as_ref().map(FromValue::from_value),
        }
    }
}
impl ToValue for Ts5ddmome4 {
    fn to_value(&self) -> Value {
        Value::Seq(vec![
            Some(self.f0.to_value()),
            Some(self.f1.to_value()),
            Some(self.f2.to_value()),
            self.f3.as_ref().map(|x| x.to_value()),
            self.f4.as_ref().map(|x| x.to_value()),
        ])
    }
}
impl FromValue for Ts5ddmome5 {
    fn from_value(v: &Value) -> Self {
        let s = match v { Value::Seq(s) => s, other => panic!("Ts5ddmome5: expected Seq, got {other:?}") };
        assert_eq!(s.len(), 5, "Ts5ddmome5: component count");
        let _ = s;
        Ts5ddmome5 {
            f0: FromValue::from_value(s[0].as_ref().expect("component f0 of Ts5ddmome5 must be present")),
            f1: FromValue::from_value(s[1].as_ref().expect("component f1 of Ts5ddmome5 must be present")),
            f2: FromValue::from_value(s[2].as_ref().expect("component f2 of Ts5ddmome5 must be present")),
            f3: s[3].as_ref().map(FromValue::from_value),
            f4: FromValue::from_value(s[4].as_ref().expect("component f4 of Ts5ddmome5 must be present")),
        }
    }
}
impl ToValue for Ts5ddmome5 {
    fn to_value(&self) -> Value {
        Value::Seq(vec![
            Some(self.f0.to_value()),
            Some(self.f1.to_value()),
            Some(self.f2.to_value()),
            self.f3.as_ref().map(|x| x.to_value()),
            Some(self.f4.to_value()),
        ])
    }
}
impl FromValue for Ts5mmoomn {
    fn from_value(v: &Value) -> Self {
        let s = match v { Value::Seq(s) => s, other => panic!("Ts5mmoomn: expected Seq, got {other:?}") };
        assert_eq!(s.len(), 5, "Ts5mmoomn: component count");
        let _ = s;
        Ts5mmoomn {
            f0: FromValue::from_value(s[0].as_ref().expect("component f0 of Ts5mmoomn must be present")),
            f1: FromValue::from_value(s[1].as_ref().expect("component f1 of Ts5mmoomn must be present")),
            f2: s[2].as_ref().map(FromValue::from_value),
            f3: s[3].as_ref().map(FromValue::from_value),
            f4: FromValue::from_value(s[4].as_ref().expect("component f4 of Ts5mmoomn must be present")),
        }
    }
}
impl ToValue for Ts5mmoomn {
    fn to_value(&self) -> Value {
        Value::Seq(vec![
            Some(self.f0.to_value()),
            Some(self.f1.to_value()),
            self.f2.as_ref().map(|x| x.to_value()),
            self.f3.as_ref().map(|x| x.to_value()),
            Some(self.f4.to_value()),
        ])
    }
}
impl FromValue for Ts5mmoome0 {
    fn from_value(v: &Value) -> Self {
        let s = match v { Value::Seq(s) => s, other => panic!("Ts5mmoome0: expected Seq, got {other:?}") };
        assert_eq!(s.len(), 5, "Ts5mmoome0: component count");
        let _ = s;
        Ts5mmoome0 {
            f0: FromValue::from_value(s[0].as_ref().expect("component f0 of Ts5mmoome0 must be present")),
            f1: s[1].as_ref().map(FromValue::from_value),
            f2: s[2].as_ref().map(FromValue::from_value),
            f3: s[3].as_ref().map(FromValue::from_value),
            f4: s[4].as_ref().map(FromValue::from_value),
        }
    }
}
impl ToValue for Ts5mmoome0 {
    fn to_value(&self) -> Value {
        Value::Seq(vec![
            Some(self.f0.to_value()),
            self.f1.as_ref().map(|x| x.to_value()),
            self.f2.as_ref().map(|x| x.to_value()),
            self.f3.as_ref().map(|x| x.to_value()),
            self.f4.as_ref().map(|x| x.to_value()),
        ])
    }
}
impl FromValue for Ts5mmoome1 {
    fn from_value(v: &Value) -> Self {
        let s = match v { Value::Seq(s) => s, other => panic!("Ts5mmoome1: expected Seq, got {other:?}") };
        assert_eq!(s.len(), 5, "Ts5mmoome1: component count");
        let _ = s;
        Ts5mmoome1 {
            f0: FromValue::from_value(s[0].as_ref().expect("component f0 of Ts5mmoome1 must be present")),
            f1: s[1].as_ref().map(FromValue::from_value),
            f2: s[2].as_ref().map(FromValue::from_value),
            f3: s[3].as_ref().map(FromValue::from_value),
            f4: s[4].as_ref().map(FromValue::from_value),
        }
    }
}
impl ToValue for Ts5mmoome1 {
    fn to_value(&self) -> Value {
        Value::Seq(vec![
            Some(self.f0.to_value()),
            self.f1.as_ref().map(|x| x.to_value()),
            self.f2.as_ref().map(|x| x.to_value()),
            self.f3.as_ref().map(|x| x.to_value()),
            self.f4.as_ref().map(|x| x.to_value()),
        ])
    }
}
impl FromValue for Ts5mmoome2 {
    fn from_value(v: &Value) -> Self {
        let s = match v { Value::Seq(s) => s, other => panic!("Ts5mmoome2: expected Seq, got {other:?}") };
        assert_eq!(s.len(), 5, "Ts5mmoome2: component count");
        let _ = s;
        Ts5mmoome2 {
            f0: FromValue::from_value(s[0].as_ref().expect("component f0 of Ts5mmoome2 must be present")),
            f1: FromValue::from_value(s[1].as_ref().expect("component f1 of Ts5mmoome2 must be present")),
            f2: s[2].as_ref().map(FromValue::from_value),
            f3: s[3].as_ref().map(FromValue::from_value),
            f4: s[4].as_ref().map(FromValue::from_value),
        }
    }
}
impl ToValue for Ts5mmoome2 {
    fn to_value(&self) -> Value {
        Value::Seq(vec![
            Some(self.f0.to_value()),
            Some(self.f1.to_value()),
            self.f2.as_ref().map(|x| x.to_value()),
            self.f3.as_ref().map(|x| x.to_value()),
            self.f4.as_ref().map(|x| x.to_value()),
        ])
    }
}
impl FromValue for Ts5mmoome3 {
    fn from_value(v: &Value) -> Self {
        let s = match v { Value::Seq(s) => s, other => panic!("Ts5mmoome3: expected Seq, got {other:?}") };
        assert_eq!(s.len(), 5, "Ts5mmoome3: component count");
        let _ = s;
        Ts5mmoome3 {
            f0: FromValue::from_value(s[0].as_ref().expect("component f0 of Ts5mmoome3 must be present")),
            f1: FromValue::from_value(s[1].as_ref().expect("component f1 of Ts5mmoome3 must be present")),
            f2: s[2].as_ref().map(FromValue::from_value),
            f3: s[3].as_ref().map(FromValue::from_value),
            f4: s[4].as_ref().map(FromValue::from_value),
        }
    }
}
impl ToValue for Ts5mmoome3 {
    fn to_value(&self) -> Value {
        Value::Seq(vec![
            Some(self.f0.to_value()),
            Some(self.f1.to_value()),
            self.f2.as_ref().map(|x| x.to_value()),
            self.f3.as_ref().map(|x| x.to_value()),
            self.f4.as_ref().map(|x| x.to_value()),
        ])
    }
}
impl FromValue for Ts5mmoome4 {
    fn from_value(v: &Value) -> Self {
        let s = match v { Value::Seq(s) => s, other => panic!("Ts5mmoome4: expected Seq, got {other:?}") };
        assert_eq!(s.len(), 5, "Ts5mmoome4: component count");
        let _ = s;
        Ts5mmoome4 {
            f0: FromValue::from_value(s[0].as_ref().expect("component f0 of Ts5mmoome4 must be present")),
            f1: FromValue::from_value(s[1].as_ref().expect("component f1 of Ts5mmoome4 must be present")),
            f2: s[2].as_ref().map(FromValue::from_value),
            f3: s[3].as_ref().map(FromValue::from_value),
            f4: s[4].as_ref().map(FromValue::from_value),
        }
    }
}
impl ToValue for Ts5mmoome4 {
    fn to_value(&self) -> Value {
        Value::Seq(vec![
            Some(self.f0.to_value()),
            Some(self.f1.to_value()),
            self.f2.as_ref().map(|x| x.to_value()),
            self.f3.as_ref().map(|x| x.to_value()),
            self.f4.as_ref().map(|x| x.to_value()),
        ])
    }
}
impl FromValue for Ts5mmoome5 {
    fn from_value(v: &Value) -> Self {
        let s = match v { Value::Seq(s) => s, other => panic!("Ts5mmoome5: expected Seq, got {other:?}") };
        assert_eq!(s.len(), 5, "Ts5mmoome5: component count");
        let _ = s;
        Ts5mmoome5 {
            f0: FromValue::from_value(s[0].as_ref().expect("component f0 of Ts5mmoome5 must be present")),
            f1: FromValue::from_value(s[1].as_ref().expect("component f1 of Ts5mmoome5 must be present")),
            f2: s[2].as_ref().map(FromValue::from_value),
            f3: s[3].as_ref().map(FromValue::from_value),
            f4: FromValue::from_value(s[4].as_ref().expect("component f4 of Ts5mmoome5 must be present")),
        }
    }
}
impl ToValue for Ts5mmoome5 {
    fn to_value(&self) -> Value {
        Value::Seq(vec![
            Some(self.f0.to_value()),
            Some(self.f1.to_value()),
            self.f2.as_ref().map(|x| x.to_value()),
            self.f3.as_ref().map(|x| x.to_value()),
            Some(self.f4.to_value()),
        ])
    }
}
impl FromValue for Ts5omoomn {
    fn from_value(v: &Value) -> Self {
        let s = match v { Value::Seq(s) => s, other => panic!("Ts5omoomn: expected Seq, got {other:?}") };
        assert_eq!(s.len(), 5, "Ts5omoomn: component count");
        let _ = s;
        Ts5omoomn {
            f0: s[0].as_ref().map(FromValue::from_value),
            f1: FromValue::from_value(s[1].as_ref().expect("component f1 of Ts5omoomn must be present")),
            f2: s[2].as_ref().map(FromValue::from_value),
            f3: s[3].as_ref().map(FromValue::from_value),
            f4: FromValue::from_value(s[4].as_ref().expect("component f4 of Ts5omoomn must be present")),
        }
    }
}
impl ToValue for Ts5omoomn {
    fn to_value(&self) -> Value {
        Value::Seq(vec![
            self.f0.as_ref().map(|x| x.to_value()),
            Some(self.f1.to_value()),
            self.f2.as_ref().map(|x| x.to_value()),
            self.f3.as_ref().map(|x| x.to_value()),
            Some(self.f4.to_value()),
        ])
    }
}
impl FromValue for Ts5omoome0 {
    fn from_value(v: &Value) -> Self {
        let s = match v { Value::Seq(s) => s, other => panic!("Ts5omoome0: expected Seq, got {other:?}") };
        assert_eq!(s.len(), 5, "Ts5omoome0: component count");
        let _ = s;
        Ts5omoome0 {
            f0: s[0].as_ref().map(FromValue::from_value),
            f1: s[1].as_ref().map(FromValue::from_value),
            f2: s[2].as_ref().map(FromValue::from_value),
            f3: s[3].as_ref().map(FromValue::from_value),
            f4: s[4].as_ref().map(FromValue::from_value),
        }
    }
}
impl ToValue for Ts5omoome0 {
    fn to_value(&self) -> Value {
        Value::Seq(vec![
            self.f0.as_ref().map(|x| x.to_value()),
            self.f1.as_ref().map(|x| x.to_value()),
            self.f2.as_ref().map(|x| x.to_value()),
            self.f3.as_ref().map(|x| x.to_value()),
            self.f4.as_ref().map(|x| x.to_value()),
        ])
    }
}
impl FromValue for Ts5omoome1 {
    fn from_value(v: &Value) -> Self {
        let s = match v { Value::Seq(s) => s, other => panic!("Ts5omoome1: expected Seq, got {other:?}") };
        assert_eq!(s.len(), 5, "Ts5omoome1: component count");
        let _ = s;
        Ts5omoome1 {
            f0: s[0].as_ref().map(FromValue::from_value),
            f1: s[1].as_ref().map(FromValue::from_value),
            f2: s[2].as_ref().map(FromValue::from_value),
            f3: s[3].as_ref().map(FromValue::from_value),
            f4: s[4].as_ref().map(FromValue::from_value),
        }
    }
}
impl ToValue for Ts5omoome1 {
    fn to_value(&self) -> Value {
        Value::Seq(vec![
            self.f0.as_ref().map(|x| x.to_value()),
            self.f1.as_ref().map(|x| x.to_value()),
            self.f2.as_ref().map(|x| x.to_value()),
            self.f3.as_ref().map(|x| x.to_value()),
            self.f4.as_ref().map(|x| x.to_value()),
        ])
    }
}
impl FromValue for Ts5omoome2 {
    fn from_value(v: &Value) -> Self {
        let s = match v { Value::Seq(s) => s, other => panic!("Ts5omoome2: expected Seq, got {other:?}") };
        assert_eq!(s.len(), 5, "Ts5omoome2: component count");
        let _ = s;
        Ts5omoome2 {
            f0: s[0].as_ref().map(FromValue::from_value),
            f1: FromValue::from_value(s[1].as_ref().expect("component f1 of Ts5omoome2 must be present")),
            f2: s[2].as_ref().map(FromValue::from_value),
            f3: s[3].as_ref().map(FromValue::from_value),
            f4: s[4].as_ref().map(FromValue::from_value),
        }
    }
}
impl ToValue for Ts5omoome2 {
    fn to_value(&self) -> Value {
        Value::Seq(vec![
            self.f0.as_ref().map(|x| x.to_value()),
            Some(self.f1.to_value()),
            self.f2.as_ref().map(|x| x.to_value()),
            self.f3.as_ref().map(|x| x.to_value()),
            self.f4.as_ref().map(|x| x.to_value()),
        ])
    }
}
impl FromValue for Ts5omoome3 {
    fn from_value(v: &Value) -> Self {
        let s = match v { Value::Seq(s) => s, other => panic!("Ts5omoome3: expected Seq, got {other:?}") };
        assert_eq!(s.len(), 5, "Ts5omoome3: component count");
        let _ = s;
        Ts5omoome3 {
            f0: s[0].as_ref().map(FromValue::from_value),
            f1: FromValue::from_value(s[1].as_ref().expect("component f1 of Ts5omoome3 must be present")),
            f2: s[2].as_ref().map(FromValue::from_value),
            f3: s[3].as_ref().map(FromValue::from_value),
            f4: s[4].as_ref().map(FromValue::from_value),
        }
    }
}
impl ToValue for Ts5omoome3 {
    fn to_value(&self) -> Value {
        Value::Seq(vec![
            self.f0.as_ref().map(|x| x.to_value()),
            Some(self.f1.to_value()),
            self.f2.as_ref().map(|x| x.to_value()),
            self.f3.as_ref().map(|x| x.to_value()),
            self.f4.as_ref().map(|x| x.to_value()),
        ])
    }
}
impl FromValue for Ts5omoome4 {
    fn from_value(v: &Value) -> Self {
        let s = match v { Value::Seq(s) => s, other => panic!("Ts5omoome4: expected Seq, got {other:?}") };
        assert_eq!(s.len(), 5, "Ts5omoome4: component count");
        let _ = s;
        Ts5omoome4 {
            f0: s[0].as_ref().map(FromValue::from_value),
            f1: FromValue::from_value(s[1].as_ref().expect("component f1 of Ts5omoome4 must be present")),
            f2: s[2].as_ref().map(FromValue::from_value),
            f3: s[3].as_ref().map(FromValue::from_value),
            f4: s[4].as_ref().map(FromValue::from_value),
        }
    }
}
impl ToValue for Ts5omoome4 {
    fn to_value(&self) -> Value {
        Value::Seq(vec![
            self.f0.as_ref().map(|x| x.to_value()),
            Some(self.f1.to_value()),
            self.f2.as_ref().map(|x| x.to_value()),
            self.f3.as_ref().map(|x| x.to_value()),
            self.f4.as_ref().map(|x| x.to_value()),
        ])
    }
}
impl FromValue for Ts5omoome5 {
    fn from_value(v: &Value) -> Self {
        let s = match v { Value::Seq(s) => s, other => panic!("Ts5omoome5: expected Seq, got {other:?}") };
        assert_eq!(s.len(), 5, "Ts5omoome5: component count");
        let _ = s;
        Ts5omoome5 {
            f0: s[0].as_ref().map(FromValue::from_value),
            f1: FromValue::from_value(s[1].as_ref().expect("component f1 of Ts5omoome5 must be present")),
            f2: s[2].as_ref().map(FromValue::from_value),
            f3: s[3].as_ref().map(FromValue::from_value),
            f4: FromValue::from_value(s[4].as_ref().expect("component f4 of Ts5omoome5 must be present")),
        }
    }
}
impl ToValue for Ts5omoome5 {
    fn to_value(&self) -> Value {
        Value::Seq(vec![
            self.f0.as_ref().map(|x| x.to_value()),
            Some(self.f1.to_value()),
            self.f2.as_ref().map(|x| x.to_value()),
            self.f3.as_ref().map(|x| x.to_value()),
            Some(self.f4.to_value()),
        ])
    }
}
impl FromValue for Ts5dmoomn {
    fn from_value(v: &Value) -> Self {
        let s = match v { Value::Seq(s) => s, other => panic!("Ts5dmoomn: expected Seq, got {other:?}") };
        assert_eq!(s.len(), 5, "Ts5dmoomn: component count");
        let _ = s;
        Ts5dmoomn {
            f0: FromValue::from_value(s[0].as_ref().expect("component f0 of Ts5dmoomn must be present")),
            f1: FromValue::from_value(s[1].as_ref().expect("component f1 of Ts5dmoomn must be present")),
            f2: s[2].as_ref().map(FromValue::from_value),
            f3: s[3].as_ref().map(FromValue::from_value),
            f4: FromValue::from_value(s[4].as_ref().expect("component f4 of Ts5dmoomn must be present")),
        }
    }
}
impl ToValue for Ts5dmoomn {
    fn to_value(&self) -> Value {
        Value::Seq(vec![
            Some(self.f0.to_value()),
            Some(self.f1.to_value()),
            self.f2.as_ref().map(|x| x.to_value()),
            self.f3.as_ref().map(|x| x.to_value()),
            Some(self.f4.to_value()),
        ])
    }
}
impl FromValue for Ts5dmoome0 {
    fn from_value(v: &Value) -> Self {
        let s = match v { Value::Seq(s) => s, other => panic!("Ts5dmoome0: expected Seq, got {other:?}") };
        assert_eq!(s.len(), 5, "Ts5dmoome0: component count");
        let _ = s;
        Ts5dmoome0 {
            f0: FromValue::from_value(s[0].as_ref().expect("component f0 of Ts5dmoome0 must be present")),
            f1: s[1].as_ref().map(FromValue::from_value),
            f2: s[2].as_ref().map(FromValue::from_value),
            f3: s[3].as_ref().map(FromValue::from_value),
            f4: s[4].as_ref().map(FromValue::from_value),
        }
    }
}
impl ToValue for Ts5dmoome0 {
    fn to_value(&self) -> Value {
        Value::Seq(vec![
            Some(self.f0.to_value()),
            self.f1.as_ref().map(|x| x.to_value()),
            self.f2.as_ref().map(|x| x.to_value()),
            self.f3.as_ref().map(|x| x.to_value()),
            self.f4.as_ref().map(|x| x.to_value()),
        ])
    }
}
impl FromValue for Ts5dmoome1 {
    fn from_value(v: &Value) -> Self {
        let s = match v { Value::Seq(s) => s, other => panic!("Ts5dmoome1: expected Seq, got {other:?}") };
        assert_eq!(s.len(), 5, "Ts5dmoome1: component count");
        let _ = s;
        Ts5dmoome1 {
            f0: FromValue::from_value(s[0].as_ref().expect("component f0 of Ts5dmoome1 must be present")),
            f1: s[1].as_ref().map(FromValue::from_value),
            f2: s[2].as_ref().map(FromValue::from_value),
            f3: s[3].as_ref().map(FromValue::from_value),
            f4: s[4].as_ref().map(FromValue::from_value),
        }
    }
}
impl ToValue for Ts5dmoome1 {
    fn to_value(&self) -> Value {
        Value::Seq(vec![
            Some(self.f0.to_value()),
            self.f1.as_ref().map(|x| x.to_value()),
            self.f2.as_ref().map(|x| x.to_value()),
            self.f3.as_ref().map(|x| x.to_value()),
            self.f4.as_ref().map(|x| x.to_value()),
        ])
    }
}
impl FromValue for Ts5dmoome2 {
    fn from_value(v: &Value) -> Self {
        let s = match v { Value::Seq(s) => s, other => panic!("Ts5dmoome2: expected Seq, got {other:?}") };
        assert_eq!(s.len(), 5, "Ts5dmoome2: component count");
        let _ = s;
        Ts5dmoome2 {
            f0: FromValue::from_value(s[0].as_ref().expect("component f0 of Ts5dmoome2 must be present")),
            f1: FromValue::from_value(s[1].as_ref().expect("component f1 of Ts5dmoome2 must be present")),
            f2: s[2].as_ref().map(FromValue::from_value),
            f3: s[3].as_ref().map(FromValue::from_value),
            f4: s[4].as_ref().map(FromValue::from_value),
        }
    }
}
impl ToValue for Ts5dmoome2 {
    fn to_value(&self) -> Value {
        Value::Seq(vec![
            Some(self.f0.to_value()),
            Some(self.f1.to_value()),
            self.f2.as_ref().map(|x| x.to_value()),
            self.f3.as_ref().map(|x| x.to_value()),
            self.f4.as_ref().map(|x| x.to_value()),
        ])
    }
}
impl FromValue for Ts5dmoome3 {
    fn from_value(v: &Value) -> Self {
        let s = match v { Value::Seq(s) => s, other => panic!("Ts5dmoome3: expected Seq, got {other:?}") };
        assert_eq!(s.len(), 5, "Ts5dmoome3: component count");
        let _ = s;
        Ts5dmoome3 {
            f0: FromValue::from_value(s[0].as_ref().expect("component f0 of Ts5dmoome3 must be present")),
            f1: FromValue::from_value(s[1].as_ref().expect("component f1 of Ts5dmoome3 must be present")),
            f2: s[2].as_ref().map(FromValue::from_value),
            f3: s[3].as_ref().map(FromValue::from_value),
            f4: s[4].as_ref().map(FromValue::from_value),
        }
    }
}
impl ToValue for Ts5dmoome3 {
    fn to_value(&self) -> Value {
        Value::Seq(vec![
            Some(self.f0.to_value()),
            Some(self.f1.to_value()),
            self.f2.as_ref().map(|x| x.to_value()),
            self.f3.as_ref().map(|x| x.to_value()),
            self.f4.as_ref().map(|x| x.to_value()),
        ])
    }
}
impl FromValue for Ts5dmoome4 {
    fn from_value(v: &Value) -> Self {
        let s = match v { Value::Seq(s) => s, other => panic!("Ts5dmoome4: expected Seq, got {other:?}") };
        assert_eq!(s.len(), 5, "Ts5dmoome4: component count");
        let _ = s;
        Ts5dmoome4 {
            f0: FromValue::from_value(s[0].as_ref().expect("component f0 of Ts5dmoome4 must be present")),
            f1: FromValue::from_value(s[1].as_ref().expect("component f1 of Ts5dmoome4 must be present")),
            f2: s[2].as_ref().map(FromValue::from_value),
            f3: s[3].as_ref().map(FromValue::from_value),
            f4: s[4].as_ref().map(FromValue::from_value),
        }
    }
}
impl ToValue for Ts5dmoome4 {
    fn to_value(&self) -> Value {
        Value::Seq(vec![
            Some(self.f0.to_value()),
            Some(self.f1.to_value()),
            self.f2.as_ref().map(|x| x.to_value()),
            self.f3.as_ref().map(|x| x.to_value()),
            self.f4.as_ref().map(|x| x.to_value()),
        ])
    }
}
impl FromValue for Ts5dmoome5 {
    fn from_value(v: &Value) -> Self {
        let s = match v { Value::Seq(s) => s, other => panic!("Ts5dmoome5: expected Seq, got {other:?}") };
        assert_eq!(s.len(), 5, "Ts5dmoome5: component count");
        let _ = s;
        Ts5dmoome5 {
            f0: FromValue::from_value(s[0].as_ref().expect("component f0 of Ts5dmoome5 must be present")),
            f1: FromValue::from_value(s[1].as_ref().expect("component f1 of Ts5dmoome5 must be present")),
            f2: s[2].as_ref().map(FromValue::from_value),
            f3: s[3].as_ref().map(FromValue::from_value),
            f4: FromValue::from_value(s[4].as_ref().expect("component f4 of Ts5dmoome5 must be present")),
        }
    }
}
impl ToValue for Ts5dmoome5 {
    fn to_value(&self) -> Value {
        Value::Seq(vec![
            Some(self.f0.to_value()),
            Some(self.f1.to_value()),
            self.f2.as_ref().map(|x| x.to_value()),
            self.f3.as_ref().map(|x| x.to_value()),
            Some(self.f4.to_value()),
        ])
    }
}
impl FromValue for Ts5mooomn {
    fn from_value(v: &Value) -> Self {
        let s = match v { Value::Seq(s) => s, other => panic!("Ts5mooomn: expected Seq, got {other:?}") };
        assert_eq!(s.len(), 5, "Ts5mooomn: component count");
        let _ = s;
        Ts5mooomn {
            f0: FromValue::from_value(s[0].as_ref().expect("component f0 of Ts5mooomn must be present")),
            f1: s[1].as_ref().map(FromValue::from_value),
            f2: s[2].as_ref().map(FromValue::from_value),
            f3: s[3].as_ref().map(FromValue::from_value),
            f4: FromValue::from_value(s[4].as_ref().expect("component f4 of Ts5mooomn must be present")),
        }
    }
}
impl ToValue for Ts5mooomn {
    fn to_value(&self) -> Value {
        Value::Seq(vec![
            Some(self.f0.to_value()),
            self.f1.as_ref().map(|x| x.to_value()),
            self.f2.as_ref().map(|x| x.to_value()),
            self.f3.as_ref().map(|x| x.to_value()),
            Some(self.f4.to_value()),
        ])
    }
}
impl FromValue for Ts5mooome0 {
    fn from_value(v: &Value) -> Self {
        let s = match v { Value::Seq(s) => s, other => panic!("Ts5mooome0: expected Seq, got {other:?}") };
        assert_eq!(s.len(), 5, "Ts5mooome0: component count");
        let _ = s;
        Ts5mooome0 {
            f0: FromValue::from_value(s[0].as_ref().expect("component f0 of Ts5mooome0 must be present")),
            f1: s[1].as_ref().map(FromValue::from_value),
            f2: s[2].as_ref().map(FromValue::from_value),
            f3: s[3].as_ref().map(FromValue::from_value),
            f4: s[4].as_ref().map(FromValue::from_value),
        }
    }
}
impl ToValue for Ts5mooome0 {
    fn to_value(&self) -> Value {
        Value::Seq(vec![
            Some(self.f0.to_value()),
            self.f1.as_ref().map(|x| x.to_value()),
            self.f2.as_ref().map(|x| x.to_value()),
            self.f3.as_ref().map(|x| x.to_value()),
            self.f4.as_ref().map(|x| x.to_value()),
        ])
    }
}
impl FromValue for Ts5mooome1 {
    fn from_value(v: &Value) -> Self {
        let s = match v { Value::Seq(s) => s, other => panic!("Ts5mooome1: expected Seq, got {other:?}") };
        assert_eq!(s.len(), 5, "Ts5mooome1: component count");
        let _ = s;
        Ts5mooome1 {
            f0: FromValue::from_value(s[0].as_ref().expect("component f0 of Ts5mooome1 must be present")),
            f1: s[1].as_ref().map(FromValue::from_value),
            f2: s[2].as_ref().map(FromValue::from_value),
            f3: s[3].as_ref().map(FromValue::from_value),
            f4: s[4].as_ref().map(FromValue::from_value),
        }
    }
}
impl ToValue for Ts5mooome1 {
    fn to_value(&self) -> Value {
        Value::Seq(vec![
            Some(self.f0.to_value()),
            self.f1.as_ref().map(|x| x.to_value()),
            self.f2.as_ref().map(|x| x.to_value()),
            self.f3.as_ref().map(|x| x.to_value()),
            self.f4.as_ref().map(|x| x.to_value()),
        ])
    }
}
impl FromValue for Ts5mooome2 {
    fn from_value(v: &Value) -> Self {
        let s = match v { Value::Seq(s) => s, other => panic!("Ts5mooome2: expected Seq, got {other:?}") };
        assert_eq!(s.len(), 5, "Ts5mooome2: component count");
        let _ = s;
        Ts5mooome2 {
            f0: FromValue::from_value(s[0].as_ref().expect("component f0 of Ts5mooome2 must be present")),
            f1: s[1].as_ref().map(FromValue::from_value),
            f2: s[2].as_ref().map(FromValue::from_value),
            f3: s[3].as_ref().map(FromValue::from_value),
            f4: s[4].as_ref().map(FromValue::from_value),
        }
    }
}
impl ToValue for Ts5mooome2 {
    fn to_value(&self) -> Value {
        Value::Seq(vec![
            Some(self.f0.to_value()),
            self.f1.as_ref().map(|x| x.to_value()),
            self.f2.as_ref().map(|x| x.to_value()),
            self.f3.as_ref().map(|x| x.to_value()),
            self.f4.as_ref().map(|x| x.to_value()),
        ])
    }
}
impl FromValue for Ts5mooome3 {
    fn from_value(v: &Value) -> Self {
        let s = match v { Value::Seq(s) => s, other => panic!("Ts5mooome3: expected Seq, got {other:?}") };
        assert_eq!(s.len(), 5, "Ts5mooome3: component count");
        let _ = s;
        Ts5mooome3 {
            f0: FromValue::from_value(s[0].as_ref().expect("component f0 of Ts5mooome3 must be present")),
            f1: s[1].as_ref().map(FromValue::from_value),
            f2: s[2].as_ref().map(FromValue::from_value),
            f3: s[3].as_ref().map(FromValue::from_value),
            f4: s[4].as_ref().map(FromValue::from_value),
        }
    }
}
impl ToValue for Ts5mooome3 {
    fn to_value(&self) -> Value {
        Value::Seq(vec![
            Some(self.f0.to_value()),
            self.f1.as_ref().map(|x| x.to_value()),
            self.f2.as_ref().map(|x| x.to_value()),
            self.f3.as_ref().map(|x| x.to_value()),
            self.f4.as_ref().map(|x| x.to_value()),
        ])
    }
}
impl FromValue for Ts5mooome4 {
    fn from_value(v: &Value) -> Self {
        let s = match v { Value::Seq(s) => s, other => panic!("Ts5mooome4: expected Seq, got {other:?}") };
        assert_eq!(s.len(), 5, "Ts5mooome4: component count");
        let _ = s;
        Ts5mooome4 {
            f0: FromValue::from_value(s[0].as_ref().expect("component f0 of Ts5mooome4 must be present")),
            f1: s[1].as_ref().map(FromValue::from_value),
            f2: s[2].as_ref().map(FromValue::from_value),
            f3: s[3].as_ref().map(FromValue::from_value),
            f4: s[4].as_ref().map(FromValue::from_value),
        }
    }
}
impl ToValue for Ts5mooome4 {
    fn to_value(&self) -> Value {
        Value::Seq(vec![
            Some(self.f0.to_value()),
            self.f1.as_ref().map(|x| x.to_value()),
            self.f2.as_ref().map(|x| x.to_value()),
            self.f3.as_ref().map(|x| x.to_value()),
            self.f4.as_ref().map(|x| x.to_value()),
        ])
    }
}
impl FromValue for Ts5mooome5 {
    fn from_value(v: &Value) -> Self {
        let s = match v { Value::Seq(s) => s, other => panic!("Ts5mooome5: expected Seq, got {other:?}") };
        assert_eq!(s.len(), 5, "Ts5mooome5: component count");
        let _ = s;
        Ts5mooome5 {
            f0: FromValue::from_value(s[0].as_ref().expect("component f0 of Ts5mooome5 must be present")),
            f1: s[1].as_ref().map(FromValue::from_value),
            f2: s[2].as_ref().map(FromValue::from_value),
            f3: s[3].as_ref().map(FromValue::from_value),
            f4: FromValue::from_value(s[4].as_ref().expect("component f4 of Ts5mooome5 must be present")),
        }
    }
}
impl ToValue for Ts5mooome5 {
    fn to_value(&self) -> Value {
        Value::Seq(vec![
            Some(self.f0.to_value()),
            self.f1.as_ref().map(|x| x.to_value()),
            self.f2.as_ref().map(|x| x.to_value()),
            self.f3.as_ref().map(|x| x.to_value()),
            Some(self.f4.to_value()),
        ])
    }
}
impl FromValue for Ts5oooomn {
    fn from_value(v: &Value) -> Self {
        let s = match v { Value::Seq(s) => s, other => panic!("Ts5oooomn: expected Seq, got {other:?}") };
        assert_eq!(s.len(), 5, "Ts5oooomn: component count");
        let _ = s;
        Ts5oooomn {
            f0: s[0].as_ref().map(FromValue::from_value),
            f1: s[1].as_ref().map(FromValue::from_value),
            f2: s[2].as_ref().map(FromValue::from_value),
            f3: s[3].as_ref().map(FromValue::from_value),
            f4: FromValue::from_value(s[4].as_ref().expect("component f4 of Ts5oooomn must be present")),
        }
    }
}
impl ToValue for Ts5oooomn {
    fn to_value(&self) -> Value {
        Value::Seq(vec![
            self.f0.as_ref().map(|x| x.to_value()),
            self.f1.as_ref().map(|x| x.to_value()),
            self.f2.as_ref().map(|x| x.to_value()),
            self.f3.as_ref().map(|x| x.to_value()),
            Some(self.f4.to_value()),
        ])
    }
}
impl FromValue for Ts5oooome0 {
    fn from_value(v: &Value) -> Self {
        let s = match v { Value::Seq(s) => s, other => panic!("Ts5oooome0: expected Seq, got {other:?}") };
        assert_eq!(s.len(), 5, "Ts5oooome0: component count");
        let _ = s;
        Ts5oooome0 {
            f0: s[0].as_ref().map(FromValue::from_value),
            f1: s[1].as_ref().map(FromValue::from_value),
            f2: s[2].as_ref().map(FromValue::from_value),
            f3: s[3].as_ref().map(FromValue::from_value),
            f4: s[4].as_ref().map(FromValue::from_value),
        }
    }
}
impl ToValue for Ts5oooome0 {
    fn to_value(&self) -> Value {
        Value::Seq(vec![
            self.f0.as_ref().map(|x| x.to_value()),
            self.f1.as_ref().map(|x| x.to_value()),
            self.f2.as_ref().map(|x| x.to_value()),
            self.f3.as_ref().map(|x| x.to_value()),
            self.f4.as_ref().map(|x| x.to_value()),
        ])
    }
}
impl FromValue for Ts5oooome1 {
    fn from_value(v: &Value) -> Self {
        let s = match v { Value::Seq(s) => s, other => panic!("Ts5oooome1: expected Seq, got {other:?}") };
        assert_eq!(s.len(), 5, "Ts5oooome1: component count");
        let _ = s;
        Ts5oooome1 {
            f0: s[0].as_ref().map(FromValue::from_value),
            f1: s[1].as_ref().map(FromValue::from_value),
            f2: s[2].as_ref().map(FromValue::from_value),
            f3: s[3].as_ref().map(FromValue::from_value),
            f4: s[4].as_ref().map(FromValue::from_value),
        }
    }
}
impl ToValue for Ts5oooome1 {
    fn to_value(&self) -> Value {
        Value::Seq(vec![
            self.f0.as_ref().map(|x| x.to_value()),
            self.f1.as_ref().map(|x| x.to_value()),
            self.f2.as_ref().map(|x| x.to_value()),
            self.f3.as_ref().map(|x| x.to_value()),
            self.f4.as_ref().map(|x| x.to_value()),
        ])
    }
}
impl FromValue for Ts5oooome2 {
    fn from_value(v: &Value) -> Self {
        let s = match v { Value::Seq(s) => s, other => panic!("Ts5oooome2: expected Seq, got {other:?}") };
        assert_eq!(s.len(), 5, "Ts5oooome2: component count");
        let _ = s;
        Ts5oooome2 {
            f0: s[0].as_ref().map(FromValue::from_value),
            f1: s[1].as_ref().map(FromValue::from_value),
            f2: s[2].as_ref().map(FromValue::from_value),
            f3: s[3].as_ref().map(FromValue::from_value),
            f4: s[4].as_ref().map(FromValue::from_value),
        }
    }
}
impl ToValue for Ts5oooome2 {
    fn to_value(&self) -> Value {
        Value::Seq(vec![
            self.f0.as_ref().map(|x| x.to_value()),
            self.f1.as_ref().map(|x| x.to_value()),
            self.f2.as_ref().map(|x| x.to_value()),
            self.f3.as_ref().map(|x| x.to_value()),
            self.f4.as_ref().map(|x| x.to_value()),
        ])
    }
}
impl FromValue for Ts5oooome3 {
    fn from_value(v: &Value) -> Self {
        let s = match v { Value::Seq(s) => s, other => panic!("Ts5oooome3: expected Seq, got {other:?}") };
        assert_eq!(s.len(), 5, "Ts5oooome3: component count");
        let _ = s;
        Ts5oooome3 {
            f0: s[0].as_ref().map(FromValue::from_value),
            f1: s[1].as_ref().map(FromValue::from_value),
            f2: s[2].as_ref().map(FromValue::from_value),
            f3: s[3].as_ref().map(FromValue::from_value),
            f4: s[4].as_ref().map(FromValue::from_value),
        }
    }
}
impl ToValue for Ts5oooome3 {
    fn to_value(&self) -> Value {
        Value::Seq(vec![
            self.f0.as_ref().map(|x| x.to_value()),
            self.f1.as_ref().map(|x| x.to_value()),
            self.f2.as_ref().map(|x| x.to_value()),
            self.f3.as_ref().map(|x| x.to_value()),
            self.f4.as_ref().map(|x| x.to_value()),
        ])
    }
}
impl FromValue for Ts5oooome4 {
    fn from_value(v: &Value) -> Self {
        let s = match v { Value::Seq(s) => s, other => panic!("Ts5oooome4: expected Seq, got {other:?}") };
        assert_eq!(s.len(), 5, "Ts5oooome4: component count");
        let _ = s;
        Ts5oooome4 {
            f0: s[0].as_ref().map(FromValue::from_value),
            f1: s[1].as_ref().map(FromValue::from_value),
            f2: s[2].as_ref().map(FromValue::from_value),
            f3: s[3].as_ref().map(FromValue::from_value),
            f4: s[4].as_ref().map(FromValue::from_value),
        }
    }
}
impl ToValue for Ts5oooome4 {
    fn to_value(&self) -> Value {
        Value::Seq(vec![
            self.f0.as_ref().map(|x| x.to_value()),
            self.f1.as_ref().map(|x| x.to_value()),
            self.f2.as_ref().map(|x| x.to_value()),
            self.f3.as_ref().map(|x| x.to_value()),
            self.f4.as_ref().map(|x| x.to_value()),
        ])
    }
}
impl FromValue for Ts5oooome5 {
    fn from_value(v: &Value) -> Self {
        let s = match v { Value::Seq(s) => s, other => panic!("Ts5oooome5: expected Seq, got {other:?}") };
        assert_eq!(s.len(), 5, "Ts5oooome5: component count");
        let _ = s;
        Ts5oooome5 {
            f0: s[0].as_ref().map(FromValue::from_value),
            f1: s[1].as_ref().map(FromValue::from_value),
            f2: s[2].as_ref().map(FromValue::from_value),
            f3: s[3].as_ref().map(FromValue::from_value),
            f4: FromValue::from_value(s[4].as_ref().expect("component f4 of Ts5oooome5 must be present")),
        }
    }
}
impl ToValue for Ts5oooome5 {
    fn to_value(&self) -> Value {
        Value::Seq(vec![
            self.f0.as_ref().map(|x| x.to_value()),
            self.f1.as_ref().map(|x| x.to_value()),
            self.f2.as_ref().map(|x| x.to_value()),
            self.f3.as_ref().map(|x| x.to_value()),
            Some(self.f4.to_value()),
        ])
    }
}
impl FromValue for Ts5dooomn {
    fn from_value(v: &Value) -> Self {
        let s = match v { Value::Seq(s) => s, other => panic!("Ts5dooomn: expected Seq, got {other:?}") };
        assert_eq!(s.len(), 5, "Ts5dooomn: component count");
        let _ = s;
        Ts5dooomn {
            f0: FromValue::from_value(s[0].as_ref().expect("component f0 of Ts5dooomn must be present")),
            f1: s[1].as_ref().map(FromValue::from_value),
            f2: s[2].as_ref().map(FromValue::from_value),
            f3: s[3].as_ref().map(FromValue::from_value),
            f4: FromValue::from_value(s[4].as_ref().expect("component f4 of Ts5dooomn must be present")),
        }
    }
}
impl ToValue for Ts5dooomn {
    fn to_value(&self) -> Value {
        Value::Seq(vec![
            Some(self.f0.to_value()),
            self.f1.as_ref().map(|x| x.to_value()),
            self.f2.as_ref().map(|x| x.to_value()),
            self.f3.as_ref().map(|x| x.to_value()),
            Some(self.f4.to_value()),
        ])
    }
}
impl FromValue for Ts5dooome0 {
    fn from_value(v: &Value) -> Self {
        let s = match v { Value::Seq(s) => s, other => panic!("Ts5dooome0: expected Seq, got {other:?}") };
        assert_eq!(s.len(), 5, "Ts5dooome0: component count");
        let _ = s;
        Ts5dooome0 {
            f0: FromValue::from_value(s[0].as_ref().expect("component f0 of Ts5dooome0 must be present")),
            f1: s[1].as_ref().map(FromValue::from_value),
            f2: s[2].as_ref().map(FromValue::from_value),
            f3: s[3].as_ref().map(FromValue::from_value),
            f4: s[4].as_ref().map(FromValue::from_value),
        }
    }
}
impl ToValue for Ts5dooome0 {
    fn to_value(&self) -> Value {
        Value::Seq(vec![
            Some(self.f0.to_value()),
            self.f1.as_ref().map(|x| x.to_value()),
            self.f2.as_ref().map(|x| x.to_value()),
            self.f3.as_ref().map(|x| x.to_value()),
            self.f4.as_ref().map(|x| x.to_value()),
        ])
    }
}
impl FromValue for Ts5dooome1 {
    fn from_value(v: &Value) -> Self {
        let s = match v { Value::Seq(s) => s, other => panic!("Ts5dooome1: expected Seq, got {other:?}") };
        assert_eq!(s.len(), 5, "Ts5dooome1: component count");
        let _ = s;
        Ts5dooome1 {
            f0: FromValue::from_value(s[0].as_ref().expect("component f0 of Ts5dooome1 must be present")),
            f1: s[1].as_ref().map(FromValue::from_value),
            f2: s[2].as_ref().map(FromValue::from_value),
            f3: s[3].as_ref().map(FromValue::from_value),
            f4: s[4].as_ref().map(FromValue::from_value),
        }
    }
}
impl ToValue for Ts5dooome1 {
    fn to_value(&self) -> Value {
        Value::Seq(vec![
            Some(self.f0.to_value()),
            self.f1.as_ref().map(|x| x.to_value()),
            self.f2.as_ref().map(|x| x.to_value()),
            self.f3.as_ref().map(|x| x.to_value()),
            self.f4.as_ref().map(|x| x.to_value()),
        ])
    }
}
impl FromValue for Ts5dooome2 {
    fn from_value(v: &Value) -> Self {
        let s = match v { Value::Seq(s) => s, other => panic!("Ts5dooome2: expected Seq, got {other:?}") };
        assert_eq!(s.len(), 5, "Ts5dooome2: component count");
        let _ = s;
        Ts5dooome2 {
            f0: FromValue::from_value(s[0].as_ref().expect("component f0 of Ts5dooome2 must be present")),
            f1: s[1].as_ref().map(FromValue::from_value),
            f2: s[2].as_ref().map(FromValue::from_value),
            f3: s[3].as_ref().map(FromValue::from_value),
            f4: s[4].as_ref().map(FromValue::from_value),
        }
    }
}
impl ToValue for Ts5dooome2 {
    fn to_value(&self) -> Value {
        Value::Seq(vec![
            Some(self.f0.to_value()),
            self.f1.as_ref().map(|x| x.to_value()),
            self.f2.as_ref().map(|x| x.to_value()),
            self.f3.as_ref().map(|x| x.to_value()),
            self.f4.as_ref().map(|x| x.to_value()),
        ])
    }
}
impl FromValue for Ts5dooome3 {
    fn from_value(v: &Value) -> Self {
        let s = match v { Value::Seq(s) => s, other => panic!("Ts5dooome3: expected Seq, got {other:?}") };
        assert_eq!(s.len(), 5, "Ts5dooome3: component count");
        let _ = s;
        Ts5dooome3 {
            f0: FromValue::from_value(s[0].as_ref().expect("component f0 of Ts5dooome3 must be present")),
            f1: s[1].as_ref().map(FromValue::from_value),
            f2: s[2].as_ref().map(FromValue::from_value),
            f3: s[3].as_ref().map(FromValue::from_value),
            f4: s[4].as_ref().map(FromValue::from_value),
        }
    }
}
impl ToValue for Ts5dooome3 {
    fn to_value(&self) -> Value {
        Value::Seq(vec![
            Some(self.f0.to_value()),
            self.f1.as_ref().map(|x| x.to_value()),
            self.f2.as_ref().map(|x| x.to_value()),
            self.f3.as_ref().map(|x| x.to_value()),
            self.f4.as_ref().map(|x| x.to_value()),
        ])
    }
}
impl FromValue for Ts5dooome4 {
    fn from_value(v: &Value) -> Self {
        let s = match v { Value::Seq(s) => s, other => panic!("Ts5dooome4: expected Seq, got {other:?}") };
        assert_eq!(s.len(), 5, "Ts5dooome4: component count");
        let _ = s;
        Ts5dooome4 {
            f0: FromValue::from_value(s[0].as_ref().expect("component f0 of Ts5dooome4 must be present")),
            f1: s[1].as_ref().map(FromValue::from_value),
            f2: s[2].as_ref().map(FromValue::from_value),
            f3: s[3].as_ref().map(FromValue::from_value),
            f4: s[4].as_ref().map(FromValue::from_value),
        }
    }
}
impl ToValue for Ts5dooome4 {
    fn to_value(&self) -> Value {
        Value::Seq(vec![
            Some(self.f0.to_value()),
            self.f1.as_ref().map(|x| x.to_value()),
            self.f2.as_ref().map(|x| x.to_value()),
            self.f3.as_ref().map(|x| x.to_value()),
            self.f4.as_ref().map(|x| x.to_value()),
        ])
    }
}
impl FromValue for Ts5dooome5 {
    fn from_value(v: &Value) -> Self {
        let s = match v { Value::Seq(s) => s, other => panic!("Ts5dooome5: expected Seq, got {other:?}") };
        assert_eq!(s.len(), 5, "Ts5dooome5: component count");
        let _ = s;
        Ts5dooome5 {
            f0: FromValue::from_value(s[0].as_ref().expect("component f0 of Ts5dooome5 must be present")),
            f1: s[1].as_ref().map(FromValue::from_value),
            f2: s[2].as_ref().map(FromValue::from_value),
            f3: s[3].as_ref().map(FromValue::from_value),
            f4: FromValue::from_value(s[4].as_ref().expect("component f4 of Ts5dooome5 must be present")),
        }
    }
}
impl ToValue for Ts5dooome5 {
    fn to_value(&self) -> Value {
        Value::Seq(vec![
            Some(self.f0.to_value()),
            self.f1.as_ref().map(|x| x.to_value()),
            self.f2.as_ref().map(|x| x.to_value()),
            self.f3.as_ref().map(|x| x.to_value()),
            Some(self.f4.to_value()),
        ])
    }
}
impl FromValue for Ts5mdoomn {
    fn from_value(v: &Value) -> Self {
        let s = match v { Value::Seq(s) => s, other => panic!("Ts5mdoomn: expected Seq, got {other:?}") };
        assert_eq!(s.len(), 5, "Ts5mdoomn: component count");
        let _ = s;
        Ts5mdoomn {
            f0: FromValue::from_value(s[0].as_ref().expect("component f0 of Ts5mdoomn must be present")),
            f1: FromValue::from_value(s[1].as_ref().expect("component f1 of Ts5mdoomn must be present")),
            f2: s[2].as_ref().map(FromValue::from_value),
            f3: s[3].as_ref().map(FromValue::from_value),
            f4: FromValue::from_value(s[4].as_ref().expect("component f4 of Ts5mdoomn must be present")),
        }
    }
}
impl ToValue for Ts5mdoomn {
    fn to_value(&self) -> Value {
        Value::Seq(vec![
            Some(self.f0.to_value()),
            Some(self.f1.to_value()),
            self.f2.as_ref().map(|x| x.to_value()),
            self.f3.as_ref().map(|x| x.to_value()),
            Some(self.f4.to_value()),
        ])
    }
}
impl FromValue for Ts5mdoome0 {
    fn from_value(v: &Value) -> Self {
        let s = match v { Value::Seq(s) => s, other => panic!("Ts5mdoome0: expected Seq, got {other:?}") };
        assert_eq!(s.len(), 5, "Ts5mdoome0: component count");
        let _ = s;
        Ts5mdoome0 {
            f0: FromValue::from_value(s[0].as_ref().expect("component f0 of Ts5mdoome0 must be present")),
            f1: FromValue::from_value(s[1].as_ref().expect("component f1 of Ts5mdoome0 must be present")),
            f2: s[2].as_ref().map(FromValue::from_value),
            f3: s[3].as_ref().map(FromValue::from_value),
            f4: s[4].as_ref().map(FromValue::from_value),
        }
    }
}
impl ToValue for Ts5mdoome0 {
    fn to_value(&self) -> Value {
        Value::Seq(vec![
            Some(self.f0.to_value()),
            Some(self.f1.to_value()),
            self.f2.as_ref().map(|x| x.to_value()),
            self.f3.as_ref().map(|x| x.to_value()),
            self.f4.as_ref().map(|x| x.to_value()),
        ])
    }
}
impl FromValue for Ts5mdoome1 {
    fn from_value(v: &Value) -> Self {
        let s = match v { Value::Seq(s) => s, other => panic!("Ts5mdoome1: expected Seq, got {other:?}") };
        assert_eq!(s.len(), 5, "Ts5mdoome1: component count");
        let _ = s;
        Ts5mdoome1 {
            f0: FromValue::from_value(s[0].as_ref().expect("component f0 of Ts5mdoome1 must be present")),
            f1: FromValue::from_value(s[1].as_ref().expect("component f1 of Ts5mdoome1 must be present")),
            f2: s[2].as_ref().map(FromValue::from_value),
            f3: s[3].as_ref().map(FromValue::from_value),
            f4: s[4].as_ref().map(FromValue::from_value),
        }
    }
}
impl ToValue for Ts5mdoome1 {
    fn to_value(&self) -> Value {
        Value::Seq(vec![
            Some(self.f0.to_value()),
            Some(self.f1.to_value()),
            self.f2.as_ref().map(|x| x.to_value()),
            self.f3.as_ref().map(|x| x.to_value()),
            self.f4.as_ref().map(|x| x.to_value()),
        ])
    }
}
impl FromValue for Ts5mdoome2 {
    fn from_value(v: &Value) -> Self {
        let s = match v { Value::Seq(s) => s, other => panic!("Ts5mdoome2: expected Seq, got {other:?}") };
        assert_eq!(s.len(), 5, "Ts5mdoome2: component count");
        let _ = s;
        Ts5mdoome2 {
            f0: FromValue::from_value(s[0].as_ref().expect("component f0 of Ts5mdoome2 must be present")),
            f1: FromValue::from_value(s[1].as_ref().expect("component f1 of Ts5mdoome2 must be present")),
            f2: s[2].as_ref().map(FromValue::from_value),
            f3: s[3].as_ref().map(FromValue::from_value),
            f4: s[4].as_ref().map(FromValue::from_value),
        }
    }
}
impl ToValue for Ts5mdoome2 {
    fn to_value(&self) -> Value {
        Value::Seq(vec![
            Some(self.f0.to_value()),
            Some(self.f1.to_value()),
            self.f2.as_ref().map(|x| x.to_value()),
            self.f3.as_ref().map(|x| x.to_value()),
            self.f4.as_ref().map(|x| x.to_value()),
        ])
    }
}
impl FromValue for Ts5mdoome3 {
    fn from_value(v: &Value) -> Self {
        let s = match v { Value::Seq(s) => s, other => panic!("Ts5mdoome3: expected Seq, got {other:?}") };
        assert_eq!(s.len(), 5, "Ts5mdoome3: component count");
        let _ = s;
        Ts5mdoome3 {
            f0: FromValue::from_value(s[0].as_ref().expect("component f0 of Ts5mdoome3 must be present")),
            f1: FromValue::from_value(s[1].as_ref().expect("component f1 of Ts5mdoome3 must be present")),
            f2: s[2].as_ref().map(FromValue::from_value),
            f3: s[3].as_ref().map(FromValue::from_value),
            f4: s[4].as_ref().map(FromValue::from_value),
        }
    }
}
impl ToValue for Ts5mdoome3 {
    fn to_value(&self) -> Value {
        Value::Seq(vec![
            Some(self.f0.to_value()),
            Some(self.f1.to_value()),
            self.f2.as_ref().map(|x| x.to_value()),
            self.f3.as_ref().map(|x| x.to_value()),
            self.f4.as_ref().map(|x| x.to_value()),
        ])
    }
}
impl FromValue for Ts5mdoome4 {
    fn from_value(v: &Value) -> Self {
        let s = match v { Value::Seq(s) => s, other => panic!("Ts5mdoome4: expected Seq, got {other:?}") };
        assert_eq!(s.len(), 5, "Ts5mdoome4: component count");
        let _ = s;
        Ts5mdoome4 {
            f0: FromValue::from_value(s[0].as_ref().expect("component f0 of Ts5mdoome4 must be present")),
            f1: FromValue::from_value(s[1].as_ref().expect("component f1 of Ts5mdoome4 must be present")),
            f2: s[2].as_ref().map(FromValue::from_value),
            f3: s[3].as_ref().map(FromValue::from_value),
            f4: s[4].as_ref().map(FromValue::from_value),
        }
    }
}
impl ToValue for Ts5mdoome4 {
    fn to_value(&self) -> Value {
        Value::Seq(vec![
            Some(self.f0.to_value()),
            Some(self.f1.to_value()),
            self.f2.as_ref().map(|x| x.to_value()),
            self.f3.as_ref().map(|x| x.to_value()),
            self.f4.as_ref().map(|x| x.to_value()),
        ])
    }
}
impl FromValue for Ts5mdoome5 {
    fn from_value(v: &Value) -> Self {
        let s = match v { Value::Seq(s) => s, other => panic!("Ts5mdoome5: expected Seq, got {other:?}") };
        assert_eq!(s.len(), 5, "Ts5mdoome5: component count");
        let _ = s;
        Ts5mdoome5 {
            f0: FromValue::from_value(s[0].as_ref().expect("component f0 of Ts5mdoome5 must be present")),
            f1: FromValue::from_value(s[1].as_ref().expect("component f1 of Ts5mdoome5 must be present")),
            f2: s[2].as_ref().map(FromValue::from_value),
            f3: s[3].as_ref().map(FromValue::from_value),
            f4: FromValue::from_value(s[4].as_ref().expect("component f4 of Ts5mdoome5 must be present")),
        }
    }
}
impl ToValue for Ts5mdoome5 {
    fn to_value(&self) -> Value {
        Value::Seq(vec![
            Some(self.f0.to_value()),
            Some(self.f1.to_value()),
            self.f2.as_ref().map(|x| x.to_value()),
            self.f3.as_ref().map(|x| x.to_value()),
            Some(self.f4.to_value()),
        ])
    }
}
impl FromValue for Ts5odoomn {
    fn from_value(v: &Value) -> Self {
        let s = match v { Value::Seq(s) => s, other => panic!("Ts5odoomn: expected Seq, got {other:?}") };
        assert_eq!(s.len(), 5, "Ts5odoomn: component count");
        let _ = s;
        Ts5odoomn {
            f0: s[0].as_ref().map(FromValue::from_value),
            f1: FromValue::from_value(s[1].as_ref().expect("component f1 of Ts5odoomn must be present")),
            f2: s[2].as_ref().map(FromValue::from_value),
            f3: s[3].as_ref().map(FromValue::from_value),
            f4: FromValue::from_value(s[4].as_ref().expect("component f4 of Ts5odoomn must be present")),
        }
    }
}
impl ToValue for Ts5odoomn {
    fn to_value(&self) -> Value {
        Value::Seq(vec![
            self.f0.as_ref().map(|x| x.to_value()),
            Some(self.f1.to_value()),
            self.f2.as_ref().map(|x| x.to_value()),
            self.f3.as_ref().map(|x| x.to_value()),
            Some(self.f4.to_value()),
        ])
    }
}
impl FromValue for Ts5odoome0 {
    fn from_value(v: &Value) -> Self {
        let s = match v { Value::Seq(s) => s, other => panic!("Ts5odoome0: expected Seq, got {other:?}") };
        assert_eq!(s.len(), 5, "Ts5odoome0: component count");
        let _ = s;
        Ts5odoome0 {
            f0: s[0].as_ref().map(FromValue::from_value),
            f1: FromValue::from_value(s[1].as_ref().expect("component f1 of Ts5odoome0 must be present")),
            f2: s[2].as_ref().map(FromValue::from_value),
            f3: s[3].as_ref().map(FromValue::from_value),
            f4: s[4].as_ref().map(FromValue::from_value),
        }
    }
}
impl ToValue for Ts5odoome0 {
    fn to_value(&self) -> Value {
        Value::Seq(vec![
            self.f0.as_ref().map(|x| x.to_value()),
            Some(self.f1.to_value()),
            self.f2.as_ref().map(|x| x.to_value()),
            self.f3.as_ref().map(|x| x.to_value()),
            self.f4.as_ref().map(|x| x.to_value()),
        ])
    }
}
impl FromValue for Ts5odoome1 {
    fn from_value(v: &Value) -> Self {
        let s = match v { Value::Seq(s) => s, other => panic!("Ts5odoome1: expected Seq, got {other:?}") };
        assert_eq!(s.len(), 5, "Ts5odoome1: component count");
        let _ = s;
        Ts5odoome1 {
            f0: s[0].as_ref().map(FromValue::from_value),
            f1: FromValue::from_value(s[1].as_ref().expect("component f1 of Ts5odoome1 must be present")),
            f2: s[2].as_ref().map(FromValue::from_value),
            f3: s[3].as_ref().map(FromValue::from_value),
            f4: s[4].as_ref().map(FromValue::from_value),
        }
    }
}
impl ToValue for Ts5odoome1 {
    fn to_value(&self) -> Value {
        Value::Seq(vec![
            self.f0.as_ref().map(|x| x.to_value()),
            Some(self.f1.to_value()),
            self.f2.as_ref().map(|x| x.to_value()),
            self.f3.as_ref().map(|x| x.to_value()),
            self.f4.as_ref().map(|x| x.to_value()),
        ])
    }
}
impl FromValue for Ts5odoome2 {
    fn from_value(v: &Value) -> Self {
        let s = match v { Value::Seq(s) => s, other => panic!("Ts5odoome2: expected Seq, got {other:?}") };
        assert_eq!(s.len(), 5, "Ts5odoome2: component count");
        let _ = s;
        Ts5odoome2 {
            f0: s[0].as_ref().map(FromValue::from_value),
            f1: FromValue::from_value(s[1].as_ref().expect("component f1 of Ts5odoome2 must be present")),
            f2: s[2].as_ref().map(FromValue::from_value),
            f3: s[3].as_ref().map(FromValue::from_value),
            f4: s[4].as_ref().map(FromValue::from_value),
        }
    }
}
impl ToValue for Ts5odoome2 {
    fn to_value(&self) -> Value {
        Value::Seq(vec![
            self.f0.as_ref().map(|x| x.to_value()),
            Some(self.f1.to_value()),
            self.f2.as_ref().map(|x| x.to_value()),
            self.f3.as_ref().map(|x| x.to_value()),
            self.f4.as_ref().map(|x| x.to_value()),
        ])
    }
}
impl FromValue for Ts5odoome3 {
    fn from_value(v: &Value) -> Self {
        let s = match v { Value::Seq(s) => s, other => panic!("Ts5odoome3: expected Seq, got {other:?}") };
        assert_eq!(s.len(), 5, "Ts5odoome3: component count");
        let _ = s;
        Ts5odoome3 {
            f0: s[0].as_ref().map(FromValue::from_value),
            f1: FromValue::from_value(s[1].as_ref().expect("component f1 of Ts5odoome3 must be present")),
            f2: s[2].as_ref().map(FromValue::from_value),
            f3: s[3].as_ref().map(FromValue::from_value),
            f4: s[4].as_ref().map(FromValue::from_value),
        }
    }
}
impl ToValue for Ts5odoome3 {
    fn to_value(&self) -> Value {
        Value::Seq(vec![
            self.f0.as_ref().map(|x| x.to_value()),
            Some(self.f1.to_value()),
            self.f2.as_ref().map(|x| x.to_value()),
            self.f3.as_ref().map(|x| x.to_value()),
            self.f4.as_ref().map(|x| x.to_value()),
        ])
    }
}
impl FromValue for Ts5odoome4 {
    fn from_value(v: &Value) -> Self {
        let s = match v { Value::Seq(s) => s, other => panic!("Ts5odoome4: expected Seq, got {other:?}") };
        assert_eq!(s.len(), 5, "Ts5odoome4: component count");
        let _ = s;
        Ts5odoome4 {
            f0: s[0].as_ref().map(FromValue::from_value),
            f1: FromValue::from_value(s[1].as_ref().expect("component f1 of Ts5odoome4 must be present")),
            f2: s[2].as_ref().map(FromValue::from_value),
            f3: s[3].as_ref().map(FromValue::from_value),
            f4: s[4].as_ref().map(FromValue::from_value),
        }
    }
}
impl ToValue for Ts5odoome4 {
    fn to_value(&self) -> Value {
        Value::Seq(vec![
            self.f0.as_ref().map(|x| x.to_value()),
            Some(self.f1.to_value()),
            self.f2.as_ref().map(|x| x.to_value()),
            self.f3.as_ref().map(|x| x.to_value()),
            self.f4.as_ref().map(|x| x.to_value()),
        ])
    }
}
impl FromValue for Ts5odoome5 {
    fn from_value(v: &Value) -> Self {
        let s = match v { Value::Seq(s) => s, other => panic!("Ts5odoome5: expected Seq, got {other:?}") };
        assert_eq!(s.len(), 5, "Ts5odoome5: component count");
        let _ = s;
        Ts5odoome5 {
            f0: s[0].as_ref().map(FromValue::from_value),
            f1: FromValue::from_value(s[1].as_ref().expect("component f1 of Ts5odoome5 must be present")),
            f2: s[2].as_ref().map(FromValue::from_value),
            f3: s[3].as_ref().map(FromValue::from_value),
            f4: FromValue::from_value(s[4].as_ref().expect("component f4 of Ts5odoome5 must be present")),
        }
    }
}
impl ToValue for Ts5odoome5 {
    fn to_value(&self) -> Value {
        Value::Seq(vec![
            self.f0.as_ref().map(|x| x.to_value()),
            Some(self.f1.to_value()),
            self.f2.as_ref().map(|x| x.to_value()),
            self.f3.as_ref().map(|x| x.to_value()),
            Some(self.f4.to_value()),
        ])
    }
}
impl FromValue for Ts5ddoomn {
    fn from_value(v: &Value) -> Self {
        let s = match v { Value::Seq(s) => s, other => panic!("Ts5ddoomn: expected Seq, got {other:?}") };
        assert_eq!(s.len(), 5, "Ts5ddoomn: component count");
        let _ = s;
        Ts5ddoomn {
            f0: FromValue::from_value(s[0].as_ref().expect("component f0 of Ts5ddoomn must be present")),
            f1: FromValue::from_value(s[1].as_ref().expect("component f1 of Ts5ddoomn must be present")),
            f2: s[2].as_ref().map(FromValue::from_value),
            f3: s[3].as_ref().map(FromValue::from_value),
            f4: FromValue::from_value(s[4].as_ref().expect("component f4 of Ts5ddoomn must be present")),
        }
    }
}
impl ToValue for Ts5ddoomn {
    fn to_value(&self) -> Value {
        Value::Seq(vec![
            Some(self.f0.to_value()),
            Some(self.f1.to_value()),
            self.f2.as_ref().map(|x| x.to_value()),
            self.f3.as_ref().map(|x| x.to_value()),
            Some(self.f4.to_value()),
        ])
    }
}
impl FromValue for Ts5ddoome0 {
    fn from_value(v: &Value) -> Self {
        let s = match v { Value::Seq(s) => s, other => panic!("Ts5ddoome0: expected Seq, got {other:?}") };
        assert_eq!(s.len(), 5, "Ts5ddoome0: component count");
        let _ = s;
        Ts5ddoome0 {
            f0: FromValue::from_value(s[0].as_ref().expect("component f0 of Ts5ddoome0 must be present")),
            f1: FromValue::from_value(s[1].as_ref().expect("component f1 of Ts5ddoome0 must be present")),
            f2: s[2].as_ref().map(FromValue::from_value),
            f3: s[3].as_ref().map(FromValue::from_value),
            f4: s[4].as_ref().map(FromValue::from_value),
        }
    }
}
impl ToValue for Ts5ddoome0 {
    fn to_value(&self) -> Value {
        Value::Seq(vec![
            Some(self.f0.to_value()),
            Some(self.f1.to_value()),
            self.f2.as_ref().map(|x| x.to_value()),
            self.f3.as_ref().map(|x| x.to_value()),
            self.f4.as_ref().map(|x| x.to_value()),
        ])
    }
}
impl FromValue for Ts5ddoome1 {
    fn from_value(v: &Value) -> Self {
        let s = match v { Value::Seq(s) => s, other => panic!("Ts5ddoome1: expected Seq, got {other:?}") };
        assert_eq!(s.len(), 5, "Ts5ddoome1: component count");
        let _ = s;
        Ts5ddoome1 {
            f0: FromValue::from_value(s[0].as_ref().expect("component f0 of Ts5ddoome1 must be present")),
            f1: FromValue::from_value(s[1].as_ref().expect("component f1 of Ts5ddoome1 must be present")),
            f2: s[2].as_ref().map(FromValue::from_value),
            f3: s[3].as_ref().map(FromValue::from_value),
            f4: s[4].as_ref().map(FromValue::from_value),
        }
    }
}
impl ToValue for Ts5ddoome1 {
    fn to_value(&self) -> Value {
        Value::Seq(vec![
            Some(self.f0.to_value()),
            Some(self.f1.to_value()),
            self.f2.as_ref().map(|x| x.to_value()),
            self.f3.as_ref().map(|x| x.to_value()),
            self.f4.as_ref().map(|x| x.to_value()),
        ])
    }
}
impl FromValue for Ts5ddoome2 {
    fn from_value(v: &Value) -> Self {
        let s = match v { Value::Seq(s) => s, other => panic!("Ts5ddoome2: expected Seq, got {other:?}") };
        assert_eq!(s.len(), 5, "Ts5ddoome2: component count");
        let _ = s;
        Ts5ddoome2 {
            f0: FromValue::from_value(s[0].as_ref().expect("component f0 of Ts5ddoome2 must be present")),
            f1: FromValue::from_value(s[1].as_ref().expect("component f1 of Ts5ddoome2 must be present")),
            f2: s[2].as_ref().map(FromValue::from_value),
            f3: s[3].as_ref().map(FromValue::from_value),
            f4: s[4].as_ref().map(FromValue::from_value),
        }
    }
}
impl ToValue for Ts5ddoome2 {
    fn to_value(&self) -> Value {
        Value::Seq(vec![
            Some(self.f0.to_value()),
            Some(self.f1.to_value()),
            self.f2.as_ref().map(|x| x.to_value()),
            self.f3.as_ref().map(|x| x.to_value()),
            self.f4.as_ref().map(|x| x.to_value()),
        ])
    }
}
impl FromValue for Ts5ddoome3 {
    fn from_value(v: &Value) -> Self {
        let s = match v { Value::Seq(s) => s, other => panic!("Ts5ddoome3: expected Seq, got {other:?}") };
        assert_eq!(s.len(), 5, "Ts5ddoome3: component count");
        let _ = s;
        Ts5ddoome3 {
            f0: FromValue::from_value(s[0].as_ref().expect("component f0 of Ts5ddoome3 must be present")),
            f1: FromValue::from_value(s[1].as_ref().expect("component f1 of Ts5ddoome3 must be present")),
            f2: s[2].as_ref().map(FromValue::from_value),
            f3: s[3].as_ref().map(FromValue::from_value),
            f4: s[4].as_ref().map(FromValue::from_value),
        }
    }
}
impl ToValue for Ts5ddoome3 {
    fn to_value(&self) -> Value {
        Value::Seq(vec![
            Some(self.f0.to_value()),
            Some(self.f1.to_value()),
            self.f2.as_ref().map(|x| x.to_value()),
            self.f3.as_ref().map(|x| x.to_value()),
            self.f4.as_ref().map(|x| x.to_value()),
        ])
    }
}
impl FromValue for Ts5ddoome4 {
    fn from_value(v: &Value) -> Self {
        let s = match v { Value::Seq(s) => s, other => panic!("Ts5ddoome4: expected Seq, got {other:?}") };
        assert_eq!(s.len(), 5, "Ts5ddoome4: component count");
        let _ = s;
        Ts5ddoome4 {
            f0: FromValue::from_value(s[0].as_ref().expect("component f0 of Ts5ddoome4 must be present")),
            f1: FromValue::from_value(s[1].as_ref().expect("component f1 of Ts5ddoome4 must be present")),
            f2: s[2].as_ref().map(FromValue::from_value),
            f3: s[3].as_ref().map(FromValue::from_value),
            f4: s[4].as_ref().map(FromValue::from_value),
        }
    }
}
impl ToValue for Ts5ddoome4 {
    fn to_value(&self) -> Value {
        Value::Seq(vec![
            Some(self.f0.to_value()),
            Some(self.f1.to_value()),
            self.f2.as_ref().map(|x| x.to_value()),
            self.f3.as_ref().map(|x| x.to_value()),
            self.f4.as_ref().map(|x| x.to_value()),
        ])
    }
}
impl FromValue for Ts5ddoome5 {
    fn from_value(v: &Value) -> Self {
        let s = match v { Value::Seq(s) => s, other => panic!("Ts5ddoome5: expected Seq, got {other:?}") };
        assert_eq!(s.len(), 5, "Ts5ddoome5: component count");
        let _ = s;
        Ts5ddoome5 {
            f0: FromValue::from_value(s[0].as_ref().expect("component f0 of Ts5ddoome5 must be present")),
            f1: FromValue::from_value(s[1].as_ref().expect("component f1 of Ts5ddoome5 must be present")),
            f2: s[2].as_ref().map(FromValue::from_value),
            f3: s[3].as_ref().map(FromValue::from_value),
            f4: FromValue::from_value(s[4].as_ref().expect("component f4 of Ts5ddoome5 must be present")),
        }
    }
}
impl ToValue for Ts5ddoome5 {
    fn to_value(&self) -> Value {
        Value::Seq(vec![
            Some(self.f0.to_value()),
            Some(self.f1.to_value()),
            self.f2.as_ref().map(|x| x.to_value()),
            self.f3.as_ref().map(|x| x.to_value()),
            Some(self.f4.to_value()),
        ])
    }
}
impl FromValue for Ts5mmdomn {
    fn from_value(v: &Value) -> Self {
        let s = match v { Value::Seq(s) => s, other => panic!("Ts5mmdomn: expected Seq, got {other:?}") };
        assert_eq!(s.len(), 5, "Ts5mmdomn: component count");
        let _ = s;
        Ts5mmdomn {
            f0: FromValue::from_value(s[0].as_ref().expect("component f0 of Ts5mmdomn must be present")),
            f1: FromValue::from_value(s[1].as_ref().expect("component f1 of Ts5mmdomn must be present")),
            f2: FromValue::from_value(s[2].as_ref().expect("component f2 of Ts5mmdomn must be present")),
            f3: s[3].as_ref().map(FromValue::from_value),
            f4: FromValue::from_value(s[4].as_ref().expect("component f4 of Ts5mmdomn must be present")),
        }
    }
}
impl ToValue for Ts5mmdomn {
    fn to_value(&self) -> Value {
        Value::Seq(vec![
            Some(self.f0.to_value()),
            Some(self.f1.to_value()),
            Some(self.f2.to_value()),
            self.f3.as_ref().map(|x| x.to_value()),
            Some(self.f4.to_value()),
        ])
    }
}
impl FromValue for Ts5mmdome0 {
    fn from_value(v: &Value) -> Self {
        let s = match v { Value::Seq(s) => s, other => panic!("Ts5mmdome0: expected Seq, got {other:?}") };
        assert_eq!(s.len(), 5, "Ts5mmdome0: component count");
        let _ = s;
        Ts5mmdome0 {
            f0: FromValue::from_value(s[0].as_ref().expect("component f0 of Ts5mmdome0 must be present")),
            f1: s[1].as_ref().map(FromValue::from_value),
            f2: FromValue::from_value(s[2].as_ref().expect("component f2 of Ts5mmdome0 must be present")),
            f3: s[3].as_ref().map(FromValue::from_value),
            f4: s[4].as_ref().map(FromValue::from_value),
        }
    }
}
impl ToValue for Ts5mmdome0 {
    fn to_value(&self) -> Value {
        Value::Seq(vec![
            Some(self.f0.to_value()),
            self.f1.as_ref().map(|x| x.to_value()),
            Some(self.f2.to_value()),
            self.f3.as_ref().map(|x| x.to_value()),
            self.f4.as_ref().map(|x| x.to_value()),
        ])
    }
}
impl FromValue for Ts5mmdome1 {
    fn from_value(v: &Value) -> Self {
        let s = match v { Value::Seq(s) => s, other => panic!("Ts5mmdome1: expected Seq, got {other:?}") };
        assert_eq!(s.len(), 5, "Ts5mmdome1: component count");
        let _ = s;
        Ts5mmdome1 {
            f0: FromValue::from_value(s[0].as_ref().expect("component f0 of Ts5mmdome1 must be present")),
            f1: s[1].as_ref().map(FromValue::from_value),
            f2: FromValue::from_value(s[2].as_ref().expect("component f2 of Ts5mmdome1 must be present")),
            f3: s[3].as_ref().map(FromValue::from_value),
            f4: s[4].as_ref().map(FromValue::from_value),
        }
    }
}
impl ToValue for Ts5mmdome1 {
    fn to_value(&self) -> Value {
        Value::Seq(vec![
            Some(self.f0.to_value()),
            self.f1.as_ref().map(|x| x.to_value()),
            Some(self.f2.to_value()),
            self.f3.as_ref().map(|x| x.to_value()),
            self.f4.as_ref().map(|x| x.to_value()),
        ])
    }
}
impl FromValue for Ts5mmdome2 {
    fn from_value(v: &Value) -> Self {
        let s = match v { Value::Seq(s) => s, other => panic!("Ts5mmdome2: expected Seq, got {other:?}") };
        assert_eq!(s.len(), 5, "Ts5mmdome2: component count");
        let _ = s;
        Ts5mmdome2 {
            f0: FromValue::from_value(s[0].as_ref().expect("component f0 of Ts5mmdome2 must be present")),
            f1: FromValue::from_value(s[1].as_ref().expect("component f1 of Ts5mmdome2 must be present")),
            f2: FromValue::from_value(s[2].as_ref().expect("component f2 of Ts5mmdome2 must be present")),
            f3: s[3].as_ref().map(FromValue::from_value),
            f4: s[4].as_ref().map(FromValue::from_value),
        }
    }
}
impl ToValue for Ts5mmdome2 {
    fn to_value(&self) -> Value {
        Value::Seq(vec![
            Some(self.f0.to_value()),
            Some(self.f1.to_value()),
            Some(self.f2.to_value()),
            self.f3.as_ref().map(|x| x.to_value()),
            self.f4.as_ref().map(|x| x.to_value()),
        ])
    }
}
impl FromValue for Ts5mmdome3 {
    fn from_value(v: &Value) -> Self {
        let s = match v { Value::Seq(s) => s, other => panic!("Ts5mmdome3: expected Seq, got {other:?}") };
        assert_eq!(s.len(), 5, "Ts5mmdome3: component count");
        let _ = s;
        Ts5mmdome3 {
            f0: FromValue::from_value(s[0].as_ref().expect("component f0 of Ts5mmdome3 must be present")),
            f1: FromValue::from_value(s[1].as_ref().expect("component f1 of Ts5mmdome3 must be present")),
            f2: FromValue::from_value(s[2].as_ref().expect("component f2 of Ts5mmdome3 must be present")),
            f3: s[3].as_ref().map(FromValue::from_value),
            f4: s[4].as_ref().map(FromValue::from_value),
        }
    }
}
impl ToValue for Ts5mmdome3 {
    fn to_value(&self) -> Value {
        Value::Seq(vec![
            Some(self.f0.to_value()),
            Some(self.f1.to_value()),
            Some(self.f2.to_value()),
            self.f3.as_ref().map(|x| x.to_value()),
            self.f4.as_ref().map(|x| x.to_value()),
        ])
    }
}
impl FromValue for Ts5mmdome4 {
    fn from_value(v: &Value) -> Self {
        let s = match v { Value::Seq(s) => s, other => panic!("Ts5mmdome4: expected Seq, got {other:?}") };
        assert_eq!(s.len(), 5, "Ts5mmdome4: component count");
        let _ = s;
        Ts5mmdome4 {
            f0: FromValue::from_value(s[0].as_ref().expect("component f0 of Ts5mmdome4 must be present")),
            f1: FromValue::from_value(s[1].as_ref().expect("component f1 of Ts5mmdome4 must be present")),
            f2: FromValue::from_value(s[2].as_ref().expect("component f2 of Ts5mmdome4 must be present")),
            f3: s[3].as_ref().map(FromValue::from_value),
            f4: s[4].as_ref().map(FromValue::from_value),
        }
    }
}
impl ToValue for Ts5mmdome4 {
    fn to_value(&self) -> Value {
        Value::Seq(vec![
            Some(self.f0.to_value()),
            Some(self.f1.to_value()),
            Some(self.f2.to_value()),
            self.f3.as_ref().map(|x| x.to_value()),
            self.f4.as_ref().map(|x| x.to_value()),
        ])
    }
}
impl FromValue for Ts5mmdome5 {
    fn from_value(v: &Value) -> Self {
        let s = match v { Value::Seq(s) => s, other => panic!("Ts5mmdome5: expected Seq, got {other:?}") };
        assert_eq!(s.len(), 5, "Ts5mmdome5: component count");
        let _ = s;
        Ts5mmdome5 {
            f0: FromValue::from_value(s[0].as_ref().expect("component f0 of Ts5mmdome5 must be present")),
            f1: FromValue::from_value(s[1].as_ref().expect("component f1 of Ts5mmdome5 must be present")),
            f2: FromValue::from_value(s[2].as_ref().expect("component f2 of Ts5mmdome5 must be present")),
            f3: s[3].as_ref().map(FromValue::from_value),
            f4: FromValue::from_value(s[4].as_ref().expect("component f4 of Ts5mmdome5 must be present")),
        }
    }
}
impl ToValue for Ts5mmdome5 {
    fn to_value(&self) -> Value {
        Value::Seq(vec![
            Some(self.f0.to_value()),
            Some(self.f1.to_value()),
            Some(self.f2.to_value()),
            self.f3.as_ref().map(|x| x.to_value()),
            Some(self.f4.to_value()),
        ])
    }
}
impl FromValue for Ts5omdomn {
    fn from_value(v: &Value) -> Self {
        let s = match v { Value::Seq(s) => s, other => panic!("Ts5omdomn: expected Seq, got {other:?}") };
        assert_eq!(s.len(), 5, "Ts5omdomn: component count");
        let _ = s;
        Ts5omdomn {
            f0: s[0].as_ref().map(FromValue::from_value),
            f1: FromValue::from_value(s[1].as_ref().expect("component f1 of Ts5omdomn must be present")),
            f2: FromValue::from_value(s[2].as_ref().expect("component f2 of Ts5omdomn must be present")),
            f3: s[3].as_ref().map(FromValue::from_value),
            f4: FromValue::from_value(s[4].as_ref().expect("component f4 of Ts5omdomn must be present")),
        }
    }
}
impl ToValue for Ts5omdomn {
    fn to_value(&self) -> Value {
        Value::Seq(vec![
            self.f0.as_ref().map(|x| x.to_value()),
            Some(self.f1.to_value()),
            Some(self.f2.to_value()),
            self.f3.as_ref().map(|x| x.to_value()),
            Some(self.f4.to_value()),
        ])
    }
}
impl FromValue for Ts5omdome0 {
    fn from_value(v: &Value) -> Self {
        let s = match v { Value::Seq(s) => s, other => panic!("Ts5omdome0: expected Seq, got {other:?}") };
        assert_eq!(s.len(), 5, "Ts5omdome0: component count");
        let _ = s;
        Ts5omdome0 {
            f0: s[0].as_ref().map(FromValue::from_value),
            f1: s[1].as_ref().map(FromValue::from_value),
            f2: FromValue::from_value(s[2].as_ref().expect("component f2 of Ts5omdome0 must be present")),
            f3: s[3].as_ref().map(FromValue::from_value),
            f4: s[4].as_ref().map(FromValue::from_value),
        }
    }
}
impl ToValue for Ts5omdome0 {
    fn to_value(&self) -> Value {
        Value::Seq(vec![
            self.f0.as_ref().map(|x| x.to_value()),
            self.f1.as_ref().map(|x| x.to_value()),
            Some(self.f2.to_value()),
            self.f3.as_ref().map(|x| x.to_value()),
            self.f4.as_ref().map(|x| x.to_value()),
        ])
    }
}
impl FromValue for Ts5omdome1 {
    fn from_value(v: &Value) -> Self {
        let s = match v { Value::Seq(s) => s, other => panic!("Ts5omdome1: expected Seq, got {other:?}") };
        assert_eq!(s.len(), 5, "Ts5omdome1: component count");
        let _ = s;
        Ts5omdome1 {
            f0: s[0].as_ref().map(FromValue::from_value),
            f1: s[1].as_ref().map(FromValue::from_value),
            f2: FromValue::from_value(s[2].as_ref().expect("component f2 of Ts5omdome1 must be present")),
            f3: s[3].as_ref().map(FromValue::from_value),
            f4: s[4].as_ref().map(FromValue::from_value),
        }
    }
}
impl ToValue for Ts5omdome1 {
    fn to_value(&self) -> Value {
        Value::Seq(vec![
            self.f0.as_ref().map(|x| x.to_value()),
            self.f1.as_ref().map(|x| x.to_value()),
            Some(self.f2.to_value()),
            self.f3.as_ref().map(|x| x.to_value()),
            self.f4.as_ref().map(|x| x.to_value()),
        ])
    }
}
impl FromValue for Ts5omdome2 {
    fn from_value(v: &Value) -> Self {
        let s = match v { Value::Seq(s) => s, other => panic!("Ts5omdome2: expected Seq, got {other:?}") };
        assert_eq!(s.len(), 5, "Ts5omdome2: component count");
        let _ = s;
        Ts5omdome2 {
            f0: s[0].as_ref().map(FromValue::from_value),
            f1: FromValue::from_value(s[1].as_ref().expect("component f1 of Ts5omdome2 must be present")),
            f2: FromValue::from_value(s[2].as_ref().expect("component f2 of Ts5omdome2 must be present")),
            f3: s[3].as_ref().map(FromValue::from_value),
            f4: s[4].as_ref().map(FromValue::from_value),
        }
    }
}
impl ToValue for Ts5omdome2 {
    fn to_value(&self) -> Value {
        Value::Seq(vec![
            self.f0.as_ref().map(|x| x.to_value()),
            Some(self.f1.to_value()),
            Some(self.f2.to_value()),
            self.f3.as_ref().map(|x| x.to_value()),
            self.f4.as_ref().map(|x| x.to_value()),
        ])
    }
}
impl FromValue for Ts5omdome3 {
    fn from_value(v: &Value) -> Self {
        let s = match v { Value::Seq(s) => s, other => panic!("Ts5omdome3: expected Seq, got {other:?}") };
        assert_eq!(s.len(), 5, "Ts5omdome3: component count");
        let _ = s;
        Ts5omdome3 {
            f0: s[0].as_ref().map(FromValue::from_value),
            f1: FromValue::from_value(s[1].as_ref().expect("component f1 of Ts5omdome3 must be present")),
            f2: FromValue::from_value(s[2].as_ref().expect("component f2 of Ts5omdome3 must be present")),
            f3: s[3].as_ref().map(FromValue::from_value),
            f4: s[4].as_ref().map(FromValue::from_value),
        }
    }
}
impl ToValue for Ts5omdome3 {
    fn to_value(&self) -> Value {
        Value::Seq(vec![
            self.f0.as_ref().map(|x| x.to_value()),
            Some(self.f1.to_value()),
            Some(self.f2.to_value()),
            self.f3.as_ref().map(|x| x.to_value()),
            self.f4.as_ref().map(|x| x.to_value()),
        ])
    }
}
impl FromValue for Ts5omdome4 {
    fn from_value(v: &Value) -> Self {
        let s = match v { Value::Seq(s) => s, other => panic!("Ts5omdome4: expected Seq, got {other:?}") };
        assert_eq!(s.len(), 5, "Ts5omdome4: component count");
        let _ = s;
        Ts5omdome4 {
            f0: s[0].as_ref().map(FromValue::from_value),
            f1: FromValue::from_value(s[1].as_ref().expect("component f1 of Ts5omdome4 must be present")),
            f2: FromValue::from_value(s[2].as_ref().expect("component f2 of Ts5omdome4 must be present")),
            f3: s[3].as_ref().map(FromValue::from_value),
            f4: s[4].as_ref().map(FromValue::from_value),
        }
    }
}
impl ToValue for Ts5omdome4 {
    fn to_value(&self) -> Value {
        Value::Seq(vec![
            self.f0.as_ref().map(|x| x.to_value()),
            Some(self.f1.to_value()),
            Some(self.f2.to_value()),
            self.f3.as_ref().map(|x| x.to_value()),
            self.f4.as_ref().map(|x| x.to_value()),
        ])
    }
}
impl FromValue for Ts5omdome5 {
    fn from_value(v: &Value) -> Self {
        let s = match v { Value::Seq(s) => s, other => panic!("Ts5omdome5: expected Seq, got {other:?}") };
        assert_eq!(s.len(), 5, "Ts5omdome5: component count");
        let _ = s;
        Ts5omdome5 {
            f0: s[0].as_ref().map(FromValue::from_value),
            f1: FromValue::from_value(s[1].as_ref().expect("component f1 of Ts5omdome5 must be present")),
            f2: FromValue::from_value(s[2].as_ref().expect("component f2 of Ts5omdome5 must be present")),
            f3: s[3].as_ref().map(FromValue::from_value),
            f4: FromValue::from_value(s[4].as_ref().expect("component f4 of Ts5omdome5 must be present")),
        }
    }
}
impl ToValue for Ts5omdome5 {
    fn to_value(&self) -> Value {
        Value::Seq(vec![
            self.f0.as_ref().map(|x| x.to_value()),
            Some(self.f1.to_value()),
            Some(self.f2.to_value()),
            self.f3.as_ref().map(|x| x.to_value()),
            Some(self.f4.to_value()),
        ])
    }
}
impl FromValue for Ts5dmdomn {
    fn from_value(v: &Value) -> Self {
        let s = match v { Value::Seq(s) => s, other => panic!("Ts5dmdomn: expected Seq, got {other:?}") };
        assert_eq!(s.len(), 5, "Ts5dmdomn: component count");
        let _ = s;
        Ts5dmdomn {
            f0: FromValue::from_value(s[0].as_ref().expect("component f0 of Ts5dmdomn must be present")),
            f1: FromValue::from_value(s[1].as_ref().expect("component f1 of Ts5dmdomn must be present")),
            f2: FromValue::from_value(s[2].as_ref().expect("component f2 of Ts5dmdomn must be present")),
            f3: s[3].as_ref().map(FromValue::from_value),
            f4: FromValue::from_value(s[4].as_ref().expect("component f4 of Ts5dmdomn must be present")),
        }
    }
}
impl ToValue for Ts5dmdomn {
    fn to_value(&self) -> Value {
        Value::Seq(vec![
            Some(self.f0.to_value()),
            Some(self.f1.to_value()),
            Some(self.f2.to_value()),
            self.f3.as_ref().map(|x| x.to_value()),
            Some(self.f4.to_value()),
        ])
    }
}
impl FromValue for Ts5dmdome0 {
    fn from_value(v: &Value) -> Self {
        let s = match v { Value::Seq(s) => s, other => panic!("Ts5dmdome0: expected Seq, got {other:?}") };
        assert_eq!(s.len(), 5, "Ts5dmdome0: component count");
        let _ = s;
        Ts5dmdome0 {
            f0: FromValue::from_value(s[0].as_ref().expect("component f0 of Ts5dmdome0 must be present")),
            f1: s[1].as_ref().map(FromValue::from_value),
            f2: FromValue::from_value(s[2].as_ref().expect("component f2 of Ts5dmdome0 must be present")),
            f3: s[3].as_ref().map(FromValue::from_value),
            f4: s[4].as_ref().map(FromValue::from_value),
        }
    }
}
impl ToValue for Ts5dmdome0 {
    fn to_value(&self) -> Value {
        Value::Seq(vec![
            Some(self.f0.to_value()),
            self.f1.as_ref().map(|x| x.to_value()),
            Some(self.f2.to_value()),
            self.f3.as_ref().map(|x| x.to_value()),
            self.f4.as_ref().map(|x| x.to_value()),
        ])
    }
}
impl FromValue for Ts5dmdome1 {
    fn from_value(v: &Value) -> Self {
        let s = match v { Value::Seq(s) => s, other => panic!("Ts5dmdome1: expected Seq, got {other:?}") };
        assert_eq!(s.len(), 5, "Ts5dmdome1: component count");
        let _ = s;
        Ts5dmdome1 {
            f0: FromValue::from_value(s[0].as_ref().expect("component f0 of Ts5dmdome1 must be present")),
            f1: s[1].as_ref().map(FromValue::from_value),
            f2: FromValue::from_value(s[2].as_ref().expect("component f2 of Ts5dmdome1 must be present")),
            f3: s[3].as_ref().map(FromValue::from_value),
            f4: s[4].as_ref().map(FromValue::from_value),
        }
    }
}
impl ToValue for Ts5dmdome1 {
    fn to_value(&self) -> Value {
        Value::Seq(vec![
            Some(self.f0.to_value()),
            self.f1.as_ref().map(|x| x.to_value()),
            Some(self.f2.to_value()),
            self.f3.as_ref().map(|x| x.to_value()),
            self.f4.as_ref().map(|x| x.to_value()),
        ])
    }
}
impl FromValue for Ts5dmdome2 {
    fn from_value(v: &Value) -> Self {
        let s = match v { Value::Seq(s) => s, other => panic!("Ts5dmdome2: expected Seq, got {other:?}") };
        assert_eq!(s.len(), 5, "Ts5dmdome2: component count");
        let _ = s;
        Ts5dmdome2 {
            f0: FromValue::from_value(s[0].as_ref().expect("component f0 of Ts5dmdome2 must be present")),
            f1: FromValue::from_value(s[1].as_ref().expect("component f1 of Ts5dmdome2 must be present")),
            f2: FromValue::from_value(s[2].as_ref().expect("component f2 of Ts5dmdome2 must be present")),
            f3: s[3].as_ref().map(FromValue::from_value),
            f4: s[4].as_ref().map(FromValue::from_value),
        }
    }
}
impl ToValue for Ts5dmdome2 {
    fn to_value(&self) -> Value {
        Value::Seq(vec![
            Some(self.f0.to_value()),
            Some(self.f1.to_value()),
            Some(self.f2.to_value()),
            self.f3.as_ref().map(|x| x.to_value()),
            self.f4.as_ref().map(|x| x.to_value()),
        ])
    }
}
impl FromValue for Ts5dmdome3 {
    fn from_value(v: &Value) -> Self {
        let s = match v { Value::Seq(s) => s, other => panic!("Ts5dmdome3: expected Seq, got {other:?}") };
        assert_eq!(s.len(), 5, "Ts5dmdome3: component count");
        let _ = s;
        Ts5dmdome3 {
            f0: FromValue::from_value(s[0].as_ref().expect("component f0 of Ts5dmdome3 must be present")),
            f1: FromValue::from_value(s[1].as_ref().expect("component f1 of Ts5dmdome3 must be present")),
            f2: FromValue::from_value(s[2].as_ref().expect("component f2 of Ts5dmdome3 must be present")),
            f3: s[3].as_ref().map(FromValue::from_value),
            f4: s[4].as_ref().map(FromValue::from_value),
        }
    }
}
impl ToValue for Ts5dmdome3 {
    fn to_value(&self) -> Value {
        Value::Seq(vec![
            Some(self.f0.to_value()),
            Some(self.f1.to_value()),
            Some(self.f2.to_value()),
            self.f3.as_ref().map(|x| x.to_value()),
            self.f4.as_ref().map(|x| x.to_value()),
        ])
    }
}
impl FromValue for Ts5dmdome4 {
    fn from_value(v: &Value) -> Self {
        let s = match v { Value::Seq(s) => s, other => panic!("Ts5dmdome4: expected Seq, got {other:?}") };
        assert_eq!(s.len(), 5, "Ts5dmdome4: component count");
        let _ = s;
        Ts5dmdome4 {
            f0: FromValue::from_value(s[0].as_ref().expect("component f0 of Ts5dmdome4 must be present")),
            f1: FromValue::from_value(s[1].as_ref().expect("component f1 of Ts5dmdome4 must be present")),
            f2: FromValue::from_value(s[2].as_ref().expect("component f2 of Ts5dmdome4 must be present")),
            f3: s[3].as_ref().map(FromValue::from_value),
            f4: s[4].as_ref().map(FromValue::from_value),
        }
    }
}
impl ToValue for Ts5dmdome4 {
    fn to_value(&self) -> Value {
        Value::Seq(vec![
            Some(self.f0.to_value()),
            Some(self.f1.to_value()),
            Some(self.f2.to_value()),
            self.f3.as_ref().map(|x| x.to_value()),
            self.f4.as_ref().map(|x| x.to_value()),
        ])
    }
}
impl FromValue for Ts5dmdome5 {
    fn from_value(v: &Value) -> Self {
        let s = match v { Value::Seq(s) => s, other => panic!("Ts5dmdome5: expected Seq, got {other:?}") };
        assert_eq!(s.len(), 5, "Ts5dmdome5: component count");
        let _ = s;
        Ts5dmdome5 {
            f0: FromValue::from_value(s[0].as_ref().expect("component f0 of Ts5dmdome5 must be present")),
            f1: FromValue::from_value(s[1].as_ref().expect("component f1 of Ts5dmdome5 must be present")),
            f2: FromValue::from_value(s[2].as_ref().expect("component f2 of Ts5dmdome5 must be present")),
            f3: s[3].as_ref().map(FromValue::from_value),
            f4: FromValue::from_value(s[4].as_ref().expect("component f4 of Ts5dmdome5 must be present")),
        }
    }
}
impl ToValue for Ts5dmdome5 {
    fn to_value(&self) -> Value {
        Value::Seq(vec![
            Some(self.f0.to_value()),
            Some(self.f1.to_value()),
            Some(self.f2.to_value()),
            self.f3.as_ref().map(|x| x.to_value()),
            Some(self.f4.to_value()),
        ])
    }
}
impl FromValue for Ts5modomn {
    fn from_value(v: &Value) -> Self {
        let s = match v { Value::Seq(s) => s, other => panic!("Ts5modomn: expected Seq, got {other:?}") };
        assert_eq!(s.len(), 5, "Ts5modomn: component count");
        let _ = s;
        Ts5modomn {
            f0: FromValue::from_value(s[0].as_ref().expect("component f0 of Ts5modomn must be present")),
            f1: s[1].as_ref().map(FromValue::from_value),
            f2: FromValue::from_value(s[2].as_ref().expect("component f2 of Ts5modomn must be present")),
            f3: s[3].as_ref().map(FromValue::from_value),
            f4: FromValue::from_value(s[4].as_ref().expect("component f4 of Ts5modomn must be present")),
        }
    }
}
impl ToValue for Ts5modomn {
    fn to_value(&self) -> Value {
        Value::Seq(vec![
            Some(self.f0.to_value()),
            self.f1.as_ref().map(|x| x.to_value()),
            Some(self.f2.to_value()),
            self.f3.as_ref().map(|x| x.to_value()),
            Some(self.f4.to_value()),
        ])
    }
}
impl FromValue for Ts5modome0 {
    fn from_value(v: &Value) -> Self {
        let s = match v { Value::Seq(s) => s, other => panic!("Ts5modome0: expected Seq, got {other:?}") };
        assert_eq!(s.len(), 5, "Ts5modome0: component count");
        let _ = s;
        Ts5modome0 {
            f0: FromValue::from_value(s[0].as_ref().expect("component f0 of Ts5modome0 must be present")),
            f1: s[1].as_ref().map(FromValue::from_value),
            f2: FromValue::from_value(s[2].as_ref().expect("component f2 of Ts5modome0 must be present")),
            f3: s[3].as_ref().map(FromValue::from_value),
            f4: s[4].as_ref().map(FromValue::from_value),
        }
    }
}
impl ToValue for Ts5modome0 {
    fn to_value(&self) -> Value {
        Value::Seq(vec![
            Some(self.f0.to_value()),
            self.f1.as_ref().map(|x| x.to_value()),
            Some(self.f2.to_value()),
            self.f3.as_ref().map(|x| x.to_value()),
            self.f4.as_ref().map(|x| x.to_value()),
        ])
    }
}
impl FromValue for Ts5modome1 {
    fn from_value(v: &Value) -> Self {
        let s = match v { Value::Seq(s) => s, other => panic!("Ts5modome1: expected Seq, got {other:?}") };
        assert_eq!(s.len(), 5, "Ts5modome1: component count");
        let _ = s;
        Ts5modome1 {
            f0: FromValue::from_value(s[0].as_ref().expect("component f0 of Ts5modome1 must be present")),
            f1: s[1].as_ref().map(FromValue::from_value),
            f2: FromValue::from_value(s[2].as_ref().expect("component f2 of Ts5modome1 must be present")),
            f3: s[3].as_ref().map(FromValue::from_value),
            f4: s[4].as_ref().map(FromValue::from_value),
        }
    }
}
impl ToValue for Ts5modome1 {
    fn to_value(&self) -> Value {
        Value::Seq(vec![
            Some(self.f0.to_value()),
            self.f1.as_ref().map(|x| x.to_value()),
            Some(self.f2.to_value()),
            self.f3.as_ref().map(|x| x.to_value()),
            self.f4.as_ref().map(|x| x.to_value()),
        ])
    }
}
impl FromValue for Ts5modome2 {
    fn from_value(v: &Value) -> Self {
        let s = match v { Value::Seq(s) => s, other => panic!("Ts5modome2: expected Seq, got {other:?}") };
        assert_eq!(s.len(), 5, "Ts5modome2: component count");
        let _ = s;
        Ts5modome2 {
            f0: FromValue::from_value(s[0].as_ref().expect("component f0 of Ts5modome2 must be present")),
            f1: s[1].as_ref().map(FromValue::from_value),
            f2: FromValue::from_value(s[2].as_ref().expect("component f2 of Ts5modome2 must be present")),
            f3: s[3].as_ref().map(FromValue::from_value),
            f4: s[4].as_ref().map(FromValue::from_value),
        }
    }
}
impl ToValue for Ts5modome2 {
    fn to_value(&self) -> Value {
        Value::Seq(vec![
            Some(self.f0.to_value()),
            self.f1.as_ref().map(|x| x.to_value()),
            Some(self.f2.to_value()),
            self.f3.as_ref().map(|x| x.to_value()),
            self.f4.as_ref().map(|x| x.to_value()),
        ])
    }
}
impl FromValue for Ts5modome3 {
    fn from_value(v: &Value) -> Self {
        let s = match v { Value::Seq(s) => s, other => panic!("Ts5modome3: expected Seq, got {other:?}") };
        assert_eq!(s.len(), 5, "Ts5modome3: component count");
        let _ = s;
        Ts5modome3 {
            f0: FromValue::from_value(s[0].as_ref().expect("component f0 of Ts5modome3 must be present")),
            f1: s[1].as_ref().map(FromValue::from_value),
            f2: FromValue::from_value(s[2].as_ref().expect("component f2 of Ts5modome3 must be present")),
            f3: s[3].as_ref().map(FromValue::from_value),
            f4: s[4].as_ref().map(FromValue::from_value),
        }
    }
}
impl ToValue for Ts5modome3 {
    fn to_value(&self) -> Value {
        Value::Seq(vec![
            Some(self.f0.to_value()),
            self.f1.as_ref().map(|x| x.to_value()),
            Some(self.f2.to_value()),
            self.f3.as_ref().map(|x| x.to_value()),
            self.f4.as_ref().map(|x| x.to_value()),
        ])
    }
}
impl FromValue for Ts5modome4 {
    fn from_value(v: &Value) -> Self {
        let s = match v { Value::Seq(s) => s, other => panic!("Ts5modome4: expected Seq, got {other:?}") };
        assert_eq!(s.len(), 5, "Ts5modome4: component count");
        let _ = s;
        Ts5modome4 {
            f0: FromValue::from_value(s[0].as_ref().expect("component f0 of Ts5modome4 must be present")),
            f1: s[1].as_ref().map(FromValue::from_value),
            f2: FromValue::from_value(s[2].as_ref().expect("component f2 of Ts5modome4 must be present")),
            f3: s[3].as_ref().map(FromValue::from_value),
            f4: s[4].as_ref().map(FromValue::from_value),
        }
    }
}
impl ToValue for Ts5modome4 {
    fn to_value(&self) -> Value {
        Value::Seq(vec![
            Some(self.f0.to_value()),
            self.f1.as_ref().map(|x| x.to_value()),
            Some(self.f2.to_value()),
            self.f3.as_ref().map(|x| x.to_value()),
            self.f4.as_ref().map(|x| x.to_value()),
        ])
    }
}
impl FromValue for Ts5modome5 {
    fn from_value(v: &Value) -> Self {
        let s = match v { Value::Seq(s) => s, other => panic!("Ts5modome5: expected Seq, got {other:?}") };
        assert_eq!(s.len(), 5, "Ts5modome5: component count");
        let _ = s;
        Ts5modome5 {
            f0: FromValue::from_value(s[0].as_ref().expect("component f0 of Ts5modome5 must be present")),
            f1: s[1].as_ref().map(FromValue::from_value),
            f2: FromValue::from_value(s[2].as_ref().expect("component f2 of Ts5modome5 must be present")),
            f3: s[3].as_ref().map(FromValue::from_value),
            f4: FromValue::from_value(s[4].as_ref().expect("component f4 of Ts5modome5 must be present")),
        }
    }
}
impl ToValue for Ts5modome5 {
    fn to_value(&self) -> Value {
        Value::Seq(vec![
            Some(self.f0.to_value()),
            self.f1.as_ref().map(|x| x.to_value()),
            Some(self.f2.to_value()),
            self.f3.as_ref().map(|x| x.to_value()),
            Some(self.f4.to_value()),
        ])
    }
}
impl FromValue for Ts5oodomn {
    fn from_value(v: &Value) -> Self {
        let s = match v { Value::Seq(s) => s, other => panic!("Ts5oodomn: expected Seq, got {other:?}") };
        assert_eq!(s.len(), 5, "Ts5oodomn: component count");
        let _ = s;
        Ts5oodomn {
            f0: s[0].as_ref().map(FromValue::from_value),
            f1: s[1].as_ref().map(FromValue::from_value),
            f2: FromValue::from_value(s[2].as_ref().expect("component f2 of Ts5oodomn must be present")),
            f3: s[3].as_ref().map(FromValue::from_value),
            f4: FromValue::from_value(s[4].as_ref().expect("component f4 of Ts5oodomn must be present")),
        }
    }
}
impl ToValue for Ts5oodomn {
    fn to_value(&self) -> Value {
        Value::Seq(vec![
            self.f0.as_ref().map(|x| x.to_value()),
            self.f1.as_ref().map(|x| x.to_value()),
            Some(self.f2.to_value()),
            self.f3.as_ref().map(|x| x.to_value()),
            Some(self.f4.to_value()),
        ])
    }
}
impl FromValue for Ts5oodome0 {
    fn from_value(v: &Value) -> Self {
        let s = match v { Value::Seq(s) => s, other => panic!("Ts5oodome0: expected Seq, got {other:?}") };
        assert_eq!(s.len(), 5, "Ts5oodome0: component count");
        let _ = s;
        Ts5oodome0 {
            f0: s[0].as_ref().map(FromValue::from_value),
            f1: s[1].as_ref().map(FromValue::from_value),
            f2: FromValue::from_value(s[2].as_ref().expect("component f2 of Ts5oodome0 must be present")),
            f3: s[3].as_ref().map(FromValue::from_value),
            f4: s[4].as_ref().map(FromValue::from_value),
        }
    }
}
impl ToValue for Ts5oodome0 {
    fn to_value(&self) -> Value {
        Value::Seq(vec![
            self.f0.as_ref().map(|x| x.to_value()),
            self.f1.as_ref().map(|x| x.to_value()),
            Some(self.f2.to_value()),
            self.f3.as_ref().map(|x| x.to_value()),
            self.f4.as_ref().map(|x| x.to_value()),
        ])
    }
}
impl FromValue for Ts5oodome1 {
    fn from_value(v: &Value) -> Self {
        let s = match v { Value::Seq(s) => s, other => panic!("Ts5oodome1: expected Seq, got {other:?}") };
        assert_eq!(s.len(), 5, "Ts5oodome1: component count");
        let _ = s;
        Ts5oodome1 {
            f0: s[0].as_ref().map(FromValue::from_value),
            f1: s[1].as_ref().map(FromValue::from_value),
            f2: FromValue::from_value(s[2].as_ref().expect("component f2 of Ts5oodome1 must be present")),
            f3: s[3].as_ref().map(FromValue::from_value),
            f4: s[4].as_ref().map(FromValue::from_value),
        }
    }
}
impl ToValue for Ts5oodome1 {
    fn to_value(&self) -> Value {
        Value::Seq(vec![
            self.f0.as_ref().map(|x| x.to_value()),
            self.f1.as_ref().map(|x| x.to_value()),
            Some(self.f2.to_value()),
            self.f3.as_ref().map(|x| x.to_value()),
            self.f4.as_ref().map(|x| x.to_value()),
        ])
    }
}
impl FromValue for Ts5oodome2 {
    fn from_value(v: &Value) -> Self {
        let s = match v { Value::Seq(s) => s, other => panic!("Ts5oodome2: expected Seq, got {other:?}") };
        assert_eq!(s.len(), 5, "Ts5oodome2: component count");
        let _ = s;
        Ts5oodome2 {
            f0: s[0].as_ref().map(FromValue::from_value),
            f1: s[1].as_ref().map(FromValue::from_value),
            f2: FromValue::from_value(s[2].as_ref().expect("component f2 of Ts5oodome2 must be present")),
            f3: s[3].as_ref().map(FromValue::from_value),
            f4: s[4].as_ref().map(FromValue::from_value),
        }
    }
}
impl ToValue for Ts5oodome2 {
    fn to_value(&self) -> Value {
        Value::Seq(vec![
            self.f0.as_ref().map(|x| x.to_value()),
            self.f1.as_ref().map(|x| x.to_value()),
            Some(self.f2.to_value()),
            self.f3.as_ref().map(|x| x.to_value()),
            self.f4.as_ref().map(|x| x.to_value()),
        ])
    }
}
impl FromValue for Ts5oodome3 {
    fn from_value(v: &Value) -> Self {
        let s = match v { Value::Seq(s) => s, other => panic!("Ts5oodome3: expected Seq, got {other:?}") };
        assert_eq!(s.len(), 5, "Ts5oodome3: component count");
        let _ = s;
        Ts5oodome3 {
            f0: s[0].as_ref().map(FromValue::from_value),
            f1: s[1].as_ref().map(FromValue::from_value),
            f2: FromValue::from_value(s[2].as_ref().expect("component f2 of Ts5oodome3 must be present")),
            f3: s[3].as_ref().map(FromValue::from_value),
            f4: s[4].as_ref().map(FromValue::from_value),
        }
    }
}
impl ToValue for Ts5oodome3 {
    fn to_value(&self) -> Value {
        Value::Seq(vec![
            self.f0.as_ref().map(|x| x.to_value()),
            self.f1.as_ref().map(|x| x.to_value()),
            Some(self.f2.to_value()),
            self.f3.as_ref().map(|x| x.to_value()),
            self.f4.as_ref().map(|x| x.to_value()),
        ])
    }
}
impl FromValue for Ts5oodome4 {
    fn from_value(v: &Value) -> Self {
        let s = match v { Value::Seq(s) => s, other => panic!("Ts5oodome4: expected Seq, got {other:?}") };
        assert_eq!(s.len(), 5, "Ts5oodome4: component count");
        let _ = s;
        Ts5oodome4 {
            f0: s[0].as_ref().map(FromValue::from_value),
            f1: s[1].as_ref().map(FromValue::from_value),
            f2: FromValue::from_value(s[2].as_ref().expect("component f2 of Ts5oodome4 must be present")),
            f3: s[3].as_ref().map(FromValue::from_value),
            f4: s[4].as_ref().map(FromValue::from_value),
        }
    }
}
impl ToValue for Ts5oodome4 {
    fn to_value(&self) -> Value {
        Value::Seq(vec![
            self.f0.as_ref().map(|x| x.to_value()),
            self.f1.as_ref().map(|x| x.to_value()),
            Some(self.f2.to_value()),
            self.f3.as_ref().map(|x| x.to_value()),
            self.f4.as_ref().map(|x| x.to_value()),
        ])
    }
}
impl FromValue for Ts5oodome5 {
    fn from_value(v: &Value) -> Self {
        let s = match v { Value::Seq(s) => s, other => panic!("Ts5oodome5: expected Seq, got {other:?}") };
        assert_eq!(s.len(), 5, "Ts5oodome5: component count");
        let _ = s;
        Ts5oodome5 {
            f0: s[0].as_ref().map(FromValue::from_value),
            f1: s[1].as_ref().map(FromValue::from_value),
            f2: FromValue::from_value(s[2].as_ref().expect("component f2 of Ts5oodome5 must be present")),
            f3: s[3].as_ref().map(FromValue::from_value),
            f4: FromValue::from_value(s[4].as_ref().expect("component f4 of Ts5oodome5 must be present")),
        }
    }
}
impl ToValue for Ts5oodome5 {
    fn to_value(&self) -> Value {
        Value::Seq(vec![
            self.f0.as_ref().map(|x| x.to_value()),
            self.f1.as_ref().map(|x| x.to_value()),
            Some(self.f2.to_value()),
            self.f3.as_ref().map(|x| x.to_value()),
            Some(self.f4.to_value()),
        ])
    }
}
impl FromValue for Ts5dodomn {
    fn from_value(v: &Value) -> Self {
        let s = match v { Value::Seq(s) => s, other => panic!("Ts5dodomn: expected Seq, got {other:?}") };
        assert_eq!(s.len(), 5, "Ts5dodomn: component count");
        let _ = s;
        Ts5dodomn {
            f0: FromValue::from_value(s[0].as_ref().expect("component f0 of Ts5dodomn must be present")),
            f1: s[1].as_ref().map(FromValue::from_value),
            f2: FromValue::from_value(s[2].as_ref().expect("component f2 of Ts5dodomn must be present")),
            f3: s[3].as_ref().map(FromValue::from_value),
            f4: FromValue::from_value(s[4].as_ref().expect("component f4 of Ts5dodomn must be present")),
        }
    }
}
impl ToValue for Ts5dodomn {
    fn to_value(&self) -> Value {
        Value::Seq(vec![
            Some(self.f0.to_value()),
            self.f1.as_ref().map(|x| x.to_value()),
            Some(self.f2.to_value()),
            self.f3.as_ref().map(|x| x.to_value()),
            Some(self.f4.to_value()),
        ])
    }
}
impl FromValue for Ts5dodome0 {
    fn from_value(v: &Value) -> Self {
        let s = match v { Value::Seq(s) => s, other => panic!("Ts5dodome0: expected Seq, got {other:?}") };
        assert_eq!(s.len(), 5, "Ts5dodome0: component count");
        let _ = s;
        Ts5dodome0 {
            f0: FromValue::from_value(s[0].as_ref().expect("component f0 of Ts5dodome0 must be present")),
            f1: s[1].as_ref().map(FromValue::from_value),
            f2: FromValue::from_value(s[2].as_ref().expect("component f2 of Ts5dodome0 must be present")),
            f3: s[3].as_ref().map(FromValue::from_value),
            f4: s[4].as_ref().map(FromValue::from_value),
        }
    }
}
impl ToValue for Ts5dodome0 {
    fn to_value(&self) -> Value {
        Value::Seq(vec![
            Some(self.f0.to_value()),
            self.f1.as_ref().map(|x| x.to_value()),
            Some(self.f2.to_value()),
            self.f3.as_ref().map(|x| x.to_value()),
            self.f4.as_ref().map(|x| x.to_value()),
        ])
    }
}
impl FromValue for Ts5dodome1 {
    fn from_value(v: &Value) -> Self {
        let s = match v { Value::Seq(s) => s, other => panic!("Ts5dodome1: expected Seq, got {other:?}") };
        assert_eq!(s.len(), 5, "Ts5dodome1: component count");
        let _ = s;
        Ts5dodome1 {
            f0: FromValue::from_value(s[0].as_ref().expect("component f0 of Ts5dodome1 must be present")),
            f1: s[1].as_ref().map(FromValue::from_value),
            f2: FromValue::from_value(s[2].as_ref().expect("component f2 of Ts5dodome1 must be present")),
            f3: s[3].as_ref().map(FromValue::from_value),
            f4: s[4].as_ref().map(FromValue::from_value),
        }
    }
}
impl ToValue for Ts5dodome1 {
    fn to_value(&self) -> Value {
        Value::Seq(vec![
            Some(self.f0.to_value()),
            self.f1.as_ref().map(|x| x.to_value()),
            Some(self.f2.to_value()),
            self.f3.as_ref().map(|x| x.to_value()),
            self.f4.as_ref().map(|x| x.to_value()),
        ])
    }
}
impl FromValue for Ts5dodome2 {
    fn from_value(v: &Value) -> Self {
        let s = match v { Value::Seq(s) => s, other => panic!("Ts5dodome2: expected Seq, got {other:?}") };
        assert_eq!(s.len(), 5, "Ts5dodome2: component count");
        let _ = s;
        Ts5dodome2 {
            f0: FromValue::from_value(s[0].as_ref().expect("component f0 of Ts5dodome2 must be present")),
            f1: s[1].as_ref().map(FromValue::from_value),
            f2: FromValue::from_value(s[2].as_ref().expect("component f2 of Ts5dodome2 must be present")),
            f3: s[3].as_ref().map(FromValue::from_value),
            f4: s[4].as_ref().map(FromValue::from_value),
        }
    }
}
impl ToValue for Ts5dodome2 {
    fn to_value(&self) -> Value {
        Value::Seq(vec![
            Some(self.f0.to_value()),
            self.f1.as_ref().map(|x| x.to_value()),
            Some(self.f2.to_value()),
            self.f3.as_ref().map(|x| x.to_value()),
            self.f4.as_ref().map(|x| x.to_value()),
        ])
    }
}
impl FromValue for Ts5dodome3 {
    fn from_value(v: &Value) -> Self {
        let s = match v { Value::Seq(s) => s, other => panic!("Ts5dodome3: expected Seq, got {other:?}") };
        assert_eq!(s.len(), 5, "Ts5dodome3: component count");
        let _ = s;
        Ts5dodome3 {
            f0: FromValue::from_value(s[0].as_ref().expect("component f0 of Ts5dodome3 must be present")),
            f1: s[1].as_ref().map(FromValue::from_value),
            f2: FromValue::from_value(s[2].as_ref().expect("component f2 of Ts5dodome3 must be present")),
            f3: s[3].as_ref().map(FromValue::from_value),
            f4: s[4].as_ref().map(FromValue::from_value),
        }
    }
}
impl ToValue for Ts5dodome3 {
    fn to_value(&self) -> Value {
        Value::Seq(vec![
            Some(self.f0.to_value()),
            self.f1.as_ref().map(|x| x.to_value()),
            Some(self.f2.to_value()),
            self.f3.as_ref().map(|x| x.to_value()),
            self.f4.as_ref().map(|x| x.to_value()),
        ])
    }
}
impl FromValue for Ts5dodome4 {
    fn from_value(v: &Value) -> Self {
        let s = match v { Value::Seq(s) => s, other => panic!("Ts5dodome4: expected Seq, got {other:?}") };
        assert_eq!(s.len(), 5, "Ts5dodome4: component count");
        let _ = s;
        Ts5dodome4 {
            f0: FromValue::from_value(s[0].as_ref().expect("component f0 of Ts5dodome4 must be present")),
            f1: s[1].as_ref().map(FromValue::from_value),
            f2: FromValue::from_value(s[2].as_ref().expect("component f2 of Ts5dodome4 must be present")),
            f3: s[3].as_ref().map(FromValue::from_value),
            f4: s[4].as_ref().map(FromValue::from_value),
        }
    }
}
impl ToValue for Ts5dodome4 {
    fn to_value(&self) -> Value {
        Value::Seq(vec![
            Some(self.f0.to_value()),
            self.f1.as_ref().map(|x| x.to_value()),
            Some(self.f2.to_value()),
            self.f3.as_ref().map(|x| x.to_value()),
            self.f4.as_ref().map(|x| x.to_value()),
        ])
    }
}
impl FromValue for Ts5dodome5 {
    fn from_value(v: &Value) -> Self {
        let s = match v { Value::Seq(s) => s, other => panic!("Ts5dodome5: expected Seq, got {other:?}") };
        assert_eq!(s.len(), 5, "Ts5dodome5: component count");
        let _ = s;
        Ts5dodome5 {
            f0: FromValue::from_value(s[0].as_ref().expect("component f0 of Ts5dodome5 must be present")),
            f1: s[1].as_ref().map(FromValue::from_value),
            f2: FromValue::from_value(s[2].as_ref().expect("component f2 of Ts5dodome5 must be present")),
            f3: s[3].as_ref().map(FromValue::from_value),
            f4: FromValue::from_value(s[4].as_ref().expect("component f4 of Ts5dodome5 must be present")),
        }
    }
}
impl ToValue for Ts5dodome5 {
    fn to_value(&self) -> Value {
        Value::Seq(vec![
            Some(self.f0.to_value()),
            self.f1.as_ref().map(|x| x.to_value()),
            Some(self.f2.to_value()),
            self.f3.as_ref().map(|x| x.to_value()),
            Some(self.f4.to_value()),
        ])
    }
}
impl FromValue for Ts5mddomn {
    fn from_value(v: &Value) -> Self {
        let s = match v { Value::Seq(s) => s, other => panic!("Ts5mddomn: expected Seq, got {other:?}") };
        assert_eq!(s.len(), 5, "Ts5mddomn: component count");
        let _ = s;
        Ts5mddomn {
            f0: FromValue::from_value(s[0].as_ref().expect("component f0 of Ts5mddomn must be present")),
            f1: FromValue::from_value(s[1].as_ref().expect("component f1 of Ts5mddomn must be present")),
            f2: FromValue::from_value(s[2].as_ref().expect("component f2 of Ts5mddomn must be present")),
            f3: s[3].as_ref().map(FromValue::from_value),
            f4: FromValue::from_value(s[4].as_ref().expect("component f4 of Ts5mddomn must be present")),
        }
    }
}
impl ToValue for Ts5mddomn {
    fn to_value(&self) -> Value {
        Value::Seq(vec![
            Some(self.f0.to_value()),
            Some(self.f1.to_value()),
            Some(self.f2.to_value()),
            self.f3.as_ref().map(|x| x.to_value()),
            Some(self.f4.to_value()),
        ])
    }
}
impl FromValue for Ts5mddome0 {
    fn from_value(v: &Value) -> Self {
        let s = match v { Value::Seq(s) => s, other => panic!("Ts5mddome0: expected Seq, got {other:?}") };
        assert_eq!(s.len(), 5, "Ts5mddome0: component count");
        let _ = s;
        Ts5mddome0 {
            f0: FromValue::from_value(s[0].as_ref().expect("component f0 of Ts5mddome0 must be present")),
            f1: FromValue::from_value(s[1].as_ref().expect("component f1 of Ts5mddome0 must be present")),
            f2: FromValue::from_value(s[2].as_ref().expect("component f2 of Ts5mddome0 must be present")),
            f3: s[3].as_ref().map(FromValue::from_value),
            f4: s[4].as_ref().map(FromValue::from_value),
        }
    }
}
impl ToValue for Ts5mddome0 {
    fn to_value(&self) -> Value {
        Value::Seq(vec![
            Some(self.f0.to_value()),
            Some(self.f1.to_value()),
            Some(self.f2.to_value()),
            self.f3.as_ref().map(|x| x.to_value()),
            self.f4.as_ref().map(|x| x.to_value()),
        ])
    }
}
impl FromValue for Ts5mddome1 {
    fn from_value(v: &Value) -> Self {
        let s = match v { Value::Seq(s) => s, other => panic!("Ts5mddome1: expected Seq, got {other:?}") };
        assert_eq!(s.len(), 5, "Ts5mddome1: component count");
        let _ = s;
        Ts5mddome1 {
            f0: FromValue::from_value(s[0].as_ref().expect("component f0 of Ts5mddome1 must be present")),
            f1: FromValue::from_value(s[1].as_ref().expect("component f1 of Ts5mddome1 must be present")),
            f2: FromValue::from_value(s[2].as_ref().expect("component f2 of Ts5mddome1 must be present")),
            f3: s[3].as_ref().map(FromValue::from_value),
            f4: s[4].as_ref().map(FromValue::from_value),
        }
    }
}
impl ToValue for Ts5mddome1 {
    fn to_value(&self) -> Value {
        Value::Seq(vec![
            Some(self.f0.to_value()),
            Some(self.f1.to_value()),
            Some(self.f2.to_value()),
            self.f3.as_ref().map(|x| x.to_value()),
            self.f4.as_ref().map(|x| x.to_value()),
        ])
    }
}

use asn1rs::prelude::*;

#[asn(set, extensible_after(f2))]

#[derive(Default, Debug, Clone, PartialEq, Hash)]
pub struct Tt3dooe3 {
    #[asn(default(integer(0..7), 5))] pub f0: u8,
    #[asn(optional(integer(0..7)))] pub f1: Option<u8>,
    #[asn(optional(integer(0..7)))] pub f2: Option<u8>,
}

impl Tt3dooe3 {
    pub const fn f0_min() -> u8 {
        0
    }

    pub const fn f0_max() -> u8 {
        7
    }

    pub const fn f1_min() -> u8 {
        0
    }

    pub const fn f1_max() -> u8 {
        7
    }

    pub const fn f2_min() -> u8 {
        0
    }

    pub const fn f2_max() -> u8 {
        7
    }
}

#[asn(set)]

#[derive(Default, Debug, Clone, PartialEq, Hash)]
pub struct Tt3mdon {
    #[asn(integer(0..7))] pub f0: u8,
    #[asn(default(integer(0..7), 5))] pub f1: u8,
    #[asn(optional(integer(0..7)))] pub f2: Option<u8>,
}

impl Tt3mdon {
    pub const fn f0_min() -> u8 {
        0
    }

    pub const fn f0_max() -> u8 {
        7
    }

    pub const fn f1_min() -> u8 {
        0
    }

    pub const fn f1_max() -> u8 {
        7
    }

    pub const fn f2_min() -> u8 {
        0
    }

    pub const fn f2_max() -> u8 {
        7
    }
}

#[asn(set, extensible_after(f0))]

#[derive(Default, Debug, Clone, PartialEq, Hash)]
pub struct Tt3mdoe0 {
    #[asn(integer(0..7))] pub f0: u8,
    #[asn(default(integer(0..7), 5))] pub f1: u8,
    #[asn(optional(integer(0..7)))] pub f2: Option<u8>,
}

impl Tt3mdoe0 {
    pub const fn f0_min() -> u8 {
        0
    }

    pub const fn f0_max() -> u8 {
        7
    }

    pub const fn f1_min() -> u8 {
        0
    }

    pub const fn f1_max() -> u8 {
        7
    }

    pub const fn f2_min() -> u8 {
        0
    }

    pub const fn f2_max() -> u8 {
        7
    }
}

#[asn(set, extensible_after(f0))]

#[derive(Default, Debug, Clone, PartialEq, Hash)]
pub struct Tt3mdoe1 {
    #[asn(integer(0..7))] pub f0: u8,
    #[asn(default(integer(0..7), 5))] pub f1: u8,
    #[asn(optional(integer(0..7)))] pub f2: Option<u8>,
}

impl Tt3mdoe1 {
    pub const fn f0_min() -> u8 {
        0
    }

    pub const fn f0_max() -> u8 {
        7
    }

    pub const fn f1_min() -> u8 {
        0
    }

    pub const fn f1_max() -> u8 {
        7
    }

    pub const fn f2_min() -> u8 {
        0
    }

    pub const fn f2_max() -> u8 {
        7
    }
}

#[asn(set, extensible_after(f1))]

#[derive(Default, Debug, Clone, PartialEq, Hash)]
pub struct Tt3mdoe2 {
    #[asn(integer(0..7))] pub f0: u8,
    #[asn(default(integer(0..7), 5))] pub f1: u8,
    #[asn(optional(integer(0..7)))] pub f2: Option<u8>,
}

impl Tt3mdoe2 {
    pub const fn f0_min() -> u8 {
        0
    }

    pub const fn f0_max() -> u8 {
        7
    }

    pub const fn f1_min() -> u8 {
        0
    }

    pub const fn f1_max() -> u8 {
        7
    }

    pub const fn f2_min() -> u8 {
        0
    }

    pub const fn f2_max() -> u8 {
        7
    }
}

#[asn(set, extensible_after(f2))]

#[derive(Default, Debug, Clone, PartialEq, Hash)]
pub struct Tt3mdoe3 {
    #[asn(integer(0..7))] pub f0: u8,
    #[asn(default(integer(0..7), 5))] pub f1: u8,
    #[asn(optional(integer(0..7)))] pub f2: Option<u8>,
}

impl Tt3mdoe3 {
    pub const fn f0_min() -> u8 {
        0
    }

    pub const fn f0_max() -> u8 {
        7
    }

    pub const fn f1_min() -> u8 {
        0
    }

    pub const fn f1_max() -> u8 {
        7
    }

    pub const fn f2_min() -> u8 {
        0
    }

    pub const fn f2_max() -> u8 {
        7
    }
}

#[asn(set)]

#[derive(Default, Debug, Clone, PartialEq, Hash)]
pub struct Tt3odon {
    #[asn(optional(integer(0..7)))] pub f0: Option<u8>,
    #[asn(default(integer(0..7), 5))] pub f1: u8,
    #[asn(optional(integer(0..7)))] pub f2: Option<u8>,
}

impl Tt3odon {
    pub const fn f0_min() -> u8 {
        0
    }

    pub const fn f0_max() -> u8 {
        7
    }

    pub const fn f1_min() -> u8 {
        0
    }

    pub const fn f1_max() -> u8 {
        7
    }

    pub const fn f2_min() -> u8 {
        0
    }

    pub const fn f2_max() -> u8 {
        7
    }
}

#[asn(set, extensible_after(f0))]

#[derive(Default, Debug, Clone, PartialEq, Hash)]
pub struct Tt3odoe0 {
    #[asn(optional(integer(0..7)))] pub f0: Option<u8>,
    #[asn(default(integer(0..7), 5))] pub f1: u8,
    #[asn(optional(integer(0..7)))] pub f2: Option<u8>,
}

impl Tt3odoe0 {
    pub const fn f0_min() -> u8 {
        0
    }

    pub const fn f0_max() -> u8 {
        7
    }

    pub const fn f1_min() -> u8 {
        0
    }

    pub const fn f1_max() -> u8 {
        7
    }

    pub const fn f2_min() -> u8 {
        0
    }

    pub const fn f2_max() -> u8 {
        7
    }
}

#[asn(set, extensible_after(f0))]

#[derive(Default, Debug, Clone, PartialEq, Hash)]
pub struct Tt3odoe1 {
    #[asn(optional(integer(0..7)))] pub f0: Option<u8>,
    #[asn(default(integer(0..7), 5))] pub f1: u8,
    #[asn(optional(integer(0..7)))] pub f2: Option<u8>,
}

impl Tt3odoe1 {
    pub const fn f0_min() -> u8 {
        0
    }

    pub const fn f0_max() -> u8 {
        7
    }

    pub const fn f1_min() -> u8 {
        0
    }

    pub const fn f1_max() -> u8 {
        7
    }

    pub const fn f2_min() -> u8 {
        0
    }

    pub const fn f2_max() -> u8 {
        7
    }
}

#[asn(set, extensible_after(f1))]

#[derive(Default, Debug, Clone, PartialEq, Hash)]
pub struct Tt3odoe2 {
    #[asn(optional(integer(0..7)))] pub f0: Option<u8>,
    #[asn(default(integer(0..7), 5))] pub f1: u8,
    #[asn(optional(integer(0..7)))] pub f2: Option<u8>,
}

impl Tt3odoe2 {
    pub const fn f0_min() -> u8 {
        0
    }

    pub const fn f0_max() -> u8 {
        7
    }

    pub const fn f1_min() -> u8 {
        0
    }

    pub const fn f1_max() -> u8 {
        7
    }

    pub const fn f2_min() -> u8 {
        0
    }

    pub const fn f2_max() -> u8 {
        7
    }
}

#[asn(set, extensible_after(f2))]

#[derive(Default, Debug, Clone, PartialEq, Hash)]
pub struct Tt3odoe3 {
    #[asn(optional(integer(0..7)))] pub f0: Option<u8>,
    #[asn(default(integer(0..7), 5))] pub f1: u8,
    #[asn(optional(integer(0..7)))] pub f2: Option<u8>,
}

impl Tt3odoe3 {
    pub const fn f0_min() -> u8 {
        0
    }

    pub const fn f0_max() -> u8 {
        7
    }

    pub const fn f1_min() -> u8 {
        0
    }

    pub const fn f1_max() -> u8 {
        7
    }

    pub const fn f2_min() -> u8 {
        0
    }

    pub const fn f2_max() -> u8 {
        7
    }
}

#[asn(set)]

#[derive(Default, Debug, Clone, PartialEq, Hash)]
pub struct Tt3ddon {
    #[asn(default(integer(0..7), 5))] pub f0: u8,
    #[asn(default(integer(0..7), 5))] pub f1: u8,
    #[asn(optional(integer(0..7)))] pub f2: Option<u8>,
}

impl Tt3ddon {
    pub const fn f0_min() -> u8 {
        0
    }

    pub const fn f0_max() -> u8 {
        7
    }

    pub const fn f1_min() -> u8 {
        0
    }

    pub const fn f1_max() -> u8 {
        7
    }

    pub const fn f2_min() -> u8 {
        0
    }

    pub const fn f2_max() -> u8 {
        7
    }
}

#[asn(set, extensible_after(f0))]

#[derive(Default, Debug, Clone, PartialEq, Hash)]
pub struct Tt3ddoe0 {
    #[asn(default(integer(0..7), 5))] pub f0: u8,
    #[asn(default(integer(0..7), 5))] pub f1: u8,
    #[asn(optional(integer(0..7)))] pub f2: Option<u8>,
}

impl Tt3ddoe0 {
    pub const fn f0_min() -> u8 {
        0
    }

    pub const fn f0_max() -> u8 {
        7
    }

    pub const fn f1_min() -> u8 {
        0
    }

    pub const fn f1_max() -> u8 {
        7
    }

    pub const fn f2_min() -> u8 {
        0
    }

    pub const fn f2_max() -> u8 {
        7
    }
}

#[asn(set, extensible_after(f0))]

#[derive(Default, Debug, Clone, PartialEq, Hash)]
pub struct Tt3ddoe1 {
    #[asn(default(integer(0..7), 5))] pub f0: u8,
    #[asn(default(integer(0..7), 5))] pub f1: u8,
    #[asn(optional(integer(0..7)))] pub f2: Option<u8>,
}

impl Tt3ddoe1 {
    pub const fn f0_min() -> u8 {
        0
    }

    pub const fn f0_max() -> u8 {
        7
    }

    pub const fn f1_min() -> u8 {
        0
    }

    pub const fn f1_max() -> u8 {
        7
    }

    pub const fn f2_min() -> u8 {
        0
    }

    pub const fn f2_max() -> u8 {
        7
    }
}

#[asn(set, extensible_after(f1))]

#[derive(Default, Debug, Clone, PartialEq, Hash)]
pub struct Tt3ddoe2 {
    #[asn(default(integer(0..7), 5))] pub f0: u8,
    #[asn(default(integer(0..7), 5))] pub f1: u8,
    #[asn(optional(integer(0..7)))] pub f2: Option<u8>,
}

impl Tt3ddoe2 {
    pub const fn f0_min() -> u8 {
        0
    }

    pub const fn f0_max() -> u8 {
        7
    }

    pub const fn f1_min() -> u8 {
        0
    }

    pub const fn f1_max() -> u8 {
        7
    }

    pub const fn f2_min() -> u8 {
        0
    }

    pub const fn f2_max() -> u8 {
        7
    }
}

#[asn(set, extensible_after(f2))]

#[derive(Default, Debug, Clone, PartialEq, Hash)]
pub struct Tt3ddoe3 {
    #[asn(default(integer(0..7), 5))] pub f0: u8,
    #[asn(default(integer(0..7), 5))] pub f1: u8,
    #[asn(optional(integer(0..7)))] pub f2: Option<u8>,
}

impl Tt3ddoe3 {
    pub const fn f0_min() -> u8 {
        0
    }

    pub const fn f0_max() -> u8 {
        7
    }

    pub const fn f1_min() -> u8 {
        0
    }

    pub const fn f1_max() -> u8 {
        7
    }

    pub const fn f2_min() -> u8 {
        0
    }

    pub const fn f2_max() -> u8 {
        7
    }
}

#[asn(set)]

#[derive(Default, Debug, Clone, PartialEq, Hash)]
pub struct Tt3mmdn {
    #[asn(integer(0..7))] pub f0: u8,
    #[asn(integer(0..7))] pub f1: u8,
    #[asn(default(integer(0..7), 5))] pub f2: u8,
}

impl Tt3mmdn {
    pub const fn f0_min() -> u8 {
        0
    }

    pub const fn f0_max() -> u8 {
        7
    }

    pub const fn f1_min() -> u8 {
        0
    }

    pub const fn f1_max() -> u8 {
        7
    }

    pub const fn f2_min() -> u8 {
        0
    }

    pub const fn f2_max() -> u8 {
        7
    }
}

#[asn(set, extensible_after(f0))]

#[derive(Default, Debug, Clone, PartialEq, Hash)]
pub struct Tt3mmde0 {
    #[asn(integer(0..7))] pub f0: u8,
    #[asn(optional(integer(0..7)))] pub f1: Option<u8>,
    #[asn(default(integer(0..7), 5))] pub f2: u8,
}

impl Tt3mmde0 {
    pub const fn f0_min() -> u8 {
        0
    }

    pub const fn f0_max() -> u8 {
        7
    }

    pub const fn f1_min() -> u8 {
        0
    }

    pub const fn f1_max() -> u8 {
        7
    }

    pub const fn f2_min() -> u8 {
        0
    }

    pub const fn f2_max() -> u8 {
        7
    }
}

#[asn(set, extensible_after(f0))]

#[derive(Default, Debug, Clone, PartialEq, Hash)]
pub struct Tt3mmde1 {
    #[asn(integer(0..7))] pub f0: u8,
    #[asn(optional(integer(0..7)))] pub f1: Option<u8>,
    #[asn(default(integer(0..7), 5))] pub f2: u8,
}

impl Tt3mmde1 {
    pub const fn f0_min() -> u8 {
        0
    }

    pub const fn f0_max() -> u8 {
        7
    }

    pub const fn f1_min() -> u8 {
        0
    }

    pub const fn f1_max() -> u8 {
        7
    }

    pub const fn f2_min() -> u8 {
        0
    }

    pub const fn f2_max() -> u8 {
        7
    }
}

#[asn(set, extensible_after(f1))]

#[derive(Default, Debug, Clone, PartialEq, Hash)]
pub struct Tt3mmde2 {
    #[asn(integer(0..7))] pub f0: u8,
    #[asn(integer(0..7))] pub f1: u8,
    #[asn(default(integer(0..7), 5))] pub f2: u8,
}

impl Tt3mmde2 {
    pub const fn f0_min() -> u8 {
        0
    }

    pub const fn f0_max() -> u8 {
        7
    }

    pub const fn f1_min() -> u8 {
        0
    }

    pub const fn f1_max() -> u8 {
        7
    }

    pub const fn f2_min() -> u8 {
        0
    }

    pub const fn f2_max() -> u8 {
        7
    }
}

#[asn(set, extensible_after(f2))]

#[derive(Default, Debug, Clone, PartialEq, Hash)]
pub struct Tt3mmde3 {
    #[asn(integer(0..7))] pub f0: u8,
    #[asn(integer(0..7))] pub f1: u8,
    #[asn(default(integer(0..7), 5))] pub f2: u8,
}

impl Tt3mmde3 {
    pub const fn f0_min() -> u8 {
        0
    }

    pub const fn f0_max() -> u8 {
        7
    }

    pub const fn f1_min() -> u8 {
        0
    }

    pub const fn f1_max() -> u8 {
        7
    }

    pub const fn f2_min() -> u8 {
        0
    }

    pub const fn f2_max() -> u8 {
        7
    }
}

#[asn(set)]

#[derive(Default, Debug, Clone, PartialEq, Hash)]
pub struct Tt3omdn {
    #[asn(optional(integer(0..7)))] pub f0: Option<u8>,
    #[asn(integer(0..7))] pub f1: u8,
    #[asn(default(integer(0..7), 5))] pub f2: u8,
}

impl Tt3omdn {
    pub const fn f0_min() -> u8 {
        0
    }

    pub const fn f0_max() -> u8 {
        7
    }

    pub const fn f1_min() -> u8 {
        0
    }

    pub const fn f1_max() -> u8 {
        7
    }

    pub const fn f2_min() -> u8 {
        0
    }

    pub const fn f2_max() -> u8 {
        7
    }
}

#[asn(set, extensible_after(f0))]

#[derive(Default, Debug, Clone, PartialEq, Hash)]
pub struct Tt3omde0 {
    #[asn(optional(integer(0..7)))] pub f0: Option<u8>,
    #[asn(optional(integer(0..7)))] pub f1: Option<u8>,
    #[asn(default(integer(0..7), 5))] pub f2: u8,
}

impl Tt3omde0 {
    pub const fn f0_min() -> u8 {
        0
    }

    pub const fn f0_max() -> u8 {
        7
    }

    pub const fn f1_min() -> u8 {
        0
    }

    pub const fn f1_max() -> u8 {
        7
    }

    pub const fn f2_min() -> u8 {
        0
    }

    pub const fn f2_max() -> u8 {
        7
    }
}

#[asn(set, extensible_after(f0))]

#[derive(Default, Debug, Clone, PartialEq, Hash)]
pub struct Tt3omde1 {
    #[asn(optional(integer(0..7)))] pub f0: Option<u8>,
    #[asn(optional(integer(0..7)))] pub f1: Option<u8>,
    #[asn(default(integer(0..7), 5))] pub f2: u8,
}

impl Tt3omde1 {
    pub const fn f0_min() -> u8 {
        0
    }

    pub const fn f0_max() -> u8 {
        7
    }

    pub const fn f1_min() -> u8 {
        0
    }

    pub const fn f1_max() -> u8 {
        7
    }

    pub const fn f2_min() -> u8 {
        0
    }

    pub const fn f2_max() -> u8 {
        7
    }
}

#[asn(set, extensible_after(f1))]

#[derive(Default, Debug, Clone, PartialEq, Hash)]
pub struct Tt3omde2 {
    #[asn(optional(integer(0..7)))] pub f0: Option<u8>,
    #[asn(integer(0..7))] pub f1: u8,
    #[asn(default(integer(0..7), 5))] pub f2: u8,
}

impl Tt3omde2 {
    pub const fn f0_min() -> u8 {
        0
    }

    pub const fn f0_max() -> u8 {
        7
    }

    pub const fn f1_min() -> u8 {
        0
    }

    pub const fn f1_max() -> u8 {
        7
    }

    pub const fn f2_min() -> u8 {
        0
    }

    pub const fn f2_max() -> u8 {
        7
    }
}

#[asn(set, extensible_after(f2))]

#[derive(Default, Debug, Clone, PartialEq, Hash)]
pub struct Tt3omde3 {
    #[asn(optional(integer(0..7)))] pub f0: Option<u8>,
    #[asn(integer(0..7))] pub f1: u8,
    #[asn(default(integer(0..7), 5))] pub f2: u8,
}

impl Tt3omde3 {
    pub const fn f0_min() -> u8 {
        0
    }

    pub const fn f0_max() -> u8 {
        7
    }

    pub const fn f1_min() -> u8 {
        0
    }

    pub const fn f1_max() -> u8 {
        7
    }

    pub const fn f2_min() -> u8 {
        0
    }

    pub const fn f2_max() -> u8 {
        7
    }
}

#[asn(set)]

#[derive(Default, Debug, Clone, PartialEq, Hash)]
pub struct Tt3dmdn {
    #[asn(default(integer(0..7), 5))] pub f0: u8,
    #[asn(integer(0..7))] pub f1: u8,
    #[asn(default(integer(0..7), 5))] pub f2: u8,
}

impl Tt3dmdn {
    pub const fn f0_min() -> u8 {
        0
    }

    pub const fn f0_max() -> u8 {
        7
    }

    pub const fn f1_min() -> u8 {
        0
    }

    pub const fn f1_max() -> u8 {
        7
    }

    pub const fn f2_min() -> u8 {
        0
    }

    pub const fn f2_max() -> u8 {
        7
    }
}

#[asn(set, extensible_after(f0))]

#[derive(Default, Debug, Clone, PartialEq, Hash)]
pub struct Tt3dmde0 {
    #[asn(default(integer(0..7), 5))] pub f0: u8,
    #[asn(optional(integer(0..7)))] pub f1: Option<u8>,
    #[asn(default(integer(0..7), 5))] pub f2: u8,
}

impl Tt3dmde0 {
    pub const fn f0_min() -> u8 {
        0
    }

    pub const fn f0_max() -> u8 {
        7
    }

    pub const fn f1_min() -> u8 {
        0
    }

    pub const fn f1_max() -> u8 {
        7
    }

    pub const fn f2_min() -> u8 {
        0
    }

    pub const fn f2_max() -> u8 {
        7
    }
}

#[asn(set, extensible_after(f0))]

#[derive(Default, Debug, Clone, PartialEq, Hash)]
pub struct Tt3dmde1 {
    #[asn(default(integer(0..7), 5))] pub f0: u8,
    #[asn(optional(integer(0..7)))] pub f1: Option<u8>,
    #[asn(default(integer(0..7), 5))] pub f2: u8,
}

impl Tt3dmde1 {
    pub const fn f0_min() -> u8 {
        0
    }

    pub const fn f0_max() -> u8 {
        7
    }

    pub const fn f1_min() -> u8 {
        0
    }

    pub const fn f1_max() -> u8 {
        7
    }

    pub const fn f2_min() -> u8 {
        0
    }

    pub const fn f2_max() -> u8 {
        7
    }
}

#[asn(set, extensible_after(f1))]

#[derive(Default, Debug, Clone, PartialEq, Hash)]
pub struct Tt3dmde2 {
    #[asn(default(integer(0..7), 5))] pub f0: u8,
    #[asn(integer(0..7))] pub f1: u8,
    #[asn(default(integer(0..7), 5))] pub f2: u8,
}

impl Tt3dmde2 {
    pub const fn f0_min() -> u8 {
        0
    }

    pub const fn f0_max() -> u8 {
        7
    }

    pub const fn f1_min() -> u8 {
        0
    }

    pub const fn f1_max() -> u8 {
        7
    }

    pub const fn f2_min() -> u8 {
        0
    }

    pub const fn f2_max() -> u8 {
        7
    }
}

#[asn(set, extensible_after(f2))]

#[derive(Default, Debug, Clone, PartialEq, Hash)]
pub struct Tt3dmde3 {
    #[asn(default(integer(0..7), 5))] pub f0: u8,
    #[asn(integer(0..7))] pub f1: u8,
    #[asn(default(integer(0..7), 5))] pub f2: u8,
}

impl Tt3dmde3 {
    pub const fn f0_min() -> u8 {
        0
    }

    pub const fn f0_max() -> u8 {
        7
    }

    pub const fn f1_min() -> u8 {
        0
    }

    pub const fn f1_max() -> u8 {
        7
    }

    pub const fn f2_min() -> u8 {
        0
    }

    pub const fn f2_max() -> u8 {
        7
    }
}

#[asn(set)]

#[derive(Default, Debug, Clone, PartialEq, Hash)]
pub struct Tt3modn {
    #[asn(integer(0..7))] pub f0: u8,
    #[asn(optional(integer(0..7)))] pub f1: Option<u8>,
    #[asn(default(integer(0..7), 5))] pub f2: u8,
}

impl Tt3modn {
    pub const fn f0_min() -> u8 {
        0
    }

    pub const fn f0_max() -> u8 {
        7
    }

    pub const fn f1_min() -> u8 {
        0
    }

    pub const fn f1_max() -> u8 {
        7
    }

    pub const fn f2_min() -> u8 {
        0
    }

    pub const fn f2_max() -> u8 {
        7
    }
}

#[asn(set, extensible_after(f0))]

#[derive(Default, Debug, Clone, PartialEq, Hash)]
pub struct Tt3mode0 {
    #[asn(integer(0..7))] pub f0: u8,
    #[asn(optional(integer(0..7)))] pub f1: Option<u8>,
    #[asn(default(integer(0..7), 5))] pub f2: u8,
}

impl Tt3mode0 {
    pub const fn f0_min() -> u8 {
        0
    }

    pub const fn f0_max() -> u8 {
        7
    }

    pub const fn f1_min() -> u8 {
        0
    }

    pub const fn f1_max() -> u8 {
        7
    }

    pub const fn f2_min() -> u8 {
        0
    }

    pub const fn f2_max() -> u8 {
        7
    }
}

#[asn(set, extensible_after(f0))]

#[derive(Default, Debug, Clone, PartialEq, Hash)]
pub struct Tt3mode1 {
    #[asn(integer(0..7))] pub f0: u8,
    #[asn(optional(integer(0..7)))] pub f1: Option<u8>,
    #[asn(default(integer(0..7), 5))] pub f2: u8,
}

impl Tt3mode1 {
    pub const fn f0_min() -> u8 {
        0
    }

    pub const fn f0_max() -> u8 {
        7
    }

    pub const fn f1_min() -> u8 {
        0
    }

    pub const fn f1_max() -> u8 {
        7
    }

    pub const fn f2_min() -> u8 {
        0
    }

    pub const fn f2_max() -> u8 {
        7
    }
}

#[asn(set, extensible_after(f1))]

#[derive(Default, Debug, Clone, PartialEq, Hash)]
pub struct Tt3mode2 {
    #[asn(integer(0..7))] pub f0: u8,
    #[asn(optional(integer(0..7)))] pub f1: Option<u8>,
    #[asn(default(integer(0..7), 5))] pub f2: u8,
}

impl Tt3mode2 {
    pub const fn f0_min() -> u8 {
        0
    }

    pub const fn f0_max() -> u8 {
        7
    }

    pub const fn f1_min() -> u8 {
        0
    }

    pub const fn f1_max() -> u8 {
        7
    }

    pub const fn f2_min() -> u8 {
        0
    }

    pub const fn f2_max() -> u8 {
        7
    }
}

#[asn(set, extensible_after(f2))]

#[derive(Default, Debug, Clone, PartialEq, Hash)]
pub struct Tt3mode3 {
    #[asn(integer(0..7))] pub f0: u8,
    #[asn(optional(integer(0..7)))] pub f1: Option<u8>,
    #[asn(default(integer(0..7), 5))] pub f2: u8,
}

impl Tt3mode3 {
    pub const fn f0_min() -> u8 {
        0
    }

    pub const fn f0_max() -> u8 {
        7
    }

    pub const fn f1_min() -> u8 {
        0
    }

    pub const fn f1_max() -> u8 {
        7
    }

    pub const fn f2_min() -> u8 {
        0
    }

    pub const fn f2_max() -> u8 {
        7
    }
}

#[asn(set)]

#[derive(Default, Debug, Clone, PartialEq, Hash)]
pub struct Tt3oodn {
    #[asn(optional(integer(0..7)))] pub f0: Option<u8>,
    #[asn(optional(integer(0..7)))] pub f1: Option<u8>,
    #[asn(default(integer(0..7), 5))] pub f2: u8,
}

impl Tt3oodn {
    pub const fn f0_min() -> u8 {
        0
    }

    pub const fn f0_max() -> u8 {
        7
    }

    pub const fn f1_min() -> u8 {
        0
    }

    pub const fn f1_max() -> u8 {
        7
    }

    pub const fn f2_min() -> u8 {
        0
    }

    pub const fn f2_max() -> u8 {
        7
    }
}

#[asn(set, extensible_after(f0))]

#[derive(Default, Debug, Clone, PartialEq, Hash)]
pub struct Tt3oode0 {
    #[asn(optional(integer(0..7)))] pub f0: Option<u8>,
    #[asn(optional(integer(0..7)))] pub f1: Option<u8>,
    #[asn(default(integer(0..7), 5))] pub f2: u8,
}

impl Tt3oode0 {
    pub const fn f0_min() -> u8 {
        0
    }

    pub const fn f0_max() -> u8 {
        7
    }

    pub const fn f1_min() -> u8 {
        0
    }

    pub const fn f1_max() -> u8 {
        7
    }

    pub const fn f2_min() -> u8 {
        0
    }

    pub const fn f2_max() -> u8 {
        7
    }
}

#[asn(set, extensible_after(f0))]

#[derive(Default, Debug, Clone, PartialEq, Hash)]
pub struct Tt3oode1 {
    #[asn(optional(integer(0..7)))] pub f0: Option<u8>,
    #[asn(optional(integer(0..7)))] pub f1: Option<u8>,
    #[asn(default(integer(0..7), 5))] pub f2: u8,
}

impl Tt3oode1 {
    pub const fn f0_min() -> u8 {
        0
    }

    pub const fn f0_max() -> u8 {
        7
    }

    pub const fn f1_min() -> u8 {
        0
    }

    pub const fn f1_max() -> u8 {
        7
    }

    pub const fn f2_min() -> u8 {
        0
    }

    pub const fn f2_max() -> u8 {
        7
    }
}

#[asn(set, extensible_after(f1))]

#[derive(Default, Debug, Clone, PartialEq, Hash)]
pub struct Tt3oode2 {
    #[asn(optional(integer(0..7)))] pub f0: Option<u8>,
    #[asn(optional(integer(0..7)))] pub f1: Option<u8>,
    #[asn(default(integer(0..7), 5))] pub f2: u8,
}

impl Tt3oode2 {
    pub const fn f0_min() -> u8 {
        0
    }

    pub const fn f0_max() -> u8 {
        7
    }

    pub const fn f1_min() -> u8 {
        0
    }

    pub const fn f1_max() -> u8 {
        7
    }

    pub const fn f2_min() -> u8 {
        0
    }

    pub const fn f2_max() -> u8 {
        7
    }
}

#[asn(set, extensible_after(f2))]

#[derive(Default, Debug, Clone, PartialEq, Hash)]
pub struct Tt3oode3 {
    #[asn(optional(integer(0..7)))] pub f0: Option<u8>,
    #[asn(optional(integer(0..7)))] pub f1: Option<u8>,
    #[asn(default(integer(0..7), 5))] pub f2: u8,
}

impl Tt3oode3 {
    pub const fn f0_min() -> u8 {
        0
    }

    pub const fn f0_max() -> u8 {
        7
    }

    pub const fn f1_min() -> u8 {
        0
    }

    pub const fn f1_max() -> u8 {
        7
    }

    pub const fn f2_min() -> u8 {
        0
    }

    pub const fn f2_max() -> u8 {
        7
    }
}

#[asn(set)]

#[derive(Default, Debug, Clone, PartialEq, Hash)]
pub struct Tt3dodn {
    #[asn(default(integer(0..7), 5))] pub f0: u8,
    #[asn(optional(integer(0..7)))] pub f1: Option<u8>,
    #[asn(default(integer(0..7), 5))] pub f2: u8,
}

impl Tt3dodn {
    pub const fn f0_min() -> u8 {
        0
    }

    pub const fn f0_max() -> u8 {
        7
    }

    pub const fn f1_min() -> u8 {
        0
    }

    pub const fn f1_max() -> u8 {
        7
    }

    pub const fn f2_min() -> u8 {
        0
    }

    pub const fn f2_max() -> u8 {
        7
    }
}

#[asn(set, extensible_after(f0))]

#[derive(Default, Debug, Clone, PartialEq, Hash)]
pub struct Tt3dode0 {
    #[asn(default(integer(0..7), 5))] pub f0: u8,
    #[asn(optional(integer(0..7)))] pub f1: Option<u8>,
    #[asn(default(integer(0..7), 5))] pub f2: u8,
}

impl Tt3dode0 {
    pub const fn f0_min() -> u8 {
        0
    }

    pub const fn f0_max() -> u8 {
        7
    }

    pub const fn f1_min() -> u8 {
        0
    }

    pub const fn f1_max() -> u8 {
        7
    }

    pub const fn f2_min() -> u8 {
        0
    }

    pub const fn f2_max() -> u8 {
        7
    }
}

#[asn(set, extensible_after(f0))]

#[derive(Default, Debug, Clone, PartialEq, Hash)]
pub struct Tt3dode1 {
    #[asn(default(integer(0..7), 5))] pub f0: u8,
    #[asn(optional(integer(0..7)))] pub f1: Option<u8>,
    #[asn(default(integer(0..7), 5))] pub f2: u8,
}

impl Tt3dode1 {
    pub const fn f0_min() -> u8 {
        0
    }

    pub const fn f0_max() -> u8 {
        7
    }

    pub const fn f1_min() -> u8 {
        0
    }

    pub const fn f1_max() -> u8 {
        7
    }

    pub const fn f2_min() -> u8 {
        0
    }

    pub const fn f2_max() -> u8 {
        7
    }
}

#[asn(set, extensible_after(f1))]

#[derive(Default, Debug, Clone, PartialEq, Hash)]
pub struct Tt3dode2 {
    #[asn(default(integer(0..7), 5))] pub f0: u8,
    #[asn(optional(integer(0..7)))] pub f1: Option<u8>,
    #[asn(default(integer(0..7), 5))] pub f2: u8,
}

impl Tt3dode2 {
    pub const fn f0_min() -> u8 {
        0
    }

    pub const fn f0_max() -> u8 {
        7
    }

    pub const fn f1_min() -> u8 {
        0
    }

    pub const fn f1_max() -> u8 {
        7
    }

    pub const fn f2_min() -> u8 {
        0
    }

    pub const fn f2_max() -> u8 {
        7
    }
}

#[asn(set, extensible_after(f2))]

#[derive(Default, Debug, Clone, PartialEq, Hash)]
pub struct Tt3dode3 {
    #[asn(default(integer(0..7), 5))] pub f0: u8,
    #[asn(optional(integer(0..7)))] pub f1: Option<u8>,
    #[asn(default(integer(0..7), 5))] pub f2: u8,
}

impl Tt3dode3 {
    pub const fn f0_min() -> u8 {
        0
    }

    pub const fn f0_max() -> u8 {
        7
    }

    pub const fn f1_min() -> u8 {
        0
    }

    pub const fn f1_max() -> u8 {
        7
    }

    pub const fn f2_min() -> u8 {
        0
    }

    pub const fn f2_max() -> u8 {
        7
    }
}

#[asn(set)]

#[derive(Default, Debug, Clone, PartialEq, Hash)]
pub struct Tt3mddn {
    #[asn(integer(0..7))] pub f0: u8,
    #[asn(default(integer(0..7), 5))] pub f1: u8,
    #[asn(default(integer(0..7), 5))] pub f2: u8,
}

impl Tt3mddn {
    pub const fn f0_min() -> u8 {
        0
    }

    pub const fn f0_max() -> u8 {
        7
    }

    pub const fn f1_min() -> u8 {
        0
    }

    pub const fn f1_max() -> u8 {
        7
    }

    pub const fn f2_min() -> u8 {
        0
    }

    pub const fn f2_max() -> u8 {
        7
    }
}

#[asn(set, extensible_after(f0))]

#[derive(Default, Debug, Clone, PartialEq, Hash)]
pub struct Tt3mdde0 {
    #[asn(integer(0..7))] pub f0: u8,
    #[asn(default(integer(0..7), 5))] pub f1: u8,
    #[asn(default(integer(0..7), 5))] pub f2: u8,
}

impl Tt3mdde0 {
    pub const fn f0_min() -> u8 {
        0
    }

    pub const fn f0_max() -> u8 {
        7
    }

    pub const fn f1_min() -> u8 {
        0
    }

    pub const fn f1_max() -> u8 {
        7
    }

    pub const fn f2_min() -> u8 {
        0
    }

    pub const fn f2_max() -> u8 {
        7
    }
}

#[asn(set, extensible_after(f0))]

#[derive(Default, Debug, Clone, PartialEq, Hash)]
pub struct Tt3mdde1 {
    #[asn(integer(0..7))] pub f0: u8,
    #[asn(default(integer(0..7), 5))] pub f1: u8,
    #[asn(default(integer(0..7), 5))] pub f2: u8,
}

impl Tt3mdde1 {
    pub const fn f0_min() -> u8 {
        0
    }

    pub const fn f0_max() -> u8 {
        7
    }

    pub const fn f1_min() -> u8 {
        0
    }

    pub const fn f1_max() -> u8 {
        7
    }

    pub const fn f2_min() -> u8 {
        0
    }

    pub const fn f2_max() -> u8 {
        7
    }
}

#[asn(set, extensible_after(f1))]

#[derive(Default, Debug, Clone, PartialEq, Hash)]
pub struct Tt3mdde2 {
    #[asn(integer(0..7))] pub f0: u8,
    #[asn(default(integer(0..7), 5))] pub f1: u8,
    #[asn(default(integer(0..7), 5))] pub f2: u8,
}

impl Tt3mdde2 {
    pub const fn f0_min() -> u8 {
        0
    }

    pub const fn f0_max() -> u8 {
        7
    }

    pub const fn f1_min() -> u8 {
        0
    }

    pub const fn f1_max() -> u8 {
        7
    }

    pub const fn f2_min() -> u8 {
        0
    }

    pub const fn f2_max() -> u8 {
        7
    }
}

#[asn(set, extensible_after(f2))]

#[derive(Default, Debug, Clone, PartialEq, Hash)]
pub struct Tt3mdde3 {
    #[asn(integer(0..7))] pub f0: u8,
    #[asn(default(integer(0..7), 5))] pub f1: u8,
    #[asn(default(integer(0..7), 5))] pub f2: u8,
}

impl Tt3mdde3 {
    pub const fn f0_min() -> u8 {
        0
    }

    pub const fn f0_max() -> u8 {
        7
    }

    pub const fn f1_min() -> u8 {
        0
    }

    pub const fn f1_max() -> u8 {
        7
    }

    pub const fn f2_min() -> u8 {
        0
    }

    pub const fn f2_max() -> u8 {
        7
    }
}

#[asn(set)]

#[derive(Default, Debug, Clone, PartialEq, Hash)]
pub struct Tt3oddn {
    #[asn(optional(integer(0..7)))] pub f0: Option<u8>,
    #[asn(default(integer(0..7), 5))] pub f1: u8,
    #[asn(default(integer(0..7), 5))] pub f2: u8,
}

impl Tt3oddn {
    pub const fn f0_min() -> u8 {
        0
    }

    pub const fn f0_max() -> u8 {
        7
    }

    pub const fn f1_min() -> u8 {
        0
    }

    pub const fn f1_max() -> u8 {
        7
    }

    pub const fn f2_min() -> u8 {
        0
    }

    pub const fn f2_max() -> u8 {
        7
    }
}

#[asn(set, extensible_after(f0))]

#[derive(Default, Debug, Clone, PartialEq, Hash)]
pub struct Tt3odde0 {
    #[asn(optional(integer(0..7)))] pub f0: Option<u8>,
    #[asn(default(integer(0..7), 5))] pub f1: u8,
    #[asn(default(integer(0..7), 5))] pub f2: u8,
}

impl Tt3odde0 {
    pub const fn f0_min() -> u8 {
        0
    }

    pub const fn f0_max() -> u8 {
        7
    }

    pub const fn f1_min() -> u8 {
        0
    }

    pub const fn f1_max() -> u8 {
        7
    }

    pub const fn f2_min() -> u8 {
        0
    }

    pub const fn f2_max() -> u8 {
        7
    }
}

#[asn(set, extensible_after(f0))]

#[derive(Default, Debug, Clone, PartialEq, Hash)]
pub struct Tt3odde1 {
    #[asn(optional(integer(0..7)))] pub f0: Option<u8>,
    #[asn(default(integer(0..7), 5))] pub f1: u8,
    #[asn(default(integer(0..7), 5))] pub f2: u8,
}

impl Tt3odde1 {
    pub const fn f0_min() -> u8 {
        0
    }

    pub const fn f0_max() -> u8 {
        7
    }

    pub const fn f1_min() -> u8 {
        0
    }

    pub const fn f1_max() -> u8 {
        7
    }

    pub const fn f2_min() -> u8 {
        0
    }

    pub const fn f2_max() -> u8 {
        7
    }
}

#[asn(set, extensible_after(f1))]

#[derive(Default, Debug, Clone, PartialEq, Hash)]
pub struct Tt3odde2 {
    #[asn(optional(integer(0..7)))] pub f0: Option<u8>,
    #[asn(default(integer(0..7), 5))] pub f1: u8,
    #[asn(default(integer(0..7), 5))] pub f2: u8,
}

impl Tt3odde2 {
    pub const fn f0_min() -> u8 {
        0
    }

    pub const fn f0_max() -> u8 {
        7
    }

    pub const fn f1_min() -> u8 {
        0
    }

    pub const fn f1_max() -> u8 {
        7
    }

    pub const fn f2_min() -> u8 {
        0
    }

    pub const fn f2_max() -> u8 {
        7
    }
}

#[asn(set, extensible_after(f2))]

#[derive(Default, Debug, Clone, PartialEq, Hash)]
pub struct Tt3odde3 {
    #[asn(optional(integer(0..7)))] pub f0: Option<u8>,
    #[asn(default(integer(0..7), 5))] pub f1: u8,
    #[asn(default(integer(0..7), 5))] pub f2: u8,
}

impl Tt3odde3 {
    pub const fn f0_min() -> u8 {
        0
    }

    pub const fn f0_max() -> u8 {
        7
    }

    pub const fn f1_min() -> u8 {
        0
    }

    pub const fn f1_max() -> u8 {
        7
    }

    pub const fn f2_min() -> u8 {
        0
    }

    pub const fn f2_max() -> u8 {
        7
    }
}

#[asn(set)]

#[derive(Default, Debug, Clone, PartialEq, Hash)]
pub struct Tt3dddn {
    #[asn(default(integer(0..7), 5))] pub f0: u8,
    #[asn(default(integer(0..7), 5))] pub f1: u8,
    #[asn(default(integer(0..7), 5))] pub f2: u8,
}

impl Tt3dddn {
    pub const fn f0_min() -> u8 {
        0
    }

    pub const fn f0_max() -> u8 {
        7
    }

    pub const fn f1_min() -> u8 {
        0
    }

    pub const fn f1_max() -> u8 {
        7
    }

    pub const fn f2_min() -> u8 {
        0
    }

    pub const fn f2_max() -> u8 {
        7
    }
}

#[asn(set, extensible_after(f0))]

#[derive(Default, Debug, Clone, PartialEq, Hash)]
pub struct Tt3ddde0 {
    #[asn(default(integer(0..7), 5))] pub f0: u8,
    #[asn(default(integer(0..7), 5))] pub f1: u8,
    #[asn(default(integer(0..7), 5))] pub f2: u8,
}

impl Tt3ddde0 {
    pub const fn f0_min() -> u8 {
        0
    }

    pub const fn f0_max() -> u8 {
        7
    }

    pub const fn f1_min() -> u8 {
        0
    }

    pub const fn f1_max() -> u8 {
        7
    }

    pub const fn f2_min() -> u8 {
        0
    }

    pub const fn f2_max() -> u8 {
        7
    }
}

#[asn(set, extensible_after(f0))]

#[derive(Default, Debug, Clone, PartialEq, Hash)]
pub struct Tt3ddde1 {
    #[asn(default(integer(0..7), 5))] pub f0: u8,
    #[asn(default(integer(0..7), 5))] pub f1: u8,
    #[asn(default(integer(0..7), 5))] pub f2: u8,
}

impl Tt3ddde1 {
    pub const fn f0_min() -> u8 {
        0
    }

    pub const fn f0_max() -> u8 {
        7
    }

    pub const fn f1_min() -> u8 {
        0
    }

    pub const fn f1_max() -> u8 {
        7
    }

    pub const fn f2_min() -> u8 {
        0
    }

    pub const fn f2_max() -> u8 {
        7
    }
}

#[asn(set, extensible_after(f1))]

#[derive(Default, Debug, Clone, PartialEq, Hash)]
pub struct Tt3ddde2 {
    #[asn(default(integer(0..7), 5))] pub f0: u8,
    #[asn(default(integer(0..7), 5))] pub f1: u8,
    #[asn(default(integer(0..7), 5))] pub f2: u8,
}

impl Tt3ddde2 {
    pub const fn f0_min() -> u8 {
        0
    }

    pub const fn f0_max() -> u8 {
        7
    }

    pub const fn f1_min() -> u8 {
        0
    }

    pub const fn f1_max() -> u8 {
        7
    }

    pub const fn f2_min() -> u8 {
        0
    }

    pub const fn f2_max() -> u8 {
        7
    }
}

#[asn(set, extensible_after(f2))]

#[derive(Default, Debug, Clone, PartialEq, Hash)]
pub struct Tt3ddde3 {
    #[asn(default(integer(0..7), 5))] pub f0: u8,
    #[asn(default(integer(0..7), 5))] pub f1: u8,
    #[asn(default(integer(0..7), 5))] pub f2: u8,
}

impl Tt3ddde3 {
    pub const fn f0_min() -> u8 {
        0
    }

    pub const fn f0_max() -> u8 {
        7
    }

    pub const fn f1_min() -> u8 {
        0
    }

    pub const fn f1_max() -> u8 {
        7
    }

    pub const fn f2_min() -> u8 {
        0
    }

    pub const fn f2_max() -> u8 {
        7
    }
}
// ---- harness conversions (generated by the zoo build script from the items above) ----
impl FromValue for Tt3dooe3 {
    fn from_value(v: &Value) -> Self {
        let s = match v { Value::Seq(s) => s, other => panic!("Tt3dooe3: expected Seq, got {other:?}") };
        assert_eq!(s.len(), 3, "Tt3dooe3: component count");
        let _ = s;
        Tt3dooe3 {
            f0: FromValue::from_value(s[0].as_ref().expect("component f0 of Tt3dooe3 must be present")),
            f1: s[1].as_ref().map(FromValue::from_value),
            f2: s[2].as_ref().map(FromValue::from_value),
        }
    }
}
impl ToValue for Tt3dooe3 {
    fn to_value(&self) -> Value {
        Value::Seq(vec![
            Some(self.f0.to_value()),
            self.f1.as_ref().map(|x| x.to_value()),
            self.f2.as_ref().map(|x| x.to_value()),
        ])
    }
}
impl FromValue for Tt3mdon {
    fn from_value(v: &Value) -> Self {
        let s = match v { Value::Seq(s) => s, other => panic!("Tt3mdon: expected Seq, got {other:?}") };
        assert_eq!(s.len(), 3, "Tt3mdon: component count");
        let _ = s;
        Tt3mdon {
            f0: FromValue::from_value(s[0].as_ref().expect("component f0 of Tt3mdon must be present")),
            f1: FromValue::from_value(s[1].as_ref().expect("component f1 of Tt3mdon must be present")),
            f2: s[2].as_ref().map(FromValue::from_value),
        }
    }
}
impl ToValue for Tt3mdon {
    fn to_value(&self) -> Value {
        Value::Seq(vec![
            Some(self.f0.to_value()),
            Some(self.f1.to_value()),
            self.f2.as_ref().map(|x| x.to_value()),
        ])
    }
}
impl FromValue for Tt3mdoe0 {
    fn from_value(v: &Value) -> Self {
        let s = match v { Value::Seq(s) => s, other => panic!("Tt3mdoe0: expected Seq, got {other:?}") };
        assert_eq!(s.len(), 3, "Tt3mdoe0: component count");
        let _ = s;
        Tt3mdoe0 {
            f0: FromValue::from_value(s[0].as_ref().expect("component f0 of Tt3mdoe0 must be present")),
            f1: FromValue::from_value(s[1].as_ref().expect("component f1 of Tt3mdoe0 must be present")),
            f2: s[2].as_ref().map(FromValue::from_value),
        }
    }
}
impl ToValue for Tt3mdoe0 {
    fn to_value(&self) -> Value {
        Value::Seq(vec![
            Some(self.f0.to_value()),
            Some(self.f1.to_value()),
            self.f2.as_ref().map(|x| x.to_value()),
        ])
    }
}
impl FromValue for Tt3mdoe1 {
    fn from_value(v: &Value) -> Self {
        let s = match v { Value::Seq(s) => s, other => panic!("Tt3mdoe1: expected Seq, got {other:?}") };
        assert_eq!(s.len(), 3, "Tt3mdoe1: component count");
        let _ = s;
        Tt3mdoe1 {
            f0: FromValue::from_value(s[0].as_ref().expect("component f0 of Tt3mdoe1 must be present")),
            f1: FromValue::from_value(s[1].as_ref().expect("component f1 of Tt3mdoe1 must be present")),
            f2: s[2].as_ref().map(FromValue::from_value),
        }
    }
}
impl ToValue for Tt3mdoe1 {
    fn to_value(&self) -> Value {
        Value::Seq(vec![
            Some(self.f0.to_value()),
            Some(self.f1.to_value()),
            self.f2.as_ref().map(|x| x.to_value()),
        ])
    }
}
impl FromValue for Tt3mdoe2 {
    fn from_value(v: &Value) -> Self {
        let s = match v { Value::Seq(s) => s, other => panic!("Tt3mdoe2: expected Seq, got {other:?}") };
        assert_eq!(s.len(), 3, "Tt3mdoe2: component count");
        let _ = s;
        Tt3mdoe2 {
            f0: FromValue::from_value(s[0].as_ref().expect("component f0 of Tt3mdoe2 must be present")),
            f1: FromValue::from_value(s[1].as_ref().expect("component f1 of Tt3mdoe2 must be present")),
            f2: s[2].as_ref().map(FromValue::from_value),
        }
    }
}
impl ToValue for Tt3mdoe2 {
    fn to_value(&self) -> Value {
        Value::Seq(vec![
            Some(self.f0.to_value()),
            Some(self.f1.to_value()),
            self.f2.as_ref().map(|x| x.to_value()),
        ])
    }
}
impl FromValue for Tt3mdoe3 {
    fn from_value(v: &Value) -> Self {
        let s = match v { Value::Seq(s) => s, other => panic!("Tt3mdoe3: expected Seq, got {other:?}") };
        assert_eq!(s.len(), 3, "Tt3mdoe3: component count");
        let _ = s;
        Tt3mdoe3 {
            f0: FromValue::from_value(s[0].as_ref().expect("component f0 of Tt3mdoe3 must be present")),
            f1: FromValue::from_value(s[1].as_ref().expect("component f1 of Tt3mdoe3 must be present")),
            f2: s[2].as_ref().map(FromValue::from_value),
        }
    }
}
impl ToValue for Tt3mdoe3 {
    fn to_value(&self) -> Value {
        Value::Seq(vec![
            Some(self.f0.to_value()),
            Some(self.f1.to_value()),
            self.f2.as_ref().map(|x| x.to_value()),
        ])
    }
}
impl FromValue for Tt3odon {
    fn from_value(v: &Value) -> Self {
        let s = match v { Value::Seq(s) => s, other => panic!("Tt3odon: expected Seq, got {other:?}") };
        assert_eq!(s.len(), 3, "Tt3odon: component count");
        let _ = s;
        Tt3odon {
            f0: s[0].as_ref().map(FromValue::from_value),
            f1: FromValue::from_value(s[1].as_ref().expect("component f1 of Tt3odon must be present")),
            f2: s[2].as_ref().map(FromValue::from_value),
        }
    }
}
impl ToValue for Tt3odon {
    fn to_value(&self) -> Value {
        Value::Seq(vec![
            self.f0.as_ref().map(|x| x.to_value()),
            Some(self.f1.to_value()),
            self.f2.as_ref().map(|x| x.to_value()),
        ])
    }
}
impl FromValue for Tt3odoe0 {
    fn from_value(v: &Value) -> Self {
        let s = match v { Value::Seq(s) => s, other => panic!("Tt3odoe0: expected Seq, got {other:?}") };
        assert_eq!(s.len(), 3, "Tt3odoe0: component count");
        let _ = s;
        Tt3odoe0 {
            f0: s[0].as_ref().map(FromValue::from_value),
            f1: FromValue::from_value(s[1].as_ref().expect("component f1 of Tt3odoe0 must be present")),
            f2: s[2].as_ref().map(FromValue::from_value),
        }
    }
}
impl ToValue for Tt3odoe0 {
    fn to_value(&self) -> Value {
        Value::Seq(vec![
            self.f0.as_ref().map(|x| x.to_value()),
            Some(self.f1.to_value()),
            self.f2.as_ref().map(|x| x.to_value()),
        ])
    }
}
impl FromValue for Tt3odoe1 {
    fn from_value(v: &Value) -> Self {
        let s = match v { Value::Seq(s) => s, other => panic!("Tt3odoe1: expected Seq, got {other:?}") };
        assert_eq!(s.len(), 3, "Tt3odoe1: component count");
        let _ = s;
        Tt3odoe1 {
            f0: s[0].as_ref().map(FromValue::from_value),
            f1: FromValue::from_value(s[1].as_ref().expect("component f1 of Tt3odoe1 must be present")),
            f2: s[2].as_ref().map(FromValue::from_value),
        }
    }
}
impl ToValue for Tt3odoe1 {
    fn to_value(&self) -> Value {
        Value::Seq(vec![
            self.f0.as_ref().map(|x| x.to_value()),
            Some(self.f1.to_value()),
            self.f2.as_ref().map(|x| x.to_value()),
        ])
    }
}
impl FromValue for Tt3odoe2 {
    fn from_value(v: &Value) -> Self {
        let s = match v { Value::Seq(s) => s, other => panic!("Tt3odoe2: expected Seq, got {other:?}") };
        assert_eq!(s.len(), 3, "Tt3odoe2: component count");
        let _ = s;
        Tt3odoe2 {
            f0: s[0].as_ref().map(FromValue::from_value),
            f1: FromValue::from_value(s[1].as_ref().expect("component f1 of Tt3odoe2 must be present")),
            f2: s[2].as_ref().map(FromValue::from_value),
        }
    }
}
impl ToValue for Tt3odoe2 {
    fn to_value(&self) -> Value {
        Value::Seq(vec![
            self.f0.as_ref().map(|x| x.to_value()),
            Some(self.f1.to_value()),
            self.f2.as_ref().map(|x| x.to_value()),
        ])
    }
}
impl FromValue for Tt3odoe3 {
    fn from_value(v: &Value) -> Self {
        let s = match v { Value::Seq(s) => s, other => panic!("Tt3odoe3: expected Seq, got {other:?}") };
        assert_eq!(s.len(), 3, "Tt3odoe3: component count");
        let _ = s;
        Tt3odoe3 {
            f0: s[0].as_ref().map(FromValue::from_value),
            f1: FromValue::from_value(s[1].as_ref().expect("component f1 of Tt3odoe3 must be present")),
            f2: s[2].as_ref().map(FromValue::from_value),
        }
    }
}
impl ToValue for Tt3odoe3 {
    fn to_value(&self) -> Value {
        Value::Seq(vec![
            self.f0.as_ref().map(|x| x.to_value()),
            Some(self.f1.to_value()),
            self.f2.as_ref().map(|x| x.to_value()),
        ])
    }
}
impl FromValue for Tt3ddon {
    fn from_value(v: &Value) -> Self {
        let s = match v { Value::Seq(s) => s, other => panic!("Tt3ddon: expected Seq, got {other:?}") };
        assert_eq!(s.len(), 3, "Tt3ddon: component count");
        let _ = s;
        Tt3ddon {
            f0: FromValue::from_value(s[0].as_ref().expect("component f0 of Tt3ddon must be present")),
            f1: FromValue::from_value(s[1].as_ref().expect("component f1 of Tt3ddon must be present")),
            f2: s[2].as_ref().map(FromValue::from_value),
        }
    }
}
impl ToValue for Tt3ddon {
    fn to_value(&self) -> Value {
        Value::Seq(vec![
            Some(self.f0.to_value()),
            Some(self.f1.to_value()),
            self.f2.as_ref().map(|x| x.to_value()),
        ])
    }
}
impl FromValue for Tt3ddoe0 {
    fn from_value(v: &Value) -> Self {
        let s = match v { Value::Seq(s) => s, other => panic!("Tt3ddoe0: expected Seq, got {other:?}") };
        assert_eq!(s.len(), 3, "Tt3ddoe0: component count");
        let _ = s;
        Tt3ddoe0 {
            f0: FromValue::from_value(s[0].as_ref().expect("component f0 of Tt3ddoe0 must be present")),
            f1: FromValue::from_value(s[1].as_ref().expect("component f1 of Tt3ddoe0 must be present")),
            f2: s[2].as_ref().map(FromValue::from_value),
        }
    }
}
impl ToValue for Tt3ddoe0 {
    fn to_value(&self) -> Value {
        Value::Seq(vec![
            Some(self.f0.to_value()),
            Some(self.f1.to_value()),
            self.f2.as_ref().map(|x| x.to_value()),
        ])
    }
}
impl FromValue for Tt3ddoe1 {
    fn from_value(v: &Value) -> Self {
        let s = match v { Value::Seq(s) => s, other => panic!("Tt3ddoe1: expected Seq, got {other:?}") };
        assert_eq!(s.len(), 3, "Tt3ddoe1: component count");
        let _ = s;
        Tt3ddoe1 {
            f0: FromValue::from_value(s[0].as_ref().expect("component f0 of Tt3ddoe1 must be present")),
            f1: FromValue::from_value(s[1].as_ref().expect("component f1 of Tt3ddoe1 must be present")),
            f2: s[2].as_ref().map(FromValue::from_value),
        }
    }
}
impl ToValue for Tt3ddoe1 {
    fn to_value(&self) -> Value {
        Value::Seq(vec![
            Some(self.f0.to_value()),
            Some(self.f1.to_value()),
            self.f2.as_ref().map(|x| x.to_value()),
        ])
    }
}
impl FromValue for Tt3ddoe2 {
    fn from_value(v: &Value) -> Self {
        let s = match v { Value::Seq(s) => s, other => panic!("Tt3ddoe2: expected Seq, got {other:?}") };
        assert_eq!(s.len(), 3, "Tt3ddoe2: component count");
        let _ = s;
        Tt3ddoe2 {
            f0: FromValue::from_value(s[0].as_ref().expect("component f0 of Tt3ddoe2 must be present")),
            f1: FromValue::from_value(s[1].as_ref().expect("component f1 of Tt3ddoe2 must be present")),
            f2: s[2].as_ref().map(FromValue::from_value),
        }
    }
}
impl ToValue for Tt3ddoe2 {
    fn to_value(&self) -> Value {
        Value::Seq(vec![
            Some(self.f0.to_value()),
            Some(self.f1.to_value()),
            self.f2.as_ref().map(|x| x.to_value()),
        ])
    }
}
impl FromValue for Tt3ddoe3 {
    fn from_value(v: &Value) -> Self {
        let s = match v { Value::Seq(s) => s, other => panic!("Tt3ddoe3: expected Seq, got {other:?}") };
        assert_eq!(s.len(), 3, "Tt3ddoe3: component count");
        let _ = s;
        Tt3ddoe3 {
            f0: FromValue::from_value(s[0].as_ref().expect("component f0 of Tt3ddoe3 must be present")),
            f1: FromValue::from_value(s[1].as_ref().expect("component f1 of Tt3ddoe3 must be present")),
            f2: s[2].as_ref().map(FromValue::from_value),
        }
    }
}
impl ToValue for Tt3ddoe3 {
    fn to_value(&self) -> Value {
        Value::Seq(vec![
            Some(self.f0.to_value()),
            Some(self.f1.to_value()),
            self.f2.as_ref().map(|x| x.to_value()),
        ])
    }
}
impl FromValue for Tt3mmdn {
    fn from_value(v: &Value) -> Self {
        let s = match v { Value::Seq(s) => s, other => panic!("Tt3mmdn: expected Seq, got {other:?}") };
        assert_eq!(s.len(), 3, "Tt3mmdn: component count");
        let _ = s;
        Tt3mmdn {
            f0: FromValue::from_value(s[0].as_ref().expect("component f0 of Tt3mmdn must be present")),
            f1: FromValue::from_value(s[1].as_ref().expect("component f1 of Tt3mmdn must be present")),
            f2: FromValue::from_value(s[2].as_ref().expect("component f2 of Tt3mmdn must be present")),
        }
    }
}
impl ToValue for Tt3mmdn {
    fn to_value(&self) -> Value {
        Value::Seq(vec![
            Some(self.f0.to_value()),
            Some(self.f1.to_value()),
            Some(self.f2.to_value()),
        ])
    }
}
impl FromValue for Tt3mmde0 {
    fn from_value(v: &Value) -> Self {
        let s = match v { Value::Seq(s) => s, other => panic!("Tt3mmde0: expected Seq, got {other:?}") };
        assert_eq!(s.len(), 3, "Tt3mmde0: component count");
        let _ = s;
        Tt3mmde0 {
            f0: FromValue::from_value(s[0].as_ref().expect("component f0 of Tt3mmde0 must be present")),
            f1: s[1].as_ref().map(FromValue::from_value),
            f2: FromValue::from_value(s[2].as_ref().expect("component f2 of Tt3mmde0 must be present")),
        }
    }
}
impl ToValue for Tt3mmde0 {
    fn to_value(&self) -> Value {
        Value::Seq(vec![
            Some(self.f0.to_value()),
            self.f1.as_ref().map(|x| x.to_value()),
            Some(self.f2.to_value()),
        ])
    }
}
impl FromValue for Tt3mmde1 {
    fn from_value(v: &Value) -> Self {
        let s = match v { Value::Seq(s) => s, other => panic!("Tt3mmde1: expected Seq, got {other:?}") };
        assert_eq!(s.len(), 3, "Tt3mmde1: component count");
        let _ = s;
        Tt3mmde1 {
            f0: FromValue::from_value(s[0].as_ref().expect("component f0 of Tt3mmde1 must be present")),
            f1: s[1].as_ref().map(FromValue::from_value),
            f2: FromValue::from_value(s[2].as_ref().expect("component f2 of Tt3mmde1 must be present")),
        }
    }
}
impl ToValue for Tt3mmde1 {
    fn to_value(&self) -> Value {
        Value::Seq(vec![
            Some(self.f0.to_value()),
            self.f1.as_ref().map(|x| x.to_value()),
            Some(self.f2.to_value()),
        ])
    }
}
impl FromValue for Tt3mmde2 {
    fn from_value(v: &Value) -> Self {
        let s = match v { Value::Seq(s) => s, other => panic!("Tt3mmde2: expected Seq, got {other:?}") };
        assert_eq!(s.len(), 3, "Tt3mmde2: component count");
        let _ = s;
        Tt3mmde2 {
            f0: FromValue::from_value(s[0].as_ref().expect("component f0 of Tt3mmde2 must be present")),
            f1: FromValue::from_value(s[1].as_ref().expect("component f1 of Tt3mmde2 must be present")),
            f2: FromValue::from_value(s[2].as_ref().expect("component f2 of Tt3mmde2 must be present")),
        }
    }
}
impl ToValue for Tt3mmde2 {
    fn to_value(&self) -> Value {
        Value::Seq(vec![
            Some(self.f0.to_value()),
            Some(self.f1.to_value()),
            Some(self.f2.to_value()),
        ])
    }
}
impl FromValue for Tt3mmde3 {
    fn from_value(v: &Value) -> Self {
        let s = match v { Value::Seq(s) => s, other => panic!("Tt3mmde3: expected Seq, got {other:?}") };
        assert_eq!(s.len(), 3, "Tt3mmde3: component count");
        let _ = s;
        Tt3mmde3 {
            f0: FromValue::from_value(s[0].as_ref().expect("component f0 of Tt3mmde3 must be present")),
            f1: FromValue::from_value(s[1].as_ref().expect("component f1 of Tt3mmde3 must be present")),
            f2: FromValue::from_value(s[2].as_ref().expect("component f2 of Tt3mmde3 must be present")),
        }
    }
}
impl ToValue for Tt3mmde3 {
    fn to_value(&self) -> Value {
        Value::Seq(vec![
            Some(self.f0.to_value()),
            Some(self.f1.to_value()),
            Some(self.f2.to_value()),
        ])
    }
}
impl FromValue for Tt3omdn {
    fn from_value(v: &Value) -> Self {
        let s = match v { Value::Seq(s) => s, other => panic!("Tt3omdn: expected Seq, got {other:?}") };
        assert_eq!(s.len(), 3, "Tt3omdn: component count");
        let _ = s;
        Tt3omdn {
            f0: s[0].as_ref().map(FromValue::from_value),
            f1: FromValue::from_value(s[1].as_ref().expect("component f1 of Tt3omdn must be present")),
            f2: FromValue::from_value(s[2].as_ref().expect("component f2 of Tt3omdn must be present")),
        }
    }
}
impl ToValue for Tt3omdn {
    fn to_value(&self) -> Value {
        Value::Seq(vec![
            self.f0.as_ref().map(|x| x.to_value()),
            Some(self.f1.to_value()),
            Some(self.f2.to_value()),
        ])
    }
}
impl FromValue for Tt3omde0 {
    fn from_value(v: &Value) -> Self {
        let s = match v { Value::Seq(s) => s, other => panic!("Tt3omde0: expected Seq, got {other:?}") };
        assert_eq!(s.len(), 3, "Tt3omde0: component count");
        let _ = s;
        Tt3omde0 {
            f0: s[0].as_ref().map(FromValue::from_value),
            f1: s[1].as_ref().map(FromValue::from_value),
            f2: FromValue::from_value(s[2].as_ref().expect("component f2 of Tt3omde0 must be present")),
        }
    }
}
impl ToValue for Tt3omde0 {
    fn to_value(&self) -> Value {
        Value::Seq(vec![
            self.f0.as_ref().map(|x| x.to_value()),
            self.f1.as_ref().map(|x| x.to_value()),
            Some(self.f2.to_value()),
        ])
    }
}
impl FromValue for Tt3omde1 {
    fn from_value(v: &Value) -> Self {
        let s = match v { Value::Seq(s) => s, other => panic!("Tt3omde1: expected Seq, got {other:?}") };
        assert_eq!(s.len(), 3, "Tt3omde1: component count");
        let _ = s;
        Tt3omde1 {
            f0: s[0].as_ref().map(FromValue::from_value),
            f1: s[1].as_ref().map(FromValue::from_value),
            f2: FromValue::from_value(s[2].as_ref().expect("component f2 of Tt3omde1 must be present")),
        }
    }
}
impl ToValue for Tt3omde1 {
    fn to_value(&self) -> Value {
        Value::Seq(vec![
            self.f0.as_ref().map(|x| x.to_value()),
            self.f1.as_ref().map(|x| x.to_value()),
            Some(self.f2.to_value()),
        ])
    }
}
impl FromValue for Tt3omde2 {
    fn from_value(v: &Value) -> Self {
        let s = match v { Value::Seq(s) => s, other => panic!("Tt3omde2: expected Seq, got {other:?}") };
        assert_eq!(s.len(), 3, "Tt3omde2: component count");
        let _ = s;
        Tt3omde2 {
            f0: s[0].as_ref().map(FromValue::from_value),
            f1: FromValue::from_value(s[1].as_ref().expect("component f1 of Tt3omde2 must be present")),
            f2: FromValue::from_value(s[2].as_ref().expect("component f2 of Tt3omde2 must be present")),
        }
    }
}
impl ToValue for Tt3omde2 {
    fn to_value(&self) -> Value {
        Value::Seq(vec![
            self.f0.as_ref().map(|x| x.to_value()),
            Some(self.f1.to_value()),
            Some(self.f2.to_value()),
        ])
    }
}
impl FromValue for Tt3omde3 {
    fn from_value(v: &Value) -> Self {
        let s = match v { Value::Seq(s) => s, other => panic!("Tt3omde3: expected Seq, got {other:?}") };
        assert_eq!(s.len(), 3, "Tt3omde3: component count");
        let _ = s;
        Tt3omde3 {
            f0: s[0].as_ref().map(FromValue::from_value),
            f1: FromValue::from_value(s[1].as_ref().expect("component f1 of Tt3omde3 must be present")),
            f2: FromValue::from_value(s[2].as_ref().expect("component f2 of Tt3omde3 must be present")),
        }
    }
}
impl ToValue for Tt3omde3 {
    fn to_value(&self) -> Value {
        Value::Seq(vec![
            self.f0.as_ref().map(|x| x.to_value()),
            Some(self.f1.to_value()),
            Some(self.f2.to_value()),
        ])
    }
}
impl FromValue for Tt3dmdn {
    fn from_value(v: &Value) -> Self {
        let s = match v { Value::Seq(s) => s, other => panic!("Tt3dmdn: expected Seq, got {other:?}") };
        assert_eq!(s.len(), 3, "Tt3dmdn: component count");
        let _ = s;
        Tt3dmdn {
            f0: FromValue::from_value(s[0].as_ref().expect("component f0 of Tt3dmdn must be present")),
            f1: FromValue::from_value(s[1].as_ref().expect("component f1 of Tt3dmdn must be present")),
            f2: FromValue::from_value(s[2].as_ref().expect("component f2 of Tt3dmdn must be present")),
        }
    }
}
impl ToValue for Tt3dmdn {
    fn to_value(&self) -> Value {
        Value::Seq(vec![
            Some(self.f0.to_value()),
            Some(self.f1.to_value()),
            Some(self.f2.to_value()),
        ])
    }
}
impl FromValue for Tt3dmde0 {
    fn from_value(v: &Value) -> Self {
        let s = match v { Value::Seq(s) => s, other => panic!("Tt3dmde0: expected Seq, got {other:?}") };
        assert_eq!(s.len(), 3, "Tt3dmde0: component count");
        let _ = s;
        Tt3dmde0 {
            f0: FromValue::from_value(s[0].as_ref().expect("component f0 of Tt3dmde0 must be present")),
            f1: s[1].as_ref().map(FromValue::from_value),
            f2: FromValue::from_value(s[2].as_ref().expect("component f2 of Tt3dmde0 must be present")),
        }
    }
}
impl ToValue for Tt3dmde0 {
    fn to_value(&self) -> Value {
        Value::Seq(vec![
            Some(self.f0.to_value()),
            self.f1.as_ref().map(|x| x.to_value()),
            Some(self.f2.to_value()),
        ])
    }
}
impl FromValue for Tt3dmde1 {
    fn from_value(v: &Value) -> Self {
        let s = match v { Value::Seq(s) => s, other => panic!("Tt3dmde1: expected Seq, got {other:?}") };
        assert_eq!(s.len(), 3, "Tt3dmde1: component count");
        let _ = s;
        Tt3dmde1 {
            f0: FromValue::from_value(s[0].as_ref().expect("component f0 of Tt3dmde1 must be present")),
            f1: s[1].as_ref().map(FromValue::from_value),
            f2: FromValue::from_value(s[2].as_ref().expect("component f2 of Tt3dmde1 must be present")),
        }
    }
}
impl ToValue for Tt3dmde1 {
    fn to_value(&self) -> Value {
        Value::Seq(vec![
            Some(self.f0.to_value()),
            self.f1.as_ref().map(|x| x.to_value()),
            Some(self.f2.to_value()),
        ])
    }
}
impl FromValue for Tt3dmde2 {
    fn from_value(v: &Value) -> Self {
        let s = match v { Value::Seq(s) => s, other => panic!("Tt3dmde2: expected Seq, got {other:?}") };
        assert_eq!(s.len(), 3, "Tt3dmde2: component count");
        let _ = s;
        Tt3dmde2 {
            f0: FromValue::from_value(s[0].as_ref().expect("component f0 of Tt3dmde2 must be present")),
            f1: FromValue::from_value(s[1].as_ref().expect("component f1 of Tt3dmde2 must be present")),
            f2: FromValue::from_value(s[2].as_ref().expect("component f2 of Tt3dmde2 must be present")),
        }
    }
}
impl ToValue for Tt3dmde2 {
    fn to_value(&self) -> Value {
        Value::Seq(vec![
            Some(self.f0.to_value()),
            Some(self.f1.to_value()),
            Some(self.f2.to_value()),
        ])
    }
}
impl FromValue for Tt3dmde3 {
    fn from_value(v: &Value) -> Self {
        let s = match v { Value::Seq(s) => s, other => panic!("Tt3dmde3: expected Seq, got {other:?}") };
        assert_eq!(s.len(), 3, "Tt3dmde3: component count");
        let _ = s;
        Tt3dmde3 {
            f0: FromValue::from_value(s[0].as_ref().expect("component f0 of Tt3dmde3 must be present")),
            f1: FromValue::from_value(s[1].as_ref().expect("component f1 of Tt3dmde3 must be present")),
            f2: FromValue::from_value(s[2].as_ref().expect("component f2 of Tt3dmde3 must be present")),
        }
    }
}
impl ToValue for Tt3dmde3 {
    fn to_value(&self) -> Value {
        Value::Seq(vec![
            Some(self.f0.to_value()),
            Some(self.f1.to_value()),
            Some(self.f2.to_value()),
        ])
    }
}
impl FromValue for Tt3modn {
    fn from_value(v: &Value) -> Self {
        let s = match v { Value::Seq(s) => s, other => panic!("Tt3modn: expected Seq, got {other:?}") };
        assert_eq!(s.len(), 3, "Tt3modn: component count");
        let _ = s;
        Tt3modn {
            f0: FromValue::from_value(s[0].as_ref().expect("component f0 of Tt3modn must be present")),
            f1: s[1].as_ref().map(FromValue::from_value),
            f2: FromValue::from_value(s[2].as_ref().expect("component f2 of Tt3modn must be present")),
        }
    }
}
impl ToValue for Tt3modn {
    fn to_value(&self) -> Value {
        Value::Seq(vec![
            Some(self.f0.to_value()),
            self.f1.as_ref().map(|x| x.to_value()),
            Some(self.f2.to_value()),
        ])
    }
}
impl FromValue for Tt3mode0 {
    fn from_value(v: &Value) -> Self {
        let s = match v { Value::Seq(s) => s, other => panic!("Tt3mode0: expected Seq, got {other:?}") };
        assert_eq!(s.len(), 3, "Tt3mode0: component count");
        let _ = s;
        Tt3mode0 {
            f0: FromValue::from_value(s[0].as_ref().expect("component f0 of Tt3mode0 must be present")),
            f1: s[1].as_ref().map(FromValue::from_value),
            f2: FromValue::from_value(s[2].as_ref().expect("component f2 of Tt3mode0 must be present")),
        }
    }
}
impl ToValue for Tt3mode0 {
    fn to_value(&self) -> Value {
        Value::Seq(vec![
            Some(self.f0.to_value()),
            self.f1.as_ref().map(|x| x.to_value()),
            Some(self.f2.to_value()),
        ])
    }
}
impl FromValue for Tt3mode1 {
    fn from_value(v: &Value) -> Self {
        let s = match v { Value::Seq(s) => s, other => panic!("Tt3mode1: expected Seq, got {other:?}") };
        assert_eq!(s.len(), 3, "Tt3mode1: component count");
        let _ = s;
        Tt3mode1 {
            f0: FromValue::from_value(s[0].as_ref().expect("component f0 of Tt3mode1 must be present")),
            f1: s[1].as_ref().map(FromValue::from_value),
            f2: FromValue::from_value(s[2].as_ref().expect("component f2 of Tt3mode1 must be present")),
        }
    }
}
impl ToValue for Tt3mode1 {
    fn to_value(&self) -> Value {
        Value::Seq(vec![
            Some(self.f0.to_value()),
            self.f1.as_ref().map(|x| x.to_value()),
            Some(self.f2.to_value()),
        ])
    }
}
impl FromValue for Tt3mode2 {
    fn from_value(v: &Value) -> Self {
        let s = match v { Value::Seq(s) => s, other => panic!("Tt3mode2: expected Seq, got {other:?}") };
        assert_eq!(s.len(), 3, "Tt3mode2: component count");
        let _ = s;
        Tt3mode2 {
            f0: FromValue::from_value(s[0].as_ref().expect("component f0 of Tt3mode2 must be present")),
            f1: s[1].as_ref().map(FromValue::from_value),
            f2: FromValue::from_value(s[2].as_ref().expect("component f2 of Tt3mode2 must be present")),
        }
    }
}
impl ToValue for Tt3mode2 {
    fn to_value(&self) -> Value {
        Value::Seq(vec![
            Some(self.f0.to_value()),
            self.f1.as_ref().map(|x| x.to_value()),
            Some(self.f2.to_value()),
        ])
    }
}
impl FromValue for Tt3mode3 {
    fn from_value(v: &Value) -> Self {
        let s = match v { Value::Seq(s) => s, other => panic!("Tt3mode3: expected Seq, got {other:?}") };
        assert_eq!(s.len(), 3, "Tt3mode3: component count");
        let _ = s;
        Tt3mode3 {
            f0: FromValue::from_value(s[0].as_ref().expect("component f0 of Tt3mode3 must be present")),
            f1: s[1].as_ref().map(FromValue::from_value),
            f2: FromValue::from_value(s[2].as_ref().expect("component f2 of Tt3mode3 must be present")),
        }
    }
}
impl ToValue for Tt3mode3 {
    fn to_value(&self) -> Value {
        Value::Seq(vec![
            Some(self.f0.to_value()),
            self.f1.as_ref().map(|x| x.to_value()),
            Some(self.f2.to_value()),
        ])
    }
}
impl FromValue for Tt3oodn {
    fn from_value(v: &Value) -> Self {
        let s = match v { Value::Seq(s) => s, other => panic!("Tt3oodn: expected Seq, got {other:?}") };
        assert_eq!(s.len(), 3, "Tt3oodn: component count");
        let _ = s;
        Tt3oodn {
            f0: s[0].as_ref().map(FromValue::from_value),
            f1: s[1].as_ref().map(FromValue::from_value),
            f2: FromValue::from_value(s[2].as_ref().expect("component f2 of Tt3oodn must be present")),
        }
    }
}
impl ToValue for Tt3oodn {
    fn to_value(&self) -> Value {
        Value::Seq(vec![
            self.f0.as_ref().map(|x| x.to_value()),
            self.f1.as_ref().map(|x| x.to_value()),
            Some(self.f2.to_value()),
        ])
    }
}
impl FromValue for Tt3oode0 {
    fn from_value(v: &Value) -> Self {
        let s = match v { Value::Seq(s) => s, other => panic!("Tt3oode0: expected Seq, got {other:?}") };
        assert_eq!(s.len(), 3, "Tt3oode0: component count");
        let _ = s;
        Tt3oode0 {
            f0: s[0].as_ref().map(FromValue::from_value),
            f1: s[1].as_ref().map(FromValue::from_value),
            f2: FromValue::from_value(s[2].as_ref().expect("component f2 of Tt3oode0 must be present")),
        }
    }
}
impl ToValue for Tt3oode0 {
    fn to_value(&self) -> Value {
        Value::Seq(vec![
            self.f0.as_ref().map(|x| x.to_value()),
            self.f1.as_ref().map(|x| x.to_value()),
            Some(self.f2.to_value()),
        ])
    }
}
impl FromValue for Tt3oode1 {
    fn from_value(v: &Value) -> Self {
        let s = match v { Value::Seq(s) => s, other => panic!("Tt3oode1: expected Seq, got {other:?}") };
        assert_eq!(s.len(), 3, "Tt3oode1: component count");
        let _ = s;
        Tt3oode1 {
            f0: s[0].as_ref().map(FromValue::from_value),
            f1: s[1].as_ref().map(FromValue::from_value),
            f2: FromValue::from_value(s[2].as_ref().expect("component f2 of Tt3oode1 must be present")),
        }
    }
}
impl ToValue for Tt3oode1 {
    fn to_value(&self) -> Value {
        Value::Seq(vec![
            self.f0.as_ref().map(|x| x.to_value()),
            self.f1.as_ref().map(|x| x.to_value()),
            Some(self.f2.to_value()),
        ])
    }
}
impl FromValue for Tt3oode2 {
    fn from_value(v: &Value) -> Self {
        let s = match v { Value::Seq(s) => s, other => panic!("Tt3oode2: expected Seq, got {other:?}") };
        assert_eq!(s.len(), 3, "Tt3oode2: component count");
        let _ = s;
        Tt3oode2 {
            f0: s[0].as_ref().map(FromValue::from_value),
            f1: s[1].as_ref().map(FromValue::from_value),
            f2: FromValue::from_value(s[2].as_ref().expect("component f2 of Tt3oode2 must be present")),
        }
    }
}
impl ToValue for Tt3oode2 {
    fn to_value(&self) -> Value {
        Value::Seq(vec![
            self.f0.as_ref().map(|x| x.to_value()),
            self.f1.as_ref().map(|x| x.to_value()),
            Some(self.f2.to_value()),
        ])
    }
}
impl FromValue for Tt3oode3 {
    fn from_value(v: &Value) -> Self {
        let s = match v { Value::Seq(s) => s, other => panic!("Tt3oode3: expected Seq, got {other:?}") };
        assert_eq!(s.len(), 3, "Tt3oode3: component count");
        let _ = s;
        Tt3oode3 {
            f0: s[0].as_ref().map(FromValue::from_value),
            f1: s[1].as_ref().map(FromValue::from_value),
            f2: FromValue::from_value(s[2].as_ref().expect("component f2 of Tt3oode3 must be present")),
        }
    }
}
impl ToValue for Tt3oode3 {
    fn to_value(&self) -> Value {
        Value::Seq(vec![
            self.f0.as_ref().map(|x| x.to_value()),
            self.f1.as_ref().map(|x| x.to_value()),
            Some(self.f2.to_value()),
        ])
    }
}
impl FromValue for Tt3dodn {
    fn from_value(v: &Value) -> Self {
        let s = match v { Value::Seq(s) => s, other => panic!("Tt3dodn: expected Seq, got {other:?}") };
        assert_eq!(s.len(), 3, "Tt3dodn: component count");
        let _ = s;
        Tt3dodn {
            f0: FromValue::from_value(s[0].as_ref().expect("component f0 of Tt3dodn must be present")),
            f1: s[1].as_ref().map(FromValue::from_value),
            f2: FromValue::from_value(s[2].as_ref().expect("component f2 of Tt3dodn must be present")),
        }
    }
}
impl ToValue for Tt3dodn {
    fn to_value(&self) -> Value {
        Value::Seq(vec![
            Some(self.f0.to_value()),
            self.f1.as_ref().map(|x| x.to_value()),
            Some(self.f2.to_value()),
        ])
    }
}
impl FromValue for Tt3dode0 {
    fn from_value(v: &Value) -> Self {
        let s = match v { Value::Seq(s) => s, other => panic!("Tt3dode0: expected Seq, got {other:?}") };
        assert_eq!(s.len(), 3, "Tt3dode0: component count");
        let _ = s;
        Tt3dode0 {
            f0: FromValue::from_value(s[0].as_ref().expect("component f0 of Tt3dode0 must be present")),
            f1: s[1].as_ref().map(FromValue::from_value),
            f2: FromValue::from_value(s[2].as_ref().expect("component f2 of Tt3dode0 must be present")),
        }
    }
}
impl ToValue for Tt3dode0 {
    fn to_value(&self) -> Value {
        Value::Seq(vec![
            Some(self.f0.to_value()),
            self.f1.as_ref().map(|x| x.to_value()),
            Some(self.f2.to_value()),
        ])
    }
}
impl FromValue for Tt3dode1 {
    fn from_value(v: &Value) -> Self {
        let s = match v { Value::Seq(s) => s, other => panic!("Tt3dode1: expected Seq, got {other:?}") };
        assert_eq!(s.len(), 3, "Tt3dode1: component count");
        let _ = s;
        Tt3dode1 {
            f0: FromValue::from_value(s[0].as_ref().expect("component f0 of Tt3dode1 must be present")),
            f1: s[1].as_ref().map(FromValue::from_value),
            f2: FromValue::from_value(s[2].as_ref().expect("component f2 of Tt3dode1 must be present")),
        }
    }
}
impl ToValue for Tt3dode1 {
    fn to_value(&self) -> Value {
        Value::Seq(vec![
            Some(self.f0.to_value()),
            self.f1.as_ref().map(|x| x.to_value()),
            Some(self.f2.to_value()),
        ])
    }
}
impl FromValue for Tt3dode2 {
    fn from_value(v: &Value) -> Self {
        let s = match v { Value::Seq(s) => s, other => panic!("Tt3dode2: expected Seq, got {other:?}") };
        assert_eq!(s.len(), 3, "Tt3dode2: component count");
        let _ = s;
        Tt3dode2 {
            f0: FromValue::from_value(s[0].as_ref().expect("component f0 of Tt3dode2 must be present")),
            f1: s[1].as_ref().map(FromValue::from_value),
            f2: FromValue::from_value(s[2].as_ref().expect("component f2 of Tt3dode2 must be present")),
        }
    }
}
impl ToValue for Tt3dode2 {
    fn to_value(&self) -> Value {
        Value::Seq(vec![
            Some(self.f0.to_value()),
            self.f1.as_ref().map(|x| x.to_value()),
            Some(self.f2.to_value()),
        ])
    }
}
impl FromValue for Tt3dode3 {
    fn from_value(v: &Value) -> Self {
        let s = match v { Value::Seq(s) => s, other => panic!("Tt3dode3: expected Seq, got {other:?}") };
        assert_eq!(s.len(), 3, "Tt3dode3: component count");
        let _ = s;
        Tt3dode3 {
            f0: FromValue::from_value(s[0].as_ref().expect("component f0 of Tt3dode3 must be present")),
            f1: s[1].as_ref().map(FromValue::from_value),
            f2: FromValue::from_value(s[2].as_ref().expect("component f2 of Tt3dode3 must be present")),
        }
    }
}
impl ToValue for Tt3dode3 {
    fn to_value(&self) -> Value {
        Value::Seq(vec![
            Some(self.f0.to_value()),
            self.f1.as_ref().map(|x| x.to_value()),
            Some(self.f2.to_value()),
        ])
    }
}
impl FromValue for Tt3mddn {
    fn from_value(v: &Value) -> Self {
        let s = match v { Value::Seq(s) => s, other => panic!("Tt3mddn: expected Seq, got {other:?}") };
        assert_eq!(s.len(), 3, "Tt3mddn: component count");
        let _ = s;
        Tt3mddn {
            f0: FromValue::from_value(s[0].as_ref().expect("component f0 of Tt3mddn must be present")),
            f1: FromValue::from_value(s[1].as_ref().expect("component f1 of Tt3mddn must be present")),
            f2: FromValue::from_value(s[2].as_ref().expect("component f2 of Tt3mddn must be present")),
        }
    }
}
impl ToValue for Tt3mddn {
    fn to_value(&self) -> Value {
        Value::Seq(vec![
            Some(self.f0.to_value()),
            Some(self.f1.to_value()),
            Some(self.f2.to_value()),
        ])
    }
}
impl FromValue for Tt3mdde0 {
    fn from_value(v: &Value) -> Self {
        let s = match v { Value::Seq(s) => s, other => panic!("Tt3mdde0: expected Seq, got {other:?}") };
        assert_eq!(s.len(), 3, "Tt3mdde0: component count");
        let _ = s;
        Tt3mdde0 {
            f0: FromValue::from_value(s[0].as_ref().expect("component f0 of Tt3mdde0 must be present")),
            f1: FromValue::from_value(s[1].as_ref().expect("component f1 of Tt3mdde0 must be present")),
            f2: FromValue::from_value(s[2].as_ref().expect("component f2 of Tt3mdde0 must be present")),
        }
    }
}
impl ToValue for Tt3mdde0 {
    fn to_value(&self) -> Value {
        Value::Seq(vec![
            Some(self.f0.to_value()),
            Some(self.f1.to_value()),
            Some(self.f2.to_value()),
        ])
    }
}
impl FromValue for Tt3mdde1 {
    fn from_value(v: &Value) -> Self {
        let s = match v { Value::Seq(s) => s, other => panic!("Tt3mdde1: expected Seq, got {other:?}") };
        assert_eq!(s.len(), 3, "Tt3mdde1: component count");
        let _ = s;
        Tt3mdde1 {
            f0: FromValue::from_value(s[0].as_ref().expect("component f0 of Tt3mdde1 must be present")),
            f1: FromValue::from_value(s[1].as_ref().expect("component f1 of Tt3mdde1 must be present")),
            f2: FromValue::from_value(s[2].as_ref().expect("component f2 of Tt3mdde1 must be present")),
        }
    }
}
impl ToValue for Tt3mdde1 {
    fn to_value(&self) -> Value {
        Value::Seq(vec![
            Some(self.f0.to_value()),
            Some(self.f1.to_value()),
            Some(self.f2.to_value()),
        ])
    }
}
impl FromValue for Tt3mdde2 {
    fn from_value(v: &Value) -> Self {
        let s = match v { Value::Seq(s) => s, other => panic!("Tt3mdde2: expected Seq, got {other:?}") };
        assert_eq!(s.len(), 3, "Tt3mdde2: component count");
        let _ = s;
        Tt3mdde2 {
            f0: FromValue::from_value(s[0].as_ref().expect("component f0 of Tt3mdde2 must be present")),
            f1: FromValue::from_value(s[1].as_ref().expect("component f1 of Tt3mdde2 must be present")),
            f2: FromValue::from_value(s[2].as_ref().expect("component f2 of Tt3mdde2 must be present")),
        }
    }
}
impl ToValue for Tt3mdde2 {
    fn to_value(&self) -> Value {
        Value::Seq(vec![
            Some(self.f0.to_value()),
            Some(self.f1.to_value()),
            Some(self.f2.to_value()),
        ])
    }
}
impl FromValue for Tt3mdde3 {
    fn from_value(v: &Value) -> Self {
        let s = match v { Value::Seq(s) => s, other => panic!("Tt3mdde3: expected Seq, got {other:?}") };
        assert_eq!(s.len(), 3, "Tt3mdde3: component count");
        let _ = s;
        Tt3mdde3 {
            f0: FromValue::from_value(s[0].as_ref().expect("component f0 of Tt3mdde3 must be present")),
            f1: FromValue::from_value(s[1].as_ref().expect("component f1 of Tt3mdde3 must be present")),
            f2: FromValue::from_value(s[2].as_ref().expect("component f2 of Tt3mdde3 must be present")),
        }
    }
}
impl ToValue for Tt3mdde3 {
    fn to_value(&self) -> Value {
        Value::Seq(vec![
            Some(self.f0.to_value()),
            Some(self.f1.to_value()),
            Some(self.f2.to_value()),
        ])
    }
}
impl FromValue for Tt3oddn {
    fn from_value(v: &Value) -> Self {
        let s = match v { Value::Seq(s) => s, other => panic!("Tt3oddn: expected Seq, got {other:?}") };
        assert_eq!(s.len(), 3, "Tt3oddn: component count");
        let _ = s;
        Tt3oddn {
            f0: s[0].as_ref().map(FromValue::from_value),
            f1: FromValue::from_value(s[1].as_ref().expect("component f1 of Tt3oddn must be present")),
            f2: FromValue::from_value(s[2].as_ref().expect("component f2 of Tt3oddn must be present")),
        }
    }
}
impl ToValue for Tt3oddn {
    fn to_value(&self) -> Value {
        Value::Seq(vec![
            self.f0.as_ref().map(|x| x.to_value()),
            Some(self.f1.to_value()),
            Some(self.f2.to_value()),
        ])
    }
}
impl FromValue for Tt3odde0 {
    fn from_value(v: &Value) -> Self {
        let s = match v { Value::Seq(s) => s, other => panic!("Tt3odde0: expected Seq, got {other:?}") };
        assert_eq!(s.len(), 3, "Tt3odde0: component count");
        let _ = s;
        Tt3odde0 {
            f0: s[0].as_ref().map(FromValue::from_value),
            f1: FromValue::from_value(s[1].as_ref().expect("component f1 of Tt3odde0 must be present")),
            f2: FromValue::from_value(s[2].as_ref().expect("component f2 of Tt3odde0 must be present")),
        }
    }
}
impl ToValue for Tt3odde0 {
    fn to_value(&self) -> Value {
        Value::Seq(vec![
            self.f0.as_ref().map(|x| x.to_value()),
            Some(self.f1.to_value()),
            Some(self.f2.to_value()),
        ])
    }
}
impl FromValue for Tt3odde1 {
    fn from_value(v: &Value) -> Self {
        let s = match v { Value::Seq(s) => s, other => panic!("Tt3odde1: expected Seq, got {other:?}") };
        assert_eq!(s.len(), 3, "Tt3odde1: component count");
        let _ = s;
        Tt3odde1 {
            f0: s[0].as_ref().map(FromValue::from_value),
            f1: FromValue::from_value(s[1].as_ref().expect("component f1 of Tt3odde1 must be present")),
            f2: FromValue::from_value(s[2].as_ref().expect("component f2 of Tt3odde1 must be present")),
        }
    }
}
impl ToValue for Tt3odde1 {
    fn to_value(&self) -> Value {
        Value::Seq(vec![
            self.f0.as_ref().map(|x| x.to_value()),
            Some(self.f1.to_value()),
            Some(self.f2.to_value()),
        ])
    }
}
impl FromValue for Tt3odde2 {
    fn from_value(v: &Value) -> Self {
        let s = match v { Value::Seq(s) => s, other => panic!("Tt3odde2: expected Seq, got {other:?}") };
        assert_eq!(s.len(), 3, "Tt3odde2: component count");
        let _ = s;
        Tt3odde2 {
            f0: s[0].as_ref().map(FromValue::from_value),
            f1: FromValue::from_value(s[1].as_ref().expect("component f1 of Tt3odde2 must be present")),
            f2: FromValue::from_value(s[2].as_ref().expect("component f2 of Tt3odde2 must be present")),
        }
    }
}
impl ToValue for Tt3odde2 {
    fn to_value(&self) -> Value {
        Value::Seq(vec![
            self.f0.as_ref().map(|x| x.to_value()),
            Some(self.f1.to_value()),
            Some(self.f2.to_value()),
        ])
    }
}
impl FromValue for Tt3odde3 {
    fn from_value(v: &Value) -> Self {
        let s = match v { Value::Seq(s) => s, other => panic!("Tt3odde3: expected Seq, got {other:?}") };
        assert_eq!(s.len(), 3, "Tt3odde3: component count");
        let _ = s;
        Tt3odde3 {
            f0: s[0].as_ref().map(FromValue::from_value),
            f1: FromValue::from_value(s[1].as_ref().expect("component f1 of Tt3odde3 must be present")),
            f2: FromValue::from_value(s[2].as_ref().expect("component f2 of Tt3odde3 must be present")),
        }
    }
}
impl ToValue for Tt3odde3 {
    fn to_value(&self) -> Value {
        Value::Seq(vec![
            self.f0.as_ref().map(|x| x.to_value()),
            Some(self.f1.to_value()),
            Some(self.f2.to_value()),
        ])
    }
}
impl FromValue for Tt3dddn {
    fn from_value(v: &Value) -> Self {
        let s = match v { Value::Seq(s) => s, other => panic!("Tt3dddn: expected Seq, got {other:?}") };
        assert_eq!(s.len(), 3, "Tt3dddn: component count");
        let _ = s;
        Tt3dddn {
            f0: FromValue::from_value(s[0].as_ref().expect("component f0 of Tt3dddn must be present")),
            f1: FromValue::from_value(s[1].as_ref().expect("component f1 of Tt3dddn must be present")),
            f2: FromValue::from_value(s[2].as_ref().expect("component f2 of Tt3dddn must be present")),
        }
    }
}
impl ToValue for Tt3dddn {
    fn to_value(&self) -> Value {
        Value::Seq(vec![
            Some(self.f0.to_value()),
            Some(self.f1.to_value()),
            Some(self.f2.to_value()),
        ])
    }
}
impl FromValue for Tt3ddde0 {
    fn from_value(v: &Value) -> Self {
        let s = match v { Value::Seq(s) => s, other => panic!("Tt3ddde0: expected Seq, got {other:?}") };
        assert_eq!(s.len(), 3, "Tt3ddde0: component count");
        let _ = s;
        Tt3ddde0 {
            f0: FromValue::from_value(s[0].as_ref().expect("component f0 of Tt3ddde0 must be present")),
            f1: FromValue::from_value(s[1].as_ref().expect("component f1 of Tt3ddde0 must be present")),
            f2: FromValue::from_value(s[2].as_ref().expect("component f2 of Tt3ddde0 must be present")),
        }
    }
}
impl ToValue for Tt3ddde0 {
    fn to_value(&self) -> Value {
        Value::Seq(vec![
            Some(self.f0.to_value()),
            Some(self.f1.to_value()),
            Some(self.f2.to_value()),
        ])
    }
}
impl FromValue for Tt3ddde1 {
    fn from_value(v: &Value) -> Self {
        let s = match v { Value::Seq(s) => s, other => panic!("Tt3ddde1: expected Seq, got {other:?}") };
        assert_eq!(s.len(), 3, "Tt3ddde1: component count");
        let _ = s;
        Tt3ddde1 {
            f0: FromValue::from_value(s[0].as_ref().expect("component f0 of Tt3ddde1 must be present")),
            f1: FromValue::from_value(s[1].as_ref().expect("component f1 of Tt3ddde1 must be present")),
            f2: FromValue::from_value(s[2].as_ref().expect("component f2 of Tt3ddde1 must be present")),
        }
    }
}
impl ToValue for Tt3ddde1 {
    fn to_value(&self) -> Value {
        Value::Seq(vec![
            Some(self.f0.to_value()),
            Some(self.f1.to_value()),
            Some(self.f2.to_value()),
        ])
    }
}
impl FromValue for Tt3ddde2 {
    fn from_value(v: &Value) -> Self {
        let s = match v { Value::Seq(s) => s, other => panic!("Tt3ddde2: expected Seq, got {other:?}") };
        assert_eq!(s.len(), 3, "Tt3ddde2: component count");
        let _ = s;
        Tt3ddde2 {
            f0: FromValue::from_value(s[0].as_ref().expect("component f0 of Tt3ddde2 must be present")),
            f1: FromValue::from_value(s[1].as_ref().expect("component f1 of Tt3ddde2 must be present")),
            f2: FromValue::from_value(s[2].as_ref().expect("component f2 of Tt3ddde2 must be present")),
        }
    }
}
impl ToValue for Tt3ddde2 {
    fn to_value(&self) -> Value {
        Value::Seq(vec![
            Some(self.f0.to_value()),
            Some(self.f1.to_value()),
            Some(self.f2.to_value()),
        ])
    }
}
impl FromValue for Tt3ddde3 {
    fn from_value(v: &Value) -> Self {
        let s = match v { Value::Seq(s) => s, other => panic!("Tt3ddde3: expected Seq, got {other:?}") };
        assert_eq!(s.len(), 3, "Tt3ddde3: component count");
        let _ = s;
        Tt3ddde3 {
            f0: FromValue::from_value(s[0].as_ref().expect("component f0 of Tt3ddde3 must be present")),
            f1: FromValue::from_value(s[1].as_ref().expect("component f1 of Tt3ddde3 must be present")),
            f2: FromValue::from_value(s[2].as_ref().expect("component f2 of Tt3ddde3 must be present")),
        }
    }
}
impl ToValue for Tt3ddde3 {
    fn to_value(&self) -> Value {
        Value::Seq(vec![
            Some(self.f0.to_value()),
            Some(self.f1.to_value()),
            Some(self.f2.to_value()),
        ])
    }
}

use asn1rs::prelude::*;

#[asn(transparent)]

#[derive(Default, Debug, Clone, PartialEq, Hash)]
pub struct Tsoiany(#[asn(sequence_of(integer(0..255)))] pub Vec<u8>);

impl Tsoiany {
    pub const fn value_min() -> u8 {
        0
    }

    pub const fn value_max() -> u8 {
        255
    }
}

impl Tsoiany {
    pub const fn new(value: Vec<u8>) -> Self {
        Self(value)
    }
}

impl ::core::ops::Deref for Tsoiany {
    type Target = Vec<u8>;

    fn deref(&self) -> &Vec<u8> {
        &self.0
    }
}

impl ::core::ops::DerefMut for Tsoiany {
    fn deref_mut(&mut self) -> &mut Vec<u8> {
        &mut self.0
    }
}

impl ::core::convert::From<Vec<u8>> for Tsoiany {
    fn from(value: Vec<u8>) -> Self {
        Self(value)
    }
}

impl ::core::convert::From<Tsoiany> for Vec<u8> {
    fn from(value: Tsoiany) -> Self {
        value.0
    }
}

#[asn(transparent)]

#[derive(Default, Debug, Clone, PartialEq, Hash)]
pub struct Tsoif1(#[asn(sequence_of(size(1), integer(0..255)))] pub Vec<u8>);

impl Tsoif1 {
    pub const fn value_min() -> u8 {
        0
    }

    pub const fn value_max() -> u8 {
        255
    }
}

impl Tsoif1 {
    pub const fn new(value: Vec<u8>) -> Self {
        Self(value)
    }
}

impl ::core::ops::Deref for Tsoif1 {
    type Target = Vec<u8>;

    fn deref(&self) -> &Vec<u8> {
        &self.0
    }
}

impl ::core::ops::DerefMut for Tsoif1 {
    fn deref_mut(&mut self) -> &mut Vec<u8> {
        &mut self.0
    }
}

impl ::core::convert::From<Vec<u8>> for Tsoif1 {
    fn from(value: Vec<u8>) -> Self {
        Self(value)
    }
}

impl ::core::convert::From<Tsoif1> for Vec<u8> {
    fn from(value: Tsoif1) -> Self {
        value.0
    }
}

#[asn(transparent)]

#[derive(Default, Debug, Clone, PartialEq, Hash)]
pub struct Tsoif3(#[asn(sequence_of(size(3), integer(0..255)))] pub Vec<u8>);

impl Tsoif3 {
    pub const fn value_min() -> u8 {
        0
    }

    pub const fn value_max() -> u8 {
        255
    }
}

impl Tsoif3 {
    pub const fn new(value: Vec<u8>) -> Self {
        Self(value)
    }
}

impl ::core::ops::Deref for Tsoif3 {
    type Target = Vec<u8>;

    fn deref(&self) -> &Vec<u8> {
        &self.0
    }
}

impl ::core::ops::DerefMut for Tsoif3 {
    fn deref_mut(&mut self) -> &mut Vec<u8> {
        &mut self.0
    }
}

impl ::core::convert::From<Vec<u8>> for Tsoif3 {
    fn from(value: Vec<u8>) -> Self {
        Self(value)
    }
}

impl ::core::convert::From<Tsoif3> for Vec<u8> {
    fn from(value: Tsoif3) -> Self {
        value.0
    }
}

#[asn(transparent)]

#[derive(Default, Debug, Clone, PartialEq, Hash)]
pub struct Tsoif65535(#[asn(sequence_of(size(65535), integer(0..255)))] pub Vec<u8>);

impl Tsoif65535 {
    pub const fn value_min() -> u8 {
        0
    }

    pub const fn value_max() -> u8 {
        255
    }
}

impl Tsoif65535 {
    pub const fn new(value: Vec<u8>) -> Self {
        Self(value)
    }
}

impl ::core::ops::Deref for Tsoif65535 {
    type Target = Vec<u8>;

    fn deref(&self) -> &Vec<u8> {
        &self.0
    }
}

impl ::core::ops::DerefMut for Tsoif65535 {
    fn deref_mut(&mut self) -> &mut Vec<u8> {
        &mut self.0
    }
}

impl ::core::convert::From<Vec<u8>> for Tsoif65535 {
    fn from(value: Vec<u8>) -> Self {
        Self(value)
    }
}

impl ::core::convert::From<Tsoif65535> for Vec<u8> {
    fn from(value: Tsoif65535) -> Self {
        value.0
    }
}

#[asn(transparent)]

#[derive(Default, Debug, Clone, PartialEq, Hash)]
pub struct Tsoif65536(#[asn(sequence_of(size(65536), integer(0..255)))] pub Vec<u8>);

impl Tsoif65536 {
    pub const fn value_min() -> u8 {
        0
    }

    pub const fn value_max() -> u8 {
        255
    }
}

impl Tsoif65536 {
    pub const fn new(value: Vec<u8>) -> Self {
        Self(value)
    }
}

impl ::core::ops::Deref for Tsoif65536 {
    type Target = Vec<u8>;

    fn deref(&self) -> &Vec<u8> {
        &self.0
    }
}

impl ::core::ops::DerefMut for Tsoif65536 {
    fn deref_mut(&mut self) -> &mut Vec<u8> {
        &mut self.0
    }
}

impl ::core::convert::From<Vec<u8>> for Tsoif65536 {
    fn from(value: Vec<u8>) -> Self {
        Self(value)
    }
}

impl ::core::convert::From<Tsoif65536> for Vec<u8> {
    fn from(value: Tsoif65536) -> Self {
        value.0
    }
}

#[asn(transparent)]

#[derive(Default, Debug, Clone, PartialEq, Hash)]
pub struct Tsoir1to4(#[asn(sequence_of(size(1..4), integer(0..255)))] pub Vec<u8>);

impl Tsoir1to4 {
    pub const fn value_min() -> u8 {
        0
    }

    pub const fn value_max() -> u8 {
        255
    }
}

impl Tsoir1to4 {
    pub const fn new(value: Vec<u8>) -> Self {
        Self(value)
    }
}

impl ::core::ops::Deref for Tsoir1to4 {
    type Target = Vec<u8>;

    fn deref(&self) -> &Vec<u8> {
        &self.0
    }
}

impl ::core::ops::DerefMut for Tsoir1to4 {
    fn deref_mut(&mut self) -> &mut Vec<u8> {
        &mut self.0
    }
}

impl ::core::convert::From<Vec<u8>> for Tsoir1to4 {
    fn from(value: Vec<u8>) -> Self {
        Self(value)
    }
}

impl ::core::convert::From<Tsoir1to4> for Vec<u8> {
    fn from(value: Tsoir1to4) -> Self {
        value.0
    }
}

#[asn(transparent)]

#[derive(Default, Debug, Clone, PartialEq, Hash)]
pub struct Tsoir4to6(#[asn(sequence_of(size(4..6), integer(0..255)))] pub Vec<u8>);

impl Tsoir4to6 {
    pub const fn value_min() -> u8 {
        0
    }

    pub const fn value_max() -> u8 {
        255
    }
}

impl Tsoir4to6 {
    pub const fn new(value: Vec<u8>) -> Self {
        Self(value)
    }
}

impl ::core::ops::Deref for Tsoir4to6 {
    type Target = Vec<u8>;

    fn deref(&self) -> &Vec<u8> {
        &self.0
    }
}

impl ::core::ops::DerefMut for Tsoir4to6 {
    fn deref_mut(&mut self) -> &mut Vec<u8> {
        &mut self.0
    }
}

impl ::core::convert::From<Vec<u8>> for Tsoir4to6 {
    fn from(value: Vec<u8>) -> Self {
        Self(value)
    }
}

impl ::core::convert::From<Tsoir4to6> for Vec<u8> {
    fn from(value: Tsoir4to6) -> Self {
        value.0
    }
}

#[asn(transparent)]

#[derive(Default, Debug, Clone, PartialEq, Hash)]
pub struct Tsoir1to70000(#[asn(sequence_of(size(1..70000), integer(0..255)))] pub Vec<u8>);

impl Tsoir1to70000 {
    pub const fn value_min() -> u8 {
        0
    }

    pub const fn value_max() -> u8 {
        255
    }
}

impl Tsoir1to70000 {
    pub const fn new(value: Vec<u8>) -> Self {
        Self(value)
    }
}

impl ::core::ops::Deref for Tsoir1to70000 {
    type Target = Vec<u8>;

    fn deref(&self) -> &Vec<u8> {
        &self.0
    }
}

impl ::core::ops::DerefMut for Tsoir1to70000 {
    fn deref_mut(&mut self) -> &mut Vec<u8> {
        &mut self.0
    }
}

impl ::core::convert::From<Vec<u8>> for Tsoir1to70000 {
    fn from(value: Vec<u8>) -> Self {
        Self(value)
    }
}

impl ::core::convert::From<Tsoir1to70000> for Vec<u8> {
    fn from(value: Tsoir1to70000) -> Self {
        value.0
    }
}

#[asn(transparent)]

#[derive(Default, Debug, Clone, PartialEq, Hash)]
pub struct Tsoir2tomax(#[asn(sequence_of(size(2..9223372036854775807), integer(0..255)))] pub Vec<u8>);

impl Tsoir2tomax {
    pub const fn value_min() -> u8 {
        0
    }

    pub const fn value_max() -> u8 {
        255
    }
}

impl Tsoir2tomax {
    pub const fn new(value: Vec<u8>) -> Self {
        Self(value)
    }
}

impl ::core::ops::Deref for Tsoir2tomax {
    type Target = Vec<u8>;

    fn deref(&self) -> &Vec<u8> {
        &self.0
    }
}

impl ::core::ops::DerefMut for Tsoir2tomax {
    fn deref_mut(&mut self) -> &mut Vec<u8> {
        &mut self.0
    }
}

impl ::core::convert::From<Vec<u8>> for Tsoir2tomax {
    fn from(value: Vec<u8>) -> Self {
        Self(value)
    }
}

impl ::core::convert::From<Tsoir2tomax> for Vec<u8> {
    fn from(value: Tsoir2tomax) -> Self {
        value.0
    }
}

#[asn(transparent)]

#[derive(Default, Debug, Clone, PartialEq, Hash)]
pub struct Tsoif3x(#[asn(sequence_of(size(3,...), integer(0..255)))] pub Vec<u8>);

impl Tsoif3x {
    pub const fn value_min() -> u8 {
        0
    }

    pub const fn value_max() -> u8 {
        255
    }
}

impl Tsoif3x {
    pub const fn new(value: Vec<u8>) -> Self {
        Self(value)
    }
}

impl ::core::ops::Deref for Tsoif3x {
    type Target = Vec<u8>;

    fn deref(&self) -> &Vec<u8> {
        &self.0
    }
}

impl ::core::ops::DerefMut for Tsoif3x {
    fn deref_mut(&mut self) -> &mut Vec<u8> {
        &mut self.0
    }
}

impl ::core::convert::From<Vec<u8>> for Tsoif3x {
    fn from(value: Vec<u8>) -> Self {
        Self(value)
    }
}

impl ::core::convert::From<Tsoif3x> for Vec<u8> {
    fn from(value: Tsoif3x) -> Self {
        value.0
    }
}

#[asn(transparent)]

#[derive(Default, Debug, Clone, PartialEq, Hash)]
pub struct Tsoir1to4x(#[asn(sequence_of(size(1..4,...), integer(0..255)))] pub Vec<u8>);

impl Tsoir1to4x {
    pub const fn value_min() -> u8 {
        0
    }

    pub const fn value_max() -> u8 {
        255
    }
}

impl Tsoir1to4x {
    pub const fn new(value: Vec<u8>) -> Self {
        Self(value)
    }
}

impl ::core::ops::Deref for Tsoir1to4x {
    type Target = Vec<u8>;

    fn deref(&self) -> &Vec<u8> {
        &self.0
    }
}

impl ::core::ops::DerefMut for Tsoir1to4x {
    fn deref_mut(&mut self) -> &mut Vec<u8> {
        &mut self.0
    }
}

impl ::core::convert::From<Vec<u8>> for Tsoir1to4x {
    fn from(value: Vec<u8>) -> Self {
        Self(value)
    }
}

impl ::core::convert::From<Tsoir1to4x> for Vec<u8> {
    fn from(value: Tsoir1to4x) -> Self {
        value.0
    }
}
// ---- harness conversions (generated by the zoo build script from the items above) ----
impl FromValue for Tsoiany { fn from_value(v: &Value) -> Self { Tsoiany(FromValue::from_value(v)) } }
impl ToValue for Tsoiany { fn to_value(&self) -> Value { self.0.to_value() } }
impl FromValue for Tsoif1 { fn from_value(v: &Value) -> Self { Tsoif1(FromValue::from_value(v)) } }
impl ToValue for Tsoif1 { fn to_value(&self) -> Value { self.0.to_value() } }
impl FromValue for Tsoif3 { fn from_value(v: &Value) -> Self { Tsoif3(FromValue::from_value(v)) } }
impl ToValue for Tsoif3 { fn to_value(&self) -> Value { self.0.to_value() } }
impl FromValue for Tsoif65535 { fn from_value(v: &Value) -> Self { Tsoif65535(FromValue::from_value(v)) } }
impl ToValue for Tsoif65535 { fn to_value(&self) -> Value { self.0.to_value() } }
impl FromValue for Tsoif65536 { fn from_value(v: &Value) -> Self { Tsoif65536(FromValue::from_value(v)) } }
impl ToValue for Tsoif65536 { fn to_value(&self) -> Value { self.0.to_value() } }
impl FromValue for Tsoir1to4 { fn from_value(v: &Value) -> Self { Tsoir1to4(FromValue::from_value(v)) } }
impl ToValue for Tsoir1to4 { fn to_value(&self) -> Value { self.0.to_value() } }
impl FromValue for Tsoir4to6 { fn from_value(v: &Value) -> Self { Tsoir4to6(FromValue::from_value(v)) } }
impl ToValue for Tsoir4to6 { fn to_value(&self) -> Value { self.0.to_value() } }
impl FromValue for Tsoir1to70000 { fn from_value(v: &Value) -> Self { Tsoir1to70000(FromValue::from_value(v)) } }
impl ToValue for Tsoir1to70000 { fn to_value(&self) -> Value { self.0.to_value() } }
impl FromValue for Tsoir2tomax { fn from_value(v: &Value) -> Self { Tsoir2tomax(FromValue::from_value(v)) } }
impl ToValue for Tsoir2tomax { fn to_value(&self) -> Value { self.0.to_value() } }
impl FromValue for Tsoif3x { fn from_value(v: &Value) -> Self { Tsoif3x(FromValue::from_value(v)) } }
impl ToValue for Tsoif3x { fn to_value(&self) -> Value { self.0.to_value() } }
impl FromValue for Tsoir1to4x { fn from_value(v: &Value) -> Self { Tsoir1to4x(FromValue::from_value(v)) } }
impl ToValue for Tsoir1to4x { fn to_value(&self) -> Value { self.0.to_value() } }

use asn1rs::prelude::*;

#[asn(transparent)]

#[derive(Default, Debug, Clone, PartialEq, Hash)]
pub struct Tvisf0(#[asn(visiblestring(size(0)))] pub String);

impl Tvisf0 {
}

impl Tvisf0 {
    pub const fn new(value: String) -> Self {
        Self(value)
    }
}

impl ::core::ops::Deref for Tvisf0 {
    type Target = String;

    fn deref(&self) -> &String {
        &self.0
    }
}

impl ::core::ops::DerefMut for Tvisf0 {
    fn deref_mut(&mut self) -> &mut String {
        &mut self.0
    }
}

impl ::core::convert::From<String> for Tvisf0 {
    fn from(value: String) -> Self {
        Self(value)
    }
}

impl ::core::convert::From<Tvisf0> for String {
    fn from(value: Tvisf0) -> Self {
        value.0
    }
}

#[asn(transparent)]

#[derive(Default, Debug, Clone, PartialEq, Hash)]
pub struct Tvisf2(#[asn(visiblestring(size(2)))] pub String);

impl Tvisf2 {
}

impl Tvisf2 {
    pub const fn new(value: String) -> Self {
        Self(value)
    }
}

impl ::core::ops::Deref for Tvisf2 {
    type Target = String;

    fn deref(&self) -> &String {
        &self.0
    }
}

impl ::core::ops::DerefMut for Tvisf2 {
    fn deref_mut(&mut self) -> &mut String {
        &mut self.0
    }
}

impl ::core::convert::From<String> for Tvisf2 {
    fn from(value: String) -> Self {
        Self(value)
    }
}

impl ::core::convert::From<Tvisf2> for String {
    fn from(value: Tvisf2) -> Self {
        value.0
    }
}

#[asn(transparent)]

#[derive(Default, Debug, Clone, PartialEq, Hash)]
pub struct Tvisf17(#[asn(visiblestring(size(17)))] pub String);

impl Tvisf17 {
}

impl Tvisf17 {
    pub const fn new(value: String) -> Self {
        Self(value)
    }
}

impl ::core::ops::Deref for Tvisf17 {
    type Target = String;

    fn deref(&self) -> &String {
        &self.0
    }
}

impl ::core::ops::DerefMut for Tvisf17 {
    fn deref_mut(&mut self) -> &mut String {
        &mut self.0
    }
}

impl ::core::convert::From<String> for Tvisf17 {
    fn from(value: String) -> Self {
        Self(value)
    }
}

impl ::core::convert::From<Tvisf17> for String {
    fn from(value: Tvisf17) -> Self {
        value.0
    }
}

#[asn(transparent)]

#[derive(Default, Debug, Clone, PartialEq, Hash)]
pub struct Tvisr0to1(#[asn(visiblestring(size(0..1)))] pub String);

impl Tvisr0to1 {
}

impl Tvisr0to1 {
    pub const fn new(value: String) -> Self {
        Self(value)
    }
}

impl ::core::ops::Deref for Tvisr0to1 {
    type Target = String;

    fn deref(&self) -> &String {
        &self.0
    }
}

impl ::core::ops::DerefMut for Tvisr0to1 {
    fn deref_mut(&mut self) -> &mut String {
        &mut self.0
    }
}

impl ::core::convert::From<String> for Tvisr0to1 {
    fn from(value: String) -> Self {
        Self(value)
    }
}

impl ::core::convert::From<Tvisr0to1> for String {
    fn from(value: Tvisr0to1) -> Self {
        value.0
    }
}

#[asn(transparent)]

#[derive(Default, Debug, Clone, PartialEq, Hash)]
pub struct Tvisr0to255(#[asn(visiblestring(size(0..255)))] pub String);

impl Tvisr0to255 {
}

impl Tvisr0to255 {
    pub const fn new(value: String) -> Self {
        Self(value)
    }
}

impl ::core::ops::Deref for Tvisr0to255 {
    type Target = String;

    fn deref(&self) -> &String {
        &self.0
    }
}

impl ::core::ops::DerefMut for Tvisr0to255 {
    fn deref_mut(&mut self) -> &mut String {
        &mut self.0
    }
}

impl ::core::convert::From<String> for Tvisr0to255 {
    fn from(value: String) -> Self {
        Self(value)
    }
}

impl ::core::convert::From<Tvisr0to255> for String {
    fn from(value: Tvisr0to255) -> Self {
        value.0
    }
}

#[asn(transparent)]

#[derive(Default, Debug, Clone, PartialEq, Hash)]
pub struct Tvisr0to256(#[asn(visiblestring(size(0..256)))] pub String);

impl Tvisr0to256 {
}

impl Tvisr0to256 {
    pub const fn new(value: String) -> Self {
        Self(value)
    }
}

impl ::core::ops::Deref for Tvisr0to256 {
    type Target = String;

    fn deref(&self) -> &String {
        &self.0
    }
}

impl ::core::ops::DerefMut for Tvisr0to256 {
    fn deref_mut(&mut self) -> &mut String {
        &mut self.0
    }
}

impl ::core::convert::From<String> for Tvisr0to256 {
    fn from(value: String) -> Self {
        Self(value)
    }
}

impl ::core::convert::From<Tvisr0to256> for String {
    fn from(value: Tvisr0to256) -> Self {
        value.0
    }
}

#[asn(transparent)]

#[derive(Default, Debug, Clone, PartialEq, Hash)]
pub struct Tvisr1to65535(#[asn(visiblestring(size(1..65535)))] pub String);

impl Tvisr1to65535 {
}

impl Tvisr1to65535 {
    pub const fn new(value: String) -> Self {
        Self(value)
    }
}

impl ::core::ops::Deref for Tvisr1to65535 {
    type Target = String;

    fn deref(&self) -> &String {
        &self.0
    }
}

impl ::core::ops::DerefMut for Tvisr1to65535 {
    fn deref_mut(&mut self) -> &mut String {
        &mut self.0
    }
}

impl ::core::convert::From<String> for Tvisr1to65535 {
    fn from(value: String) -> Self {
        Self(value)
    }
}

impl ::core::convert::From<Tvisr1to65535> for String {
    fn from(value: Tvisr1to65535) -> Self {
        value.0
    }
}

#[asn(transparent)]

#[derive(Default, Debug, Clone, PartialEq, Hash)]
pub struct Tvisr1to65536(#[asn(visiblestring(size(1..65536)))] pub String);

impl Tvisr1to65536 {
}

impl Tvisr1to65536 {
    pub const fn new(value: String) -> Self {
        Self(value)
    }
}

impl ::core::ops::Deref for Tvisr1to65536 {
    type Target = String;

    fn deref(&self) -> &String {
        &self.0
    }
}

impl ::core::ops::DerefMut for Tvisr1to65536 {
    fn deref_mut(&mut self) -> &mut String {
        &mut self.0
    }
}

impl ::core::convert::From<String> for Tvisr1to65536 {
    fn from(value: String) -> Self {
        Self(value)
    }
}

impl ::core::convert::From<Tvisr1to65536> for String {
    fn from(value: Tvisr1to65536) -> Self {
        value.0
    }
}

#[asn(transparent)]

#[derive(Default, Debug, Clone, PartialEq, Hash)]
pub struct Tvisr0to65535x(#[asn(visiblestring(size(0..65535,...)))] pub String);

impl Tvisr0to65535x {
}

impl Tvisr0to65535x {
    pub const fn new(value: String) -> Self {
        Self(value)
    }
}

impl ::core::ops::Deref for Tvisr0to65535x {
    type Target = String;

    fn deref(&self) -> &String {
        &self.0
    }
}

impl ::core::ops::DerefMut for Tvisr0to65535x {
    fn deref_mut(&mut self) -> &mut String {
        &mut self.0
    }
}

impl ::core::convert::From<String> for Tvisr0to65535x {
    fn from(value: String) -> Self {
        Self(value)
    }
}

impl ::core::convert::From<Tvisr0to65535x> for String {
    fn from(value: Tvisr0to65535x) -> Self {
        value.0
    }
}
// ---- harness conversions (generated by the zoo build script from the items above) ----
impl FromValue for Tvisf0 { fn from_value(v: &Value) -> Self { Tvisf0(FromValue::from_value(v)) } }
impl ToValue for Tvisf0 { fn to_value(&self) -> Value { self.0.to_value() } }
impl FromValue for Tvisf2 { fn from_value(v: &Value) -> Self { Tvisf2(FromValue::from_value(v)) } }
impl ToValue for Tvisf2 { fn to_value(&self) -> Value { self.0.to_value() } }
impl FromValue for Tvisf17 { fn from_value(v: &Value) -> Self { Tvisf17(FromValue::from_value(v)) } }
impl ToValue for Tvisf17 { fn to_value(&self) -> Value { self.0.to_value() } }
impl FromValue for Tvisr0to1 { fn from_value(v: &Value) -> Self { Tvisr0to1(FromValue::from_value(v)) } }
impl ToValue for Tvisr0to1 { fn to_value(&self) -> Value { self.0.to_value() } }
impl FromValue for Tvisr0to255 { fn from_value(v: &Value) -> Self { Tvisr0to255(FromValue::from_value(v)) } }
impl ToValue for Tvisr0to255 { fn to_value(&self) -> Value { self.0.to_value() } }
impl FromValue for Tvisr0to256 { fn from_value(v: &Value) -> Self { Tvisr0to256(FromValue::from_value(v)) } }
impl ToValue for Tvisr0to256 { fn to_value(&self) -> Value { self.0.to_value() } }
impl FromValue for Tvisr1to65535 { fn from_value(v: &Value) -> Self { Tvisr1to65535(FromValue::from_value(v)) } }
impl ToValue for Tvisr1to65535 { fn to_value(&self) -> Value { self.0.to_value() } }
impl FromValue for Tvisr1to65536 { fn from_value(v: &Value) -> Self { Tvisr1to65536(FromValue::from_value(v)) } }
impl ToValue for Tvisr1to65536 { fn to_value(&self) -> Value { self.0.to_value() } }
impl FromValue for Tvisr0to65535x { fn from_value(v: &Value) -> Self { Tvisr0to65535x(FromValue::from_value(v)) } }
impl ToValue for Tvisr0to65535x { fn to_value(&self) -> Value { self.0.to_value() } }

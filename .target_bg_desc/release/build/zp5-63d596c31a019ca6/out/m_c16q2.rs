use asn1rs::prelude::*;

#[asn(transparent, tag(APPLICATION(9)))]

#[derive(Default, Debug, Clone, PartialEq, Hash)]
pub struct Tapp9(#[asn(integer(0..3))] pub u8);

impl Tapp9 {
    pub const fn value_min() -> u8 {
        0
    }

    pub const fn value_max() -> u8 {
        3
    }
}

impl Tapp9 {
    pub const fn new(value: u8) -> Self {
        Self(value)
    }
}

impl ::core::ops::Deref for Tapp9 {
    type Target = u8;

    fn deref(&self) -> &u8 {
        &self.0
    }
}

impl ::core::ops::DerefMut for Tapp9 {
    fn deref_mut(&mut self) -> &mut u8 {
        &mut self.0
    }
}

impl ::core::convert::From<u8> for Tapp9 {
    fn from(value: u8) -> Self {
        Self(value)
    }
}

impl ::core::convert::From<Tapp9> for u8 {
    fn from(value: Tapp9) -> Self {
        value.0
    }
}

#[asn(sequence)]

#[derive(Default, Debug, Clone, PartialEq, Hash)]
pub struct Tsq {
    #[asn(boolean)] pub z: bool,
}

impl Tsq {
}

#[asn(choice)]

#[derive(Debug, Clone, PartialEq, Hash)]
pub enum Tcho {
    #[asn(boolean, tag(4))] M(bool),
    #[asn(integer(0..7), tag(1))] N(u8),
}

impl Tcho {
    pub fn variants() -> [Self; 2] {
        [
        Tcho::M(Default::default()),
        Tcho::N(Default::default()),
        ]
    }

    pub fn value_index(&self) -> usize {
        match self {
            Tcho::M(_) => 0,
            Tcho::N(_) => 1,
        }
    }

    pub const fn n_min() -> u8 {
        0
    }

    pub const fn n_max() -> u8 {
        7
    }
}

impl Default for Tcho {
    fn default() -> Tcho {
        Tcho::M(Default::default())
    }
}

#[asn(choice, extensible_after(N))]

#[derive(Debug, Clone, PartialEq, Hash)]
pub enum Tchox {
    #[asn(boolean, tag(PRIVATE(1)))] M(bool),
    #[asn(integer(0..7), tag(PRIVATE(3)))] N(u8),
    #[asn(null, tag(APPLICATION(2)))] O(Null),
}

impl Tchox {
    pub fn variants() -> [Self; 3] {
        [
        Tchox::M(Default::default()),
        Tchox::N(Default::default()),
        Tchox::O(Default::default()),
        ]
    }

    pub fn value_index(&self) -> usize {
        match self {
            Tchox::M(_) => 0,
            Tchox::N(_) => 1,
            Tchox::O(_) => 2,
        }
    }

    pub const fn n_min() -> u8 {
        0
    }

    pub const fn n_max() -> u8 {
        7
    }
}

impl Default for Tchox {
    fn default() -> Tchox {
        Tchox::M(Default::default())
    }
}

#[asn(set)]

#[derive(Default, Debug, Clone, PartialEq, Hash)]
pub struct Tst {
    #[asn(boolean)] pub z: bool,
}

impl Tst {
}

#[asn(sequence, tag(APPLICATION(5)))]

#[derive(Default, Debug, Clone, PartialEq, Hash)]
pub struct Ttp14p15Is {
    #[asn(integer(0..3))] pub v: u8,
}

impl Ttp14p15Is {
    pub const fn v_min() -> u8 {
        0
    }

    pub const fn v_max() -> u8 {
        3
    }
}

#[asn(set)]

#[derive(Default, Debug, Clone, PartialEq, Hash)]
pub struct Ttp14p15 {
    #[asn(integer(0..1), tag(UNIVERSAL(2)))] pub u2: u8,
    #[asn(optional(complex(Ttp14p15Is, tag(APPLICATION(5)))), tag(APPLICATION(5)))] pub is: Option<Ttp14p15Is>,
}

impl Ttp14p15 {
    pub const fn u2_min() -> u8 {
        0
    }

    pub const fn u2_max() -> u8 {
        1
    }
}

#[asn(sequence, tag(APPLICATION(5)))]

#[derive(Default, Debug, Clone, PartialEq, Hash)]
pub struct Ttp15p0Is {
    #[asn(integer(0..3))] pub v: u8,
}

impl Ttp15p0Is {
    pub const fn v_min() -> u8 {
        0
    }

    pub const fn v_max() -> u8 {
        3
    }
}

#[asn(set)]

#[derive(Default, Debug, Clone, PartialEq, Hash)]
pub struct Ttp15p0 {
    #[asn(optional(complex(Ttp15p0Is, tag(APPLICATION(5)))), tag(APPLICATION(5)))] pub is: Option<Ttp15p0Is>,
    #[asn(integer(0..7), tag(UNIVERSAL(30)))] pub x: u8,
}

impl Ttp15p0 {
    pub const fn x_min() -> u8 {
        0
    }

    pub const fn x_max() -> u8 {
        7
    }
}

#[asn(sequence, tag(APPLICATION(5)))]

#[derive(Default, Debug, Clone, PartialEq, Hash)]
pub struct Ttp15p1Is {
    #[asn(integer(0..3))] pub v: u8,
}

impl Ttp15p1Is {
    pub const fn v_min() -> u8 {
        0
    }

    pub const fn v_max() -> u8 {
        3
    }
}

#[asn(set)]

#[derive(Default, Debug, Clone, PartialEq, Hash)]
pub struct Ttp15p1 {
    #[asn(optional(complex(Ttp15p1Is, tag(APPLICATION(5)))), tag(APPLICATION(5)))] pub is: Option<Ttp15p1Is>,
    #[asn(optional(integer(0..15)), tag(APPLICATION(1)))] pub a: Option<u8>,
}

impl Ttp15p1 {
    pub const fn a_min() -> u8 {
        0
    }

    pub const fn a_max() -> u8 {
        15
    }
}

#[asn(sequence, tag(APPLICATION(5)))]

#[derive(Default, Debug, Clone, PartialEq, Hash)]
pub struct Ttp15p2Is {
    #[asn(integer(0..3))] pub v: u8,
}

impl Ttp15p2Is {
    pub const fn v_min() -> u8 {
        0
    }

    pub const fn v_max() -> u8 {
        3
    }
}

#[asn(set)]

#[derive(Default, Debug, Clone, PartialEq, Hash)]
pub struct Ttp15p2 {
    #[asn(optional(complex(Ttp15p2Is, tag(APPLICATION(5)))), tag(APPLICATION(5)))] pub is: Option<Ttp15p2Is>,
    #[asn(integer(0..31), tag(3))] pub c3: u8,
}

impl Ttp15p2 {
    pub const fn c3_min() -> u8 {
        0
    }

    pub const fn c3_max() -> u8 {
        31
    }
}

#[asn(sequence, tag(APPLICATION(5)))]

#[derive(Default, Debug, Clone, PartialEq, Hash)]
pub struct Ttp15p3Is {
    #[asn(integer(0..3))] pub v: u8,
}

impl Ttp15p3Is {
    pub const fn v_min() -> u8 {
        0
    }

    pub const fn v_max() -> u8 {
        3
    }
}

#[asn(set)]

#[derive(Default, Debug, Clone, PartialEq, Hash)]
pub struct Ttp15p3 {
    #[asn(optional(complex(Ttp15p3Is, tag(APPLICATION(5)))), tag(APPLICATION(5)))] pub is: Option<Ttp15p3Is>,
    #[asn(optional(integer(0..63)), tag(0))] pub c0: Option<u8>,
}

impl Ttp15p3 {
    pub const fn c0_min() -> u8 {
        0
    }

    pub const fn c0_max() -> u8 {
        63
    }
}

#[asn(sequence, tag(APPLICATION(5)))]

#[derive(Default, Debug, Clone, PartialEq, Hash)]
pub struct Ttp15p4Is {
    #[asn(integer(0..3))] pub v: u8,
}

impl Ttp15p4Is {
    pub const fn v_min() -> u8 {
        0
    }

    pub const fn v_max() -> u8 {
        3
    }
}

#[asn(set)]

#[derive(Default, Debug, Clone, PartialEq, Hash)]
pub struct Ttp15p4 {
    #[asn(optional(complex(Ttp15p4Is, tag(APPLICATION(5)))), tag(APPLICATION(5)))] pub is: Option<Ttp15p4Is>,
    #[asn(integer(0..127), tag(PRIVATE(2)))] pub p: u8,
}

impl Ttp15p4 {
    pub const fn p_min() -> u8 {
        0
    }

    pub const fn p_max() -> u8 {
        127
    }
}

#[asn(sequence, tag(APPLICATION(5)))]

#[derive(Default, Debug, Clone, PartialEq, Hash)]
pub struct Ttp15p5Is {
    #[asn(integer(0..3))] pub v: u8,
}

impl Ttp15p5Is {
    pub const fn v_min() -> u8 {
        0
    }

    pub const fn v_max() -> u8 {
        3
    }
}

#[asn(set)]

#[derive(Default, Debug, Clone, PartialEq, Hash)]
pub struct Ttp15p5 {
    #[asn(optional(complex(Ttp15p5Is, tag(APPLICATION(5)))), tag(APPLICATION(5)))] pub is: Option<Ttp15p5Is>,
    #[asn(optional(boolean))] pub b: Option<bool>,
}

impl Ttp15p5 {
}

#[asn(sequence, tag(APPLICATION(5)))]

#[derive(Default, Debug, Clone, PartialEq, Hash)]
pub struct Ttp15p6Is {
    #[asn(integer(0..3))] pub v: u8,
}

impl Ttp15p6Is {
    pub const fn v_min() -> u8 {
        0
    }

    pub const fn v_max() -> u8 {
        3
    }
}

#[asn(set)]

#[derive(Default, Debug, Clone, PartialEq, Hash)]
pub struct Ttp15p6 {
    #[asn(optional(complex(Ttp15p6Is, tag(APPLICATION(5)))), tag(APPLICATION(5)))] pub is: Option<Ttp15p6Is>,
    #[asn(integer(0..255))] pub i: u8,
}

impl Ttp15p6 {
    pub const fn i_min() -> u8 {
        0
    }

    pub const fn i_max() -> u8 {
        255
    }
}

#[asn(sequence, tag(APPLICATION(5)))]

#[derive(Default, Debug, Clone, PartialEq, Hash)]
pub struct Ttp15p7Is {
    #[asn(integer(0..3))] pub v: u8,
}

impl Ttp15p7Is {
    pub const fn v_min() -> u8 {
        0
    }

    pub const fn v_max() -> u8 {
        3
    }
}

#[asn(set)]

#[derive(Default, Debug, Clone, PartialEq, Hash)]
pub struct Ttp15p7 {
    #[asn(optional(complex(Ttp15p7Is, tag(APPLICATION(5)))), tag(APPLICATION(5)))] pub is: Option<Ttp15p7Is>,
    #[asn(optional(complex(Tapp9, tag(APPLICATION(9)))))] pub ra: Option<Tapp9>,
}

impl Ttp15p7 {
}

#[asn(sequence, tag(APPLICATION(5)))]

#[derive(Default, Debug, Clone, PartialEq, Hash)]
pub struct Ttp15p8Is {
    #[asn(integer(0..3))] pub v: u8,
}

impl Ttp15p8Is {
    pub const fn v_min() -> u8 {
        0
    }

    pub const fn v_max() -> u8 {
        3
    }
}

#[asn(set)]

#[derive(Default, Debug, Clone, PartialEq, Hash)]
pub struct Ttp15p8 {
    #[asn(optional(complex(Ttp15p8Is, tag(APPLICATION(5)))), tag(APPLICATION(5)))] pub is: Option<Ttp15p8Is>,
    #[asn(complex(Tsq, tag(UNIVERSAL(16))))] pub rs: Tsq,
}

impl Ttp15p8 {
}

#[asn(sequence, tag(APPLICATION(5)))]

#[derive(Default, Debug, Clone, PartialEq, Hash)]
pub struct Ttp15p9Is {
    #[asn(integer(0..3))] pub v: u8,
}

impl Ttp15p9Is {
    pub const fn v_min() -> u8 {
        0
    }

    pub const fn v_max() -> u8 {
        3
    }
}

#[asn(set)]

#[derive(Default, Debug, Clone, PartialEq, Hash)]
pub struct Ttp15p9 {
    #[asn(optional(complex(Ttp15p9Is, tag(APPLICATION(5)))), tag(APPLICATION(5)))] pub is: Option<Ttp15p9Is>,
    #[asn(optional(complex(Tcho, tag(1))))] pub rc: Option<Tcho>,
}

impl Ttp15p9 {
}

#[asn(sequence, tag(APPLICATION(5)))]

#[derive(Default, Debug, Clone, PartialEq, Hash)]
pub struct Ttp15p10Is {
    #[asn(integer(0..3))] pub v: u8,
}

impl Ttp15p10Is {
    pub const fn v_min() -> u8 {
        0
    }

    pub const fn v_max() -> u8 {
        3
    }
}

#[asn(set)]

#[derive(Default, Debug, Clone, PartialEq, Hash)]
pub struct Ttp15p10 {
    #[asn(optional(complex(Ttp15p10Is, tag(APPLICATION(5)))), tag(APPLICATION(5)))] pub is: Option<Ttp15p10Is>,
    #[asn(complex(Tst, tag(UNIVERSAL(17))))] pub rt: Tst,
}

impl Ttp15p10 {
}

#[asn(sequence, tag(APPLICATION(5)))]

#[derive(Default, Debug, Clone, PartialEq, Hash)]
pub struct Ttp15p11Is {
    #[asn(integer(0..3))] pub v: u8,
}

impl Ttp15p11Is {
    pub const fn v_min() -> u8 {
        0
    }

    pub const fn v_max() -> u8 {
        3
    }
}

#[asn(set)]

#[derive(Default, Debug, Clone, PartialEq, Hash)]
pub struct Ttp15p11 {
    #[asn(optional(complex(Ttp15p11Is, tag(APPLICATION(5)))), tag(APPLICATION(5)))] pub is: Option<Ttp15p11Is>,
    #[asn(optional(sequence_of(size(0..3), boolean)))] pub so: Option<Vec<bool>>,
}

impl Ttp15p11 {
}

#[asn(sequence, tag(APPLICATION(5)))]

#[derive(Default, Debug, Clone, PartialEq, Hash)]
pub struct Ttp15p12Is {
    #[asn(integer(0..3))] pub v: u8,
}

impl Ttp15p12Is {
    pub const fn v_min() -> u8 {
        0
    }

    pub const fn v_max() -> u8 {
        3
    }
}

#[asn(set)]

#[derive(Default, Debug, Clone, PartialEq, Hash)]
pub struct Ttp15p12 {
    #[asn(optional(complex(Ttp15p12Is, tag(APPLICATION(5)))), tag(APPLICATION(5)))] pub is: Option<Ttp15p12Is>,
    #[asn(set_of(size(0..2), boolean))] pub st: Vec<bool>,
}

impl Ttp15p12 {
}

#[asn(sequence, tag(APPLICATION(5)))]

#[derive(Default, Debug, Clone, PartialEq, Hash)]
pub struct Ttp15p13Is {
    #[asn(integer(0..3))] pub v: u8,
}

impl Ttp15p13Is {
    pub const fn v_min() -> u8 {
        0
    }

    pub const fn v_max() -> u8 {
        3
    }
}

#[asn(set)]

#[derive(Default, Debug, Clone, PartialEq, Hash)]
pub struct Ttp15p13 {
    #[asn(optional(complex(Ttp15p13Is, tag(APPLICATION(5)))), tag(APPLICATION(5)))] pub is: Option<Ttp15p13Is>,
    #[asn(optional(complex(Tchox, tag(PRIVATE(1)))))] pub rx: Option<Tchox>,
}

impl Ttp15p13 {
}

#[asn(sequence, tag(APPLICATION(5)))]

#[derive(Default, Debug, Clone, PartialEq, Hash)]
pub struct Ttp15p14Is {
    #[asn(integer(0..3))] pub v: u8,
}

impl Ttp15p14Is {
    pub const fn v_min() -> u8 {
        0
    }

    pub const fn v_max() -> u8 {
        3
    }
}

#[asn(set)]

#[derive(Default, Debug, Clone, PartialEq, Hash)]
pub struct Ttp15p14 {
    #[asn(optional(complex(Ttp15p14Is, tag(APPLICATION(5)))), tag(APPLICATION(5)))] pub is: Option<Ttp15p14Is>,
    #[asn(integer(0..1), tag(UNIVERSAL(2)))] pub u2: u8,
}

impl Ttp15p14 {
    pub const fn u2_min() -> u8 {
        0
    }

    pub const fn u2_max() -> u8 {
        1
    }
}
// ---- harness conversions (generated by the zoo build script from the items above) ----
impl FromValue for Tapp9 { fn from_value(v: &Value) -> Self { Tapp9(FromValue::from_value(v)) } }
impl ToValue for Tapp9 { fn to_value(&self) -> Value { self.0.to_value() } }
impl FromValue for Tsq {
    fn from_value(v: &Value) -> Self {
        let s = match v { Value::Seq(s) => s, other => panic!("Tsq: expected Seq, got {other:?}") };
        assert_eq!(s.len(), 1, "Tsq: component count");
        let _ = s;
        Tsq {
            z: FromValue::from_value(s[0].as_ref().expect("component z of Tsq must be present")),
        }
    }
}
impl ToValue for Tsq {
    fn to_value(&self) -> Value {
        Value::Seq(vec![
            Some(self.z.to_value()),
        ])
    }
}
impl FromValue for Tcho {
    fn from_value(v: &Value) -> Self {
        let (i, inner) = match v { Value::Choice(i, inner) => (*i, &**inner), other => panic!("Tcho: expected Choice, got {other:?}") };
        match i {
            0 => Tcho::M(FromValue::from_value(inner)),
            1 => Tcho::N(FromValue::from_value(inner)),
            _ => panic!("Tcho: alternative index {i} out of range"),
        }
    }
}
impl ToValue for Tcho {
    fn to_value(&self) -> Value {
        match self {
            Tcho::M(x) => Value::Choice(0, Box::new(x.to_value())),
            Tcho::N(x) => Value::Choice(1, Box::new(x.to_value())),
        }
    }
}
impl FromValue for Tchox {
    fn from_value(v: &Value) -> Self {
        let (i, inner) = match v { Value::Choice(i, inner) => (*i, &**inner), other => panic!("Tchox: expected Choice, got {other:?}") };
        match i {
            0 => Tchox::M(FromValue::from_value(inner)),
            1 => Tchox::N(FromValue::from_value(inner)),
            2 => Tchox::O(FromValue::from_value(inner)),
            _ => panic!("Tchox: alternative index {i} out of range"),
        }
    }
}
impl ToValue for Tchox {
    fn to_value(&self) -> Value {
        match self {
            Tchox::M(x) => Value::Choice(0, Box::new(x.to_value())),
            Tchox::N(x) => Value::Choice(1, Box::new(x.to_value())),
            Tchox::O(x) => Value::Choice(2, Box::new(x.to_value())),
        }
    }
}
impl FromValue for Tst {
    fn from_value(v: &Value) -> Self {
        let s = match v { Value::Seq(s) => s, other => panic!("Tst: expected Seq, got {other:?}") };
        assert_eq!(s.len(), 1, "Tst: component count");
        let _ = s;
        Tst {
            z: FromValue::from_value(s[0].as_ref().expect("component z of Tst must be present")),
        }
    }
}
impl ToValue for Tst {
    fn to_value(&self) -> Value {
        Value::Seq(vec![
            Some(self.z.to_value()),
        ])
    }
}
impl FromValue for Ttp14p15Is {
    fn from_value(v: &Value) -> Self {
        let s = match v { Value::Seq(s) => s, other => panic!("Ttp14p15Is: expected Seq, got {other:?}") };
        assert_eq!(s.len(), 1, "Ttp14p15Is: component count");
        let _ = s;
        Ttp14p15Is {
            v: FromValue::from_value(s[0].as_ref().expect("component v of Ttp14p15Is must be present")),
        }
    }
}
impl ToValue for Ttp14p15Is {
    fn to_value(&self) -> Value {
        Value::Seq(vec![
            Some(self.v.to_value()),
        ])
    }
}
impl FromValue for Ttp14p15 {
    fn from_value(v: &Value) -> Self {
        let s = match v { Value::Seq(s) => s, other => panic!("Ttp14p15: expected Seq, got {other:?}") };
        assert_eq!(s.len(), 2, "Ttp14p15: component count");
        let _ = s;
        Ttp14p15 {
            u2: FromValue::from_value(s[0].as_ref().expect("component u2 of Ttp14p15 must be present")),
            is: s[1].as_ref().map(FromValue::from_value),
        }
    }
}
impl ToValue for Ttp14p15 {
    fn to_value(&self) -> Value {
        Value::Seq(vec![
            Some(self.u2.to_value()),
            self.is.as_ref().map(|x| x.to_value()),
        ])
    }
}
impl FromValue for Ttp15p0Is {
    fn from_value(v: &Value) -> Self {
        let s = match v { Value::Seq(s) => s, other => panic!("Ttp15p0Is: expected Seq, got {other:?}") };
        assert_eq!(s.len(), 1, "Ttp15p0Is: component count");
        let _ = s;
        Ttp15p0Is {
            v: FromValue::from_value(s[0].as_ref().expect("component v of Ttp15p0Is must be present")),
        }
    }
}
impl ToValue for Ttp15p0Is {
    fn to_value(&self) -> Value {
        Value::Seq(vec![
            Some(self.v.to_value()),
        ])
    }
}
impl FromValue for Ttp15p0 {
    fn from_value(v: &Value) -> Self {
        let s = match v { Value::Seq(s) => s, other => panic!("Ttp15p0: expected Seq, got {other:?}") };
        assert_eq!(s.len(), 2, "Ttp15p0: component count");
        let _ = s;
        Ttp15p0 {
            is: s[0].as_ref().map(FromValue::from_value),
            x: FromValue::from_value(s[1].as_ref().expect("component x of Ttp15p0 must be present")),
        }
    }
}
impl ToValue for Ttp15p0 {
    fn to_value(&self) -> Value {
        Value::Seq(vec![
            self.is.as_ref().map(|x| x.to_value()),
            Some(self.x.to_value()),
        ])
    }
}
impl FromValue for Ttp15p1Is {
    fn from_value(v: &Value) -> Self {
        let s = match v { Value::Seq(s) => s, other => panic!("Ttp15p1Is: expected Seq, got {other:?}") };
        assert_eq!(s.len(), 1, "Ttp15p1Is: component count");
        let _ = s;
        Ttp15p1Is {
            v: FromValue::from_value(s[0].as_ref().expect("component v of Ttp15p1Is must be present")),
        }
    }
}
impl ToValue for Ttp15p1Is {
    fn to_value(&self) -> Value {
        Value::Seq(vec![
            Some(self.v.to_value()),
        ])
    }
}
impl FromValue for Ttp15p1 {
    fn from_value(v: &Value) -> Self {
        let s = match v { Value::Seq(s) => s, other => panic!("Ttp15p1: expected Seq, got {other:?}") };
        assert_eq!(s.len(), 2, "Ttp15p1: component count");
        let _ = s;
        Ttp15p1 {
            is: s[0].as_ref().map(FromValue::from_value),
            a: s[1].as_ref().map(FromValue::from_value),
        }
    }
}
impl ToValue for Ttp15p1 {
    fn to_value(&self) -> Value {
        Value::Seq(vec![
            self.is.as_ref().map(|x| x.to_value()),
            self.a.as_ref().map(|x| x.to_value()),
        ])
    }
}
impl FromValue for Ttp15p2Is {
    fn from_value(v: &Value) -> Self {
        let s = match v { Value::Seq(s) => s, other => panic!("Ttp15p2Is: expected Seq, got {other:?}") };
        assert_eq!(s.len(), 1, "Ttp15p2Is: component count");
        let _ = s;
        Ttp15p2Is {
            v: FromValue::from_value(s[0].as_ref().expect("component v of Ttp15p2Is must be present")),
        }
    }
}
impl ToValue for Ttp15p2Is {
    fn to_value(&self) -> Value {
        Value::Seq(vec![
            Some(self.v.to_value()),
        ])
    }
}
impl FromValue for Ttp15p2 {
    fn from_value(v: &Value) -> Self {
        let s = match v { Value::Seq(s) => s, other => panic!("Ttp15p2: expected Seq, got {other:?}") };
        assert_eq!(s.len(), 2, "Ttp15p2: component count");
        let _ = s;
        Ttp15p2 {
            is: s[0].as_ref().map(FromValue::from_value),
            c3: FromValue::from_value(s[1].as_ref().expect("component c3 of Ttp15p2 must be present")),
        }
    }
}
impl ToValue for Ttp15p2 {
    fn to_value(&self) -> Value {
        Value::Seq(vec![
            self.is.as_ref().map(|x| x.to_value()),
            Some(self.c3.to_value()),
        ])
    }
}
impl FromValue for Ttp15p3Is {
    fn from_value(v: &Value) -> Self {
        let s = match v { Value::Seq(s) => s, other => panic!("Ttp15p3Is: expected Seq, got {other:?}") };
        assert_eq!(s.len(), 1, "Ttp15p3Is: component count");
        let _ = s;
        Ttp15p3Is {
            v: FromValue::from_value(s[0].as_ref().expect("component v of Ttp15p3Is must be present")),
        }
    }
}
impl ToValue for Ttp15p3Is {
    fn to_value(&self) -> Value {
        Value::Seq(vec![
            Some(self.v.to_value()),
        ])
    }
}
impl FromValue for Ttp15p3 {
    fn from_value(v: &Value) -> Self {
        let s = match v { Value::Seq(s) => s, other => panic!("Ttp15p3: expected Seq, got {other:?}") };
        assert_eq!(s.len(), 2, "Ttp15p3: component count");
        let _ = s;
        Ttp15p3 {
            is: s[0].as_ref().map(FromValue::from_value),
            c0: s[1].as_ref().map(FromValue::from_value),
        }
    }
}
impl ToValue for Ttp15p3 {
    fn to_value(&self) -> Value {
        Value::Seq(vec![
            self.is.as_ref().map(|x| x.to_value()),
            self.c0.as_ref().map(|x| x.to_value()),
        ])
    }
}
impl FromValue for Ttp15p4Is {
    fn from_value(v: &Value) -> Self {
        let s = match v { Value::Seq(s) => s, other => panic!("Ttp15p4Is: expected Seq, got {other:?}") };
        assert_eq!(s.len(), 1, "Ttp15p4Is: component count");
        let _ = s;
        Ttp15p4Is {
            v: FromValue::from_value(s[0].as_ref().expect("component v of Ttp15p4Is must be present")),
        }
    }
}
impl ToValue for Ttp15p4Is {
    fn to_value(&self) -> Value {
        Value::Seq(vec![
            Some(self.v.to_value()),
        ])
    }
}
impl FromValue for Ttp15p4 {
    fn from_value(v: &Value) -> Self {
        let s = match v { Value::Seq(s) => s, other => panic!("Ttp15p4: expected Seq, got {other:?}") };
        assert_eq!(s.len(), 2, "Ttp15p4: component count");
        let _ = s;
        Ttp15p4 {
            is: s[0].as_ref().map(FromValue::from_value),
            p: FromValue::from_value(s[1].as_ref().expect("component p of Ttp15p4 must be present")),
        }
    }
}
impl ToValue for Ttp15p4 {
    fn to_value(&self) -> Value {
        Value::Seq(vec![
            self.is.as_ref().map(|x| x.to_value()),
            Some(self.p.to_value()),
        ])
    }
}
impl FromValue for Ttp15p5Is {
    fn from_value(v: &Value) -> Self {
        let s = match v { Value::Seq(s) => s, other => panic!("Ttp15p5Is: expected Seq, got {other:?}") };
        assert_eq!(s.len(), 1, "Ttp15p5Is: component count");
        let _ = s;
        Ttp15p5Is {
            v: FromValue::from_value(s[0].as_ref().expect("component v of Ttp15p5Is must be present")),
        }
    }
}
impl ToValue for Ttp15p5Is {
    fn to_value(&self) -> Value {
        Value::Seq(vec![
            Some(self.v.to_value()),
        ])
    }
}
impl FromValue for Ttp15p5 {
    fn from_value(v: &Value) -> Self {
        let s = match v { Value::Seq(s) => s, other => panic!("Ttp15p5: expected Seq, got {other:?}") };
        assert_eq!(s.len(), 2, "Ttp15p5: component count");
        let _ = s;
        Ttp15p5 {
            is: s[0].as_ref().map(FromValue::from_value),
            b: s[1].as_ref().map(FromValue::from_value),
        }
    }
}
impl ToValue for Ttp15p5 {
    fn to_value(&self) -> Value {
        Value::Seq(vec![
            self.is.as_ref().map(|x| x.to_value()),
            self.b.as_ref().map(|x| x.to_value()),
        ])
    }
}
impl FromValue for Ttp15p6Is {
    fn from_value(v: &Value) -> Self {
        let s = match v { Value::Seq(s) => s, other => panic!("Ttp15p6Is: expected Seq, got {other:?}") };
        assert_eq!(s.len(), 1, "Ttp15p6Is: component count");
        let _ = s;
        Ttp15p6Is {
            v: FromValue::from_value(s[0].as_ref().expect("component v of Ttp15p6Is must be present")),
        }
    }
}
impl ToValue for Ttp15p6Is {
    fn to_value(&self) -> Value {
        Value::Seq(vec![
            Some(self.v.to_value()),
        ])
    }
}
impl FromValue for Ttp15p6 {
    fn from_value(v: &Value) -> Self {
        let s = match v { Value::Seq(s) => s, other => panic!("Ttp15p6: expected Seq, got {other:?}") };
        assert_eq!(s.len(), 2, "Ttp15p6: component count");
        let _ = s;
        Ttp15p6 {
            is: s[0].as_ref().map(FromValue::from_value),
            i: FromValue::from_value(s[1].as_ref().expect("component i of Ttp15p6 must be present")),
        }
    }
}
impl ToValue for Ttp15p6 {
    fn to_value(&self) -> Value {
        Value::Seq(vec![
            self.is.as_ref().map(|x| x.to_value()),
            Some(self.i.to_value()),
        ])
    }
}
impl FromValue for Ttp15p7Is {
    fn from_value(v: &Value) -> Self {
        let s = match v { Value::Seq(s) => s, other => panic!("Ttp15p7Is: expected Seq, got {other:?}") };
        assert_eq!(s.len(), 1, "Ttp15p7Is: component count");
        let _ = s;
        Ttp15p7Is {
            v: FromValue::from_value(s[0].as_ref().expect("component v of Ttp15p7Is must be present")),
        }
    }
}
impl ToValue for Ttp15p7Is {
    fn to_value(&self) -> Value {
        Value::Seq(vec![
            Some(self.v.to_value()),
        ])
    }
}
impl FromValue for Ttp15p7 {
    fn from_value(v: &Value) -> Self {
        let s = match v { Value::Seq(s) => s, other => panic!("Ttp15p7: expected Seq, got {other:?}") };
        assert_eq!(s.len(), 2, "Ttp15p7: component count");
        let _ = s;
        Ttp15p7 {
            is: s[0].as_ref().map(FromValue::from_value),
            ra: s[1].as_ref().map(FromValue::from_value),
        }
    }
}
impl ToValue for Ttp15p7 {
    fn to_value(&self) -> Value {
        Value::Seq(vec![
            self.is.as_ref().map(|x| x.to_value()),
            self.ra.as_ref().map(|x| x.to_value()),
        ])
    }
}
impl FromValue for Ttp15p8Is {
    fn from_value(v: &Value) -> Self {
        let s = match v { Value::Seq(s) => s, other => panic!("Ttp15p8Is: expected Seq, got {other:?}") };
        assert_eq!(s.len(), 1, "Ttp15p8Is: component count");
        let _ = s;
        Ttp15p8Is {
            v: FromValue::from_value(s[0].as_ref().expect("component v of Ttp15p8Is must be present")),
        }
    }
}
impl ToValue for Ttp15p8Is {
    fn to_value(&self) -> Value {
        Value::Seq(vec![
            Some(self.v.to_value()),
        ])
    }
}
impl FromValue for Ttp15p8 {
    fn from_value(v: &Value) -> Self {
        let s = match v { Value::Seq(s) => s, other => panic!("Ttp15p8: expected Seq, got {other:?}") };
        assert_eq!(s.len(), 2, "Ttp15p8: component count");
        let _ = s;
        Ttp15p8 {
            is: s[0].as_ref().map(FromValue::from_value),
            rs: FromValue::from_value(s[1].as_ref().expect("component rs of Ttp15p8 must be present")),
        }
    }
}
impl ToValue for Ttp15p8 {
    fn to_value(&self) -> Value {
        Value::Seq(vec![
            self.is.as_ref().map(|x| x.to_value()),
            Some(self.rs.to_value()),
        ])
    }
}
impl FromValue for Ttp15p9Is {
    fn from_value(v: &Value) -> Self {
        let s = match v { Value::Seq(s) => s, other => panic!("Ttp15p9Is: expected Seq, got {other:?}") };
        assert_eq!(s.len(), 1, "Ttp15p9Is: component count");
        let _ = s;
        Ttp15p9Is {
            v: FromValue::from_value(s[0].as_ref().expect("component v of Ttp15p9Is must be present")),
        }
    }
}
impl ToValue for Ttp15p9Is {
    fn to_value(&self) -> Value {
        Value::Seq(vec![
            Some(self.v.to_value()),
        ])
    }
}
impl FromValue for Ttp15p9 {
    fn from_value(v: &Value) -> Self {
        let s = match v { Value::Seq(s) => s, other => panic!("Ttp15p9: expected Seq, got {other:?}") };
        assert_eq!(s.len(), 2, "Ttp15p9: component count");
        let _ = s;
        Ttp15p9 {
            is: s[0].as_ref().map(FromValue::from_value),
            rc: s[1].as_ref().map(FromValue::from_value),
        }
    }
}
impl ToValue for Ttp15p9 {
    fn to_value(&self) -> Value {
        Value::Seq(vec![
            self.is.as_ref().map(|x| x.to_value()),
            self.rc.as_ref().map(|x| x.to_value()),
        ])
    }
}
impl FromValue for Ttp15p10Is {
    fn from_value(v: &Value) -> Self {
        let s = match v { Value::Seq(s) => s, other => panic!("Ttp15p10Is: expected Seq, got {other:?}") };
        assert_eq!(s.len(), 1, "Ttp15p10Is: component count");
        let _ = s;
        Ttp15p10Is {
            v: FromValue::from_value(s[0].as_ref().expect("component v of Ttp15p10Is must be present")),
        }
    }
}
impl ToValue for Ttp15p10Is {
    fn to_value(&self) -> Value {
        Value::Seq(vec![
            Some(self.v.to_value()),
        ])
    }
}
impl FromValue for Ttp15p10 {
    fn from_value(v: &Value) -> Self {
        let s = match v { Value::Seq(s) => s, other => panic!("Ttp15p10: expected Seq, got {other:?}") };
        assert_eq!(s.len(), 2, "Ttp15p10: component count");
        let _ = s;
        Ttp15p10 {
            is: s[0].as_ref().map(FromValue::from_value),
            rt: FromValue::from_value(s[1].as_ref().expect("component rt of Ttp15p10 must be present")),
        }
    }
}
impl ToValue for Ttp15p10 {
    fn to_value(&self) -> Value {
        Value::Seq(vec![
            self.is.as_ref().map(|x| x.to_value()),
            Some(self.rt.to_value()),
        ])
    }
}
impl FromValue for Ttp15p11Is {
    fn from_value(v: &Value) -> Self {
        let s = match v { Value::Seq(s) => s, other => panic!("Ttp15p11Is: expected Seq, got {other:?}") };
        assert_eq!(s.len(), 1, "Ttp15p11Is: component count");
        let _ = s;
        Ttp15p11Is {
            v: FromValue::from_value(s[0].as_ref().expect("component v of Ttp15p11Is must be present")),
        }
    }
}
impl ToValue for Ttp15p11Is {
    fn to_value(&self) -> Value {
        Value::Seq(vec![
            Some(self.v.to_value()),
        ])
    }
}
impl FromValue for Ttp15p11 {
    fn from_value(v: &Value) -> Self {
        let s = match v { Value::Seq(s) => s, other => panic!("Ttp15p11: expected Seq, got {other:?}") };
        assert_eq!(s.len(), 2, "Ttp15p11: component count");
        let _ = s;
        Ttp15p11 {
            is: s[0].as_ref().map(FromValue::from_value),
            so: s[1].as_ref().map(FromValue::from_value),
        }
    }
}
impl ToValue for Ttp15p11 {
    fn to_value(&self) -> Value {
        Value::Seq(vec![
            self.is.as_ref().map(|x| x.to_value()),
            self.so.as_ref().map(|x| x.to_value()),
        ])
    }
}
impl FromValue for Ttp15p12Is {
    fn from_value(v: &Value) -> Self {
        let s = match v { Value::Seq(s) => s, other => panic!("Ttp15p12Is: expected Seq, got {other:?}") };
        assert_eq!(s.len(), 1, "Ttp15p12Is: component count");
        let _ = s;
        Ttp15p12Is {
            v: FromValue::from_value(s[0].as_ref().expect("component v of Ttp15p12Is must be present")),
        }
    }
}
impl ToValue for Ttp15p12Is {
    fn to_value(&self) -> Value {
        Value::Seq(vec![
            Some(self.v.to_value()),
        ])
    }
}
impl FromValue for Ttp15p12 {
    fn from_value(v: &Value) -> Self {
        let s = match v { Value::Seq(s) => s, other => panic!("Ttp15p12: expected Seq, got {other:?}") };
        assert_eq!(s.len(), 2, "Ttp15p12: component count");
        let _ = s;
        Ttp15p12 {
            is: s[0].as_ref().map(FromValue::from_value),
            st: FromValue::from_value(s[1].as_ref().expect("component st of Ttp15p12 must be present")),
        }
    }
}
impl ToValue for Ttp15p12 {
    fn to_value(&self) -> Value {
        Value::Seq(vec![
            self.is.as_ref().map(|x| x.to_value()),
            Some(self.st.to_value()),
        ])
    }
}
impl FromValue for Ttp15p13Is {
    fn from_value(v: &Value) -> Self {
        let s = match v { Value::Seq(s) => s, other => panic!("Ttp15p13Is: expected Seq, got {other:?}") };
        assert_eq!(s.len(), 1, "Ttp15p13Is: component count");
        let _ = s;
        Ttp15p13Is {
            v: FromValue::from_value(s[0].as_ref().expect("component v of Ttp15p13Is must be present")),
        }
    }
}
impl ToValue for Ttp15p13Is {
    fn to_value(&self) -> Value {
        Value::Seq(vec![
            Some(self.v.to_value()),
        ])
    }
}
impl FromValue for Ttp15p13 {
    fn from_value(v: &Value) -> Self {
        let s = match v { Value::Seq(s) => s, other => panic!("Ttp15p13: expected Seq, got {other:?}") };
        assert_eq!(s.len(), 2, "Ttp15p13: component count");
        let _ = s;
        Ttp15p13 {
            is: s[0].as_ref().map(FromValue::from_value),
            rx: s[1].as_ref().map(FromValue::from_value),
        }
    }
}
impl ToValue for Ttp15p13 {
    fn to_value(&self) -> Value {
        Value::Seq(vec![
            self.is.as_ref().map(|x| x.to_value()),
            self.rx.as_ref().map(|x| x.to_value()),
        ])
    }
}
impl FromValue for Ttp15p14Is {
    fn from_value(v: &Value) -> Self {
        let s = match v { Value::Seq(s) => s, other => panic!("Ttp15p14Is: expected Seq, got {other:?}") };
        assert_eq!(s.len(), 1, "Ttp15p14Is: component count");
        let _ = s;
        Ttp15p14Is {
            v: FromValue::from_value(s[0].as_ref().expect("component v of Ttp15p14Is must be present")),
        }
    }
}
impl ToValue for Ttp15p14Is {
    fn to_value(&self) -> Value {
        Value::Seq(vec![
            Some(self.v.to_value()),
        ])
    }
}
impl FromValue for Ttp15p14 {
    fn from_value(v: &Value) -> Self {
        let s = match v { Value::Seq(s) => s, other => panic!("Ttp15p14: expected Seq, got {other:?}") };
        assert_eq!(s.len(), 2, "Ttp15p14: component count");
        let _ = s;
        Ttp15p14 {
            is: s[0].as_ref().map(FromValue::from_value),
            u2: FromValue::from_value(s[1].as_ref().expect("component u2 of Ttp15p14 must be present")),
        }
    }
}
impl ToValue for Ttp15p14 {
    fn to_value(&self) -> Value {
        Value::Seq(vec![
            self.is.as_ref().map(|x| x.to_value()),
            Some(self.u2.to_value()),
        ])
    }
}

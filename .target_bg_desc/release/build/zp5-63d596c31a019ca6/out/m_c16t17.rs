use asn1rs::prelude::*;

#[asn(transparent, tag(APPLICATION(9)))]

#[derive(Default, Debug, Clone, PartialEq, Hash)]
pub struct Tapp9(#[asn(integer(0..3))] pub u8);

impl Tapp9 {
    pub const fn value_min() -> u8 {
        0
    }

    pub const fn value_max() -> u8 {
        3
    }
}

impl Tapp9 {
    pub const fn new(value: u8) -> Self {
        Self(value)
    }
}

impl ::core::ops::Deref for Tapp9 {
    type Target = u8;

    fn deref(&self) -> &u8 {
        &self.0
    }
}

impl ::core::ops::DerefMut for Tapp9 {
    fn deref_mut(&mut self) -> &mut u8 {
        &mut self.0
    }
}

impl ::core::convert::From<u8> for Tapp9 {
    fn from(value: u8) -> Self {
        Self(value)
    }
}

impl ::core::convert::From<Tapp9> for u8 {
    fn from(value: Tapp9) -> Self {
        value.0
    }
}

#[asn(sequence)]

#[derive(Default, Debug, Clone, PartialEq, Hash)]
pub struct Tsq {
    #[asn(boolean)] pub z: bool,
}

impl Tsq {
}

#[asn(choice)]

#[derive(Debug, Clone, PartialEq, Hash)]
pub enum Tcho {
    #[asn(boolean, tag(4))] M(bool),
    #[asn(integer(0..7), tag(1))] N(u8),
}

impl Tcho {
    pub fn variants() -> [Self; 2] {
        [
        Tcho::M(Default::default()),
        Tcho::N(Default::default()),
        ]
    }

    pub fn value_index(&self) -> usize {
        match self {
            Tcho::M(_) => 0,
            Tcho::N(_) => 1,
        }
    }

    pub const fn n_min() -> u8 {
        0
    }

    pub const fn n_max() -> u8 {
        7
    }
}

impl Default for Tcho {
    fn default() -> Tcho {
        Tcho::M(Default::default())
    }
}

#[asn(choice, extensible_after(N))]

#[derive(Debug, Clone, PartialEq, Hash)]
pub enum Tchox {
    #[asn(boolean, tag(PRIVATE(1)))] M(bool),
    #[asn(integer(0..7), tag(PRIVATE(3)))] N(u8),
    #[asn(null, tag(APPLICATION(2)))] O(Null),
}

impl Tchox {
    pub fn variants() -> [Self; 3] {
        [
        Tchox::M(Default::default()),
        Tchox::N(Default::default()),
        Tchox::O(Default::default()),
        ]
    }

    pub fn value_index(&self) -> usize {
        match self {
            Tchox::M(_) => 0,
            Tchox::N(_) => 1,
            Tchox::O(_) => 2,
        }
    }

    pub const fn n_min() -> u8 {
        0
    }

    pub const fn n_max() -> u8 {
        7
    }
}

impl Default for Tchox {
    fn default() -> Tchox {
        Tchox::M(Default::default())
    }
}

#[asn(set)]

#[derive(Default, Debug, Clone, PartialEq, Hash)]
pub struct Tst {
    #[asn(boolean)] pub z: bool,
}

impl Tst {
}

#[asn(set)]

#[derive(Default, Debug, Clone, PartialEq, Hash)]
pub struct Ttp9p11p12 {
    #[asn(optional(complex(Tcho, tag(1))))] pub rc: Option<Tcho>,
    #[asn(optional(sequence_of(size(0..3), boolean)))] pub so: Option<Vec<bool>>,
    #[asn(set_of(size(0..2), boolean))] pub st: Vec<bool>,
}

impl Ttp9p11p12 {
}

#[asn(set)]

#[derive(Default, Debug, Clone, PartialEq, Hash)]
pub struct Ttp9p11p13 {
    #[asn(optional(complex(Tcho, tag(1))))] pub rc: Option<Tcho>,
    #[asn(optional(sequence_of(size(0..3), boolean)))] pub so: Option<Vec<bool>>,
    #[asn(optional(complex(Tchox, tag(PRIVATE(1)))))] pub rx: Option<Tchox>,
}

impl Ttp9p11p13 {
}

#[asn(set)]

#[derive(Default, Debug, Clone, PartialEq, Hash)]
pub struct Ttp9p11p14 {
    #[asn(optional(complex(Tcho, tag(1))))] pub rc: Option<Tcho>,
    #[asn(optional(sequence_of(size(0..3), boolean)))] pub so: Option<Vec<bool>>,
    #[asn(integer(0..1), tag(UNIVERSAL(2)))] pub u2: u8,
}

impl Ttp9p11p14 {
    pub const fn u2_min() -> u8 {
        0
    }

    pub const fn u2_max() -> u8 {
        1
    }
}

#[asn(sequence, tag(APPLICATION(5)))]

#[derive(Default, Debug, Clone, PartialEq, Hash)]
pub struct Ttp9p11p15Is {
    #[asn(integer(0..3))] pub v: u8,
}

impl Ttp9p11p15Is {
    pub const fn v_min() -> u8 {
        0
    }

    pub const fn v_max() -> u8 {
        3
    }
}

#[asn(set)]

#[derive(Default, Debug, Clone, PartialEq, Hash)]
pub struct Ttp9p11p15 {
    #[asn(optional(complex(Tcho, tag(1))))] pub rc: Option<Tcho>,
    #[asn(optional(sequence_of(size(0..3), boolean)))] pub so: Option<Vec<bool>>,
    #[asn(optional(complex(Ttp9p11p15Is, tag(APPLICATION(5)))), tag(APPLICATION(5)))] pub is: Option<Ttp9p11p15Is>,
}

impl Ttp9p11p15 {
}

#[asn(set)]

#[derive(Default, Debug, Clone, PartialEq, Hash)]
pub struct Ttp9p12p0 {
    #[asn(optional(complex(Tcho, tag(1))))] pub rc: Option<Tcho>,
    #[asn(set_of(size(0..2), boolean))] pub st: Vec<bool>,
    #[asn(integer(0..7), tag(UNIVERSAL(30)))] pub x: u8,
}

impl Ttp9p12p0 {
    pub const fn x_min() -> u8 {
        0
    }

    pub const fn x_max() -> u8 {
        7
    }
}

#[asn(set)]

#[derive(Default, Debug, Clone, PartialEq, Hash)]
pub struct Ttp9p12p1 {
    #[asn(optional(complex(Tcho, tag(1))))] pub rc: Option<Tcho>,
    #[asn(set_of(size(0..2), boolean))] pub st: Vec<bool>,
    #[asn(optional(integer(0..15)), tag(APPLICATION(1)))] pub a: Option<u8>,
}

impl Ttp9p12p1 {
    pub const fn a_min() -> u8 {
        0
    }

    pub const fn a_max() -> u8 {
        15
    }
}

#[asn(set)]

#[derive(Default, Debug, Clone, PartialEq, Hash)]
pub struct Ttp9p12p2 {
    #[asn(optional(complex(Tcho, tag(1))))] pub rc: Option<Tcho>,
    #[asn(set_of(size(0..2), boolean))] pub st: Vec<bool>,
    #[asn(integer(0..31), tag(3))] pub c3: u8,
}

impl Ttp9p12p2 {
    pub const fn c3_min() -> u8 {
        0
    }

    pub const fn c3_max() -> u8 {
        31
    }
}

#[asn(set)]

#[derive(Default, Debug, Clone, PartialEq, Hash)]
pub struct Ttp9p12p3 {
    #[asn(optional(complex(Tcho, tag(1))))] pub rc: Option<Tcho>,
    #[asn(set_of(size(0..2), boolean))] pub st: Vec<bool>,
    #[asn(optional(integer(0..63)), tag(0))] pub c0: Option<u8>,
}

impl Ttp9p12p3 {
    pub const fn c0_min() -> u8 {
        0
    }

    pub const fn c0_max() -> u8 {
        63
    }
}

#[asn(set)]

#[derive(Default, Debug, Clone, PartialEq, Hash)]
pub struct Ttp9p12p4 {
    #[asn(optional(complex(Tcho, tag(1))))] pub rc: Option<Tcho>,
    #[asn(set_of(size(0..2), boolean))] pub st: Vec<bool>,
    #[asn(integer(0..127), tag(PRIVATE(2)))] pub p: u8,
}

impl Ttp9p12p4 {
    pub const fn p_min() -> u8 {
        0
    }

    pub const fn p_max() -> u8 {
        127
    }
}

#[asn(set)]

#[derive(Default, Debug, Clone, PartialEq, Hash)]
pub struct Ttp9p12p5 {
    #[asn(optional(complex(Tcho, tag(1))))] pub rc: Option<Tcho>,
    #[asn(set_of(size(0..2), boolean))] pub st: Vec<bool>,
    #[asn(optional(boolean))] pub b: Option<bool>,
}

impl Ttp9p12p5 {
}

#[asn(set)]

#[derive(Default, Debug, Clone, PartialEq, Hash)]
pub struct Ttp9p12p6 {
    #[asn(optional(complex(Tcho, tag(1))))] pub rc: Option<Tcho>,
    #[asn(set_of(size(0..2), boolean))] pub st: Vec<bool>,
    #[asn(integer(0..255))] pub i: u8,
}

impl Ttp9p12p6 {
    pub const fn i_min() -> u8 {
        0
    }

    pub const fn i_max() -> u8 {
        255
    }
}

#[asn(set)]

#[derive(Default, Debug, Clone, PartialEq, Hash)]
pub struct Ttp9p12p7 {
    #[asn(optional(complex(Tcho, tag(1))))] pub rc: Option<Tcho>,
    #[asn(set_of(size(0..2), boolean))] pub st: Vec<bool>,
    #[asn(optional(complex(Tapp9, tag(APPLICATION(9)))))] pub ra: Option<Tapp9>,
}

impl Ttp9p12p7 {
}

#[asn(set)]

#[derive(Default, Debug, Clone, PartialEq, Hash)]
pub struct Ttp9p12p8 {
    #[asn(optional(complex(Tcho, tag(1))))] pub rc: Option<Tcho>,
    #[asn(set_of(size(0..2), boolean))] pub st: Vec<bool>,
    #[asn(complex(Tsq, tag(UNIVERSAL(16))))] pub rs: Tsq,
}

impl Ttp9p12p8 {
}

#[asn(set)]

#[derive(Default, Debug, Clone, PartialEq, Hash)]
pub struct Ttp9p12p10 {
    #[asn(optional(complex(Tcho, tag(1))))] pub rc: Option<Tcho>,
    #[asn(set_of(size(0..2), boolean))] pub st: Vec<bool>,
    #[asn(complex(Tst, tag(UNIVERSAL(17))))] pub rt: Tst,
}

impl Ttp9p12p10 {
}

#[asn(set)]

#[derive(Default, Debug, Clone, PartialEq, Hash)]
pub struct Ttp9p12p11 {
    #[asn(optional(complex(Tcho, tag(1))))] pub rc: Option<Tcho>,
    #[asn(set_of(size(0..2), boolean))] pub st: Vec<bool>,
    #[asn(optional(sequence_of(size(0..3), boolean)))] pub so: Option<Vec<bool>>,
}

impl Ttp9p12p11 {
}

#[asn(set)]

#[derive(Default, Debug, Clone, PartialEq, Hash)]
pub struct Ttp9p12p13 {
    #[asn(optional(complex(Tcho, tag(1))))] pub rc: Option<Tcho>,
    #[asn(set_of(size(0..2), boolean))] pub st: Vec<bool>,
    #[asn(optional(complex(Tchox, tag(PRIVATE(1)))))] pub rx: Option<Tchox>,
}

impl Ttp9p12p13 {
}

#[asn(set)]

#[derive(Default, Debug, Clone, PartialEq, Hash)]
pub struct Ttp9p12p14 {
    #[asn(optional(complex(Tcho, tag(1))))] pub rc: Option<Tcho>,
    #[asn(set_of(size(0..2), boolean))] pub st: Vec<bool>,
    #[asn(integer(0..1), tag(UNIVERSAL(2)))] pub u2: u8,
}

impl Ttp9p12p14 {
    pub const fn u2_min() -> u8 {
        0
    }

    pub const fn u2_max() -> u8 {
        1
    }
}

#[asn(sequence, tag(APPLICATION(5)))]

#[derive(Default, Debug, Clone, PartialEq, Hash)]
pub struct Ttp9p12p15Is {
    #[asn(integer(0..3))] pub v: u8,
}

impl Ttp9p12p15Is {
    pub const fn v_min() -> u8 {
        0
    }

    pub const fn v_max() -> u8 {
        3
    }
}

#[asn(set)]

#[derive(Default, Debug, Clone, PartialEq, Hash)]
pub struct Ttp9p12p15 {
    #[asn(optional(complex(Tcho, tag(1))))] pub rc: Option<Tcho>,
    #[asn(set_of(size(0..2), boolean))] pub st: Vec<bool>,
    #[asn(optional(complex(Ttp9p12p15Is, tag(APPLICATION(5)))), tag(APPLICATION(5)))] pub is: Option<Ttp9p12p15Is>,
}

impl Ttp9p12p15 {
}

#[asn(set)]

#[derive(Default, Debug, Clone, PartialEq, Hash)]
pub struct Ttp9p13p0 {
    #[asn(optional(complex(Tcho, tag(1))))] pub rc: Option<Tcho>,
    #[asn(optional(complex(Tchox, tag(PRIVATE(1)))))] pub rx: Option<Tchox>,
    #[asn(integer(0..7), tag(UNIVERSAL(30)))] pub x: u8,
}

impl Ttp9p13p0 {
    pub const fn x_min() -> u8 {
        0
    }

    pub const fn x_max() -> u8 {
        7
    }
}

#[asn(set)]

#[derive(Default, Debug, Clone, PartialEq, Hash)]
pub struct Ttp9p13p1 {
    #[asn(optional(complex(Tcho, tag(1))))] pub rc: Option<Tcho>,
    #[asn(optional(complex(Tchox, tag(PRIVATE(1)))))] pub rx: Option<Tchox>,
    #[asn(optional(integer(0..15)), tag(APPLICATION(1)))] pub a: Option<u8>,
}

impl Ttp9p13p1 {
    pub const fn a_min() -> u8 {
        0
    }

    pub const fn a_max() -> u8 {
        15
    }
}

#[asn(set)]

#[derive(Default, Debug, Clone, PartialEq, Hash)]
pub struct Ttp9p13p2 {
    #[asn(optional(complex(Tcho, tag(1))))] pub rc: Option<Tcho>,
    #[asn(optional(complex(Tchox, tag(PRIVATE(1)))))] pub rx: Option<Tchox>,
    #[asn(integer(0..31), tag(3))] pub c3: u8,
}

impl Ttp9p13p2 {
    pub const fn c3_min() -> u8 {
        0
    }

    pub const fn c3_max() -> u8 {
        31
    }
}

#[asn(set)]

#[derive(Default, Debug, Clone, PartialEq, Hash)]
pub struct Ttp9p13p3 {
    #[asn(optional(complex(Tcho, tag(1))))] pub rc: Option<Tcho>,
    #[asn(optional(complex(Tchox, tag(PRIVATE(1)))))] pub rx: Option<Tchox>,
    #[asn(optional(integer(0..63)), tag(0))] pub c0: Option<u8>,
}

impl Ttp9p13p3 {
    pub const fn c0_min() -> u8 {
        0
    }

    pub const fn c0_max() -> u8 {
        63
    }
}

#[asn(set)]

#[derive(Default, Debug, Clone, PartialEq, Hash)]
pub struct Ttp9p13p4 {
    #[asn(optional(complex(Tcho, tag(1))))] pub rc: Option<Tcho>,
    #[asn(optional(complex(Tchox, tag(PRIVATE(1)))))] pub rx: Option<Tchox>,
    #[asn(integer(0..127), tag(PRIVATE(2)))] pub p: u8,
}

impl Ttp9p13p4 {
    pub const fn p_min() -> u8 {
        0
    }

    pub const fn p_max() -> u8 {
        127
    }
}

#[asn(set)]

#[derive(Default, Debug, Clone, PartialEq, Hash)]
pub struct Ttp9p13p5 {
    #[asn(optional(complex(Tcho, tag(1))))] pub rc: Option<Tcho>,
    #[asn(optional(complex(Tchox, tag(PRIVATE(1)))))] pub rx: Option<Tchox>,
    #[asn(optional(boolean))] pub b: Option<bool>,
}

impl Ttp9p13p5 {
}

#[asn(set)]

#[derive(Default, Debug, Clone, PartialEq, Hash)]
pub struct Ttp9p13p6 {
    #[asn(optional(complex(Tcho, tag(1))))] pub rc: Option<Tcho>,
    #[asn(optional(complex(Tchox, tag(PRIVATE(1)))))] pub rx: Option<Tchox>,
    #[asn(integer(0..255))] pub i: u8,
}

impl Ttp9p13p6 {
    pub const fn i_min() -> u8 {
        0
    }

    pub const fn i_max() -> u8 {
        255
    }
}

#[asn(set)]

#[derive(Default, Debug, Clone, PartialEq, Hash)]
pub struct Ttp9p13p7 {
    #[asn(optional(complex(Tcho, tag(1))))] pub rc: Option<Tcho>,
    #[asn(optional(complex(Tchox, tag(PRIVATE(1)))))] pub rx: Option<Tchox>,
    #[asn(optional(complex(Tapp9, tag(APPLICATION(9)))))] pub ra: Option<Tapp9>,
}

impl Ttp9p13p7 {
}

#[asn(set)]

#[derive(Default, Debug, Clone, PartialEq, Hash)]
pub struct Ttp9p13p8 {
    #[asn(optional(complex(Tcho, tag(1))))] pub rc: Option<Tcho>,
    #[asn(optional(complex(Tchox, tag(PRIVATE(1)))))] pub rx: Option<Tchox>,
    #[asn(complex(Tsq, tag(UNIVERSAL(16))))] pub rs: Tsq,
}

impl Ttp9p13p8 {
}

#[asn(set)]

#[derive(Default, Debug, Clone, PartialEq, Hash)]
pub struct Ttp9p13p10 {
    #[asn(optional(complex(Tcho, tag(1))))] pub rc: Option<Tcho>,
    #[asn(optional(complex(Tchox, tag(PRIVATE(1)))))] pub rx: Option<Tchox>,
    #[asn(complex(Tst, tag(UNIVERSAL(17))))] pub rt: Tst,
}

impl Ttp9p13p10 {
}

#[asn(set)]

#[derive(Default, Debug, Clone, PartialEq, Hash)]
pub struct Ttp9p13p11 {
    #[asn(optional(complex(Tcho, tag(1))))] pub rc: Option<Tcho>,
    #[asn(optional(complex(Tchox, tag(PRIVATE(1)))))] pub rx: Option<Tchox>,
    #[asn(optional(sequence_of(size(0..3), boolean)))] pub so: Option<Vec<bool>>,
}

impl Ttp9p13p11 {
}

#[asn(set)]

#[derive(Default, Debug, Clone, PartialEq, Hash)]
pub struct Ttp9p13p12 {
    #[asn(optional(complex(Tcho, tag(1))))] pub rc: Option<Tcho>,
    #[asn(optional(complex(Tchox, tag(PRIVATE(1)))))] pub rx: Option<Tchox>,
    #[asn(set_of(size(0..2), boolean))] pub st: Vec<bool>,
}

impl Ttp9p13p12 {
}

#[asn(set)]

#[derive(Default, Debug, Clone, PartialEq, Hash)]
pub struct Ttp9p13p14 {
    #[asn(optional(complex(Tcho, tag(1))))] pub rc: Option<Tcho>,
    #[asn(optional(complex(Tchox, tag(PRIVATE(1)))))] pub rx: Option<Tchox>,
    #[asn(integer(0..1), tag(UNIVERSAL(2)))] pub u2: u8,
}

impl Ttp9p13p14 {
    pub const fn u2_min() -> u8 {
        0
    }

    pub const fn u2_max() -> u8 {
        1
    }
}

#[asn(sequence, tag(APPLICATION(5)))]

#[derive(Default, Debug, Clone, PartialEq, Hash)]
pub struct Ttp9p13p15Is {
    #[asn(integer(0..3))] pub v: u8,
}

impl Ttp9p13p15Is {
    pub const fn v_min() -> u8 {
        0
    }

    pub const fn v_max() -> u8 {
        3
    }
}

#[asn(set)]

#[derive(Default, Debug, Clone, PartialEq, Hash)]
pub struct Ttp9p13p15 {
    #[asn(optional(complex(Tcho, tag(1))))] pub rc: Option<Tcho>,
    #[asn(optional(complex(Tchox, tag(PRIVATE(1)))))] pub rx: Option<Tchox>,
    #[asn(optional(complex(Ttp9p13p15Is, tag(APPLICATION(5)))), tag(APPLICATION(5)))] pub is: Option<Ttp9p13p15Is>,
}

impl Ttp9p13p15 {
}

#[asn(set)]

#[derive(Default, Debug, Clone, PartialEq, Hash)]
pub struct Ttp9p14p0 {
    #[asn(optional(complex(Tcho, tag(1))))] pub rc: Option<Tcho>,
    #[asn(integer(0..1), tag(UNIVERSAL(2)))] pub u2: u8,
    #[asn(integer(0..7), tag(UNIVERSAL(30)))] pub x: u8,
}

impl Ttp9p14p0 {
    pub const fn u2_min() -> u8 {
        0
    }

    pub const fn u2_max() -> u8 {
        1
    }

    pub const fn x_min() -> u8 {
        0
    }

    pub const fn x_max() -> u8 {
        7
    }
}

#[asn(set)]

#[derive(Default, Debug, Clone, PartialEq, Hash)]
pub struct Ttp9p14p1 {
    #[asn(optional(complex(Tcho, tag(1))))] pub rc: Option<Tcho>,
    #[asn(integer(0..1), tag(UNIVERSAL(2)))] pub u2: u8,
    #[asn(optional(integer(0..15)), tag(APPLICATION(1)))] pub a: Option<u8>,
}

impl Ttp9p14p1 {
    pub const fn u2_min() -> u8 {
        0
    }

    pub const fn u2_max() -> u8 {
        1
    }

    pub const fn a_min() -> u8 {
        0
    }

    pub const fn a_max() -> u8 {
        15
    }
}

#[asn(set)]

#[derive(Default, Debug, Clone, PartialEq, Hash)]
pub struct Ttp9p14p2 {
    #[asn(optional(complex(Tcho, tag(1))))] pub rc: Option<Tcho>,
    #[asn(integer(0..1), tag(UNIVERSAL(2)))] pub u2: u8,
    #[asn(integer(0..31), tag(3))] pub c3: u8,
}

impl Ttp9p14p2 {
    pub const fn u2_min() -> u8 {
        0
    }

    pub const fn u2_max() -> u8 {
        1
    }

    pub const fn c3_min() -> u8 {
        0
    }

    pub const fn c3_max() -> u8 {
        31
    }
}

#[asn(set)]

#[derive(Default, Debug, Clone, PartialEq, Hash)]
pub struct Ttp9p14p3 {
    #[asn(optional(complex(Tcho, tag(1))))] pub rc: Option<Tcho>,
    #[asn(integer(0..1), tag(UNIVERSAL(2)))] pub u2: u8,
    #[asn(optional(integer(0..63)), tag(0))] pub c0: Option<u8>,
}

impl Ttp9p14p3 {
    pub const fn u2_min() -> u8 {
        0
    }

    pub const fn u2_max() -> u8 {
        1
    }

    pub const fn c0_min() -> u8 {
        0
    }

    pub const fn c0_max() -> u8 {
        63
    }
}

#[asn(set)]

#[derive(Default, Debug, Clone, PartialEq, Hash)]
pub struct Ttp9p14p4 {
    #[asn(optional(complex(Tcho, tag(1))))] pub rc: Option<Tcho>,
    #[asn(integer(0..1), tag(UNIVERSAL(2)))] pub u2: u8,
    #[asn(integer(0..127), tag(PRIVATE(2)))] pub p: u8,
}

impl Ttp9p14p4 {
    pub const fn u2_min() -> u8 {
        0
    }

    pub const fn u2_max() -> u8 {
        1
    }

    pub const fn p_min() -> u8 {
        0
    }

    pub const fn p_max() -> u8 {
        127
    }
}

#[asn(set)]

#[derive(Default, Debug, Clone, PartialEq, Hash)]
pub struct Ttp9p14p5 {
    #[asn(optional(complex(Tcho, tag(1))))] pub rc: Option<Tcho>,
    #[asn(integer(0..1), tag(UNIVERSAL(2)))] pub u2: u8,
    #[asn(optional(boolean))] pub b: Option<bool>,
}

impl Ttp9p14p5 {
    pub const fn u2_min() -> u8 {
        0
    }

    pub const fn u2_max() -> u8 {
        1
    }
}

#[asn(set)]

#[derive(Default, Debug, Clone, PartialEq, Hash)]
pub struct Ttp9p14p6 {
    #[asn(optional(complex(Tcho, tag(1))))] pub rc: Option<Tcho>,
    #[asn(integer(0..1), tag(UNIVERSAL(2)))] pub u2: u8,
    #[asn(integer(0..255))] pub i: u8,
}

impl Ttp9p14p6 {
    pub const fn u2_min() -> u8 {
        0
    }

    pub const fn u2_max() -> u8 {
        1
    }

    pub const fn i_min() -> u8 {
        0
    }

    pub const fn i_max() -> u8 {
        255
    }
}

#[asn(set)]

#[derive(Default, Debug, Clone, PartialEq, Hash)]
pub struct Ttp9p14p7 {
    #[asn(optional(complex(Tcho, tag(1))))] pub rc: Option<Tcho>,
    #[asn(integer(0..1), tag(UNIVERSAL(2)))] pub u2: u8,
    #[asn(optional(complex(Tapp9, tag(APPLICATION(9)))))] pub ra: Option<Tapp9>,
}

impl Ttp9p14p7 {
    pub const fn u2_min() -> u8 {
        0
    }

    pub const fn u2_max() -> u8 {
        1
    }
}

#[asn(set)]

#[derive(Default, Debug, Clone, PartialEq, Hash)]
pub struct Ttp9p14p8 {
    #[asn(optional(complex(Tcho, tag(1))))] pub rc: Option<Tcho>,
    #[asn(integer(0..1), tag(UNIVERSAL(2)))] pub u2: u8,
    #[asn(complex(Tsq, tag(UNIVERSAL(16))))] pub rs: Tsq,
}

impl Ttp9p14p8 {
    pub const fn u2_min() -> u8 {
        0
    }

    pub const fn u2_max() -> u8 {
        1
    }
}

#[asn(set)]

#[derive(Default, Debug, Clone, PartialEq, Hash)]
pub struct Ttp9p14p10 {
    #[asn(optional(complex(Tcho, tag(1))))] pub rc: Option<Tcho>,
    #[asn(integer(0..1), tag(UNIVERSAL(2)))] pub u2: u8,
    #[asn(complex(Tst, tag(UNIVERSAL(17))))] pub rt: Tst,
}

impl Ttp9p14p10 {
    pub const fn u2_min() -> u8 {
        0
    }

    pub const fn u2_max() -> u8 {
        1
    }
}

#[asn(set)]

#[derive(Default, Debug, Clone, PartialEq, Hash)]
pub struct Ttp9p14p11 {
    #[asn(optional(complex(Tcho, tag(1))))] pub rc: Option<Tcho>,
    #[asn(integer(0..1), tag(UNIVERSAL(2)))] pub u2: u8,
    #[asn(optional(sequence_of(size(0..3), boolean)))] pub so: Option<Vec<bool>>,
}

impl Ttp9p14p11 {
    pub const fn u2_min() -> u8 {
        0
    }

    pub const fn u2_max() -> u8 {
        1
    }
}

#[asn(set)]

#[derive(Default, Debug, Clone, PartialEq, Hash)]
pub struct Ttp9p14p12 {
    #[asn(optional(complex(Tcho, tag(1))))] pub rc: Option<Tcho>,
    #[asn(integer(0..1), tag(UNIVERSAL(2)))] pub u2: u8,
    #[asn(set_of(size(0..2), boolean))] pub st: Vec<bool>,
}

impl Ttp9p14p12 {
    pub const fn u2_min() -> u8 {
        0
    }

    pub const fn u2_max() -> u8 {
        1
    }
}

#[asn(set)]

#[derive(Default, Debug, Clone, PartialEq, Hash)]
pub struct Ttp9p14p13 {
    #[asn(optional(complex(Tcho, tag(1))))] pub rc: Option<Tcho>,
    #[asn(integer(0..1), tag(UNIVERSAL(2)))] pub u2: u8,
    #[asn(optional(complex(Tchox, tag(PRIVATE(1)))))] pub rx: Option<Tchox>,
}

impl Ttp9p14p13 {
    pub const fn u2_min() -> u8 {
        0
    }

    pub const fn u2_max() -> u8 {
        1
    }
}

#[asn(sequence, tag(APPLICATION(5)))]

#[derive(Default, Debug, Clone, PartialEq, Hash)]
pub struct Ttp9p14p15Is {
    #[asn(integer(0..3))] pub v: u8,
}

impl Ttp9p14p15Is {
    pub const fn v_min() -> u8 {
        0
    }

    pub const fn v_max() -> u8 {
        3
    }
}

#[asn(set)]

#[derive(Default, Debug, Clone, PartialEq, Hash)]
pub struct Ttp9p14p15 {
    #[asn(optional(complex(Tcho, tag(1))))] pub rc: Option<Tcho>,
    #[asn(integer(0..1), tag(UNIVERSAL(2)))] pub u2: u8,
    #[asn(optional(complex(Ttp9p14p15Is, tag(APPLICATION(5)))), tag(APPLICATION(5)))] pub is: Option<Ttp9p14p15Is>,
}

impl Ttp9p14p15 {
    pub const fn u2_min() -> u8 {
        0
    }

    pub const fn u2_max() -> u8 {
        1
    }
}

#[asn(sequence, tag(APPLICATION(5)))]

#[derive(Default, Debug, Clone, PartialEq, Hash)]
pub struct Ttp9p15p0Is {
    #[asn(integer(0..3))] pub v: u8,
}

impl Ttp9p15p0Is {
    pub const fn v_min() -> u8 {
        0
    }

    pub const fn v_max() -> u8 {
        3
    }
}

#[asn(set)]

#[derive(Default, Debug, Clone, PartialEq, Hash)]
pub struct Ttp9p15p0 {
    #[asn(optional(complex(Tcho, tag(1))))] pub rc: Option<Tcho>,
    #[asn(optional(complex(Ttp9p15p0Is, tag(APPLICATION(5)))), tag(APPLICATION(5)))] pub is: Option<Ttp9p15p0Is>,
    #[asn(integer(0..7), tag(UNIVERSAL(30)))] pub x: u8,
}

impl Ttp9p15p0 {
    pub const fn x_min() -> u8 {
        0
    }

    pub const fn x_max() -> u8 {
        7
    }
}

#[asn(sequence, tag(APPLICATION(5)))]

#[derive(Default, Debug, Clone, PartialEq, Hash)]
pub struct Ttp9p15p1Is {
    #[asn(integer(0..3))] pub v: u8,
}

impl Ttp9p15p1Is {
    pub const fn v_min() -> u8 {
        0
    }

    pub const fn v_max() -> u8 {
        3
    }
}

#[asn(set)]

#[derive(Default, Debug, Clone, PartialEq, Hash)]
pub struct Ttp9p15p1 {
    #[asn(optional(complex(Tcho, tag(1))))] pub rc: Option<Tcho>,
    #[asn(optional(complex(Ttp9p15p1Is, tag(APPLICATION(5)))), tag(APPLICATION(5)))] pub is: Option<Ttp9p15p1Is>,
    #[asn(optional(integer(0..15)), tag(APPLICATION(1)))] pub a: Option<u8>,
}

impl Ttp9p15p1 {
    pub const fn a_min() -> u8 {
        0
    }

    pub const fn a_max() -> u8 {
        15
    }
}

#[asn(sequence, tag(APPLICATION(5)))]

#[derive(Default, Debug, Clone, PartialEq, Hash)]
pub struct Ttp9p15p2Is {
    #[asn(integer(0..3))] pub v: u8,
}

impl Ttp9p15p2Is {
    pub const fn v_min() -> u8 {
        0
    }

    pub const fn v_max() -> u8 {
        3
    }
}

#[asn(set)]

#[derive(Default, Debug, Clone, PartialEq, Hash)]
pub struct Ttp9p15p2 {
    #[asn(optional(complex(Tcho, tag(1))))] pub rc: Option<Tcho>,
    #[asn(optional(complex(Ttp9p15p2Is, tag(APPLICATION(5)))), tag(APPLICATION(5)))] pub is: Option<Ttp9p15p2Is>,
    #[asn(integer(0..31), tag(3))] pub c3: u8,
}

impl Ttp9p15p2 {
    pub const fn c3_min() -> u8 {
        0
    }

    pub const fn c3_max() -> u8 {
        31
    }
}

#[asn(sequence, tag(APPLICATION(5)))]

#[derive(Default, Debug, Clone, PartialEq, Hash)]
pub struct Ttp9p15p3Is {
    #[asn(integer(0..3))] pub v: u8,
}

impl Ttp9p15p3Is {
    pub const fn v_min() -> u8 {
        0
    }

    pub const fn v_max() -> u8 {
        3
    }
}

#[asn(set)]

#[derive(Default, Debug, Clone, PartialEq, Hash)]
pub struct Ttp9p15p3 {
    #[asn(optional(complex(Tcho, tag(1))))] pub rc: Option<Tcho>,
    #[asn(optional(complex(Ttp9p15p3Is, tag(APPLICATION(5)))), tag(APPLICATION(5)))] pub is: Option<Ttp9p15p3Is>,
    #[asn(optional(integer(0..63)), tag(0))] pub c0: Option<u8>,
}

impl Ttp9p15p3 {
    pub const fn c0_min() -> u8 {
        0
    }

    pub const fn c0_max() -> u8 {
        63
    }
}

#[asn(sequence, tag(APPLICATION(5)))]

#[derive(Default, Debug, Clone, PartialEq, Hash)]
pub struct Ttp9p15p4Is {
    #[asn(integer(0..3))] pub v: u8,
}

impl Ttp9p15p4Is {
    pub const fn v_min() -> u8 {
        0
    }

    pub const fn v_max() -> u8 {
        3
    }
}

#[asn(set)]

#[derive(Default, Debug, Clone, PartialEq, Hash)]
pub struct Ttp9p15p4 {
    #[asn(optional(complex(Tcho, tag(1))))] pub rc: Option<Tcho>,
    #[asn(optional(complex(Ttp9p15p4Is, tag(APPLICATION(5)))), tag(APPLICATION(5)))] pub is: Option<Ttp9p15p4Is>,
    #[asn(integer(0..127), tag(PRIVATE(2)))] pub p: u8,
}

impl Ttp9p15p4 {
    pub const fn p_min() -> u8 {
        0
    }

    pub const fn p_max() -> u8 {
        127
    }
}

#[asn(sequence, tag(APPLICATION(5)))]

#[derive(Default, Debug, Clone, PartialEq, Hash)]
pub struct Ttp9p15p5Is {
    #[asn(integer(0..3))] pub v: u8,
}

impl Ttp9p15p5Is {
    pub const fn v_min() -> u8 {
        0
    }

    pub const fn v_max() -> u8 {
        3
    }
}

#[asn(set)]

#[derive(Default, Debug, Clone, PartialEq, Hash)]
pub struct Ttp9p15p5 {
    #[asn(optional(complex(Tcho, tag(1))))] pub rc: Option<Tcho>,
    #[asn(optional(complex(Ttp9p15p5Is, tag(APPLICATION(5)))), tag(APPLICATION(5)))] pub is: Option<Ttp9p15p5Is>,
    #[asn(optional(boolean))] pub b: Option<bool>,
}

impl Ttp9p15p5 {
}

#[asn(sequence, tag(APPLICATION(5)))]

#[derive(Default, Debug, Clone, PartialEq, Hash)]
pub struct Ttp9p15p6Is {
    #[asn(integer(0..3))] pub v: u8,
}

impl Ttp9p15p6Is {
    pub const fn v_min() -> u8 {
        0
    }

    pub const fn v_max() -> u8 {
        3
    }
}

#[asn(set)]

#[derive(Default, Debug, Clone, PartialEq, Hash)]
pub struct Ttp9p15p6 {
    #[asn(optional(complex(Tcho, tag(1))))] pub rc: Option<Tcho>,
    #[asn(optional(complex(Ttp9p15p6Is, tag(APPLICATION(5)))), tag(APPLICATION(5)))] pub is: Option<Ttp9p15p6Is>,
    #[asn(integer(0..255))] pub i: u8,
}

impl Ttp9p15p6 {
    pub const fn i_min() -> u8 {
        0
    }

    pub const fn i_max() -> u8 {
        255
    }
}

#[asn(sequence, tag(APPLICATION(5)))]

#[derive(Default, Debug, Clone, PartialEq, Hash)]
pub struct Ttp9p15p7Is {
    #[asn(integer(0..3))] pub v: u8,
}

impl Ttp9p15p7Is {
    pub const fn v_min() -> u8 {
        0
    }

    pub const fn v_max() -> u8 {
        3
    }
}

#[asn(set)]

#[derive(Default, Debug, Clone, PartialEq, Hash)]
pub struct Ttp9p15p7 {
    #[asn(optional(complex(Tcho, tag(1))))] pub rc: Option<Tcho>,
    #[asn(optional(complex(Ttp9p15p7Is, tag(APPLICATION(5)))), tag(APPLICATION(5)))] pub is: Option<Ttp9p15p7Is>,
    #[asn(optional(complex(Tapp9, tag(APPLICATION(9)))))] pub ra: Option<Tapp9>,
}

impl Ttp9p15p7 {
}

#[asn(sequence, tag(APPLICATION(5)))]

#[derive(Default, Debug, Clone, PartialEq, Hash)]
pub struct Ttp9p15p8Is {
    #[asn(integer(0..3))] pub v: u8,
}

impl Ttp9p15p8Is {
    pub const fn v_min() -> u8 {
        0
    }

    pub const fn v_max() -> u8 {
        3
    }
}

#[asn(set)]

#[derive(Default, Debug, Clone, PartialEq, Hash)]
pub struct Ttp9p15p8 {
    #[asn(optional(complex(Tcho, tag(1))))] pub rc: Option<Tcho>,
    #[asn(optional(complex(Ttp9p15p8Is, tag(APPLICATION(5)))), tag(APPLICATION(5)))] pub is: Option<Ttp9p15p8Is>,
    #[asn(complex(Tsq, tag(UNIVERSAL(16))))] pub rs: Tsq,
}

impl Ttp9p15p8 {
}

#[asn(sequence, tag(APPLICATION(5)))]

#[derive(Default, Debug, Clone, PartialEq, Hash)]
pub struct Ttp9p15p10Is {
    #[asn(integer(0..3))] pub v: u8,
}

impl Ttp9p15p10Is {
    pub const fn v_min() -> u8 {
        0
    }

    pub const fn v_max() -> u8 {
        3
    }
}

#[asn(set)]

#[derive(Default, Debug, Clone, PartialEq, Hash)]
pub struct Ttp9p15p10 {
    #[asn(optional(complex(Tcho, tag(1))))] pub rc: Option<Tcho>,
    #[asn(optional(complex(Ttp9p15p10Is, tag(APPLICATION(5)))), tag(APPLICATION(5)))] pub is: Option<Ttp9p15p10Is>,
    #[asn(complex(Tst, tag(UNIVERSAL(17))))] pub rt: Tst,
}

impl Ttp9p15p10 {
}

#[asn(sequence, tag(APPLICATION(5)))]

#[derive(Default, Debug, Clone, PartialEq, Hash)]
pub struct Ttp9p15p11Is {
    #[asn(integer(0..3))] pub v: u8,
}

impl Ttp9p15p11Is {
    pub const fn v_min() -> u8 {
        0
    }

    pub const fn v_max() -> u8 {
        3
    }
}

#[asn(set)]

#[derive(Default, Debug, Clone, PartialEq, Hash)]
pub struct Ttp9p15p11 {
    #[asn(optional(complex(Tcho, tag(1))))] pub rc: Option<Tcho>,
    #[asn(optional(complex(Ttp9p15p11Is, tag(APPLICATION(5)))), tag(APPLICATION(5)))] pub is: Option<Ttp9p15p11Is>,
    #[asn(optional(sequence_of(size(0..3), boolean)))] pub so: Option<Vec<bool>>,
}

impl Ttp9p15p11 {
}

#[asn(sequence, tag(APPLICATION(5)))]

#[derive(Default, Debug, Clone, PartialEq, Hash)]
pub struct Ttp9p15p12Is {
    #[asn(integer(0..3))] pub v: u8,
}

impl Ttp9p15p12Is {
    pub const fn v_min() -> u8 {
        0
    }

    pub const fn v_max() -> u8 {
        3
    }
}

#[asn(set)]

#[derive(Default, Debug, Clone, PartialEq, Hash)]
pub struct Ttp9p15p12 {
    #[asn(optional(complex(Tcho, tag(1))))] pub rc: Option<Tcho>,
    #[asn(optional(complex(Ttp9p15p12Is, tag(APPLICATION(5)))), tag(APPLICATION(5)))] pub is: Option<Ttp9p15p12Is>,
    #[asn(set_of(size(0..2), boolean))] pub st: Vec<bool>,
}

impl Ttp9p15p12 {
}

#[asn(sequence, tag(APPLICATION(5)))]

#[derive(Default, Debug, Clone, PartialEq, Hash)]
pub struct Ttp9p15p13Is {
    #[asn(integer(0..3))] pub v: u8,
}

impl Ttp9p15p13Is {
    pub const fn v_min() -> u8 {
        0
    }

    pub const fn v_max() -> u8 {
        3
    }
}

#[asn(set)]

#[derive(Default, Debug, Clone, PartialEq, Hash)]
pub struct Ttp9p15p13 {
    #[asn(optional(complex(Tcho, tag(1))))] pub rc: Option<Tcho>,
    #[asn(optional(complex(Ttp9p15p13Is, tag(APPLICATION(5)))), tag(APPLICATION(5)))] pub is: Option<Ttp9p15p13Is>,
    #[asn(optional(complex(Tchox, tag(PRIVATE(1)))))] pub rx: Option<Tchox>,
}

impl Ttp9p15p13 {
}

#[asn(sequence, tag(APPLICATION(5)))]

#[derive(Default, Debug, Clone, PartialEq, Hash)]
pub struct Ttp9p15p14Is {
    #[asn(integer(0..3))] pub v: u8,
}

impl Ttp9p15p14Is {
    pub const fn v_min() -> u8 {
        0
    }

    pub const fn v_max() -> u8 {
        3
    }
}

#[asn(set)]

#[derive(Default, Debug, Clone, PartialEq, Hash)]
pub struct Ttp9p15p14 {
    #[asn(optional(complex(Tcho, tag(1))))] pub rc: Option<Tcho>,
    #[asn(optional(complex(Ttp9p15p14Is, tag(APPLICATION(5)))), tag(APPLICATION(5)))] pub is: Option<Ttp9p15p14Is>,
    #[asn(integer(0..1), tag(UNIVERSAL(2)))] pub u2: u8,
}

impl Ttp9p15p14 {
    pub const fn u2_min() -> u8 {
        0
    }

    pub const fn u2_max() -> u8 {
        1
    }
}

#[asn(set)]

#[derive(Default, Debug, Clone, PartialEq, Hash)]
pub struct Ttp10p0p1 {
    #[asn(complex(Tst, tag(UNIVERSAL(17))))] pub rt: Tst,
    #[asn(integer(0..7), tag(UNIVERSAL(30)))] pub x: u8,
    #[asn(optional(integer(0..15)), tag(APPLICATION(1)))] pub a: Option<u8>,
}

impl Ttp10p0p1 {
    pub const fn x_min() -> u8 {
        0
    }

    pub const fn x_max() -> u8 {
        7
    }

    pub const fn a_min() -> u8 {
        0
    }

    pub const fn a_max() -> u8 {
        15
    }
}

#[asn(set)]

#[derive(Default, Debug, Clone, PartialEq, Hash)]
pub struct Ttp10p0p2 {
    #[asn(complex(Tst, tag(UNIVERSAL(17))))] pub rt: Tst,
    #[asn(integer(0..7), tag(UNIVERSAL(30)))] pub x: u8,
    #[asn(integer(0..31), tag(3))] pub c3: u8,
}

impl Ttp10p0p2 {
    pub const fn x_min() -> u8 {
        0
    }

    pub const fn x_max() -> u8 {
        7
    }

    pub const fn c3_min() -> u8 {
        0
    }

    pub const fn c3_max() -> u8 {
        31
    }
}

#[asn(set)]

#[derive(Default, Debug, Clone, PartialEq, Hash)]
pub struct Ttp10p0p3 {
    #[asn(complex(Tst, tag(UNIVERSAL(17))))] pub rt: Tst,
    #[asn(integer(0..7), tag(UNIVERSAL(30)))] pub x: u8,
    #[asn(optional(integer(0..63)), tag(0))] pub c0: Option<u8>,
}

impl Ttp10p0p3 {
    pub const fn x_min() -> u8 {
        0
    }

    pub const fn x_max() -> u8 {
        7
    }

    pub const fn c0_min() -> u8 {
        0
    }

    pub const fn c0_max() -> u8 {
        63
    }
}

#[asn(set)]

#[derive(Default, Debug, Clone, PartialEq, Hash)]
pub struct Ttp10p0p4 {
    #[asn(complex(Tst, tag(UNIVERSAL(17))))] pub rt: Tst,
    #[asn(integer(0..7), tag(UNIVERSAL(30)))] pub x: u8,
    #[asn(integer(0..127), tag(PRIVATE(2)))] pub p: u8,
}

impl Ttp10p0p4 {
    pub const fn x_min() -> u8 {
        0
    }

    pub const fn x_max() -> u8 {
        7
    }

    pub const fn p_min() -> u8 {
        0
    }

    pub const fn p_max() -> u8 {
        127
    }
}

#[asn(set)]

#[derive(Default, Debug, Clone, PartialEq, Hash)]
pub struct Ttp10p0p5 {
    #[asn(complex(Tst, tag(UNIVERSAL(17))))] pub rt: Tst,
    #[asn(integer(0..7), tag(UNIVERSAL(30)))] pub x: u8,
    #[asn(optional(boolean))] pub b: Option<bool>,
}

impl Ttp10p0p5 {
    pub const fn x_min() -> u8 {
        0
    }

    pub const fn x_max() -> u8 {
        7
    }
}

#[asn(set)]

#[derive(Default, Debug, Clone, PartialEq, Hash)]
pub struct Ttp10p0p6 {
    #[asn(complex(Tst, tag(UNIVERSAL(17))))] pub rt: Tst,
    #[asn(integer(0..7), tag(UNIVERSAL(30)))] pub x: u8,
    #[asn(integer(0..255))] pub i: u8,
}

impl Ttp10p0p6 {
    pub const fn x_min() -> u8 {
        0
    }

    pub const fn x_max() -> u8 {
        7
    }

    pub const fn i_min() -> u8 {
        0
    }

    pub const fn i_max() -> u8 {
        255
    }
}

#[asn(set)]

#[derive(Default, Debug, Clone, PartialEq, Hash)]
pub struct Ttp10p0p7 {
    #[asn(complex(Tst, tag(UNIVERSAL(17))))] pub rt: Tst,
    #[asn(integer(0..7), tag(UNIVERSAL(30)))] pub x: u8,
    #[asn(optional(complex(Tapp9, tag(APPLICATION(9)))))] pub ra: Option<Tapp9>,
}

impl Ttp10p0p7 {
    pub const fn x_min() -> u8 {
        0
    }

    pub const fn x_max() -> u8 {
        7
    }
}

#[asn(set)]

#[derive(Default, Debug, Clone, PartialEq, Hash)]
pub struct Ttp10p0p8 {
    #[asn(complex(Tst, tag(UNIVERSAL(17))))] pub rt: Tst,
    #[asn(integer(0..7), tag(UNIVERSAL(30)))] pub x: u8,
    #[asn(complex(Tsq, tag(UNIVERSAL(16))))] pub rs: Tsq,
}

impl Ttp10p0p8 {
    pub const fn x_min() -> u8 {
        0
    }

    pub const fn x_max() -> u8 {
        7
    }
}

#[asn(set)]

#[derive(Default, Debug, Clone, PartialEq, Hash)]
pub struct Ttp10p0p9 {
    #[asn(complex(Tst, tag(UNIVERSAL(17))))] pub rt: Tst,
    #[asn(integer(0..7), tag(UNIVERSAL(30)))] pub x: u8,
    #[asn(optional(complex(Tcho, tag(1))))] pub rc: Option<Tcho>,
}

impl Ttp10p0p9 {
    pub const fn x_min() -> u8 {
        0
    }

    pub const fn x_max() -> u8 {
        7
    }
}

#[asn(set)]

#[derive(Default, Debug, Clone, PartialEq, Hash)]
pub struct Ttp10p0p11 {
    #[asn(complex(Tst, tag(UNIVERSAL(17))))] pub rt: Tst,
    #[asn(integer(0..7), tag(UNIVERSAL(30)))] pub x: u8,
    #[asn(optional(sequence_of(size(0..3), boolean)))] pub so: Option<Vec<bool>>,
}

impl Ttp10p0p11 {
    pub const fn x_min() -> u8 {
        0
    }

    pub const fn x_max() -> u8 {
        7
    }
}

#[asn(set)]

#[derive(Default, Debug, Clone, PartialEq, Hash)]
pub struct Ttp10p0p12 {
    #[asn(complex(Tst, tag(UNIVERSAL(17))))] pub rt: Tst,
    #[asn(integer(0..7), tag(UNIVERSAL(30)))] pub x: u8,
    #[asn(set_of(size(0..2), boolean))] pub st: Vec<bool>,
}

impl Ttp10p0p12 {
    pub const fn x_min() -> u8 {
        0
    }

    pub const fn x_max() -> u8 {
        7
    }
}

#[asn(set)]

#[derive(Default, Debug, Clone, PartialEq, Hash)]
pub struct Ttp10p0p13 {
    #[asn(complex(Tst, tag(UNIVERSAL(17))))] pub rt: Tst,
    #[asn(integer(0..7), tag(UNIVERSAL(30)))] pub x: u8,
    #[asn(optional(complex(Tchox, tag(PRIVATE(1)))))] pub rx: Option<Tchox>,
}

impl Ttp10p0p13 {
    pub const fn x_min() -> u8 {
        0
    }

    pub const fn x_max() -> u8 {
        7
    }
}

#[asn(set)]

#[derive(Default, Debug, Clone, PartialEq, Hash)]
pub struct Ttp10p0p14 {
    #[asn(complex(Tst, tag(UNIVERSAL(17))))] pub rt: Tst,
    #[asn(integer(0..7), tag(UNIVERSAL(30)))] pub x: u8,
    #[asn(integer(0..1), tag(UNIVERSAL(2)))] pub u2: u8,
}

impl Ttp10p0p14 {
    pub const fn x_min() -> u8 {
        0
    }

    pub const fn x_max() -> u8 {
        7
    }

    pub const fn u2_min() -> u8 {
        0
    }

    pub const fn u2_max() -> u8 {
        1
    }
}

#[asn(sequence, tag(APPLICATION(5)))]

#[derive(Default, Debug, Clone, PartialEq, Hash)]
pub struct Ttp10p0p15Is {
    #[asn(integer(0..3))] pub v: u8,
}

impl Ttp10p0p15Is {
    pub const fn v_min() -> u8 {
        0
    }

    pub const fn v_max() -> u8 {
        3
    }
}

#[asn(set)]

#[derive(Default, Debug, Clone, PartialEq, Hash)]
pub struct Ttp10p0p15 {
    #[asn(complex(Tst, tag(UNIVERSAL(17))))] pub rt: Tst,
    #[asn(integer(0..7), tag(UNIVERSAL(30)))] pub x: u8,
    #[asn(optional(complex(Ttp10p0p15Is, tag(APPLICATION(5)))), tag(APPLICATION(5)))] pub is: Option<Ttp10p0p15Is>,
}

impl Ttp10p0p15 {
    pub const fn x_min() -> u8 {
        0
    }

    pub const fn x_max() -> u8 {
        7
    }
}

#[asn(set)]

#[derive(Default, Debug, Clone, PartialEq, Hash)]
pub struct Ttp10p1p0 {
    #[asn(complex(Tst, tag(UNIVERSAL(17))))] pub rt: Tst,
    #[asn(optional(integer(0..15)), tag(APPLICATION(1)))] pub a: Option<u8>,
    #[asn(integer(0..7), tag(UNIVERSAL(30)))] pub x: u8,
}

impl Ttp10p1p0 {
    pub const fn a_min() -> u8 {
        0
    }

    pub const fn a_max() -> u8 {
        15
    }

    pub const fn x_min() -> u8 {
        0
    }

    pub const fn x_max() -> u8 {
        7
    }
}

#[asn(set)]

#[derive(Default, Debug, Clone, PartialEq, Hash)]
pub struct Ttp10p1p2 {
    #[asn(complex(Tst, tag(UNIVERSAL(17))))] pub rt: Tst,
    #[asn(optional(integer(0..15)), tag(APPLICATION(1)))] pub a: Option<u8>,
    #[asn(integer(0..31), tag(3))] pub c3: u8,
}

impl Ttp10p1p2 {
    pub const fn a_min() -> u8 {
        0
    }

    pub const fn a_max() -> u8 {
        15
    }

    pub const fn c3_min() -> u8 {
        0
    }

    pub const fn c3_max() -> u8 {
        31
    }
}

#[asn(set)]

#[derive(Default, Debug, Clone, PartialEq, Hash)]
pub struct Ttp10p1p3 {
    #[asn(complex(Tst, tag(UNIVERSAL(17))))] pub rt: Tst,
    #[asn(optional(integer(0..15)), tag(APPLICATION(1)))] pub a: Option<u8>,
    #[asn(optional(integer(0..63)), tag(0))] pub c0: Option<u8>,
}

impl Ttp10p1p3 {
    pub const fn a_min() -> u8 {
        0
    }

    pub const fn a_max() -> u8 {
        15
    }

    pub const fn c0_min() -> u8 {
        0
    }

    pub const fn c0_max() -> u8 {
        63
    }
}

#[asn(set)]

#[derive(Default, Debug, Clone, PartialEq, Hash)]
pub struct Ttp10p1p4 {
    #[asn(complex(Tst, tag(UNIVERSAL(17))))] pub rt: Tst,
    #[asn(optional(integer(0..15)), tag(APPLICATION(1)))] pub a: Option<u8>,
    #[asn(integer(0..127), tag(PRIVATE(2)))] pub p: u8,
}

impl Ttp10p1p4 {
    pub const fn a_min() -> u8 {
        0
    }

    pub const fn a_max() -> u8 {
        15
    }

    pub const fn p_min() -> u8 {
        0
    }

    pub const fn p_max() -> u8 {
        127
    }
}

#[asn(set)]

#[derive(Default, Debug, Clone, PartialEq, Hash)]
pub struct Ttp10p1p5 {
    #[asn(complex(Tst, tag(UNIVERSAL(17))))] pub rt: Tst,
    #[asn(optional(integer(0..15)), tag(APPLICATION(1)))] pub a: Option<u8>,
    #[asn(optional(boolean))] pub b: Option<bool>,
}

impl Ttp10p1p5 {
    pub const fn a_min() -> u8 {
        0
    }

    pub const fn a_max() -> u8 {
        15
    }
}

#[asn(set)]

#[derive(Default, Debug, Clone, PartialEq, Hash)]
pub struct Ttp10p1p6 {
    #[asn(complex(Tst, tag(UNIVERSAL(17))))] pub rt: Tst,
    #[asn(optional(integer(0..15)), tag(APPLICATION(1)))] pub a: Option<u8>,
    #[asn(integer(0..255))] pub i: u8,
}

impl Ttp10p1p6 {
    pub const fn a_min() -> u8 {
        0
    }

    pub const fn a_max() -> u8 {
        15
    }

    pub const fn i_min() -> u8 {
        0
    }

    pub const fn i_max() -> u8 {
        255
    }
}

#[asn(set)]

#[derive(Default, Debug, Clone, PartialEq, Hash)]
pub struct Ttp10p1p7 {
    #[asn(complex(Tst, tag(UNIVERSAL(17))))] pub rt: Tst,
    #[asn(optional(integer(0..15)), tag(APPLICATION(1)))] pub a: Option<u8>,
    #[asn(optional(complex(Tapp9, tag(APPLICATION(9)))))] pub ra: Option<Tapp9>,
}

impl Ttp10p1p7 {
    pub const fn a_min() -> u8 {
        0
    }

    pub const fn a_max() -> u8 {
        15
    }
}

#[asn(set)]

#[derive(Default, Debug, Clone, PartialEq, Hash)]
pub struct Ttp10p1p8 {
    #[asn(complex(Tst, tag(UNIVERSAL(17))))] pub rt: Tst,
    #[asn(optional(integer(0..15)), tag(APPLICATION(1)))] pub a: Option<u8>,
    #[asn(complex(Tsq, tag(UNIVERSAL(16))))] pub rs: Tsq,
}

impl Ttp10p1p8 {
    pub const fn a_min() -> u8 {
        0
    }

    pub const fn a_max() -> u8 {
        15
    }
}

#[asn(set)]

#[derive(Default, Debug, Clone, PartialEq, Hash)]
pub struct Ttp10p1p9 {
    #[asn(complex(Tst, tag(UNIVERSAL(17))))] pub rt: Tst,
    #[asn(optional(integer(0..15)), tag(APPLICATION(1)))] pub a: Option<u8>,
    #[asn(optional(complex(Tcho, tag(1))))] pub rc: Option<Tcho>,
}

impl Ttp10p1p9 {
    pub const fn a_min() -> u8 {
        0
    }

    pub const fn a_max() -> u8 {
        15
    }
}

#[asn(set)]

#[derive(Default, Debug, Clone, PartialEq, Hash)]
pub struct Ttp10p1p11 {
    #[asn(complex(Tst, tag(UNIVERSAL(17))))] pub rt: Tst,
    #[asn(optional(integer(0..15)), tag(APPLICATION(1)))] pub a: Option<u8>,
    #[asn(optional(sequence_of(size(0..3), boolean)))] pub so: Option<Vec<bool>>,
}

impl Ttp10p1p11 {
    pub const fn a_min() -> u8 {
        0
    }

    pub const fn a_max() -> u8 {
        15
    }
}

#[asn(set)]

#[derive(Default, Debug, Clone, PartialEq, Hash)]
pub struct Ttp10p1p12 {
    #[asn(complex(Tst, tag(UNIVERSAL(17))))] pub rt: Tst,
    #[asn(optional(integer(0..15)), tag(APPLICATION(1)))] pub a: Option<u8>,
    #[asn(set_of(size(0..2), boolean))] pub st: Vec<bool>,
}

impl Ttp10p1p12 {
    pub const fn a_min() -> u8 {
        0
    }

    pub const fn a_max() -> u8 {
        15
    }
}

#[asn(set)]

#[derive(Default, Debug, Clone, PartialEq, Hash)]
pub struct Ttp10p1p13 {
    #[asn(complex(Tst, tag(UNIVERSAL(17))))] pub rt: Tst,
    #[asn(optional(integer(0..15)), tag(APPLICATION(1)))] pub a: Option<u8>,
    #[asn(optional(complex(Tchox, tag(PRIVATE(1)))))] pub rx: Option<Tchox>,
}

impl Ttp10p1p13 {
    pub const fn a_min() -> u8 {
        0
    }

    pub const fn a_max() -> u8 {
        15
    }
}

#[asn(set)]

#[derive(Default, Debug, Clone, PartialEq, Hash)]
pub struct Ttp10p1p14 {
    #[asn(complex(Tst, tag(UNIVERSAL(17))))] pub rt: Tst,
    #[asn(optional(integer(0..15)), tag(APPLICATION(1)))] pub a: Option<u8>,
    #[asn(integer(0..1), tag(UNIVERSAL(2)))] pub u2: u8,
}

impl Ttp10p1p14 {
    pub const fn a_min() -> u8 {
        0
    }

    pub const fn a_max() -> u8 {
        15
    }

    pub const fn u2_min() -> u8 {
        0
    }

    pub const fn u2_max() -> u8 {
        1
    }
}

#[asn(sequence, tag(APPLICATION(5)))]

#[derive(Default, Debug, Clone, PartialEq, Hash)]
pub struct Ttp10p1p15Is {
    #[asn(integer(0..3))] pub v: u8,
}

impl Ttp10p1p15Is {
    pub const fn v_min() -> u8 {
        0
    }

    pub const fn v_max() -> u8 {
        3
    }
}

#[asn(set)]

#[derive(Default, Debug, Clone, PartialEq, Hash)]
pub struct Ttp10p1p15 {
    #[asn(complex(Tst, tag(UNIVERSAL(17))))] pub rt: Tst,
    #[asn(optional(integer(0..15)), tag(APPLICATION(1)))] pub a: Option<u8>,
    #[asn(optional(complex(Ttp10p1p15Is, tag(APPLICATION(5)))), tag(APPLICATION(5)))] pub is: Option<Ttp10p1p15Is>,
}

impl Ttp10p1p15 {
    pub const fn a_min() -> u8 {
        0
    }

    pub const fn a_max() -> u8 {
        15
    }
}

#[asn(set)]

#[derive(Default, Debug, Clone, PartialEq, Hash)]
pub struct Ttp10p2p0 {
    #[asn(complex(Tst, tag(UNIVERSAL(17))))] pub rt: Tst,
    #[asn(integer(0..31), tag(3))] pub c3: u8,
    #[asn(integer(0..7), tag(UNIVERSAL(30)))] pub x: u8,
}

impl Ttp10p2p0 {
    pub const fn c3_min() -> u8 {
        0
    }

    pub const fn c3_max() -> u8 {
        31
    }

    pub const fn x_min() -> u8 {
        0
    }

    pub const fn x_max() -> u8 {
        7
    }
}

#[asn(set)]

#[derive(Default, Debug, Clone, PartialEq, Hash)]
pub struct Ttp10p2p1 {
    #[asn(complex(Tst, tag(UNIVERSAL(17))))] pub rt: Tst,
    #[asn(integer(0..31), tag(3))] pub c3: u8,
    #[asn(optional(integer(0..15)), tag(APPLICATION(1)))] pub a: Option<u8>,
}

impl Ttp10p2p1 {
    pub const fn c3_min() -> u8 {
        0
    }

    pub const fn c3_max() -> u8 {
        31
    }

    pub const fn a_min() -> u8 {
        0
    }

    pub const fn a_max() -> u8 {
        15
    }
}

#[asn(set)]

#[derive(Default, Debug, Clone, PartialEq, Hash)]
pub struct Ttp10p2p3 {
    #[asn(complex(Tst, tag(UNIVERSAL(17))))] pub rt: Tst,
    #[asn(integer(0..31), tag(3))] pub c3: u8,
    #[asn(optional(integer(0..63)), tag(0))] pub c0: Option<u8>,
}

impl Ttp10p2p3 {
    pub const fn c3_min() -> u8 {
        0
    }

    pub const fn c3_max() -> u8 {
        31
    }

    pub const fn c0_min() -> u8 {
        0
    }

    pub const fn c0_max() -> u8 {
        63
    }
}

#[asn(set)]

#[derive(Default, Debug, Clone, PartialEq, Hash)]
pub struct Ttp10p2p4 {
    #[asn(complex(Tst, tag(UNIVERSAL(17))))] pub rt: Tst,
    #[asn(integer(0..31), tag(3))] pub c3: u8,
    #[asn(integer(0..127), tag(PRIVATE(2)))] pub p: u8,
}

impl Ttp10p2p4 {
    pub const fn c3_min() -> u8 {
        0
    }

    pub const fn c3_max() -> u8 {
        31
    }

    pub const fn p_min() -> u8 {
        0
    }

    pub const fn p_max() -> u8 {
        127
    }
}

#[asn(set)]

#[derive(Default, Debug, Clone, PartialEq, Hash)]
pub struct Ttp10p2p5 {
    #[asn(complex(Tst, tag(UNIVERSAL(17))))] pub rt: Tst,
    #[asn(integer(0..31), tag(3))] pub c3: u8,
    #[asn(optional(boolean))] pub b: Option<bool>,
}

impl Ttp10p2p5 {
    pub const fn c3_min() -> u8 {
        0
    }

    pub const fn c3_max() -> u8 {
        31
    }
}

#[asn(set)]

#[derive(Default, Debug, Clone, PartialEq, Hash)]
pub struct Ttp10p2p6 {
    #[asn(complex(Tst, tag(UNIVERSAL(17))))] pub rt: Tst,
    #[asn(integer(0..31), tag(3))] pub c3: u8,
    #[asn(integer(0..255))] pub i: u8,
}

impl Ttp10p2p6 {
    pub const fn c3_min() -> u8 {
        0
    }

    pub const fn c3_max() -> u8 {
        31
    }

    pub const fn i_min() -> u8 {
        0
    }

    pub const fn i_max() -> u8 {
        255
    }
}

#[asn(set)]

#[derive(Default, Debug, Clone, PartialEq, Hash)]
pub struct Ttp10p2p7 {
    #[asn(complex(Tst, tag(UNIVERSAL(17))))] pub rt: Tst,
    #[asn(integer(0..31), tag(3))] pub c3: u8,
    #[asn(optional(complex(Tapp9, tag(APPLICATION(9)))))] pub ra: Option<Tapp9>,
}

impl Ttp10p2p7 {
    pub const fn c3_min() -> u8 {
        0
    }

    pub const fn c3_max() -> u8 {
        31
    }
}

#[asn(set)]

#[derive(Default, Debug, Clone, PartialEq, Hash)]
pub struct Ttp10p2p8 {
    #[asn(complex(Tst, tag(UNIVERSAL(17))))] pub rt: Tst,
    #[asn(integer(0..31), tag(3))] pub c3: u8,
    #[asn(complex(Tsq, tag(UNIVERSAL(16))))] pub rs: Tsq,
}

impl Ttp10p2p8 {
    pub const fn c3_min() -> u8 {
        0
    }

    pub const fn c3_max() -> u8 {
        31
    }
}

#[asn(set)]

#[derive(Default, Debug, Clone, PartialEq, Hash)]
pub struct Ttp10p2p9 {
    #[asn(complex(Tst, tag(UNIVERSAL(17))))] pub rt: Tst,
    #[asn(integer(0..31), tag(3))] pub c3: u8,
    #[asn(optional(complex(Tcho, tag(1))))] pub rc: Option<Tcho>,
}

impl Ttp10p2p9 {
    pub const fn c3_min() -> u8 {
        0
    }

    pub const fn c3_max() -> u8 {
        31
    }
}

#[asn(set)]

#[derive(Default, Debug, Clone, PartialEq, Hash)]
pub struct Ttp10p2p11 {
    #[asn(complex(Tst, tag(UNIVERSAL(17))))] pub rt: Tst,
    #[asn(integer(0..31), tag(3))] pub c3: u8,
    #[asn(optional(sequence_of(size(0..3), boolean)))] pub so: Option<Vec<bool>>,
}

impl Ttp10p2p11 {
    pub const fn c3_min() -> u8 {
        0
    }

    pub const fn c3_max() -> u8 {
        31
    }
}

#[asn(set)]

#[derive(Default, Debug, Clone, PartialEq, Hash)]
pub struct Ttp10p2p12 {
    #[asn(complex(Tst, tag(UNIVERSAL(17))))] pub rt: Tst,
    #[asn(integer(0..31), tag(3))] pub c3: u8,
    #[asn(set_of(size(0..2), boolean))] pub st: Vec<bool>,
}

impl Ttp10p2p12 {
    pub const fn c3_min() -> u8 {
        0
    }

    pub const fn c3_max() -> u8 {
        31
    }
}

#[asn(set)]

#[derive(Default, Debug, Clone, PartialEq, Hash)]
pub struct Ttp10p2p13 {
    #[asn(complex(Tst, tag(UNIVERSAL(17))))] pub rt: Tst,
    #[asn(integer(0..31), tag(3))] pub c3: u8,
    #[asn(optional(complex(Tchox, tag(PRIVATE(1)))))] pub rx: Option<Tchox>,
}

impl Ttp10p2p13 {
    pub const fn c3_min() -> u8 {
        0
    }

    pub const fn c3_max() -> u8 {
        31
    }
}

#[asn(set)]

#[derive(Default, Debug, Clone, PartialEq, Hash)]
pub struct Ttp10p2p14 {
    #[asn(complex(Tst, tag(UNIVERSAL(17))))] pub rt: Tst,
    #[asn(integer(0..31), tag(3))] pub c3: u8,
    #[asn(integer(0..1), tag(UNIVERSAL(2)))] pub u2: u8,
}

impl Ttp10p2p14 {
    pub const fn c3_min() -> u8 {
        0
    }

    pub const fn c3_max() -> u8 {
        31
    }

    pub const fn u2_min() -> u8 {
        0
    }

    pub const fn u2_max() -> u8 {
        1
    }
}

#[asn(sequence, tag(APPLICATION(5)))]

#[derive(Default, Debug, Clone, PartialEq, Hash)]
pub struct Ttp10p2p15Is {
    #[asn(integer(0..3))] pub v: u8,
}

impl Ttp10p2p15Is {
    pub const fn v_min() -> u8 {
        0
    }

    pub const fn v_max() -> u8 {
        3
    }
}

#[asn(set)]

#[derive(Default, Debug, Clone, PartialEq, Hash)]
pub struct Ttp10p2p15 {
    #[asn(complex(Tst, tag(UNIVERSAL(17))))] pub rt: Tst,
    #[asn(integer(0..31), tag(3))] pub c3: u8,
    #[asn(optional(complex(Ttp10p2p15Is, tag(APPLICATION(5)))), tag(APPLICATION(5)))] pub is: Option<Ttp10p2p15Is>,
}

impl Ttp10p2p15 {
    pub const fn c3_min() -> u8 {
        0
    }

    pub const fn c3_max() -> u8 {
        31
    }
}

#[asn(set)]

#[derive(Default, Debug, Clone, PartialEq, Hash)]
pub struct Ttp10p3p0 {
    #[asn(complex(Tst, tag(UNIVERSAL(17))))] pub rt: Tst,
    #[asn(optional(integer(0..63)), tag(0))] pub c0: Option<u8>,
    #[asn(integer(0..7), tag(UNIVERSAL(30)))] pub x: u8,
}

impl Ttp10p3p0 {
    pub const fn c0_min() -> u8 {
        0
    }

    pub const fn c0_max() -> u8 {
        63
    }

    pub const fn x_min() -> u8 {
        0
    }

    pub const fn x_max() -> u8 {
        7
    }
}

#[asn(set)]

#[derive(Default, Debug, Clone, PartialEq, Hash)]
pub struct Ttp10p3p1 {
    #[asn(complex(Tst, tag(UNIVERSAL(17))))] pub rt: Tst,
    #[asn(optional(integer(0..63)), tag(0))] pub c0: Option<u8>,
    #[asn(optional(integer(0..15)), tag(APPLICATION(1)))] pub a: Option<u8>,
}

impl Ttp10p3p1 {
    pub const fn c0_min() -> u8 {
        0
    }

    pub const fn c0_max() -> u8 {
        63
    }

    pub const fn a_min() -> u8 {
        0
    }

    pub const fn a_max() -> u8 {
        15
    }
}

#[asn(set)]

#[derive(Default, Debug, Clone, PartialEq, Hash)]
pub struct Ttp10p3p2 {
    #[asn(complex(Tst, tag(UNIVERSAL(17))))] pub rt: Tst,
    #[asn(optional(integer(0..63)), tag(0))] pub c0: Option<u8>,
    #[asn(integer(0..31), tag(3))] pub c3: u8,
}

impl Ttp10p3p2 {
    pub const fn c0_min() -> u8 {
        0
    }

    pub const fn c0_max() -> u8 {
        63
    }

    pub const fn c3_min() -> u8 {
        0
    }

    pub const fn c3_max() -> u8 {
        31
    }
}

#[asn(set)]

#[derive(Default, Debug, Clone, PartialEq, Hash)]
pub struct Ttp10p3p4 {
    #[asn(complex(Tst, tag(UNIVERSAL(17))))] pub rt: Tst,
    #[asn(optional(integer(0..63)), tag(0))] pub c0: Option<u8>,
    #[asn(integer(0..127), tag(PRIVATE(2)))] pub p: u8,
}

impl Ttp10p3p4 {
    pub const fn c0_min() -> u8 {
        0
    }

    pub const fn c0_max() -> u8 {
        63
    }

    pub const fn p_min() -> u8 {
        0
    }

    pub const fn p_max() -> u8 {
        127
    }
}

#[asn(set)]

#[derive(Default, Debug, Clone, PartialEq, Hash)]
pub struct Ttp10p3p5 {
    #[asn(complex(Tst, tag(UNIVERSAL(17))))] pub rt: Tst,
    #[asn(optional(integer(0..63)), tag(0))] pub c0: Option<u8>,
    #[asn(optional(boolean))] pub b: Option<bool>,
}

impl Ttp10p3p5 {
    pub const fn c0_min() -> u8 {
        0
    }

    pub const fn c0_max() -> u8 {
        63
    }
}

#[asn(set)]

#[derive(Default, Debug, Clone, PartialEq, Hash)]
pub struct Ttp10p3p6 {
    #[asn(complex(Tst, tag(UNIVERSAL(17))))] pub rt: Tst,
    #[asn(optional(integer(0..63)), tag(0))] pub c0: Option<u8>,
    #[asn(integer(0..255))] pub i: u8,
}

impl Ttp10p3p6 {
    pub const fn c0_min() -> u8 {
        0
    }

    pub const fn c0_max() -> u8 {
        63
    }

    pub const fn i_min() -> u8 {
        0
    }

    pub const fn i_max() -> u8 {
        255
    }
}

#[asn(set)]

#[derive(Default, Debug, Clone, PartialEq, Hash)]
pub struct Ttp10p3p7 {
    #[asn(complex(Tst, tag(UNIVERSAL(17))))] pub rt: Tst,
    #[asn(optional(integer(0..63)), tag(0))] pub c0: Option<u8>,
    #[asn(optional(complex(Tapp9, tag(APPLICATION(9)))))] pub ra: Option<Tapp9>,
}

impl Ttp10p3p7 {
    pub const fn c0_min() -> u8 {
        0
    }

    pub const fn c0_max() -> u8 {
        63
    }
}

#[asn(set)]

#[derive(Default, Debug, Clone, PartialEq, Hash)]
pub struct Ttp10p3p8 {
    #[asn(complex(Tst, tag(UNIVERSAL(17))))] pub rt: Tst,
    #[asn(optional(integer(0..63)), tag(0))] pub c0: Option<u8>,
    #[asn(complex(Tsq, tag(UNIVERSAL(16))))] pub rs: Tsq,
}

impl Ttp10p3p8 {
    pub const fn c0_min() -> u8 {
        0
    }

    pub const fn c0_max() -> u8 {
        63
    }
}

#[asn(set)]

#[derive(Default, Debug, Clone, PartialEq, Hash)]
pub struct Ttp10p3p9 {
    #[asn(complex(Tst, tag(UNIVERSAL(17))))] pub rt: Tst,
    #[asn(optional(integer(0..63)), tag(0))] pub c0: Option<u8>,
    #[asn(optional(complex(Tcho, tag(1))))] pub rc: Option<Tcho>,
}

impl Ttp10p3p9 {
    pub const fn c0_min() -> u8 {
        0
    }

    pub const fn c0_max() -> u8 {
        63
    }
}

#[asn(set)]

#[derive(Default, Debug, Clone, PartialEq, Hash)]
pub struct Ttp10p3p11 {
    #[asn(complex(Tst, tag(UNIVERSAL(17))))] pub rt: Tst,
    #[asn(optional(integer(0..63)), tag(0))] pub c0: Option<u8>,
    #[asn(optional(sequence_of(size(0..3), boolean)))] pub so: Option<Vec<bool>>,
}

impl Ttp10p3p11 {
    pub const fn c0_min() -> u8 {
        0
    }

    pub const fn c0_max() -> u8 {
        63
    }
}

#[asn(set)]

#[derive(Default, Debug, Clone, PartialEq, Hash)]
pub struct Ttp10p3p12 {
    #[asn(complex(Tst, tag(UNIVERSAL(17))))] pub rt: Tst,
    #[asn(optional(integer(0..63)), tag(0))] pub c0: Option<u8>,
    #[asn(set_of(size(0..2), boolean))] pub st: Vec<bool>,
}

impl Ttp10p3p12 {
    pub const fn c0_min() -> u8 {
        0
    }

    pub const fn c0_max() -> u8 {
        63
    }
}

#[asn(set)]

#[derive(Default, Debug, Clone, PartialEq, Hash)]
pub struct Ttp10p3p13 {
    #[asn(complex(Tst, tag(UNIVERSAL(17))))] pub rt: Tst,
    #[asn(optional(integer(0..63)), tag(0))] pub c0: Option<u8>,
    #[asn(optional(complex(Tchox, tag(PRIVATE(1)))))] pub rx: Option<Tchox>,
}

impl Ttp10p3p13 {
    pub const fn c0_min() -> u8 {
        0
    }

    pub const fn c0_max() -> u8 {
        63
    }
}

#[asn(set)]

#[derive(Default, Debug, Clone, PartialEq, Hash)]
pub struct Ttp10p3p14 {
    #[asn(complex(Tst, tag(UNIVERSAL(17))))] pub rt: Tst,
    #[asn(optional(integer(0..63)), tag(0))] pub c0: Option<u8>,
    #[asn(integer(0..1), tag(UNIVERSAL(2)))] pub u2: u8,
}

impl Ttp10p3p14 {
    pub const fn c0_min() -> u8 {
        0
    }

    pub const fn c0_max() -> u8 {
        63
    }

    pub const fn u2_min() -> u8 {
        0
    }

    pub const fn u2_max() -> u8 {
        1
    }
}

#[asn(sequence, tag(APPLICATION(5)))]

#[derive(Default, Debug, Clone, PartialEq, Hash)]
pub struct Ttp10p3p15Is {
    #[asn(integer(0..3))] pub v: u8,
}

impl Ttp10p3p15Is {
    pub const fn v_min() -> u8 {
        0
    }

    pub const fn v_max() -> u8 {
        3
    }
}

#[asn(set)]

#[derive(Default, Debug, Clone, PartialEq, Hash)]
pub struct Ttp10p3p15 {
    #[asn(complex(Tst, tag(UNIVERSAL(17))))] pub rt: Tst,
    #[asn(optional(integer(0..63)), tag(0))] pub c0: Option<u8>,
    #[asn(optional(complex(Ttp10p3p15Is, tag(APPLICATION(5)))), tag(APPLICATION(5)))] pub is: Option<Ttp10p3p15Is>,
}

impl Ttp10p3p15 {
    pub const fn c0_min() -> u8 {
        0
    }

    pub const fn c0_max() -> u8 {
        63
    }
}

#[asn(set)]

#[derive(Default, Debug, Clone, PartialEq, Hash)]
pub struct Ttp10p4p0 {
    #[asn(complex(Tst, tag(UNIVERSAL(17))))] pub rt: Tst,
    #[asn(integer(0..127), tag(PRIVATE(2)))] pub p: u8,
    #[asn(integer(0..7), tag(UNIVERSAL(30)))] pub x: u8,
}

impl Ttp10p4p0 {
    pub const fn p_min() -> u8 {
        0
    }

    pub const fn p_max() -> u8 {
        127
    }

    pub const fn x_min() -> u8 {
        0
    }

    pub const fn x_max() -> u8 {
        7
    }
}

#[asn(set)]

#[derive(Default, Debug, Clone, PartialEq, Hash)]
pub struct Ttp10p4p1 {
    #[asn(complex(Tst, tag(UNIVERSAL(17))))] pub rt: Tst,
    #[asn(integer(0..127), tag(PRIVATE(2)))] pub p: u8,
    #[asn(optional(integer(0..15)), tag(APPLICATION(1)))] pub a: Option<u8>,
}

impl Ttp10p4p1 {
    pub const fn p_min() -> u8 {
        0
    }

    pub const fn p_max() -> u8 {
        127
    }

    pub const fn a_min() -> u8 {
        0
    }

    pub const fn a_max() -> u8 {
        15
    }
}

#[asn(set)]

#[derive(Default, Debug, Clone, PartialEq, Hash)]
pub struct Ttp10p4p2 {
    #[asn(complex(Tst, tag(UNIVERSAL(17))))] pub rt: Tst,
    #[asn(integer(0..127), tag(PRIVATE(2)))] pub p: u8,
    #[asn(integer(0..31), tag(3))] pub c3: u8,
}

impl Ttp10p4p2 {
    pub const fn p_min() -> u8 {
        0
    }

    pub const fn p_max() -> u8 {
        127
    }

    pub const fn c3_min() -> u8 {
        0
    }

    pub const fn c3_max() -> u8 {
        31
    }
}

#[asn(set)]

#[derive(Default, Debug, Clone, PartialEq, Hash)]
pub struct Ttp10p4p3 {
    #[asn(complex(Tst, tag(UNIVERSAL(17))))] pub rt: Tst,
    #[asn(integer(0..127), tag(PRIVATE(2)))] pub p: u8,
    #[asn(optional(integer(0..63)), tag(0))] pub c0: Option<u8>,
}

impl Ttp10p4p3 {
    pub const fn p_min() -> u8 {
        0
    }

    pub const fn p_max() -> u8 {
        127
    }

    pub const fn c0_min() -> u8 {
        0
    }

    pub const fn c0_max() -> u8 {
        63
    }
}
// ---- harness conversions (generated by the zoo build script from the items above) ----
impl FromValue for Tapp9 { fn from_value(v: &Value) -> Self { Tapp9(FromValue::from_value(v)) } }
impl ToValue for Tapp9 { fn to_value(&self) -> Value { self.0.to_value() } }
impl FromValue for Tsq {
    fn from_value(v: &Value) -> Self {
        let s = match v { Value::Seq(s) => s, other => panic!("Tsq: expected Seq, got {other:?}") };
        assert_eq!(s.len(), 1, "Tsq: component count");
        let _ = s;
        Tsq {
            z: FromValue::from_value(s[0].as_ref().expect("component z of Tsq must be present")),
        }
    }
}
impl ToValue for Tsq {
    fn to_value(&self) -> Value {
        Value::Seq(vec![
            Some(self.z.to_value()),
        ])
    }
}
impl FromValue for Tcho {
    fn from_value(v: &Value) -> Self {
        let (i, inner) = match v { Value::Choice(i, inner) => (*i, &**inner), other => panic!("Tcho: expected Choice, got {other:?}") };
        match i {
            0 => Tcho::M(FromValue::from_value(inner)),
            1 => Tcho::N(FromValue::from_value(inner)),
            _ => panic!("Tcho: alternative index {i} out of range"),
        }
    }
}
impl ToValue for Tcho {
    fn to_value(&self) -> Value {
        match self {
            Tcho::M(x) => Value::Choice(0, Box::new(x.to_value())),
            Tcho::N(x) => Value::Choice(1, Box::new(x.to_value())),
        }
    }
}
impl FromValue for Tchox {
    fn from_value(v: &Value) -> Self {
        let (i, inner) = match v { Value::Choice(i, inner) => (*i, &**inner), other => panic!("Tchox: expected Choice, got {other:?}") };
        match i {
            0 => Tchox::M(FromValue::from_value(inner)),
            1 => Tchox::N(FromValue::from_value(inner)),
            2 => Tchox::O(FromValue::from_value(inner)),
            _ => panic!("Tchox: alternative index {i} out of range"),
        }
    }
}
impl ToValue for Tchox {
    fn to_value(&self) -> Value {
        match self {
            Tchox::M(x) => Value::Choice(0, Box::new(x.to_value())),
            Tchox::N(x) => Value::Choice(1, Box::new(x.to_value())),
            Tchox::O(x) => Value::Choice(2, Box::new(x.to_value())),
        }
    }
}
impl FromValue for Tst {
    fn from_value(v: &Value) -> Self {
        let s = match v { Value::Seq(s) => s, other => panic!("Tst: expected Seq, got {other:?}") };
        assert_eq!(s.len(), 1, "Tst: component count");
        let _ = s;
        Tst {
            z: FromValue::from_value(s[0].as_ref().expect("component z of Tst must be present")),
        }
    }
}
impl ToValue for Tst {
    fn to_value(&self) -> Value {
        Value::Seq(vec![
            Some(self.z.to_value()),
        ])
    }
}
impl FromValue for Ttp9p11p12 {
    fn from_value(v: &Value) -> Self {
        let s = match v { Value::Seq(s) => s, other => panic!("Ttp9p11p12: expected Seq, got {other:?}") };
        assert_eq!(s.len(), 3, "Ttp9p11p12: component count");
        let _ = s;
        Ttp9p11p12 {
            rc: s[0].as_ref().map(FromValue::from_value),
            so: s[1].as_ref().map(FromValue::from_value),
            st: FromValue::from_value(s[2].as_ref().expect("component st of Ttp9p11p12 must be present")),
        }
    }
}
impl ToValue for Ttp9p11p12 {
    fn to_value(&self) -> Value {
        Value::Seq(vec![
            self.rc.as_ref().map(|x| x.to_value()),
            self.so.as_ref().map(|x| x.to_value()),
            Some(self.st.to_value()),
        ])
    }
}
impl FromValue for Ttp9p11p13 {
    fn from_value(v: &Value) -> Self {
        let s = match v { Value::Seq(s) => s, other => panic!("Ttp9p11p13: expected Seq, got {other:?}") };
        assert_eq!(s.len(), 3, "Ttp9p11p13: component count");
        let _ = s;
        Ttp9p11p13 {
            rc: s[0].as_ref().map(FromValue::from_value),
            so: s[1].as_ref().map(FromValue::from_value),
            rx: s[2].as_ref().map(FromValue::from_value),
        }
    }
}
impl ToValue for Ttp9p11p13 {
    fn to_value(&self) -> Value {
        Value::Seq(vec![
            self.rc.as_ref().map(|x| x.to_value()),
            self.so.as_ref().map(|x| x.to_value()),
            self.rx.as_ref().map(|x| x.to_value()),
        ])
    }
}
impl FromValue for Ttp9p11p14 {
    fn from_value(v: &Value) -> Self {
        let s = match v { Value::Seq(s) => s, other => panic!("Ttp9p11p14: expected Seq, got {other:?}") };
        assert_eq!(s.len(), 3, "Ttp9p11p14: component count");
        let _ = s;
        Ttp9p11p14 {
            rc: s[0].as_ref().map(FromValue::from_value),
            so: s[1].as_ref().map(FromValue::from_value),
            u2: FromValue::from_value(s[2].as_ref().expect("component u2 of Ttp9p11p14 must be present")),
        }
    }
}
impl ToValue for Ttp9p11p14 {
    fn to_value(&self) -> Value {
        Value::Seq(vec![
            self.rc.as_ref().map(|x| x.to_value()),
            self.so.as_ref().map(|x| x.to_value()),
            Some(self.u2.to_value()),
        ])
    }
}
impl FromValue for Ttp9p11p15Is {
    fn from_value(v: &Value) -> Self {
        let s = match v { Value::Seq(s) => s, other => panic!("Ttp9p11p15Is: expected Seq, got {other:?}") };
        assert_eq!(s.len(), 1, "Ttp9p11p15Is: component count");
        let _ = s;
        Ttp9p11p15Is {
            v: FromValue::from_value(s[0].as_ref().expect("component v of Ttp9p11p15Is must be present")),
        }
    }
}
impl ToValue for Ttp9p11p15Is {
    fn to_value(&self) -> Value {
        Value::Seq(vec![
            Some(self.v.to_value()),
        ])
    }
}
impl FromValue for Ttp9p11p15 {
    fn from_value(v: &Value) -> Self {
        let s = match v { Value::Seq(s) => s, other => panic!("Ttp9p11p15: expected Seq, got {other:?}") };
        assert_eq!(s.len(), 3, "Ttp9p11p15: component count");
        let _ = s;
        Ttp9p11p15 {
            rc: s[0].as_ref().map(FromValue::from_value),
            so: s[1].as_ref().map(FromValue::from_value),
            is: s[2].as_ref().map(FromValue::from_value),
        }
    }
}
impl ToValue for Ttp9p11p15 {
    fn to_value(&self) -> Value {
        Value::Seq(vec![
            self.rc.as_ref().map(|x| x.to_value()),
            self.so.as_ref().map(|x| x.to_value()),
            self.is.as_ref().map(|x| x.to_value()),
        ])
    }
}
impl FromValue for Ttp9p12p0 {
    fn from_value(v: &Value) -> Self {
        let s = match v { Value::Seq(s) => s, other => panic!("Ttp9p12p0: expected Seq, got {other:?}") };
        assert_eq!(s.len(), 3, "Ttp9p12p0: component count");
        let _ = s;
        Ttp9p12p0 {
            rc: s[0].as_ref().map(FromValue::from_value),
            st: FromValue::from_value(s[1].as_ref().expect("component st of Ttp9p12p0 must be present")),
            x: FromValue::from_value(s[2].as_ref().expect("component x of Ttp9p12p0 must be present")),
        }
    }
}
impl ToValue for Ttp9p12p0 {
    fn to_value(&self) -> Value {
        Value::Seq(vec![
            self.rc.as_ref().map(|x| x.to_value()),
            Some(self.st.to_value()),
            Some(self.x.to_value()),
        ])
    }
}
impl FromValue for Ttp9p12p1 {
    fn from_value(v: &Value) -> Self {
        let s = match v { Value::Seq(s) => s, other => panic!("Ttp9p12p1: expected Seq, got {other:?}") };
        assert_eq!(s.len(), 3, "Ttp9p12p1: component count");
        let _ = s;
        Ttp9p12p1 {
            rc: s[0].as_ref().map(FromValue::from_value),
            st: FromValue::from_value(s[1].as_ref().expect("component st of Ttp9p12p1 must be present")),
            a: s[2].as_ref().map(FromValue::from_value),
        }
    }
}
impl ToValue for Ttp9p12p1 {
    fn to_value(&self) -> Value {
        Value::Seq(vec![
            self.rc.as_ref().map(|x| x.to_value()),
            Some(self.st.to_value()),
            self.a.as_ref().map(|x| x.to_value()),
        ])
    }
}
impl FromValue for Ttp9p12p2 {
    fn from_value(v: &Value) -> Self {
        let s = match v { Value::Seq(s) => s, other => panic!("Ttp9p12p2: expected Seq, got {other:?}") };
        assert_eq!(s.len(), 3, "Ttp9p12p2: component count");
        let _ = s;
        Ttp9p12p2 {
            rc: s[0].as_ref().map(FromValue::from_value),
            st: FromValue::from_value(s[1].as_ref().expect("component st of Ttp9p12p2 must be present")),
            c3: FromValue::from_value(s[2].as_ref().expect("component c3 of Ttp9p12p2 must be present")),
        }
    }
}
impl ToValue for Ttp9p12p2 {
    fn to_value(&self) -> Value {
        Value::Seq(vec![
            self.rc.as_ref().map(|x| x.to_value()),
            Some(self.st.to_value()),
            Some(self.c3.to_value()),
        ])
    }
}
impl FromValue for Ttp9p12p3 {
    fn from_value(v: &Value) -> Self {
        let s = match v { Value::Seq(s) => s, other => panic!("Ttp9p12p3: expected Seq, got {other:?}") };
        assert_eq!(s.len(), 3, "Ttp9p12p3: component count");
        let _ = s;
        Ttp9p12p3 {
            rc: s[0].as_ref().map(FromValue::from_value),
            st: FromValue::from_value(s[1].as_ref().expect("component st of Ttp9p12p3 must be present")),
            c0: s[2].as_ref().map(FromValue::from_value),
        }
    }
}
impl ToValue for Ttp9p12p3 {
    fn to_value(&self) -> Value {
        Value::Seq(vec![
            self.rc.as_ref().map(|x| x.to_value()),
            Some(self.st.to_value()),
            self.c0.as_ref().map(|x| x.to_value()),
        ])
    }
}
impl FromValue for Ttp9p12p4 {
    fn from_value(v: &Value) -> Self {
        let s = match v { Value::Seq(s) => s, other => panic!("Ttp9p12p4: expected Seq, got {other:?}") };
        assert_eq!(s.len(), 3, "Ttp9p12p4: component count");
        let _ = s;
        Ttp9p12p4 {
            rc: s[0].as_ref().map(FromValue::from_value),
            st: FromValue::from_value(s[1].as_ref().expect("component st of Ttp9p12p4 must be present")),
            p: FromValue::from_value(s[2].as_ref().expect("component p of Ttp9p12p4 must be present")),
        }
    }
}
impl ToValue for Ttp9p12p4 {
    fn to_value(&self) -> Value {
        Value::Seq(vec![
            self.rc.as_ref().map(|x| x.to_value()),
            Some(self.st.to_value()),
            Some(self.p.to_value()),
        ])
    }
}
impl FromValue for Ttp9p12p5 {
    fn from_value(v: &Value) -> Self {
        let s = match v { Value::Seq(s) => s, other => panic!("Ttp9p12p5: expected Seq, got {other:?}") };
        assert_eq!(s.len(), 3, "Ttp9p12p5: component count");
        let _ = s;
        Ttp9p12p5 {
            rc: s[0].as_ref().map(FromValue::from_value),
            st: FromValue::from_value(s[1].as_ref().expect("component st of Ttp9p12p5 must be present")),
            b: s[2].as_ref().map(FromValue::from_value),
        }
    }
}
impl ToValue for Ttp9p12p5 {
    fn to_value(&self) -> Value {
        Value::Seq(vec![
            self.rc.as_ref().map(|x| x.to_value()),
            Some(self.st.to_value()),
            self.b.as_ref().map(|x| x.to_value()),
        ])
    }
}
impl FromValue for Ttp9p12p6 {
    fn from_value(v: &Value) -> Self {
        let s = match v { Value::Seq(s) => s, other => panic!("Ttp9p12p6: expected Seq, got {other:?}") };
        assert_eq!(s.len(), 3, "Ttp9p12p6: component count");
        let _ = s;
        Ttp9p12p6 {
            rc: s[0].as_ref().map(FromValue::from_value),
            st: FromValue::from_value(s[1].as_ref().expect("component st of Ttp9p12p6 must be present")),
            i: FromValue::from_value(s[2].as_ref().expect("component i of Ttp9p12p6 must be present")),
        }
    }
}
impl ToValue for Ttp9p12p6 {
    fn to_value(&self) -> Value {
        Value::Seq(vec![
            self.rc.as_ref().map(|x| x.to_value()),
            Some(self.st.to_value()),
            Some(self.i.to_value()),
        ])
    }
}
impl FromValue for Ttp9p12p7 {
    fn from_value(v: &Value) -> Self {
        let s = match v { Value::Seq(s) => s, other => panic!("Ttp9p12p7: expected Seq, got {other:?}") };
        assert_eq!(s.len(), 3, "Ttp9p12p7: component count");
        let _ = s;
        Ttp9p12p7 {
            rc: s[0].as_ref().map(FromValue::from_value),
            st: FromValue::from_value(s[1].as_ref().expect("component st of Ttp9p12p7 must be present")),
            ra: s[2].as_ref().map(FromValue::from_value),
        }
    }
}
impl ToValue for Ttp9p12p7 {
    fn to_value(&self) -> Value {
        Value::Seq(vec![
            self.rc.as_ref().map(|x| x.to_value()),
            Some(self.st.to_value()),
            self.ra.as_ref().map(|x| x.to_value()),
        ])
    }
}
impl FromValue for Ttp9p12p8 {
    fn from_value(v: &Value) -> Self {
        let s = match v { Value::Seq(s) => s, other => panic!("Ttp9p12p8: expected Seq, got {other:?}") };
        assert_eq!(s.len(), 3, "Ttp9p12p8: component count");
        let _ = s;
        Ttp9p12p8 {
            rc: s[0].as_ref().map(FromValue::from_value),
            st: FromValue::from_value(s[1].as_ref().expect("component st of Ttp9p12p8 must be present")),
            rs: FromValue::from_value(s[2].as_ref().expect("component rs of Ttp9p12p8 must be present")),
        }
    }
}
impl ToValue for Ttp9p12p8 {
    fn to_value(&self) -> Value {
        Value::Seq(vec![
            self.rc.as_ref().map(|x| x.to_value()),
            Some(self.st.to_value()),
            Some(self.rs.to_value()),
        ])
    }
}
impl FromValue for Ttp9p12p10 {
    fn from_value(v: &Value) -> Self {
        let s = match v { Value::Seq(s) => s, other => panic!("Ttp9p12p10: expected Seq, got {other:?}") };
        assert_eq!(s.len(), 3, "Ttp9p12p10: component count");
        let _ = s;
        Ttp9p12p10 {
            rc: s[0].as_ref().map(FromValue::from_value),
            st: FromValue::from_value(s[1].as_ref().expect("component st of Ttp9p12p10 must be present")),
            rt: FromValue::from_value(s[2].as_ref().expect("component rt of Ttp9p12p10 must be present")),
        }
    }
}
impl ToValue for Ttp9p12p10 {
    fn to_value(&self) -> Value {
        Value::Seq(vec![
            self.rc.as_ref().map(|x| x.to_value()),
            Some(self.st.to_value()),
            Some(self.rt.to_value()),
        ])
    }
}
impl FromValue for Ttp9p12p11 {
    fn from_value(v: &Value) -> Self {
        let s = match v { Value::Seq(s) => s, other => panic!("Ttp9p12p11: expected Seq, got {other:?}") };
        assert_eq!(s.len(), 3, "Ttp9p12p11: component count");
        let _ = s;
        Ttp9p12p11 {
            rc: s[0].as_ref().map(FromValue::from_value),
            st: FromValue::from_value(s[1].as_ref().expect("component st of Ttp9p12p11 must be present")),
            so: s[2].as_ref().map(FromValue::from_value),
        }
    }
}
impl ToValue for Ttp9p12p11 {
    fn to_value(&self) -> Value {
        Value::Seq(vec![
            self.rc.as_ref().map(|x| x.to_value()),
            Some(self.st.to_value()),
            self.so.as_ref().map(|x| x.to_value()),
        ])
    }
}
impl FromValue for Ttp9p12p13 {
    fn from_value(v: &Value) -> Self {
        let s = match v { Value::Seq(s) => s, other => panic!("Ttp9p12p13: expected Seq, got {other:?}") };
        assert_eq!(s.len(), 3, "Ttp9p12p13: component count");
        let _ = s;
        Ttp9p12p13 {
            rc: s[0].as_ref().map(FromValue::from_value),
            st: FromValue::from_value(s[1].as_ref().expect("component st of Ttp9p12p13 must be present")),
            rx: s[2].as_ref().map(FromValue::from_value),
        }
    }
}
impl ToValue for Ttp9p12p13 {
    fn to_value(&self) -> Value {
        Value::Seq(vec![
            self.rc.as_ref().map(|x| x.to_value()),
            Some(self.st.to_value()),
            self.rx.as_ref().map(|x| x.to_value()),
        ])
    }
}
impl FromValue for Ttp9p12p14 {
    fn from_value(v: &Value) -> Self {
        let s = match v { Value::Seq(s) => s, other => panic!("Ttp9p12p14: expected Seq, got {other:?}") };
        assert_eq!(s.len(), 3, "Ttp9p12p14: component count");
        let _ = s;
        Ttp9p12p14 {
            rc: s[0].as_ref().map(FromValue::from_value),
            st: FromValue::from_value(s[1].as_ref().expect("component st of Ttp9p12p14 must be present")),
            u2: FromValue::from_value(s[2].as_ref().expect("component u2 of Ttp9p12p14 must be present")),
        }
    }
}
impl ToValue for Ttp9p12p14 {
    fn to_value(&self) -> Value {
        Value::Seq(vec![
            self.rc.as_ref().map(|x| x.to_value()),
            Some(self.st.to_value()),
            Some(self.u2.to_value()),
        ])
    }
}
impl FromValue for Ttp9p12p15Is {
    fn from_value(v: &Value) -> Self {
        let s = match v { Value::Seq(s) => s, other => panic!("Ttp9p12p15Is: expected Seq, got {other:?}") };
        assert_eq!(s.len(), 1, "Ttp9p12p15Is: component count");
        let _ = s;
        Ttp9p12p15Is {
            v: FromValue::from_value(s[0].as_ref().expect("component v of Ttp9p12p15Is must be present")),
        }
    }
}
impl ToValue for Ttp9p12p15Is {
    fn to_value(&self) -> Value {
        Value::Seq(vec![
            Some(self.v.to_value()),
        ])
    }
}
impl FromValue for Ttp9p12p15 {
    fn from_value(v: &Value) -> Self {
        let s = match v { Value::Seq(s) => s, other => panic!("Ttp9p12p15: expected Seq, got {other:?}") };
        assert_eq!(s.len(), 3, "Ttp9p12p15: component count");
        let _ = s;
        Ttp9p12p15 {
            rc: s[0].as_ref().map(FromValue::from_value),
            st: FromValue::from_value(s[1].as_ref().expect("component st of Ttp9p12p15 must be present")),
            is: s[2].as_ref().map(FromValue::from_value),
        }
    }
}
impl ToValue for Ttp9p12p15 {
    fn to_value(&self) -> Value {
        Value::Seq(vec![
            self.rc.as_ref().map(|x| x.to_value()),
            Some(self.st.to_value()),
            self.is.as_ref().map(|x| x.to_value()),
        ])
    }
}
impl FromValue for Ttp9p13p0 {
    fn from_value(v: &Value) -> Self {
        let s = match v { Value::Seq(s) => s, other => panic!("Ttp9p13p0: expected Seq, got {other:?}") };
        assert_eq!(s.len(), 3, "Ttp9p13p0: component count");
        let _ = s;
        Ttp9p13p0 {
            rc: s[0].as_ref().map(FromValue::from_value),
            rx: s[1].as_ref().map(FromValue::from_value),
            x: FromValue::from_value(s[2].as_ref().expect("component x of Ttp9p13p0 must be present")),
        }
    }
}
impl ToValue for Ttp9p13p0 {
    fn to_value(&self) -> Value {
        Value::Seq(vec![
            self.rc.as_ref().map(|x| x.to_value()),
            self.rx.as_ref().map(|x| x.to_value()),
            Some(self.x.to_value()),
        ])
    }
}
impl FromValue for Ttp9p13p1 {
    fn from_value(v: &Value) -> Self {
        let s = match v { Value::Seq(s) => s, other => panic!("Ttp9p13p1: expected Seq, got {other:?}") };
        assert_eq!(s.len(), 3, "Ttp9p13p1: component count");
        let _ = s;
        Ttp9p13p1 {
            rc: s[0].as_ref().map(FromValue::from_value),
            rx: s[1].as_ref().map(FromValue::from_value),
            a: s[2].as_ref().map(FromValue::from_value),
        }
    }
}
impl ToValue for Ttp9p13p1 {
    fn to_value(&self) -> Value {
        Value::Seq(vec![
            self.rc.as_ref().map(|x| x.to_value()),
            self.rx.as_ref().map(|x| x.to_value()),
            self.a.as_ref().map(|x| x.to_value()),
        ])
    }
}
impl FromValue for Ttp9p13p2 {
    fn from_value(v: &Value) -> Self {
        let s = match v { Value::Seq(s) => s, other => panic!("Ttp9p13p2: expected Seq, got {other:?}") };
        assert_eq!(s.len(), 3, "Ttp9p13p2: component count");
        let _ = s;
        Ttp9p13p2 {
            rc: s[0].as_ref().map(FromValue::from_value),
            rx: s[1].as_ref().map(FromValue::from_value),
            c3: FromValue::from_value(s[2].as_ref().expect("component c3 of Ttp9p13p2 must be present")),
        }
    }
}
impl ToValue for Ttp9p13p2 {
    fn to_value(&self) -> Value {
        Value::Seq(vec![
            self.rc.as_ref().map(|x| x.to_value()),
            self.rx.as_ref().map(|x| x.to_value()),
            Some(self.c3.to_value()),
        ])
    }
}
impl FromValue for Ttp9p13p3 {
    fn from_value(v: &Value) -> Self {
        let s = match v { Value::Seq(s) => s, other => panic!("Ttp9p13p3: expected Seq, got {other:?}") };
        assert_eq!(s.len(), 3, "Ttp9p13p3: component count");
        let _ = s;
        Ttp9p13p3 {
            rc: s[0].as_ref().map(FromValue::from_value),
            rx: s[1].as_ref().map(FromValue::from_value),
            c0: s[2].as_ref().map(FromValue::from_value),
        }
    }
}
impl ToValue for Ttp9p13p3 {
    fn to_value(&self) -> Value {
        Value::Seq(vec![
            self.rc.as_ref().map(|x| x.to_value()),
            self.rx.as_ref().map(|x| x.to_value()),
            self.c0.as_ref().map(|x| x.to_value()),
        ])
    }
}
impl FromValue for Ttp9p13p4 {
    fn from_value(v: &Value) -> Self {
        let s = match v { Value::Seq(s) => s, other => panic!("Ttp9p13p4: expected Seq, got {other:?}") };
        assert_eq!(s.len(), 3, "Ttp9p13p4: component count");
        let _ = s;
        Ttp9p13p4 {
            rc: s[0].as_ref().map(FromValue::from_value),
            rx: s[1].as_ref().map(FromValue::from_value),
            p: FromValue::from_value(s[2].as_ref().expect("component p of Ttp9p13p4 must be present")),
        }
    }
}
impl ToValue for Ttp9p13p4 {
    fn to_value(&self) -> Value {
        Value::Seq(vec![
            self.rc.as_ref().map(|x| x.to_value()),
            self.rx.as_ref().map(|x| x.to_value()),
            Some(self.p.to_value()),
        ])
    }
}
impl FromValue for Ttp9p13p5 {
    fn from_value(v: &Value) -> Self {
        let s = match v { Value::Seq(s) => s, other => panic!("Ttp9p13p5: expected Seq, got {other:?}") };
        assert_eq!(s.len(), 3, "Ttp9p13p5: component count");
        let _ = s;
        Ttp9p13p5 {
            rc: s[0].as_ref().map(FromValue::from_value),
            rx: s[1].as_ref().map(FromValue::from_value),
            b: s[2].as_ref().map(FromValue::from_value),
        }
    }
}
impl ToValue for Ttp9p13p5 {
    fn to_value(&self) -> Value {
        Value::Seq(vec![
            self.rc.as_ref().map(|x| x.to_value()),
            self.rx.as_ref().map(|x| x.to_value()),
            self.b.as_ref().map(|x| x.to_value()),
        ])
    }
}
impl FromValue for Ttp9p13p6 {
    fn from_value(v: &Value) -> Self {
        let s = match v { Value::Seq(s) => s, other => panic!("Ttp9p13p6: expected Seq, got {other:?}") };
        assert_eq!(s.len(), 3, "Ttp9p13p6: component count");
        let _ = s;
        Ttp9p13p6 {
            rc: s[0].as_ref().map(FromValue::from_value),
            rx: s[1].as_ref().map(FromValue::from_value),
            i: FromValue::from_value(s[2].as_ref().expect("component i of Ttp9p13p6 must be present")),
        }
    }
}
impl ToValue for Ttp9p13p6 {
    fn to_value(&self) -> Value {
        Value::Seq(vec![
            self.rc.as_ref().map(|x| x.to_value()),
            self.rx.as_ref().map(|x| x.to_value()),
            Some(self.i.to_value()),
        ])
    }
}
impl FromValue for Ttp9p13p7 {
    fn from_value(v: &Value) -> Self {
        let s = match v { Value::Seq(s) => s, other => panic!("Ttp9p13p7: expected Seq, got {other:?}") };
        assert_eq!(s.len(), 3, "Ttp9p13p7: component count");
        let _ = s;
        Ttp9p13p7 {
            rc: s[0].as_ref().map(FromValue::from_value),
            rx: s[1].as_ref().map(FromValue::from_value),
            ra: s[2].as_ref().map(FromValue::from_value),
        }
    }
}
impl ToValue for Ttp9p13p7 {
    fn to_value(&self) -> Value {
        Value::Seq(vec![
            self.rc.as_ref().map(|x| x.to_value()),
            self.rx.as_ref().map(|x| x.to_value()),
            self.ra.as_ref().map(|x| x.to_value()),
        ])
    }
}
impl FromValue for Ttp9p13p8 {
    fn from_value(v: &Value) -> Self {
        let s = match v { Value::Seq(s) => s, other => panic!("Ttp9p13p8: expected Seq, got {other:?}") };
        assert_eq!(s.len(), 3, "Ttp9p13p8: component count");
        let _ = s;
        Ttp9p13p8 {
            rc: s[0].as_ref().map(FromValue::from_value),
            rx: s[1].as_ref().map(FromValue::from_value),
            rs: FromValue::from_value(s[2].as_ref().expect("component rs of Ttp9p13p8 must be present")),
        }
    }
}
impl ToValue for Ttp9p13p8 {
    fn to_value(&self) -> Value {
        Value::Seq(vec![
            self.rc.as_ref().map(|x| x.to_value()),
            self.rx.as_ref().map(|x| x.to_value()),
            Some(self.rs.to_value()),
        ])
    }
}
impl FromValue for Ttp9p13p10 {
    fn from_value(v: &Value) -> Self {
        let s = match v { Value::Seq(s) => s, other => panic!("Ttp9p13p10: expected Seq, got {other:?}") };
        assert_eq!(s.len(), 3, "Ttp9p13p10: component count");
        let _ = s;
        Ttp9p13p10 {
            rc: s[0].as_ref().map(FromValue::from_value),
            rx: s[1].as_ref().map(FromValue::from_value),
            rt: FromValue::from_value(s[2].as_ref().expect("component rt of Ttp9p13p10 must be present")),
        }
    }
}
impl ToValue for Ttp9p13p10 {
    fn to_value(&self) -> Value {
        Value::Seq(vec![
            self.rc.as_ref().map(|x| x.to_value()),
            self.rx.as_ref().map(|x| x.to_value()),
            Some(self.rt.to_value()),
        ])
    }
}
impl FromValue for Ttp9p13p11 {
    fn from_value(v: &Value) -> Self {
        let s = match v { Value::Seq(s) => s, other => panic!("Ttp9p13p11: expected Seq, got {other:?}") };
        assert_eq!(s.len(), 3, "Ttp9p13p11: component count");
        let _ = s;
        Ttp9p13p11 {
            rc: s[0].as_ref().map(FromValue::from_value),
            rx: s[1].as_ref().map(FromValue::from_value),
            so: s[2].as_ref().map(FromValue::from_value),
        }
    }
}
impl ToValue for Ttp9p13p11 {
    fn to_value(&self) -> Value {
        Value::Seq(vec![
            self.rc.as_ref().map(|x| x.to_value()),
            self.rx.as_ref().map(|x| x.to_value()),
            self.so.as_ref().map(|x| x.to_value()),
        ])
    }
}
impl FromValue for Ttp9p13p12 {
    fn from_value(v: &Value) -> Self {
        let s = match v { Value::Seq(s) => s, other => panic!("Ttp9p13p12: expected Seq, got {other:?}") };
        assert_eq!(s.len(), 3, "Ttp9p13p12: component count");
        let _ = s;
        Ttp9p13p12 {
            rc: s[0].as_ref().map(FromValue::from_value),
            rx: s[1].as_ref().map(FromValue::from_value),
            st: FromValue::from_value(s[2].as_ref().expect("component st of Ttp9p13p12 must be present")),
        }
    }
}
impl ToValue for Ttp9p13p12 {
    fn to_value(&self) -> Value {
        Value::Seq(vec![
            self.rc.as_ref().map(|x| x.to_value()),
            self.rx.as_ref().map(|x| x.to_value()),
            Some(self.st.to_value()),
        ])
    }
}
impl FromValue for Ttp9p13p14 {
    fn from_value(v: &Value) -> Self {
        let s = match v { Value::Seq(s) => s, other => panic!("Ttp9p13p14: expected Seq, got {other:?}") };
        assert_eq!(s.len(), 3, "Ttp9p13p14: component count");
        let _ = s;
        Ttp9p13p14 {
            rc: s[0].as_ref().map(FromValue::from_value),
            rx: s[1].as_ref().map(FromValue::from_value),
            u2: FromValue::from_value(s[2].as_ref().expect("component u2 of Ttp9p13p14 must be present")),
        }
    }
}
impl ToValue for Ttp9p13p14 {
    fn to_value(&self) -> Value {
        Value::Seq(vec![
            self.rc.as_ref().map(|x| x.to_value()),
            self.rx.as_ref().map(|x| x.to_value()),
            Some(self.u2.to_value()),
        ])
    }
}
impl FromValue for Ttp9p13p15Is {
    fn from_value(v: &Value) -> Self {
        let s = match v { Value::Seq(s) => s, other => panic!("Ttp9p13p15Is: expected Seq, got {other:?}") };
        assert_eq!(s.len(), 1, "Ttp9p13p15Is: component count");
        let _ = s;
        Ttp9p13p15Is {
            v: FromValue::from_value(s[0].as_ref().expect("component v of Ttp9p13p15Is must be present")),
        }
    }
}
impl ToValue for Ttp9p13p15Is {
    fn to_value(&self) -> Value {
        Value::Seq(vec![
            Some(self.v.to_value()),
        ])
    }
}
impl FromValue for Ttp9p13p15 {
    fn from_value(v: &Value) -> Self {
        let s = match v { Value::Seq(s) => s, other => panic!("Ttp9p13p15: expected Seq, got {other:?}") };
        assert_eq!(s.len(), 3, "Ttp9p13p15: component count");
        let _ = s;
        Ttp9p13p15 {
            rc: s[0].as_ref().map(FromValue::from_value),
            rx: s[1].as_ref().map(FromValue::from_value),
            is: s[2].as_ref().map(FromValue::from_value),
        }
    }
}
impl ToValue for Ttp9p13p15 {
    fn to_value(&self) -> Value {
        Value::Seq(vec![
            self.rc.as_ref().map(|x| x.to_value()),
            self.rx.as_ref().map(|x| x.to_value()),
            self.is.as_ref().map(|x| x.to_value()),
        ])
    }
}
impl FromValue for Ttp9p14p0 {
    fn from_value(v: &Value) -> Self {
        let s = match v { Value::Seq(s) => s, other => panic!("Ttp9p14p0: expected Seq, got {other:?}") };
        assert_eq!(s.len(), 3, "Ttp9p14p0: component count");
        let _ = s;
        Ttp9p14p0 {
            rc: s[0].as_ref().map(FromValue::from_value),
            u2: FromValue::from_value(s[1].as_ref().expect("component u2 of Ttp9p14p0 must be present")),
            x: FromValue::from_value(s[2].as_ref().expect("component x of Ttp9p14p0 must be present")),
        }
    }
}
impl ToValue for Ttp9p14p0 {
    fn to_value(&self) -> Value {
        Value::Seq(vec![
            self.rc.as_ref().map(|x| x.to_value()),
            Some(self.u2.to_value()),
            Some(self.x.to_value()),
        ])
    }
}
impl FromValue for Ttp9p14p1 {
    fn from_value(v: &Value) -> Self {
        let s = match v { Value::Seq(s) => s, other => panic!("Ttp9p14p1: expected Seq, got {other:?}") };
        assert_eq!(s.len(), 3, "Ttp9p14p1: component count");
        let _ = s;
        Ttp9p14p1 {
            rc: s[0].as_ref().map(FromValue::from_value),
            u2: FromValue::from_value(s[1].as_ref().expect("component u2 of Ttp9p14p1 must be present")),
            a: s[2].as_ref().map(FromValue::from_value),
        }
    }
}
impl ToValue for Ttp9p14p1 {
    fn to_value(&self) -> Value {
        Value::Seq(vec![
            self.rc.as_ref().map(|x| x.to_value()),
            Some(self.u2.to_value()),
            self.a.as_ref().map(|x| x.to_value()),
        ])
    }
}
impl FromValue for Ttp9p14p2 {
    fn from_value(v: &Value) -> Self {
        let s = match v { Value::Seq(s) => s, other => panic!("Ttp9p14p2: expected Seq, got {other:?}") };
        assert_eq!(s.len(), 3, "Ttp9p14p2: component count");
        let _ = s;
        Ttp9p14p2 {
            rc: s[0].as_ref().map(FromValue::from_value),
            u2: FromValue::from_value(s[1].as_ref().expect("component u2 of Ttp9p14p2 must be present")),
            c3: FromValue::from_value(s[2].as_ref().expect("component c3 of Ttp9p14p2 must be present")),
        }
    }
}
impl ToValue for Ttp9p14p2 {
    fn to_value(&self) -> Value {
        Value::Seq(vec![
            self.rc.as_ref().map(|x| x.to_value()),
            Some(self.u2.to_value()),
            Some(self.c3.to_value()),
        ])
    }
}
impl FromValue for Ttp9p14p3 {
    fn from_value(v: &Value) -> Self {
        let s = match v { Value::Seq(s) => s, other => panic!("Ttp9p14p3: expected Seq, got {other:?}") };
        assert_eq!(s.len(), 3, "Ttp9p14p3: component count");
        let _ = s;
        Ttp9p14p3 {
            rc: s[0].as_ref().map(FromValue::from_value),
            u2: FromValue::from_value(s[1].as_ref().expect("component u2 of Ttp9p14p3 must be present")),
            c0: s[2].as_ref().map(FromValue::from_value),
        }
    }
}
impl ToValue for Ttp9p14p3 {
    fn to_value(&self) -> Value {
        Value::Seq(vec![
            self.rc.as_ref().map(|x| x.to_value()),
            Some(self.u2.to_value()),
            self.c0.as_ref().map(|x| x.to_value()),
        ])
    }
}
impl FromValue for Ttp9p14p4 {
    fn from_value(v: &Value) -> Self {
        let s = match v { Value::Seq(s) => s, other => panic!("Ttp9p14p4: expected Seq, got {other:?}") };
        assert_eq!(s.len(), 3, "Ttp9p14p4: component count");
        let _ = s;
        Ttp9p14p4 {
            rc: s[0].as_ref().map(FromValue::from_value),
            u2: FromValue::from_value(s[1].as_ref().expect("component u2 of Ttp9p14p4 must be present")),
            p: FromValue::from_value(s[2].as_ref().expect("component p of Ttp9p14p4 must be present")),
        }
    }
}
impl ToValue for Ttp9p14p4 {
    fn to_value(&self) -> Value {
        Value::Seq(vec![
            self.rc.as_ref().map(|x| x.to_value()),
            Some(self.u2.to_value()),
            Some(self.p.to_value()),
        ])
    }
}
impl FromValue for Ttp9p14p5 {
    fn from_value(v: &Value) -> Self {
        let s = match v { Value::Seq(s) => s, other => panic!("Ttp9p14p5: expected Seq, got {other:?}") };
        assert_eq!(s.len(), 3, "Ttp9p14p5: component count");
        let _ = s;
        Ttp9p14p5 {
            rc: s[0].as_ref().map(FromValue::from_value),
            u2: FromValue::from_value(s[1].as_ref().expect("component u2 of Ttp9p14p5 must be present")),
            b: s[2].as_ref().map(FromValue::from_value),
        }
    }
}
impl ToValue for Ttp9p14p5 {
    fn to_value(&self) -> Value {
        Value::Seq(vec![
            self.rc.as_ref().map(|x| x.to_value()),
            Some(self.u2.to_value()),
            self.b.as_ref().map(|x| x.to_value()),
        ])
    }
}
impl FromValue for Ttp9p14p6 {
    fn from_value(v: &Value) -> Self {
        let s = match v { Value::Seq(s) => s, other => panic!("Ttp9p14p6: expected Seq, got {other:?}") };
        assert_eq!(s.len(), 3, "Ttp9p14p6: component count");
        let _ = s;
        Ttp9p14p6 {
            rc: s[0].as_ref().map(FromValue::from_value),
            u2: FromValue::from_value(s[1].as_ref().expect("component u2 of Ttp9p14p6 must be present")),
            i: FromValue::from_value(s[2].as_ref().expect("component i of Ttp9p14p6 must be present")),
        }
    }
}
impl ToValue for Ttp9p14p6 {
    fn to_value(&self) -> Value {
        Value::Seq(vec![
            self.rc.as_ref().map(|x| x.to_value()),
            Some(self.u2.to_value()),
            Some(self.i.to_value()),
        ])
    }
}
impl FromValue for Ttp9p14p7 {
    fn from_value(v: &Value) -> Self {
        let s = match v { Value::Seq(s) => s, other => panic!("Ttp9p14p7: expected Seq, got {other:?}") };
        assert_eq!(s.len(), 3, "Ttp9p14p7: component count");
        let _ = s;
        Ttp9p14p7 {
            rc: s[0].as_ref().map(FromValue::from_value),
            u2: FromValue::from_value(s[1].as_ref().expect("component u2 of Ttp9p14p7 must be present")),
            ra: s[2].as_ref().map(FromValue::from_value),
        }
    }
}
impl ToValue for Ttp9p14p7 {
    fn to_value(&self) -> Value {
        Value::Seq(vec![
            self.rc.as_ref().map(|x| x.to_value()),
            Some(self.u2.to_value()),
            self.ra.as_ref().map(|x| x.to_value()),
        ])
    }
}
impl FromValue for Ttp9p14p8 {
    fn from_value(v: &Value) -> Self {
        let s = match v { Value::Seq(s) => s, other => panic!("Ttp9p14p8: expected Seq, got {other:?}") };
        assert_eq!(s.len(), 3, "Ttp9p14p8: component count");
        let _ = s;
        Ttp9p14p8 {
            rc: s[0].as_ref().map(FromValue::from_value),
            u2: FromValue::from_value(s[1].as_ref().expect("component u2 of Ttp9p14p8 must be present")),
            rs: FromValue::from_value(s[2].as_ref().expect("component rs of Ttp9p14p8 must be present")),
        }
    }
}
impl ToValue for Ttp9p14p8 {
    fn to_value(&self) -> Value {
        Value::Seq(vec![
            self.rc.as_ref().map(|x| x.to_value()),
            Some(self.u2.to_value()),
            Some(self.rs.to_value()),
        ])
    }
}
impl FromValue for Ttp9p14p10 {
    fn from_value(v: &Value) -> Self {
        let s = match v { Value::Seq(s) => s, other => panic!("Ttp9p14p10: expected Seq, got {other:?}") };
        assert_eq!(s.len(), 3, "Ttp9p14p10: component count");
        let _ = s;
        Ttp9p14p10 {
            rc: s[0].as_ref().map(FromValue::from_value),
            u2: FromValue::from_value(s[1].as_ref().expect("component u2 of Ttp9p14p10 must be present")),
            rt: FromValue::from_value(s[2].as_ref().expect("component rt of Ttp9p14p10 must be present")),
        }
    }
}
impl ToValue for Ttp9p14p10 {
    fn to_value(&self) -> Value {
        Value::Seq(vec![
            self.rc.as_ref().map(|x| x.to_value()),
            Some(self.u2.to_value()),
            Some(self.rt.to_value()),
        ])
    }
}
impl FromValue for Ttp9p14p11 {
    fn from_value(v: &Value) -> Self {
        let s = match v { Value::Seq(s) => s, other => panic!("Ttp9p14p11: expected Seq, got {other:?}") };
        assert_eq!(s.len(), 3, "Ttp9p14p11: component count");
        let _ = s;
        Ttp9p14p11 {
            rc: s[0].as_ref().map(FromValue::from_value),
            u2: FromValue::from_value(s[1].as_ref().expect("component u2 of Ttp9p14p11 must be present")),
            so: s[2].as_ref().map(FromValue::from_value),
        }
    }
}
impl ToValue for Ttp9p14p11 {
    fn to_value(&self) -> Value {
        Value::Seq(vec![
            self.rc.as_ref().map(|x| x.to_value()),
            Some(self.u2.to_value()),
            self.so.as_ref().map(|x| x.to_value()),
        ])
    }
}
impl FromValue for Ttp9p14p12 {
    fn from_value(v: &Value) -> Self {
        let s = match v { Value::Seq(s) => s, other => panic!("Ttp9p14p12: expected Seq, got {other:?}") };
        assert_eq!(s.len(), 3, "Ttp9p14p12: component count");
        let _ = s;
        Ttp9p14p12 {
            rc: s[0].as_ref().map(FromValue::from_value),
            u2: FromValue::from_value(s[1].as_ref().expect("component u2 of Ttp9p14p12 must be present")),
            st: FromValue::from_value(s[2].as_ref().expect("component st of Ttp9p14p12 must be present")),
        }
    }
}
impl ToValue for Ttp9p14p12 {
    fn to_value(&self) -> Value {
        Value::Seq(vec![
            self.rc.as_ref().map(|x| x.to_value()),
            Some(self.u2.to_value()),
            Some(self.st.to_value()),
        ])
    }
}
impl FromValue for Ttp9p14p13 {
    fn from_value(v: &Value) -> Self {
        let s = match v { Value::Seq(s) => s, other => panic!("Ttp9p14p13: expected Seq, got {other:?}") };
        assert_eq!(s.len(), 3, "Ttp9p14p13: component count");
        let _ = s;
        Ttp9p14p13 {
            rc: s[0].as_ref().map(FromValue::from_value),
            u2: FromValue::from_value(s[1].as_ref().expect("component u2 of Ttp9p14p13 must be present")),
            rx: s[2].as_ref().map(FromValue::from_value),
        }
    }
}
impl ToValue for Ttp9p14p13 {
    fn to_value(&self) -> Value {
        Value::Seq(vec![
            self.rc.as_ref().map(|x| x.to_value()),
            Some(self.u2.to_value()),
            self.rx.as_ref().map(|x| x.to_value()),
        ])
    }
}
impl FromValue for Ttp9p14p15Is {
    fn from_value(v: &Value) -> Self {
        let s = match v { Value::Seq(s) => s, other => panic!("Ttp9p14p15Is: expected Seq, got {other:?}") };
        assert_eq!(s.len(), 1, "Ttp9p14p15Is: component count");
        let _ = s;
        Ttp9p14p15Is {
            v: FromValue::from_value(s[0].as_ref().expect("component v of Ttp9p14p15Is must be present")),
        }
    }
}
impl ToValue for Ttp9p14p15Is {
    fn to_value(&self) -> Value {
        Value::Seq(vec![
            Some(self.v.to_value()),
        ])
    }
}
impl FromValue for Ttp9p14p15 {
    fn from_value(v: &Value) -> Self {
        let s = match v { Value::Seq(s) => s, other => panic!("Ttp9p14p15: expected Seq, got {other:?}") };
        assert_eq!(s.len(), 3, "Ttp9p14p15: component count");
        let _ = s;
        Ttp9p14p15 {
            rc: s[0].as_ref().map(FromValue::from_value),
            u2: FromValue::from_value(s[1].as_ref().expect("component u2 of Ttp9p14p15 must be present")),
            is: s[2].as_ref().map(FromValue::from_value),
        }
    }
}
impl ToValue for Ttp9p14p15 {
    fn to_value(&self) -> Value {
        Value::Seq(vec![
            self.rc.as_ref().map(|x| x.to_value()),
            Some(self.u2.to_value()),
            self.is.as_ref().map(|x| x.to_value()),
        ])
    }
}
impl FromValue for Ttp9p15p0Is {
    fn from_value(v: &Value) -> Self {
        let s = match v { Value::Seq(s) => s, other => panic!("Ttp9p15p0Is: expected Seq, got {other:?}") };
        assert_eq!(s.len(), 1, "Ttp9p15p0Is: component count");
        let _ = s;
        Ttp9p15p0Is {
            v: FromValue::from_value(s[0].as_ref().expect("component v of Ttp9p15p0Is must be present")),
        }
    }
}
impl ToValue for Ttp9p15p0Is {
    fn to_value(&self) -> Value {
        Value::Seq(vec![
            Some(self.v.to_value()),
        ])
    }
}
impl FromValue for Ttp9p15p0 {
    fn from_value(v: &Value) -> Self {
        let s = match v { Value::Seq(s) => s, other => panic!("Ttp9p15p0: expected Seq, got {other:?}") };
        assert_eq!(s.len(), 3, "Ttp9p15p0: component count");
        let _ = s;
        Ttp9p15p0 {
            rc: s[0].as_ref().map(FromValue::from_value),
            is: s[1].as_ref().map(FromValue::from_value),
            x: FromValue::from_value(s[2].as_ref().expect("component x of Ttp9p15p0 must be present")),
        }
    }
}
impl ToValue for Ttp9p15p0 {
    fn to_value(&self) -> Value {
        Value::Seq(vec![
            self.rc.as_ref().map(|x| x.to_value()),
            self.is.as_ref().map(|x| x.to_value()),
            Some(self.x.to_value()),
        ])
    }
}
impl FromValue for Ttp9p15p1Is {
    fn from_value(v: &Value) -> Self {
        let s = match v { Value::Seq(s) => s, other => panic!("Ttp9p15p1Is: expected Seq, got {other:?}") };
        assert_eq!(s.len(), 1, "Ttp9p15p1Is: component count");
        let _ = s;
        Ttp9p15p1Is {
            v: FromValue::from_value(s[0].as_ref().expect("component v of Ttp9p15p1Is must be present")),
        }
    }
}
impl ToValue for Ttp9p15p1Is {
    fn to_value(&self) -> Value {
        Value::Seq(vec![
            Some(self.v.to_value()),
        ])
    }
}
impl FromValue for Ttp9p15p1 {
    fn from_value(v: &Value) -> Self {
        let s = match v { Value::Seq(s) => s, other => panic!("Ttp9p15p1: expected Seq, got {other:?}") };
        assert_eq!(s.len(), 3, "Ttp9p15p1: component count");
        let _ = s;
        Ttp9p15p1 {
            rc: s[0].as_ref().map(FromValue::from_value),
            is: s[1].as_ref().map(FromValue::from_value),
            a: s[2].as_ref().map(FromValue::from_value),
        }
    }
}
impl ToValue for Ttp9p15p1 {
    fn to_value(&self) -> Value {
        Value::Seq(vec![
            self.rc.as_ref().map(|x| x.to_value()),
            self.is.as_ref().map(|x| x.to_value()),
            self.a.as_ref().map(|x| x.to_value()),
        ])
    }
}
impl FromValue for Ttp9p15p2Is {
    fn from_value(v: &Value) -> Self {
        let s = match v { Value::Seq(s) => s, other => panic!("Ttp9p15p2Is: expected Seq, got {other:?}") };
        assert_eq!(s.len(), 1, "Ttp9p15p2Is: component count");
        let _ = s;
        Ttp9p15p2Is {
            v: FromValue::from_value(s[0].as_ref().expect("component v of Ttp9p15p2Is must be present")),
        }
    }
}
impl ToValue for Ttp9p15p2Is {
    fn to_value(&self) -> Value {
        Value::Seq(vec![
            Some(self.v.to_value()),
        ])
    }
}
impl FromValue for Ttp9p15p2 {
    fn from_value(v: &Value) -> Self {
        let s = match v { Value::Seq(s) => s, other => panic!("Ttp9p15p2: expected Seq, got {other:?}") };
        assert_eq!(s.len(), 3, "Ttp9p15p2: component count");
        let _ = s;
        Ttp9p15p2 {
            rc: s[0].as_ref().map(FromValue::from_value),
            is: s[1].as_ref().map(FromValue::from_value),
            c3: FromValue::from_value(s[2].as_ref().expect("component c3 of Ttp9p15p2 must be present")),
        }
    }
}
impl ToValue for Ttp9p15p2 {
    fn to_value(&self) -> Value {
        Value::Seq(vec![
            self.rc.as_ref().map(|x| x.to_value()),
            self.is.as_ref().map(|x| x.to_value()),
            Some(self.c3.to_value()),
        ])
    }
}
impl FromValue for Ttp9p15p3Is {
    fn from_value(v: &Value) -> Self {
        let s = match v { Value::Seq(s) => s, other => panic!("Ttp9p15p3Is: expected Seq, got {other:?}") };
        assert_eq!(s.len(), 1, "Ttp9p15p3Is: component count");
        let _ = s;
        Ttp9p15p3Is {
            v: FromValue::from_value(s[0].as_ref().expect("component v of Ttp9p15p3Is must be present")),
        }
    }
}
impl ToValue for Ttp9p15p3Is {
    fn to_value(&self) -> Value {
        Value::Seq(vec![
            Some(self.v.to_value()),
        ])
    }
}
impl FromValue for Ttp9p15p3 {
    fn from_value(v: &Value) -> Self {
        let s = match v { Value::Seq(s) => s, other => panic!("Ttp9p15p3: expected Seq, got {other:?}") };
        assert_eq!(s.len(), 3, "Ttp9p15p3: component count");
        let _ = s;
        Ttp9p15p3 {
            rc: s[0].as_ref().map(FromValue::from_value),
            is: s[1].as_ref().map(FromValue::from_value),
            c0: s[2].as_ref().map(FromValue::from_value),
        }
    }
}
impl ToValue for Ttp9p15p3 {
    fn to_value(&self) -> Value {
        Value::Seq(vec![
            self.rc.as_ref().map(|x| x.to_value()),
            self.is.as_ref().map(|x| x.to_value()),
            self.c0.as_ref().map(|x| x.to_value()),
        ])
    }
}
impl FromValue for Ttp9p15p4Is {
    fn from_value(v: &Value) -> Self {
        let s = match v { Value::Seq(s) => s, other => panic!("Ttp9p15p4Is: expected Seq, got {other:?}") };
        assert_eq!(s.len(), 1, "Ttp9p15p4Is: component count");
        let _ = s;
        Ttp9p15p4Is {
            v: FromValue::from_value(s[0].as_ref().expect("component v of Ttp9p15p4Is must be present")),
        }
    }
}
impl ToValue for Ttp9p15p4Is {
    fn to_value(&self) -> Value {
        Value::Seq(vec![
            Some(self.v.to_value()),
        ])
    }
}
impl FromValue for Ttp9p15p4 {
    fn from_value(v: &Value) -> Self {
        let s = match v { Value::Seq(s) => s, other => panic!("Ttp9p15p4: expected Seq, got {other:?}") };
        assert_eq!(s.len(), 3, "Ttp9p15p4: component count");
        let _ = s;
        Ttp9p15p4 {
            rc: s[0].as_ref().map(FromValue::from_value),
            is: s[1].as_ref().map(FromValue::from_value),
            p: FromValue::from_value(s[2].as_ref().expect("component p of Ttp9p15p4 must be present")),
        }
    }
}
impl ToValue for Ttp9p15p4 {
    fn to_value(&self) -> Value {
        Value::Seq(vec![
            self.rc.as_ref().map(|x| x.to_value()),
            self.is.as_ref().map(|x| x.to_value()),
            Some(self.p.to_value()),
        ])
    }
}
impl FromValue for Ttp9p15p5Is {
    fn from_value(v: &Value) -> Self {
        let s = match v { Value::Seq(s) => s, other => panic!("Ttp9p15p5Is: expected Seq, got {other:?}") };
        assert_eq!(s.len(), 1, "Ttp9p15p5Is: component count");
        let _ = s;
        Ttp9p15p5Is {
            v: FromValue::from_value(s[0].as_ref().expect("component v of Ttp9p15p5Is must be present")),
        }
    }
}
impl ToValue for Ttp9p15p5Is {
    fn to_value(&self) -> Value {
        Value::Seq(vec![
            Some(self.v.to_value()),
        ])
    }
}
impl FromValue for Ttp9p15p5 {
    fn from_value(v: &Value) -> Self {
        let s = match v { Value::Seq(s) => s, other => panic!("Ttp9p15p5: expected Seq, got {other:?}") };
        assert_eq!(s.len(), 3, "Ttp9p15p5: component count");
        let _ = s;
        Ttp9p15p5 {
            rc: s[0].as_ref().map(FromValue::from_value),
            is: s[1].as_ref().map(FromValue::from_value),
            b: s[2].as_ref().map(FromValue::from_value),
        }
    }
}
impl ToValue for Ttp9p15p5 {
    fn to_value(&self) -> Value {
        Value::Seq(vec![
            self.rc.as_ref().map(|x| x.to_value()),
            self.is.as_ref().map(|x| x.to_value()),
            self.b.as_ref().map(|x| x.to_value()),
        ])
    }
}
impl FromValue for Ttp9p15p6Is {
    fn from_value(v: &Value) -> Self {
        let s = match v { Value::Seq(s) => s, other => panic!("Ttp9p15p6Is: expected Seq, got {other:?}") };
        assert_eq!(s.len(), 1, "Ttp9p15p6Is: component count");
        let _ = s;
        Ttp9p15p6Is {
            v: FromValue::from_value(s[0].as_ref().expect("component v of Ttp9p15p6Is must be present")),
        }
    }
}
impl ToValue for Ttp9p15p6Is {
    fn to_value(&self) -> Value {
        Value::Seq(vec![
            Some(self.v.to_value()),
        ])
    }
}
impl FromValue for Ttp9p15p6 {
    fn from_value(v: &Value) -> Self {
        let s = match v { Value::Seq(s) => s, other => panic!("Ttp9p15p6: expected Seq, got {other:?}") };
        assert_eq!(s.len(), 3, "Ttp9p15p6: component count");
        let _ = s;
        Ttp9p15p6 {
            rc: s[0].as_ref().map(FromValue::from_value),
            is: s[1].as_ref().map(FromValue::from_value),
            i: FromValue::from_value(s[2].as_ref().expect("component i of Ttp9p15p6 must be present")),
        }
    }
}
impl ToValue for Ttp9p15p6 {
    fn to_value(&self) -> Value {
        Value::Seq(vec![
            self.rc.as_ref().map(|x| x.to_value()),
            self.is.as_ref().map(|x| x.to_value()),
            Some(self.i.to_value()),
        ])
    }
}
impl FromValue for Ttp9p15p7Is {
    fn from_value(v: &Value) -> Self {
        let s = match v { Value::Seq(s) => s, other => panic!("Ttp9p15p7Is: expected Seq, got {other:?}") };
        assert_eq!(s.len(), 1, "Ttp9p15p7Is: component count");
        let _ = s;
        Ttp9p15p7Is {
            v: FromValue::from_value(s[0].as_ref().expect("component v of Ttp9p15p7Is must be present")),
        }
    }
}
impl ToValue for Ttp9p15p7Is {
    fn to_value(&self) -> Value {
        Value::Seq(vec![
            Some(self.v.to_value()),
        ])
    }
}
impl FromValue for Ttp9p15p7 {
    fn from_value(v: &Value) -> Self {
        let s = match v { Value::Seq(s) => s, other => panic!("Ttp9p15p7: expected Seq, got {other:?}") };
        assert_eq!(s.len(), 3, "Ttp9p15p7: component count");
        let _ = s;
        Ttp9p15p7 {
            rc: s[0].as_ref().map(FromValue::from_value),
            is: s[1].as_ref().map(FromValue::from_value),
            ra: s[2].as_ref().map(FromValue::from_value),
        }
    }
}
impl ToValue for Ttp9p15p7 {
    fn to_value(&self) -> Value {
        Value::Seq(vec![
            self.rc.as_ref().map(|x| x.to_value()),
            self.is.as_ref().map(|x| x.to_value()),
            self.ra.as_ref().map(|x| x.to_value()),
        ])
    }
}
impl FromValue for Ttp9p15p8Is {
    fn from_value(v: &Value) -> Self {
        let s = match v { Value::Seq(s) => s, other => panic!("Ttp9p15p8Is: expected Seq, got {other:?}") };
        assert_eq!(s.len(), 1, "Ttp9p15p8Is: component count");
        let _ = s;
        Ttp9p15p8Is {
            v: FromValue::from_value(s[0].as_ref().expect("component v of Ttp9p15p8Is must be present")),
        }
    }
}
impl ToValue for Ttp9p15p8Is {
    fn to_value(&self) -> Value {
        Value::Seq(vec![
            Some(self.v.to_value()),
        ])
    }
}
impl FromValue for Ttp9p15p8 {
    fn from_value(v: &Value) -> Self {
        let s = match v { Value::Seq(s) => s, other => panic!("Ttp9p15p8: expected Seq, got {other:?}") };
        assert_eq!(s.len(), 3, "Ttp9p15p8: component count");
        let _ = s;
        Ttp9p15p8 {
            rc: s[0].as_ref().map(FromValue::from_value),
            is: s[1].as_ref().map(FromValue::from_value),
            rs: FromValue::from_value(s[2].as_ref().expect("component rs of Ttp9p15p8 must be present")),
        }
    }
}
impl ToValue for Ttp9p15p8 {
    fn to_value(&self) -> Value {
        Value::Seq(vec![
            self.rc.as_ref().map(|x| x.to_value()),
            self.is.as_ref().map(|x| x.to_value()),
            Some(self.rs.to_value()),
        ])
    }
}
impl FromValue for Ttp9p15p10Is {
    fn from_value(v: &Value) -> Self {
        let s = match v { Value::Seq(s) => s, other => panic!("Ttp9p15p10Is: expected Seq, got {other:?}") };
        assert_eq!(s.len(), 1, "Ttp9p15p10Is: component count");
        let _ = s;
        Ttp9p15p10Is {
            v: FromValue::from_value(s[0].as_ref().expect("component v of Ttp9p15p10Is must be present")),
        }
    }
}
impl ToValue for Ttp9p15p10Is {
    fn to_value(&self) -> Value {
        Value::Seq(vec![
            Some(self.v.to_value()),
        ])
    }
}
impl FromValue for Ttp9p15p10 {
    fn from_value(v: &Value) -> Self {
        let s = match v { Value::Seq(s) => s, other => panic!("Ttp9p15p10: expected Seq, got {other:?}") };
        assert_eq!(s.len(), 3, "Ttp9p15p10: component count");
        let _ = s;
        Ttp9p15p10 {
            rc: s[0].as_ref().map(FromValue::from_value),
            is: s[1].as_ref().map(FromValue::from_value),
            rt: FromValue::from_value(s[2].as_ref().expect("component rt of Ttp9p15p10 must be present")),
        }
    }
}
impl ToValue for Ttp9p15p10 {
    fn to_value(&self) -> Value {
        Value::Seq(vec![
            self.rc.as_ref().map(|x| x.to_value()),
            self.is.as_ref().map(|x| x.to_value()),
            Some(self.rt.to_value()),
        ])
    }
}
impl FromValue for Ttp9p15p11Is {
    fn from_value(v: &Value) -> Self {
        let s = match v { Value::Seq(s) => s, other => panic!("Ttp9p15p11Is: expected Seq, got {other:?}") };
        assert_eq!(s.len(), 1, "Ttp9p15p11Is: component count");
        let _ = s;
        Ttp9p15p11Is {
            v: FromValue::from_value(s[0].as_ref().expect("component v of Ttp9p15p11Is must be present")),
        }
    }
}
impl ToValue for Ttp9p15p11Is {
    fn to_value(&self) -> Value {
        Value::Seq(vec![
            Some(self.v.to_value()),
        ])
    }
}
impl FromValue for Ttp9p15p11 {
    fn from_value(v: &Value) -> Self {
        let s = match v { Value::Seq(s) => s, other => panic!("Ttp9p15p11: expected Seq, got {other:?}") };
        assert_eq!(s.len(), 3, "Ttp9p15p11: component count");
        let _ = s;
        Ttp9p15p11 {
            rc: s[0].as_ref().map(FromValue::from_value),
            is: s[1].as_ref().map(FromValue::from_value),
            so: s[2].as_ref().map(FromValue::from_value),
        }
    }
}
impl ToValue for Ttp9p15p11 {
    fn to_value(&self) -> Value {
        Value::Seq(vec![
            self.rc.as_ref().map(|x| x.to_value()),
            self.is.as_ref().map(|x| x.to_value()),
            self.so.as_ref().map(|x| x.to_value()),
        ])
    }
}
impl FromValue for Ttp9p15p12Is {
    fn from_value(v: &Value) -> Self {
        let s = match v { Value::Seq(s) => s, other => panic!("Ttp9p15p12Is: expected Seq, got {other:?}") };
        assert_eq!(s.len(), 1, "Ttp9p15p12Is: component count");
        let _ = s;
        Ttp9p15p12Is {
            v: FromValue::from_value(s[0].as_ref().expect("component v of Ttp9p15p12Is must be present")),
        }
    }
}
impl ToValue for Ttp9p15p12Is {
    fn to_value(&self) -> Value {
        Value::Seq(vec![
            Some(self.v.to_value()),
        ])
    }
}
impl FromValue for Ttp9p15p12 {
    fn from_value(v: &Value) -> Self {
        let s = match v { Value::Seq(s) => s, other => panic!("Ttp9p15p12: expected Seq, got {other:?}") };
        assert_eq!(s.len(), 3, "Ttp9p15p12: component count");
        let _ = s;
        Ttp9p15p12 {
            rc: s[0].as_ref().map(FromValue::from_value),
            is: s[1].as_ref().map(FromValue::from_value),
            st: FromValue::from_value(s[2].as_ref().expect("component st of Ttp9p15p12 must be present")),
        }
    }
}
impl ToValue for Ttp9p15p12 {
    fn to_value(&self) -> Value {
        Value::Seq(vec![
            self.rc.as_ref().map(|x| x.to_value()),
            self.is.as_ref().map(|x| x.to_value()),
            Some(self.st.to_value()),
        ])
    }
}
impl FromValue for Ttp9p15p13Is {
    fn from_value(v: &Value) -> Self {
        let s = match v { Value::Seq(s) => s, other => panic!("Ttp9p15p13Is: expected Seq, got {other:?}") };
        assert_eq!(s.len(), 1, "Ttp9p15p13Is: component count");
        let _ = s;
        Ttp9p15p13Is {
            v: FromValue::from_value(s[0].as_ref().expect("component v of Ttp9p15p13Is must be present")),
        }
    }
}
impl ToValue for Ttp9p15p13Is {
    fn to_value(&self) -> Value {
        Value::Seq(vec![
            Some(self.v.to_value()),
        ])
    }
}
impl FromValue for Ttp9p15p13 {
    fn from_value(v: &Value) -> Self {
        let s = match v { Value::Seq(s) => s, other => panic!("Ttp9p15p13: expected Seq, got {other:?}") };
        assert_eq!(s.len(), 3, "Ttp9p15p13: component count");
        let _ = s;
        Ttp9p15p13 {
            rc: s[0].as_ref().map(FromValue::from_value),
            is: s[1].as_ref().map(FromValue::from_value),
            rx: s[2].as_ref().map(FromValue::from_value),
        }
    }
}
impl ToValue for Ttp9p15p13 {
    fn to_value(&self) -> Value {
        Value::Seq(vec![
            self.rc.as_ref().map(|x| x.to_value()),
            self.is.as_ref().map(|x| x.to_value()),
            self.rx.as_ref().map(|x| x.to_value()),
        ])
    }
}
impl FromValue for Ttp9p15p14Is {
    fn from_value(v: &Value) -> Self {
        let s = match v { Value::Seq(s) => s, other => panic!("Ttp9p15p14Is: expected Seq, got {other:?}") };
        assert_eq!(s.len(), 1, "Ttp9p15p14Is: component count");
        let _ = s;
        Ttp9p15p14Is {
            v: FromValue::from_value(s[0].as_ref().expect("component v of Ttp9p15p14Is must be present")),
        }
    }
}
impl ToValue for Ttp9p15p14Is {
    fn to_value(&self) -> Value {
        Value::Seq(vec![
            Some(self.v.to_value()),
        ])
    }
}
impl FromValue for Ttp9p15p14 {
    fn from_value(v: &Value) -> Self {
        let s = match v { Value::Seq(s) => s, other => panic!("Ttp9p15p14: expected Seq, got {other:?}") };
        assert_eq!(s.len(), 3, "Ttp9p15p14: component count");
        let _ = s;
        Ttp9p15p14 {
            rc: s[0].as_ref().map(FromValue::from_value),
            is: s[1].as_ref().map(FromValue::from_value),
            u2: FromValue::from_value(s[2].as_ref().expect("component u2 of Ttp9p15p14 must be present")),
        }
    }
}
impl ToValue for Ttp9p15p14 {
    fn to_value(&self) -> Value {
        Value::Seq(vec![
            self.rc.as_ref().map(|x| x.to_value()),
            self.is.as_ref().map(|x| x.to_value()),
            Some(self.u2.to_value()),
        ])
    }
}
impl FromValue for Ttp10p0p1 {
    fn from_value(v: &Value) -> Self {
        let s = match v { Value::Seq(s) => s, other => panic!("Ttp10p0p1: expected Seq, got {other:?}") };
        assert_eq!(s.len(), 3, "Ttp10p0p1: component count");
        let _ = s;
        Ttp10p0p1 {
            rt: FromValue::from_value(s[0].as_ref().expect("component rt of Ttp10p0p1 must be present")),
            x: FromValue::from_value(s[1].as_ref().expect("component x of Ttp10p0p1 must be present")),
            a: s[2].as_ref().map(FromValue::from_value),
        }
    }
}
impl ToValue for Ttp10p0p1 {
    fn to_value(&self) -> Value {
        Value::Seq(vec![
            Some(self.rt.to_value()),
            Some(self.x.to_value()),
            self.a.as_ref().map(|x| x.to_value()),
        ])
    }
}
impl FromValue for Ttp10p0p2 {
    fn from_value(v: &Value) -> Self {
        let s = match v { Value::Seq(s) => s, other => panic!("Ttp10p0p2: expected Seq, got {other:?}") };
        assert_eq!(s.len(), 3, "Ttp10p0p2: component count");
        let _ = s;
        Ttp10p0p2 {
            rt: FromValue::from_value(s[0].as_ref().expect("component rt of Ttp10p0p2 must be present")),
            x: FromValue::from_value(s[1].as_ref().expect("component x of Ttp10p0p2 must be present")),
            c3: FromValue::from_value(s[2].as_ref().expect("component c3 of Ttp10p0p2 must be present")),
        }
    }
}
impl ToValue for Ttp10p0p2 {
    fn to_value(&self) -> Value {
        Value::Seq(vec![
            Some(self.rt.to_value()),
            Some(self.x.to_value()),
            Some(self.c3.to_value()),
        ])
    }
}
impl FromValue for Ttp10p0p3 {
    fn from_value(v: &Value) -> Self {
        let s = match v { Value::Seq(s) => s, other => panic!("Ttp10p0p3: expected Seq, got {other:?}") };
        assert_eq!(s.len(), 3, "Ttp10p0p3: component count");
        let _ = s;
        Ttp10p0p3 {
            rt: FromValue::from_value(s[0].as_ref().expect("component rt of Ttp10p0p3 must be present")),
            x: FromValue::from_value(s[1].as_ref().expect("component x of Ttp10p0p3 must be present")),
            c0: s[2].as_ref().map(FromValue::from_value),
        }
    }
}
impl ToValue for Ttp10p0p3 {
    fn to_value(&self) -> Value {
        Value::Seq(vec![
            Some(self.rt.to_value()),
            Some(self.x.to_value()),
            self.c0.as_ref().map(|x| x.to_value()),
        ])
    }
}
impl FromValue for Ttp10p0p4 {
    fn from_value(v: &Value) -> Self {
        let s = match v { Value::Seq(s) => s, other => panic!("Ttp10p0p4: expected Seq, got {other:?}") };
        assert_eq!(s.len(), 3, "Ttp10p0p4: component count");
        let _ = s;
        Ttp10p0p4 {
            rt: FromValue::from_value(s[0].as_ref().expect("component rt of Ttp10p0p4 must be present")),
            x: FromValue::from_value(s[1].as_ref().expect("component x of Ttp10p0p4 must be present")),
            p: FromValue::from_value(s[2].as_ref().expect("component p of Ttp10p0p4 must be present")),
        }
    }
}
impl ToValue for Ttp10p0p4 {
    fn to_value(&self) -> Value {
        Value::Seq(vec![
            Some(self.rt.to_value()),
            Some(self.x.to_value()),
            Some(self.p.to_value()),
        ])
    }
}
impl FromValue for Ttp10p0p5 {
    fn from_value(v: &Value) -> Self {
        let s = match v { Value::Seq(s) => s, other => panic!("Ttp10p0p5: expected Seq, got {other:?}") };
        assert_eq!(s.len(), 3, "Ttp10p0p5: component count");
        let _ = s;
        Ttp10p0p5 {
            rt: FromValue::from_value(s[0].as_ref().expect("component rt of Ttp10p0p5 must be present")),
            x: FromValue::from_value(s[1].as_ref().expect("component x of Ttp10p0p5 must be present")),
            b: s[2].as_ref().map(FromValue::from_value),
        }
    }
}
impl ToValue for Ttp10p0p5 {
    fn to_value(&self) -> Value {
        Value::Seq(vec![
            Some(self.rt.to_value()),
            Some(self.x.to_value()),
            self.b.as_ref().map(|x| x.to_value()),
        ])
    }
}
impl FromValue for Ttp10p0p6 {
    fn from_value(v: &Value) -> Self {
        let s = match v { Value::Seq(s) => s, other => panic!("Ttp10p0p6: expected Seq, got {other:?}") };
        assert_eq!(s.len(), 3, "Ttp10p0p6: component count");
        let _ = s;
        Ttp10p0p6 {
            rt: FromValue::from_value(s[0].as_ref().expect("component rt of Ttp10p0p6 must be present")),
            x: FromValue::from_value(s[1].as_ref().expect("component x of Ttp10p0p6 must be present")),
            i: FromValue::from_value(s[2].as_ref().expect("component i of Ttp10p0p6 must be present")),
        }
    }
}
impl ToValue for Ttp10p0p6 {
    fn to_value(&self) -> Value {
        Value::Seq(vec![
            Some(self.rt.to_value()),
            Some(self.x.to_value()),
            Some(self.i.to_value()),
        ])
    }
}
impl FromValue for Ttp10p0p7 {
    fn from_value(v: &Value) -> Self {
        let s = match v { Value::Seq(s) => s, other => panic!("Ttp10p0p7: expected Seq, got {other:?}") };
        assert_eq!(s.len(), 3, "Ttp10p0p7: component count");
        let _ = s;
        Ttp10p0p7 {
            rt: FromValue::from_value(s[0].as_ref().expect("component rt of Ttp10p0p7 must be present")),
            x: FromValue::from_value(s[1].as_ref().expect("component x of Ttp10p0p7 must be present")),
            ra: s[2].as_ref().map(FromValue::from_value),
        }
    }
}
impl ToValue for Ttp10p0p7 {
    fn to_value(&self) -> Value {
        Value::Seq(vec![
            Some(self.rt.to_value()),
            Some(self.x.to_value()),
            self.ra.as_ref().map(|x| x.to_value()),
        ])
    }
}
impl FromValue for Ttp10p0p8 {
    fn from_value(v: &Value) -> Self {
        let s = match v { Value::Seq(s) => s, other => panic!("Ttp10p0p8: expected Seq, got {other:?}") };
        assert_eq!(s.len(), 3, "Ttp10p0p8: component count");
        let _ = s;
        Ttp10p0p8 {
            rt: FromValue::from_value(s[0].as_ref().expect("component rt of Ttp10p0p8 must be present")),
            x: FromValue::from_value(s[1].as_ref().expect("component x of Ttp10p0p8 must be present")),
            rs: FromValue::from_value(s[2].as_ref().expect("component rs of Ttp10p0p8 must be present")),
        }
    }
}
impl ToValue for Ttp10p0p8 {
    fn to_value(&self) -> Value {
        Value::Seq(vec![
            Some(self.rt.to_value()),
            Some(self.x.to_value()),
            Some(self.rs.to_value()),
        ])
    }
}
impl FromValue for Ttp10p0p9 {
    fn from_value(v: &Value) -> Self {
        let s = match v { Value::Seq(s) => s, other => panic!("Ttp10p0p9: expected Seq, got {other:?}") };
        assert_eq!(s.len(), 3, "Ttp10p0p9: component count");
        let _ = s;
        Ttp10p0p9 {
            rt: FromValue::from_value(s[0].as_ref().expect("component rt of Ttp10p0p9 must be present")),
            x: FromValue::from_value(s[1].as_ref().expect("component x of Ttp10p0p9 must be present")),
            rc: s[2].as_ref().map(FromValue::from_value),
        }
    }
}
impl ToValue for Ttp10p0p9 {
    fn to_value(&self) -> Value {
        Value::Seq(vec![
            Some(self.rt.to_value()),
            Some(self.x.to_value()),
            self.rc.as_ref().map(|x| x.to_value()),
        ])
    }
}
impl FromValue for Ttp10p0p11 {
    fn from_value(v: &Value) -> Self {
        let s = match v { Value::Seq(s) => s, other => panic!("Ttp10p0p11: expected Seq, got {other:?}") };
        assert_eq!(s.len(), 3, "Ttp10p0p11: component count");
        let _ = s;
        Ttp10p0p11 {
            rt: FromValue::from_value(s[0].as_ref().expect("component rt of Ttp10p0p11 must be present")),
            x: FromValue::from_value(s[1].as_ref().expect("component x of Ttp10p0p11 must be present")),
            so: s[2].as_ref().map(FromValue::from_value),
        }
    }
}
impl ToValue for Ttp10p0p11 {
    fn to_value(&self) -> Value {
        Value::Seq(vec![
            Some(self.rt.to_value()),
            Some(self.x.to_value()),
            self.so.as_ref().map(|x| x.to_value()),
        ])
    }
}
impl FromValue for Ttp10p0p12 {
    fn from_value(v: &Value) -> Self {
        let s = match v { Value::Seq(s) => s, other => panic!("Ttp10p0p12: expected Seq, got {other:?}") };
        assert_eq!(s.len(), 3, "Ttp10p0p12: component count");
        let _ = s;
        Ttp10p0p12 {
            rt: FromValue::from_value(s[0].as_ref().expect("component rt of Ttp10p0p12 must be present")),
            x: FromValue::from_value(s[1].as_ref().expect("component x of Ttp10p0p12 must be present")),
            st: FromValue::from_value(s[2].as_ref().expect("component st of Ttp10p0p12 must be present")),
        }
    }
}
impl ToValue for Ttp10p0p12 {
    fn to_value(&self) -> Value {
        Value::Seq(vec![
            Some(self.rt.to_value()),
            Some(self.x.to_value()),
            Some(self.st.to_value()),
        ])
    }
}
impl FromValue for Ttp10p0p13 {
    fn from_value(v: &Value) -> Self {
        let s = match v { Value::Seq(s) => s, other => panic!("Ttp10p0p13: expected Seq, got {other:?}") };
        assert_eq!(s.len(), 3, "Ttp10p0p13: component count");
        let _ = s;
        Ttp10p0p13 {
            rt: FromValue::from_value(s[0].as_ref().expect("component rt of Ttp10p0p13 must be present")),
            x: FromValue::from_value(s[1].as_ref().expect("component x of Ttp10p0p13 must be present")),
            rx: s[2].as_ref().map(FromValue::from_value),
        }
    }
}
impl ToValue for Ttp10p0p13 {
    fn to_value(&self) -> Value {
        Value::Seq(vec![
            Some(self.rt.to_value()),
            Some(self.x.to_value()),
            self.rx.as_ref().map(|x| x.to_value()),
        ])
    }
}
impl FromValue for Ttp10p0p14 {
    fn from_value(v: &Value) -> Self {
        let s = match v { Value::Seq(s) => s, other => panic!("Ttp10p0p14: expected Seq, got {other:?}") };
        assert_eq!(s.len(), 3, "Ttp10p0p14: component count");
        let _ = s;
        Ttp10p0p14 {
            rt: FromValue::from_value(s[0].as_ref().expect("component rt of Ttp10p0p14 must be present")),
            x: FromValue::from_value(s[1].as_ref().expect("component x of Ttp10p0p14 must be present")),
            u2: FromValue::from_value(s[2].as_ref().expect("component u2 of Ttp10p0p14 must be present")),
        }
    }
}
impl ToValue for Ttp10p0p14 {
    fn to_value(&self) -> Value {
        Value::Seq(vec![
            Some(self.rt.to_value()),
            Some(self.x.to_value()),
            Some(self.u2.to_value()),
        ])
    }
}
impl FromValue for Ttp10p0p15Is {
    fn from_value(v: &Value) -> Self {
        let s = match v { Value::Seq(s) => s, other => panic!("Ttp10p0p15Is: expected Seq, got {other:?}") };
        assert_eq!(s.len(), 1, "Ttp10p0p15Is: component count");
        let _ = s;
        Ttp10p0p15Is {
            v: FromValue::from_value(s[0].as_ref().expect("component v of Ttp10p0p15Is must be present")),
        }
    }
}
impl ToValue for Ttp10p0p15Is {
    fn to_value(&self) -> Value {
        Value::Seq(vec![
            Some(self.v.to_value()),
        ])
    }
}
impl FromValue for Ttp10p0p15 {
    fn from_value(v: &Value) -> Self {
        let s = match v { Value::Seq(s) => s, other => panic!("Ttp10p0p15: expected Seq, got {other:?}") };
        assert_eq!(s.len(), 3, "Ttp10p0p15: component count");
        let _ = s;
        Ttp10p0p15 {
            rt: FromValue::from_value(s[0].as_ref().expect("component rt of Ttp10p0p15 must be present")),
            x: FromValue::from_value(s[1].as_ref().expect("component x of Ttp10p0p15 must be present")),
            is: s[2].as_ref().map(FromValue::from_value),
        }
    }
}
impl ToValue for Ttp10p0p15 {
    fn to_value(&self) -> Value {
        Value::Seq(vec![
            Some(self.rt.to_value()),
            Some(self.x.to_value()),
            self.is.as_ref().map(|x| x.to_value()),
        ])
    }
}
impl FromValue for Ttp10p1p0 {
    fn from_value(v: &Value) -> Self {
        let s = match v { Value::Seq(s) => s, other => panic!("Ttp10p1p0: expected Seq, got {other:?}") };
        assert_eq!(s.len(), 3, "Ttp10p1p0: component count");
        let _ = s;
        Ttp10p1p0 {
            rt: FromValue::from_value(s[0].as_ref().expect("component rt of Ttp10p1p0 must be present")),
            a: s[1].as_ref().map(FromValue::from_value),
            x: FromValue::from_value(s[2].as_ref().expect("component x of Ttp10p1p0 must be present")),
        }
    }
}
impl ToValue for Ttp10p1p0 {
    fn to_value(&self) -> Value {
        Value::Seq(vec![
            Some(self.rt.to_value()),
            self.a.as_ref().map(|x| x.to_value()),
            Some(self.x.to_value()),
        ])
    }
}
impl FromValue for Ttp10p1p2 {
    fn from_value(v: &Value) -> Self {
        let s = match v { Value::Seq(s) => s, other => panic!("Ttp10p1p2: expected Seq, got {other:?}") };
        assert_eq!(s.len(), 3, "Ttp10p1p2: component count");
        let _ = s;
        Ttp10p1p2 {
            rt: FromValue::from_value(s[0].as_ref().expect("component rt of Ttp10p1p2 must be present")),
            a: s[1].as_ref().map(FromValue::from_value),
            c3: FromValue::from_value(s[2].as_ref().expect("component c3 of Ttp10p1p2 must be present")),
        }
    }
}
impl ToValue for Ttp10p1p2 {
    fn to_value(&self) -> Value {
        Value::Seq(vec![
            Some(self.rt.to_value()),
            self.a.as_ref().map(|x| x.to_value()),
            Some(self.c3.to_value()),
        ])
    }
}
impl FromValue for Ttp10p1p3 {
    fn from_value(v: &Value) -> Self {
        let s = match v { Value::Seq(s) => s, other => panic!("Ttp10p1p3: expected Seq, got {other:?}") };
        assert_eq!(s.len(), 3, "Ttp10p1p3: component count");
        let _ = s;
        Ttp10p1p3 {
            rt: FromValue::from_value(s[0].as_ref().expect("component rt of Ttp10p1p3 must be present")),
            a: s[1].as_ref().map(FromValue::from_value),
            c0: s[2].as_ref().map(FromValue::from_value),
        }
    }
}
impl ToValue for Ttp10p1p3 {
    fn to_value(&self) -> Value {
        Value::Seq(vec![
            Some(self.rt.to_value()),
            self.a.as_ref().map(|x| x.to_value()),
            self.c0.as_ref().map(|x| x.to_value()),
        ])
    }
}
impl FromValue for Ttp10p1p4 {
    fn from_value(v: &Value) -> Self {
        let s = match v { Value::Seq(s) => s, other => panic!("Ttp10p1p4: expected Seq, got {other:?}") };
        assert_eq!(s.len(), 3, "Ttp10p1p4: component count");
        let _ = s;
        Ttp10p1p4 {
            rt: FromValue::from_value(s[0].as_ref().expect("component rt of Ttp10p1p4 must be present")),
            a: s[1].as_ref().map(FromValue::from_value),
            p: FromValue::from_value(s[2].as_ref().expect("component p of Ttp10p1p4 must be present")),
        }
    }
}
impl ToValue for Ttp10p1p4 {
    fn to_value(&self) -> Value {
        Value::Seq(vec![
            Some(self.rt.to_value()),
            self.a.as_ref().map(|x| x.to_value()),
            Some(self.p.to_value()),
        ])
    }
}
impl FromValue for Ttp10p1p5 {
    fn from_value(v: &Value) -> Self {
        let s = match v { Value::Seq(s) => s, other => panic!("Ttp10p1p5: expected Seq, got {other:?}") };
        assert_eq!(s.len(), 3, "Ttp10p1p5: component count");
        let _ = s;
        Ttp10p1p5 {
            rt: FromValue::from_value(s[0].as_ref().expect("component rt of Ttp10p1p5 must be present")),
            a: s[1].as_ref().map(FromValue::from_value),
            b: s[2].as_ref().map(FromValue::from_value),
        }
    }
}
impl ToValue for Ttp10p1p5 {
    fn to_value(&self) -> Value {
        Value::Seq(vec![
            Some(self.rt.to_value()),
            self.a.as_ref().map(|x| x.to_value()),
            self.b.as_ref().map(|x| x.to_value()),
        ])
    }
}
impl FromValue for Ttp10p1p6 {
    fn from_value(v: &Value) -> Self {
        let s = match v { Value::Seq(s) => s, other => panic!("Ttp10p1p6: expected Seq, got {other:?}") };
        assert_eq!(s.len(), 3, "Ttp10p1p6: component count");
        let _ = s;
        Ttp10p1p6 {
            rt: FromValue::from_value(s[0].as_ref().expect("component rt of Ttp10p1p6 must be present")),
            a: s[1].as_ref().map(FromValue::from_value),
            i: FromValue::from_value(s[2].as_ref().expect("component i of Ttp10p1p6 must be present")),
        }
    }
}
impl ToValue for Ttp10p1p6 {
    fn to_value(&self) -> Value {
        Value::Seq(vec![
            Some(self.rt.to_value()),
            self.a.as_ref().map(|x| x.to_value()),
            Some(self.i.to_value()),
        ])
    }
}
impl FromValue for Ttp10p1p7 {
    fn from_value(v: &Value) -> Self {
        let s = match v { Value::Seq(s) => s, other => panic!("Ttp10p1p7: expected Seq, got {other:?}") };
        assert_eq!(s.len(), 3, "Ttp10p1p7: component count");
        let _ = s;
        Ttp10p1p7 {
            rt: FromValue::from_value(s[0].as_ref().expect("component rt of Ttp10p1p7 must be present")),
            a: s[1].as_ref().map(FromValue::from_value),
            ra: s[2].as_ref().map(FromValue::from_value),
        }
    }
}
impl ToValue for Ttp10p1p7 {
    fn to_value(&self) -> Value {
        Value::Seq(vec![
            Some(self.rt.to_value()),
            self.a.as_ref().map(|x| x.to_value()),
            self.ra.as_ref().map(|x| x.to_value()),
        ])
    }
}
impl FromValue for Ttp10p1p8 {
    fn from_value(v: &Value) -> Self {
        let s = match v { Value::Seq(s) => s, other => panic!("Ttp10p1p8: expected Seq, got {other:?}") };
        assert_eq!(s.len(), 3, "Ttp10p1p8: component count");
        let _ = s;
        Ttp10p1p8 {
            rt: FromValue::from_value(s[0].as_ref().expect("component rt of Ttp10p1p8 must be present")),
            a: s[1].as_ref().map(FromValue::from_value),
            rs: FromValue::from_value(s[2].as_ref().expect("component rs of Ttp10p1p8 must be present")),
        }
    }
}
impl ToValue for Ttp10p1p8 {
    fn to_value(&self) -> Value {
        Value::Seq(vec![
            Some(self.rt.to_value()),
            self.a.as_ref().map(|x| x.to_value()),
            Some(self.rs.to_value()),
        ])
    }
}
impl FromValue for Ttp10p1p9 {
    fn from_value(v: &Value) -> Self {
        let s = match v { Value::Seq(s) => s, other => panic!("Ttp10p1p9: expected Seq, got {other:?}") };
        assert_eq!(s.len(), 3, "Ttp10p1p9: component count");
        let _ = s;
        Ttp10p1p9 {
            rt: FromValue::from_value(s[0].as_ref().expect("component rt of Ttp10p1p9 must be present")),
            a: s[1].as_ref().map(FromValue::from_value),
            rc: s[2].as_ref().map(FromValue::from_value),
        }
    }
}
impl ToValue for Ttp10p1p9 {
    fn to_value(&self) -> Value {
        Value::Seq(vec![
            Some(self.rt.to_value()),
            self.a.as_ref().map(|x| x.to_value()),
            self.rc.as_ref().map(|x| x.to_value()),
        ])
    }
}
impl FromValue for Ttp10p1p11 {
    fn from_value(v: &Value) -> Self {
        let s = match v { Value::Seq(s) => s, other => panic!("Ttp10p1p11: expected Seq, got {other:?}") };
        assert_eq!(s.len(), 3, "Ttp10p1p11: component count");
        let _ = s;
        Ttp10p1p11 {
            rt: FromValue::from_value(s[0].as_ref().expect("component rt of Ttp10p1p11 must be present")),
            a: s[1].as_ref().map(FromValue::from_value),
            so: s[2].as_ref().map(FromValue::from_value),
        }
    }
}
impl ToValue for Ttp10p1p11 {
    fn to_value(&self) -> Value {
        Value::Seq(vec![
            Some(self.rt.to_value()),
            self.a.as_ref().map(|x| x.to_value()),
            self.so.as_ref().map(|x| x.to_value()),
        ])
    }
}
impl FromValue for Ttp10p1p12 {
    fn from_value(v: &Value) -> Self {
        let s = match v { Value::Seq(s) => s, other => panic!("Ttp10p1p12: expected Seq, got {other:?}") };
        assert_eq!(s.len(), 3, "Ttp10p1p12: component count");
        let _ = s;
        Ttp10p1p12 {
            rt: FromValue::from_value(s[0].as_ref().expect("component rt of Ttp10p1p12 must be present")),
            a: s[1].as_ref().map(FromValue::from_value),
            st: FromValue::from_value(s[2].as_ref().expect("component st of Ttp10p1p12 must be present")),
        }
    }
}
impl ToValue for Ttp10p1p12 {
    fn to_value(&self) -> Value {
        Value::Seq(vec![
            Some(self.rt.to_value()),
            self.a.as_ref().map(|x| x.to_value()),
            Some(self.st.to_value()),
        ])
    }
}
impl FromValue for Ttp10p1p13 {
    fn from_value(v: &Value) -> Self {
        let s = match v { Value::Seq(s) => s, other => panic!("Ttp10p1p13: expected Seq, got {other:?}") };
        assert_eq!(s.len(), 3, "Ttp10p1p13: component count");
        let _ = s;
        Ttp10p1p13 {
            rt: FromValue::from_value(s[0].as_ref().expect("component rt of Ttp10p1p13 must be present")),
            a: s[1].as_ref().map(FromValue::from_value),
            rx: s[2].as_ref().map(FromValue::from_value),
        }
    }
}
impl ToValue for Ttp10p1p13 {
    fn to_value(&self) -> Value {
        Value::Seq(vec![
            Some(self.rt.to_value()),
            self.a.as_ref().map(|x| x.to_value()),
            self.rx.as_ref().map(|x| x.to_value()),
        ])
    }
}
impl FromValue for Ttp10p1p14 {
    fn from_value(v: &Value) -> Self {
        let s = match v { Value::Seq(s) => s, other => panic!("Ttp10p1p14: expected Seq, got {other:?}") };
        assert_eq!(s.len(), 3, "Ttp10p1p14: component count");
        let _ = s;
        Ttp10p1p14 {
            rt: FromValue::from_value(s[0].as_ref().expect("component rt of Ttp10p1p14 must be present")),
            a: s[1].as_ref().map(FromValue::from_value),
            u2: FromValue::from_value(s[2].as_ref().expect("component u2 of Ttp10p1p14 must be present")),
        }
    }
}
impl ToValue for Ttp10p1p14 {
    fn to_value(&self) -> Value {
        Value::Seq(vec![
            Some(self.rt.to_value()),
            self.a.as_ref().map(|x| x.to_value()),
            Some(self.u2.to_value()),
        ])
    }
}
impl FromValue for Ttp10p1p15Is {
    fn from_value(v: &Value) -> Self {
        let s = match v { Value::Seq(s) => s, other => panic!("Ttp10p1p15Is: expected Seq, got {other:?}") };
        assert_eq!(s.len(), 1, "Ttp10p1p15Is: component count");
        let _ = s;
        Ttp10p1p15Is {
            v: FromValue::from_value(s[0].as_ref().expect("component v of Ttp10p1p15Is must be present")),
        }
    }
}
impl ToValue for Ttp10p1p15Is {
    fn to_value(&self) -> Value {
        Value::Seq(vec![
            Some(self.v.to_value()),
        ])
    }
}
impl FromValue for Ttp10p1p15 {
    fn from_value(v: &Value) -> Self {
        let s = match v { Value::Seq(s) => s, other => panic!("Ttp10p1p15: expected Seq, got {other:?}") };
        assert_eq!(s.len(), 3, "Ttp10p1p15: component count");
        let _ = s;
        Ttp10p1p15 {
            rt: FromValue::from_value(s[0].as_ref().expect("component rt of Ttp10p1p15 must be present")),
            a: s[1].as_ref().map(FromValue::from_value),
            is: s[2].as_ref().map(FromValue::from_value),
        }
    }
}
impl ToValue for Ttp10p1p15 {
    fn to_value(&self) -> Value {
        Value::Seq(vec![
            Some(self.rt.to_value()),
            self.a.as_ref().map(|x| x.to_value()),
            self.is.as_ref().map(|x| x.to_value()),
        ])
    }
}
impl FromValue for Ttp10p2p0 {
    fn from_value(v: &Value) -> Self {
        let s = match v { Value::Seq(s) => s, other => panic!("Ttp10p2p0: expected Seq, got {other:?}") };
        assert_eq!(s.len(), 3, "Ttp10p2p0: component count");
        let _ = s;
        Ttp10p2p0 {
            rt: FromValue::from_value(s[0].as_ref().expect("component rt of Ttp10p2p0 must be present")),
            c3: FromValue::from_value(s[1].as_ref().expect("component c3 of Ttp10p2p0 must be present")),
            x: FromValue::from_value(s[2].as_ref().expect("component x of Ttp10p2p0 must be present")),
        }
    }
}
impl ToValue for Ttp10p2p0 {
    fn to_value(&self) -> Value {
        Value::Seq(vec![
            Some(self.rt.to_value()),
            Some(self.c3.to_value()),
            Some(self.x.to_value()),
        ])
    }
}
impl FromValue for Ttp10p2p1 {
    fn from_value(v: &Value) -> Self {
        let s = match v { Value::Seq(s) => s, other => panic!("Ttp10p2p1: expected Seq, got {other:?}") };
        assert_eq!(s.len(), 3, "Ttp10p2p1: component count");
        let _ = s;
        Ttp10p2p1 {
            rt: FromValue::from_value(s[0].as_ref().expect("component rt of Ttp10p2p1 must be present")),
            c3: FromValue::from_value(s[1].as_ref().expect("component c3 of Ttp10p2p1 must be present")),
            a: s[2].as_ref().map(FromValue::from_value),
        }
    }
}
impl ToValue for Ttp10p2p1 {
    fn to_value(&self) -> Value {
        Value::Seq(vec![
            Some(self.rt.to_value()),
            Some(self.c3.to_value()),
            self.a.as_ref().map(|x| x.to_value()),
        ])
    }
}
impl FromValue for Ttp10p2p3 {
    fn from_value(v: &Value) -> Self {
        let s = match v { Value::Seq(s) => s, other => panic!("Ttp10p2p3: expected Seq, got {other:?}") };
        assert_eq!(s.len(), 3, "Ttp10p2p3: component count");
        let _ = s;
        Ttp10p2p3 {
            rt: FromValue::from_value(s[0].as_ref().expect("component rt of Ttp10p2p3 must be present")),
            c3: FromValue::from_value(s[1].as_ref().expect("component c3 of Ttp10p2p3 must be present")),
            c0: s[2].as_ref().map(FromValue::from_value),
        }
    }
}
impl ToValue for Ttp10p2p3 {
    fn to_value(&self) -> Value {
        Value::Seq(vec![
            Some(self.rt.to_value()),
            Some(self.c3.to_value()),
            self.c0.as_ref().map(|x| x.to_value()),
        ])
    }
}
impl FromValue for Ttp10p2p4 {
    fn from_value(v: &Value) -> Self {
        let s = match v { Value::Seq(s) => s, other => panic!("Ttp10p2p4: expected Seq, got {other:?}") };
        assert_eq!(s.len(), 3, "Ttp10p2p4: component count");
        let _ = s;
        Ttp10p2p4 {
            rt: FromValue::from_value(s[0].as_ref().expect("component rt of Ttp10p2p4 must be present")),
            c3: FromValue::from_value(s[1].as_ref().expect("component c3 of Ttp10p2p4 must be present")),
            p: FromValue::from_value(s[2].as_ref().expect("component p of Ttp10p2p4 must be present")),
        }
    }
}
impl ToValue for Ttp10p2p4 {
    fn to_value(&self) -> Value {
        Value::Seq(vec![
            Some(self.rt.to_value()),
            Some(self.c3.to_value()),
            Some(self.p.to_value()),
        ])
    }
}
impl FromValue for Ttp10p2p5 {
    fn from_value(v: &Value) -> Self {
        let s = match v { Value::Seq(s) => s, other => panic!("Ttp10p2p5: expected Seq, got {other:?}") };
        assert_eq!(s.len(), 3, "Ttp10p2p5: component count");
        let _ = s;
        Ttp10p2p5 {
            rt: FromValue::from_value(s[0].as_ref().expect("component rt of Ttp10p2p5 must be present")),
            c3: FromValue::from_value(s[1].as_ref().expect("component c3 of Ttp10p2p5 must be present")),
            b: s[2].as_ref().map(FromValue::from_value),
        }
    }
}
impl ToValue for Ttp10p2p5 {
    fn to_value(&self) -> Value {
        Value::Seq(vec![
            Some(self.rt.to_value()),
            Some(self.c3.to_value()),
            self.b.as_ref().map(|x| x.to_value()),
        ])
    }
}
impl FromValue for Ttp10p2p6 {
    fn from_value(v: &Value) -> Self {
        let s = match v { Value::Seq(s) => s, other => panic!("Ttp10p2p6: expected Seq, got {other:?}") };
        assert_eq!(s.len(), 3, "Ttp10p2p6: component count");
        let _ = s;
        Ttp10p2p6 {
            rt: FromValue::from_value(s[0].as_ref().expect("component rt of Ttp10p2p6 must be present")),
            c3: FromValue::from_value(s[1].as_ref().expect("component c3 of Ttp10p2p6 must be present")),
            i: FromValue::from_value(s[2].as_ref().expect("component i of Ttp10p2p6 must be present")),
        }
    }
}
impl ToValue for Ttp10p2p6 {
    fn to_value(&self) -> Value {
        Value::Seq(vec![
            Some(self.rt.to_value()),
            Some(self.c3.to_value()),
            Some(self.i.to_value()),
        ])
    }
}
impl FromValue for Ttp10p2p7 {
    fn from_value(v: &Value) -> Self {
        let s = match v { Value::Seq(s) => s, other => panic!("Ttp10p2p7: expected Seq, got {other:?}") };
        assert_eq!(s.len(), 3, "Ttp10p2p7: component count");
        let _ = s;
        Ttp10p2p7 {
            rt: FromValue::from_value(s[0].as_ref().expect("component rt of Ttp10p2p7 must be present")),
            c3: FromValue::from_value(s[1].as_ref().expect("component c3 of Ttp10p2p7 must be present")),
            ra: s[2].as_ref().map(FromValue::from_value),
        }
    }
}
impl ToValue for Ttp10p2p7 {
    fn to_value(&self) -> Value {
        Value::Seq(vec![
            Some(self.rt.to_value()),
            Some(self.c3.to_value()),
            self.ra.as_ref().map(|x| x.to_value()),
        ])
    }
}
impl FromValue for Ttp10p2p8 {
    fn from_value(v: &Value) -> Self {
        let s = match v { Value::Seq(s) => s, other => panic!("Ttp10p2p8: expected Seq, got {other:?}") };
        assert_eq!(s.len(), 3, "Ttp10p2p8: component count");
        let _ = s;
        Ttp10p2p8 {
            rt: FromValue::from_value(s[0].as_ref().expect("component rt of Ttp10p2p8 must be present")),
            c3: FromValue::from_value(s[1].as_ref().expect("component c3 of Ttp10p2p8 must be present")),
            rs: FromValue::from_value(s[2].as_ref().expect("component rs of Ttp10p2p8 must be present")),
        }
    }
}
impl ToValue for Ttp10p2p8 {
    fn to_value(&self) -> Value {
        Value::Seq(vec![
            Some(self.rt.to_value()),
            Some(self.c3.to_value()),
            Some(self.rs.to_value()),
        ])
    }
}
impl FromValue for Ttp10p2p9 {
    fn from_value(v: &Value) -> Self {
        let s = match v { Value::Seq(s) => s, other => panic!("Ttp10p2p9: expected Seq, got {other:?}") };
        assert_eq!(s.len(), 3, "Ttp10p2p9: component count");
        let _ = s;
        Ttp10p2p9 {
            rt: FromValue::from_value(s[0].as_ref().expect("component rt of Ttp10p2p9 must be present")),
            c3: FromValue::from_value(s[1].as_ref().expect("component c3 of Ttp10p2p9 must be present")),
            rc: s[2].as_ref().map(FromValue::from_value),
        }
    }
}
impl ToValue for Ttp10p2p9 {
    fn to_value(&self) -> Value {
        Value::Seq(vec![
            Some(self.rt.to_value()),
            Some(self.c3.to_value()),
            self.rc.as_ref().map(|x| x.to_value()),
        ])
    }
}
impl FromValue for Ttp10p2p11 {
    fn from_value(v: &Value) -> Self {
        let s = match v { Value::Seq(s) => s, other => panic!("Ttp10p2p11: expected Seq, got {other:?}") };
        assert_eq!(s.len(), 3, "Ttp10p2p11: component count");
        let _ = s;
        Ttp10p2p11 {
            rt: FromValue::from_value(s[0].as_ref().expect("component rt of Ttp10p2p11 must be present")),
            c3: FromValue::from_value(s[1].as_ref().expect("component c3 of Ttp10p2p11 must be present")),
            so: s[2].as_ref().map(FromValue::from_value),
        }
    }
}
impl ToValue for Ttp10p2p11 {
    fn to_value(&self) -> Value {
        Value::Seq(vec![
            Some(self.rt.to_value()),
            Some(self.c3.to_value()),
            self.so.as_ref().map(|x| x.to_value()),
        ])
    }
}
impl FromValue for Ttp10p2p12 {
    fn from_value(v: &Value) -> Self {
        let s = match v { Value::Seq(s) => s, other => panic!("Ttp10p2p12: expected Seq, got {other:?}") };
        assert_eq!(s.len(), 3, "Ttp10p2p12: component count");
        let _ = s;
        Ttp10p2p12 {
            rt: FromValue::from_value(s[0].as_ref().expect("component rt of Ttp10p2p12 must be present")),
            c3: FromValue::from_value(s[1].as_ref().expect("component c3 of Ttp10p2p12 must be present")),
            st: FromValue::from_value(s[2].as_ref().expect("component st of Ttp10p2p12 must be present")),
        }
    }
}
impl ToValue for Ttp10p2p12 {
    fn to_value(&self) -> Value {
        Value::Seq(vec![
            Some(self.rt.to_value()),
            Some(self.c3.to_value()),
            Some(self.st.to_value()),
        ])
    }
}
impl FromValue for Ttp10p2p13 {
    fn from_value(v: &Value) -> Self {
        let s = match v { Value::Seq(s) => s, other => panic!("Ttp10p2p13: expected Seq, got {other:?}") };
        assert_eq!(s.len(), 3, "Ttp10p2p13: component count");
        let _ = s;
        Ttp10p2p13 {
            rt: FromValue::from_value(s[0].as_ref().expect("component rt of Ttp10p2p13 must be present")),
            c3: FromValue::from_value(s[1].as_ref().expect("component c3 of Ttp10p2p13 must be present")),
            rx: s[2].as_ref().map(FromValue::from_value),
        }
    }
}
impl ToValue for Ttp10p2p13 {
    fn to_value(&self) -> Value {
        Value::Seq(vec![
            Some(self.rt.to_value()),
            Some(self.c3.to_value()),
            self.rx.as_ref().map(|x| x.to_value()),
        ])
    }
}
impl FromValue for Ttp10p2p14 {
    fn from_value(v: &Value) -> Self {
        let s = match v { Value::Seq(s) => s, other => panic!("Ttp10p2p14: expected Seq, got {other:?}") };
        assert_eq!(s.len(), 3, "Ttp10p2p14: component count");
        let _ = s;
        Ttp10p2p14 {
            rt: FromValue::from_value(s[0].as_ref().expect("component rt of Ttp10p2p14 must be present")),
            c3: FromValue::from_value(s[1].as_ref().expect("component c3 of Ttp10p2p14 must be present")),
            u2: FromValue::from_value(s[2].as_ref().expect("component u2 of Ttp10p2p14 must be present")),
        }
    }
}
impl ToValue for Ttp10p2p14 {
    fn to_value(&self) -> Value {
        Value::Seq(vec![
            Some(self.rt.to_value()),
            Some(self.c3.to_value()),
            Some(self.u2.to_value()),
        ])
    }
}
impl FromValue for Ttp10p2p15Is {
    fn from_value(v: &Value) -> Self {
        let s = match v { Value::Seq(s) => s, other => panic!("Ttp10p2p15Is: expected Seq, got {other:?}") };
        assert_eq!(s.len(), 1, "Ttp10p2p15Is: component count");
        let _ = s;
        Ttp10p2p15Is {
            v: FromValue::from_value(s[0].as_ref().expect("component v of Ttp10p2p15Is must be present")),
        }
    }
}
impl ToValue for Ttp10p2p15Is {
    fn to_value(&self) -> Value {
        Value::Seq(vec![
            Some(self.v.to_value()),
        ])
    }
}
impl FromValue for Ttp10p2p15 {
    fn from_value(v: &Value) -> Self {
        let s = match v { Value::Seq(s) => s, other => panic!("Ttp10p2p15: expected Seq, got {other:?}") };
        assert_eq!(s.len(), 3, "Ttp10p2p15: component count");
        let _ = s;
        Ttp10p2p15 {
            rt: FromValue::from_value(s[0].as_ref().expect("component rt of Ttp10p2p15 must be present")),
            c3: FromValue::from_value(s[1].as_ref().expect("component c3 of Ttp10p2p15 must be present")),
            is: s[2].as_ref().map(FromValue::from_value),
        }
    }
}
impl ToValue for Ttp10p2p15 {
    fn to_value(&self) -> Value {
        Value::Seq(vec![
            Some(self.rt.to_value()),
            Some(self.c3.to_value()),
            self.is.as_ref().map(|x| x.to_value()),
        ])
    }
}
impl FromValue for Ttp10p3p0 {
    fn from_value(v: &Value) -> Self {
        let s = match v { Value::Seq(s) => s, other => panic!("Ttp10p3p0: expected Seq, got {other:?}") };
        assert_eq!(s.len(), 3, "Ttp10p3p0: component count");
        let _ = s;
        Ttp10p3p0 {
            rt: FromValue::from_value(s[0].as_ref().expect("component rt of Ttp10p3p0 must be present")),
            c0: s[1].as_ref().map(FromValue::from_value),
            x: FromValue::from_value(s[2].as_ref().expect("component x of Ttp10p3p0 must be present")),
        }
    }
}
impl ToValue for Ttp10p3p0 {
    fn to_value(&self) -> Value {
        Value::Seq(vec![
            Some(self.rt.to_value()),
            self.c0.as_ref().map(|x| x.to_value()),
            Some(self.x.to_value()),
        ])
    }
}
impl FromValue for Ttp10p3p1 {
    fn from_value(v: &Value) -> Self {
        let s = match v { Value::Seq(s) => s, other => panic!("Ttp10p3p1: expected Seq, got {other:?}") };
        assert_eq!(s.len(), 3, "Ttp10p3p1: component count");
        let _ = s;
        Ttp10p3p1 {
            rt: FromValue::from_value(s[0].as_ref().expect("component rt of Ttp10p3p1 must be present")),
            c0: s[1].as_ref().map(FromValue::from_value),
            a: s[2].as_ref().map(FromValue::from_value),
        }
    }
}
impl ToValue for Ttp10p3p1 {
    fn to_value(&self) -> Value {
        Value::Seq(vec![
            Some(self.rt.to_value()),
            self.c0.as_ref().map(|x| x.to_value()),
            self.a.as_ref().map(|x| x.to_value()),
        ])
    }
}
impl FromValue for Ttp10p3p2 {
    fn from_value(v: &Value) -> Self {
        let s = match v { Value::Seq(s) => s, other => panic!("Ttp10p3p2: expected Seq, got {other:?}") };
        assert_eq!(s.len(), 3, "Ttp10p3p2: component count");
        let _ = s;
        Ttp10p3p2 {
            rt: FromValue::from_value(s[0].as_ref().expect("component rt of Ttp10p3p2 must be present")),
            c0: s[1].as_ref().map(FromValue::from_value),
            c3: FromValue::from_value(s[2].as_ref().expect("component c3 of Ttp10p3p2 must be present")),
        }
    }
}
impl ToValue for Ttp10p3p2 {
    fn to_value(&self) -> Value {
        Value::Seq(vec![
            Some(self.rt.to_value()),
            self.c0.as_ref().map(|x| x.to_value()),
            Some(self.c3.to_value()),
        ])
    }
}
impl FromValue for Ttp10p3p4 {
    fn from_value(v: &Value) -> Self {
        let s = match v { Value::Seq(s) => s, other => panic!("Ttp10p3p4: expected Seq, got {other:?}") };
        assert_eq!(s.len(), 3, "Ttp10p3p4: component count");
        let _ = s;
        Ttp10p3p4 {
            rt: FromValue::from_value(s[0].as_ref().expect("component rt of Ttp10p3p4 must be present")),
            c0: s[1].as_ref().map(FromValue::from_value),
            p: FromValue::from_value(s[2].as_ref().expect("component p of Ttp10p3p4 must be present")),
        }
    }
}
impl ToValue for Ttp10p3p4 {
    fn to_value(&self) -> Value {
        Value::Seq(vec![
            Some(self.rt.to_value()),
            self.c0.as_ref().map(|x| x.to_value()),
            Some(self.p.to_value()),
        ])
    }
}
impl FromValue for Ttp10p3p5 {
    fn from_value(v: &Value) -> Self {
        let s = match v { Value::Seq(s) => s, other => panic!("Ttp10p3p5: expected Seq, got {other:?}") };
        assert_eq!(s.len(), 3, "Ttp10p3p5: component count");
        let _ = s;
        Ttp10p3p5 {
            rt: FromValue::from_value(s[0].as_ref().expect("component rt of Ttp10p3p5 must be present")),
            c0: s[1].as_ref().map(FromValue::from_value),
            b: s[2].as_ref().map(FromValue::from_value),
        }
    }
}
impl ToValue for Ttp10p3p5 {
    fn to_value(&self) -> Value {
        Value::Seq(vec![
            Some(self.rt.to_value()),
            self.c0.as_ref().map(|x| x.to_value()),
            self.b.as_ref().map(|x| x.to_value()),
        ])
    }
}
impl FromValue for Ttp10p3p6 {
    fn from_value(v: &Value) -> Self {
        let s = match v { Value::Seq(s) => s, other => panic!("Ttp10p3p6: expected Seq, got {other:?}") };
        assert_eq!(s.len(), 3, "Ttp10p3p6: component count");
        let _ = s;
        Ttp10p3p6 {
            rt: FromValue::from_value(s[0].as_ref().expect("component rt of Ttp10p3p6 must be present")),
            c0: s[1].as_ref().map(FromValue::from_value),
            i: FromValue::from_value(s[2].as_ref().expect("component i of Ttp10p3p6 must be present")),
        }
    }
}
impl ToValue for Ttp10p3p6 {
    fn to_value(&self) -> Value {
        Value::Seq(vec![
            Some(self.rt.to_value()),
            self.c0.as_ref().map(|x| x.to_value()),
            Some(self.i.to_value()),
        ])
    }
}
impl FromValue for Ttp10p3p7 {
    fn from_value(v: &Value) -> Self {
        let s = match v { Value::Seq(s) => s, other => panic!("Ttp10p3p7: expected Seq, got {other:?}") };
        assert_eq!(s.len(), 3, "Ttp10p3p7: component count");
        let _ = s;
        Ttp10p3p7 {
            rt: FromValue::from_value(s[0].as_ref().expect("component rt of Ttp10p3p7 must be present")),
            c0: s[1].as_ref().map(FromValue::from_value),
            ra: s[2].as_ref().map(FromValue::from_value),
        }
    }
}
impl ToValue for Ttp10p3p7 {
    fn to_value(&self) -> Value {
        Value::Seq(vec![
            Some(self.rt.to_value()),
            self.c0.as_ref().map(|x| x.to_value()),
            self.ra.as_ref().map(|x| x.to_value()),
        ])
    }
}
impl FromValue for Ttp10p3p8 {
    fn from_value(v: &Value) -> Self {
        let s = match v { Value::Seq(s) => s, other => panic!("Ttp10p3p8: expected Seq, got {other:?}") };
        assert_eq!(s.len(), 3, "Ttp10p3p8: component count");
        let _ = s;
        Ttp10p3p8 {
            rt: FromValue::from_value(s[0].as_ref().expect("component rt of Ttp10p3p8 must be present")),
            c0: s[1].as_ref().map(FromValue::from_value),
            rs: FromValue::from_value(s[2].as_ref().expect("component rs of Ttp10p3p8 must be present")),
        }
    }
}
impl ToValue for Ttp10p3p8 {
    fn to_value(&self) -> Value {
        Value::Seq(vec![
            Some(self.rt.to_value()),
            self.c0.as_ref().map(|x| x.to_value()),
            Some(self.rs.to_value()),
        ])
    }
}
impl FromValue for Ttp10p3p9 {
    fn from_value(v: &Value) -> Self {
        let s = match v { Value::Seq(s) => s, other => panic!("Ttp10p3p9: expected Seq, got {other:?}") };
        assert_eq!(s.len(), 3, "Ttp10p3p9: component count");
        let _ = s;
        Ttp10p3p9 {
            rt: FromValue::from_value(s[0].as_ref().expect("component rt of Ttp10p3p9 must be present")),
            c0: s[1].as_ref().map(FromValue::from_value),
            rc: s[2].as_ref().map(FromValue::from_value),
        }
    }
}
impl ToValue for Ttp10p3p9 {
    fn to_value(&self) -> Value {
        Value::Seq(vec![
            Some(self.rt.to_value()),
            self.c0.as_ref().map(|x| x.to_value()),
            self.rc.as_ref().map(|x| x.to_value()),
        ])
    }
}
impl FromValue for Ttp10p3p11 {
    fn from_value(v: &Value) -> Self {
        let s = match v { Value::Seq(s) => s, other => panic!("Ttp10p3p11: expected Seq, got {other:?}") };
        assert_eq!(s.len(), 3, "Ttp10p3p11: component count");
        let _ = s;
        Ttp10p3p11 {
            rt: FromValue::from_value(s[0].as_ref().expect("component rt of Ttp10p3p11 must be present")),
            c0: s[1].as_ref().map(FromValue::from_value),
            so: s[2].as_ref().map(FromValue::from_value),
        }
    }
}
impl ToValue for Ttp10p3p11 {
    fn to_value(&self) -> Value {
        Value::Seq(vec![
            Some(self.rt.to_value()),
            self.c0.as_ref().map(|x| x.to_value()),
            self.so.as_ref().map(|x| x.to_value()),
        ])
    }
}
impl FromValue for Ttp10p3p12 {
    fn from_value(v: &Value) -> Self {
        let s = match v { Value::Seq(s) => s, other => panic!("Ttp10p3p12: expected Seq, got {other:?}") };
        assert_eq!(s.len(), 3, "Ttp10p3p12: component count");
        let _ = s;
        Ttp10p3p12 {
            rt: FromValue::from_value(s[0].as_ref().expect("component rt of Ttp10p3p12 must be present")),
            c0: s[1].as_ref().map(FromValue::from_value),
            st: FromValue::from_value(s[2].as_ref().expect("component st of Ttp10p3p12 must be present")),
        }
    }
}
impl ToValue for Ttp10p3p12 {
    fn to_value(&self) -> Value {
        Value::Seq(vec![
            Some(self.rt.to_value()),
            self.c0.as_ref().map(|x| x.to_value()),
            Some(self.st.to_value()),
        ])
    }
}
impl FromValue for Ttp10p3p13 {
    fn from_value(v: &Value) -> Self {
        let s = match v { Value::Seq(s) => s, other => panic!("Ttp10p3p13: expected Seq, got {other:?}") };
        assert_eq!(s.len(), 3, "Ttp10p3p13: component count");
        let _ = s;
        Ttp10p3p13 {
            rt: FromValue::from_value(s[0].as_ref().expect("component rt of Ttp10p3p13 must be present")),
            c0: s[1].as_ref().map(FromValue::from_value),
            rx: s[2].as_ref().map(FromValue::from_value),
        }
    }
}
impl ToValue for Ttp10p3p13 {
    fn to_value(&self) -> Value {
        Value::Seq(vec![
            Some(self.rt.to_value()),
            self.c0.as_ref().map(|x| x.to_value()),
            self.rx.as_ref().map(|x| x.to_value()),
        ])
    }
}
impl FromValue for Ttp10p3p14 {
    fn from_value(v: &Value) -> Self {
        let s = match v { Value::Seq(s) => s, other => panic!("Ttp10p3p14: expected Seq, got {other:?}") };
        assert_eq!(s.len(), 3, "Ttp10p3p14: component count");
        let _ = s;
        Ttp10p3p14 {
            rt: FromValue::from_value(s[0].as_ref().expect("component rt of Ttp10p3p14 must be present")),
            c0: s[1].as_ref().map(FromValue::from_value),
            u2: FromValue::from_value(s[2].as_ref().expect("component u2 of Ttp10p3p14 must be present")),
        }
    }
}
impl ToValue for Ttp10p3p14 {
    fn to_value(&self) -> Value {
        Value::Seq(vec![
            Some(self.rt.to_value()),
            self.c0.as_ref().map(|x| x.to_value()),
            Some(self.u2.to_value()),
        ])
    }
}
impl FromValue for Ttp10p3p15Is {
    fn from_value(v: &Value) -> Self {
        let s = match v { Value::Seq(s) => s, other => panic!("Ttp10p3p15Is: expected Seq, got {other:?}") };
        assert_eq!(s.len(), 1, "Ttp10p3p15Is: component count");
        let _ = s;
        Ttp10p3p15Is {
            v: FromValue::from_value(s[0].as_ref().expect("component v of Ttp10p3p15Is must be present")),
        }
    }
}
impl ToValue for Ttp10p3p15Is {
    fn to_value(&self) -> Value {
        Value::Seq(vec![
            Some(self.v.to_value()),
        ])
    }
}
impl FromValue for Ttp10p3p15 {
    fn from_value(v: &Value) -> Self {
        let s = match v { Value::Seq(s) => s, other => panic!("Ttp10p3p15: expected Seq, got {other:?}") };
        assert_eq!(s.len(), 3, "Ttp10p3p15: component count");
        let _ = s;
        Ttp10p3p15 {
            rt: FromValue::from_value(s[0].as_ref().expect("component rt of Ttp10p3p15 must be present")),
            c0: s[1].as_ref().map(FromValue::from_value),
            is: s[2].as_ref().map(FromValue::from_value),
        }
    }
}
impl ToValue for Ttp10p3p15 {
    fn to_value(&self) -> Value {
        Value::Seq(vec![
            Some(self.rt.to_value()),
            self.c0.as_ref().map(|x| x.to_value()),
            self.is.as_ref().map(|x| x.to_value()),
        ])
    }
}
impl FromValue for Ttp10p4p0 {
    fn from_value(v: &Value) -> Self {
        let s = match v { Value::Seq(s) => s, other => panic!("Ttp10p4p0: expected Seq, got {other:?}") };
        assert_eq!(s.len(), 3, "Ttp10p4p0: component count");
        let _ = s;
        Ttp10p4p0 {
            rt: FromValue::from_value(s[0].as_ref().expect("component rt of Ttp10p4p0 must be present")),
            p: FromValue::from_value(s[1].as_ref().expect("component p of Ttp10p4p0 must be present")),
            x: FromValue::from_value(s[2].as_ref().expect("component x of Ttp10p4p0 must be present")),
        }
    }
}
impl ToValue for Ttp10p4p0 {
    fn to_value(&self) -> Value {
        Value::Seq(vec![
            Some(self.rt.to_value()),
            Some(self.p.to_value()),
            Some(self.x.to_value()),
        ])
    }
}
impl FromValue for Ttp10p4p1 {
    fn from_value(v: &Value) -> Self {
        let s = match v { Value::Seq(s) => s, other => panic!("Ttp10p4p1: expected Seq, got {other:?}") };
        assert_eq!(s.len(), 3, "Ttp10p4p1: component count");
        let _ = s;
        Ttp10p4p1 {
            rt: FromValue::from_value(s[0].as_ref().expect("component rt of Ttp10p4p1 must be present")),
            p: FromValue::from_value(s[1].as_ref().expect("component p of Ttp10p4p1 must be present")),
            a: s[2].as_ref().map(FromValue::from_value),
        }
    }
}
impl ToValue for Ttp10p4p1 {
    fn to_value(&self) -> Value {
        Value::Seq(vec![
            Some(self.rt.to_value()),
            Some(self.p.to_value()),
            self.a.as_ref().map(|x| x.to_value()),
        ])
    }
}
impl FromValue for Ttp10p4p2 {
    fn from_value(v: &Value) -> Self {
        let s = match v { Value::Seq(s) => s, other => panic!("Ttp10p4p2: expected Seq, got {other:?}") };
        assert_eq!(s.len(), 3, "Ttp10p4p2: component count");
        let _ = s;
        Ttp10p4p2 {
            rt: FromValue::from_value(s[0].as_ref().expect("component rt of Ttp10p4p2 must be present")),
            p: FromValue::from_value(s[1].as_ref().expect("component p of Ttp10p4p2 must be present")),
            c3: FromValue::from_value(s[2].as_ref().expect("component c3 of Ttp10p4p2 must be present")),
        }
    }
}
impl ToValue for Ttp10p4p2 {
    fn to_value(&self) -> Value {
        Value::Seq(vec![
            Some(self.rt.to_value()),
            Some(self.p.to_value()),
            Some(self.c3.to_value()),
        ])
    }
}
impl FromValue for Ttp10p4p3 {
    fn from_value(v: &Value) -> Self {
        let s = match v { Value::Seq(s) => s, other => panic!("Ttp10p4p3: expected Seq, got {other:?}") };
        assert_eq!(s.len(), 3, "Ttp10p4p3: component count");
        let _ = s;
        Ttp10p4p3 {
            rt: FromValue::from_value(s[0].as_ref().expect("component rt of Ttp10p4p3 must be present")),
            p: FromValue::from_value(s[1].as_ref().expect("component p of Ttp10p4p3 must be present")),
            c0: s[2].as_ref().map(FromValue::from_value),
        }
    }
}
impl ToValue for Ttp10p4p3 {
    fn to_value(&self) -> Value {
        Value::Seq(vec![
            Some(self.rt.to_value()),
            Some(self.p.to_value()),
            self.c0.as_ref().map(|x| x.to_value()),
        ])
    }
}
